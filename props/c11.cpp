// C11 — JIT memory management and independent code generation are thread-safe.
//
// Case: cfg = [mode, nthreads, option_bits, block_size_sel, granularity_sel, final_mode]
//   mode        : 0 = A: allocator scripts on ONE shared JitAllocator
//                 1 = B: threads add/call/release tiny functions through ONE shared JitRuntime
//                 2 = C: every thread owns CodeHolder + emitter/compiler; bytes must equal the single-threaded reference
//                 3 = cold start (exactly 3; every other value decodes modulo 3 as before): first use of the library by N
//                     threads at once in a fresh process, see "Cold start" below for its cfg/ops
//                 4 = statistics snapshots (exactly 4): worker threads allocate/release spans of a few fixed sizes while observer
//                     threads call statistics() / query() in a tight loop; every returned object must be ONE state of the
//                     allocator, see "Statistics snapshots" below for its cfg/ops
//   nthreads    : 2..16 (clamped)
//   option_bits : 1 dual mapping, 2 multiple pools, 4 fill unused, 8 immediate release, 16 large pages, 32 custom fill pattern
//   final_mode  : order in which every thread releases its remaining spans in the concurrent release phase (0 FIFO, 1 LIFO, 2 mixed)
// ops = [thread, kind, a, b, c, d]   (ops of one thread run in order on that thread; threads run concurrently)
//   kind 0 alloc/add/gen, 1 release, 2 shrink (B: call), 3 query, 4 write (B: call), 5 statistics, 6 yield
//
// Oracle: (1) ThreadSanitizer (tsan flavour; a report ends the process with exit code 97 -> driver reports key "crash");
//         (2) per-thread ownership model (C09's span invariants per thread, union of the models at a barrier, residue at the end);
//         (3) mode C: bytes identical to the single-threaded reference computed before the threads start;
//         (4) statistics snapshots: every Statistics object returned while other threads allocate/release must be one of the
//             states reachable by the generated worker scripts (cross-field invariants; no race needs to exist for it to fail).
//
// Known single-threaded JitAllocator defects (known_findings.txt, property C09) are kept out of the way: reset() is never
// called concurrently, the empty-block retention policy is not asserted, and no block can ever become exactly full
// (every span is an even number of granules, blocks have one padding granule and an even capacity; the odd-sized spans that
// multiple pools need for pool 0/1 stay below a per-thread byte budget that cannot fill the smallest block).
#define VH_MAIN
#include "vh.h"

#include <atomic>
#include <chrono>
#include <cstdarg>
#include <memory>
#include <thread>
#include <sched.h>

#include <asmjit/core.h>
#include <asmjit/x86.h>
#include <asmjit/a64.h>

using namespace asmjit;

const char* vh_property() { return "C11"; }

namespace {

using Span = JitAllocator::Span;
using Stats = JitAllocator::Statistics;

enum : int { M_ALLOC = 0, M_RUNTIME = 1, M_CODEGEN = 2, M_COUNT = 3 };
enum : int { K_ALLOC = 0, K_RELEASE, K_SHRINK, K_QUERY, K_WRITE, K_STATS, K_YIELD, K_COUNT };
enum : uint32_t { O_DUAL = 1, O_MULTI = 2, O_FILL = 4, O_IMMEDIATE = 8, O_LARGE = 16, O_CUSTOM = 32 };

static const uint32_t kBlockSel[] = {0, 65536, 131072, 262144};
static const uint32_t kGranSel[] = {0, 64, 128, 256};
static const char* const kKindNames[4][K_COUNT] = {
  {"op_alloc", "op_release", "op_shrink", "op_query", "op_write", "op_statistics", "op_yield"},
  {"op_rt_add", "op_rt_release", "op_rt_call", "op_rt_query", "op_rt_call", "op_rt_statistics", "op_yield"},
  {"op_codegen", "op_codegen", "op_codegen", "op_codegen", "op_codegen", "op_codegen", "op_yield"},
  {"op_snap_alloc", "op_snap_release", "op_snap_release_group", "op_snap_query", "op_snap_alloc", "op_snap_worker_statistics", "op_yield"}};

constexpr size_t kMaxLivePerThread = 24;
constexpr size_t kMaxBytesPerThread = size_t(3) << 19;   // 1.5 MB

static inline uint64_t mix(uint64_t& s) {
  s += 0x9E3779B97F4A7C15ull;
  uint64_t z = s;
  z = (z ^ (z >> 30)) * 0xBF58476D1CE4E5B9ull;
  z = (z ^ (z >> 27)) * 0x94D049BB133111EBull;
  return z ^ (z >> 31);
}

static void gen_bytes(uint8_t* dst, size_t n, uint64_t seed) {
  uint64_t s = seed * 0x2545F4914F6CDD1Dull + 0x1234567;
  size_t i = 0;
  for (; i + 8 <= n; i += 8) { uint64_t v = mix(s); memcpy(dst + i, &v, 8); }
  if (i < n) { uint64_t v = mix(s); memcpy(dst + i, &v, n - i); }
}

static inline uint64_t u(int64_t v) { return uint64_t(v); }
static inline int64_t arg(const vh::Op& op, size_t i) { return i < op.size() ? op[i] : 0; }
static inline size_t align_up(size_t v, size_t a) { return (v + a - 1) / a * a; }
static inline int64_t now_ns() { return std::chrono::duration_cast<std::chrono::nanoseconds>(std::chrono::steady_clock::now().time_since_epoch()).count(); }

// ---- synchronisation of the harness itself --------------------------------------------------------------------------
// Only barriers (start, audit, release phase); nothing between them, so that the harness adds no happens-before edges
// that could hide a missing lock. The overlap counter uses relaxed atomics (no synchronisation for ThreadSanitizer).
struct Barrier {
  std::atomic<uint32_t> count{0};
  std::atomic<uint32_t> gen{0};
  uint32_t n = 0;
  void wait() {
    uint32_t g = gen.load(std::memory_order_acquire);
    if (count.fetch_add(1, std::memory_order_acq_rel) + 1 == n) {
      count.store(0, std::memory_order_relaxed);
      gen.store(g + 1, std::memory_order_release);
    } else {
      unsigned spins = 0;
      while (gen.load(std::memory_order_acquire) == g) { if (++spins > 64) sched_yield(); }
    }
  }
  // Main thread only: the same, but gives up when the workers make no progress at all for a very long time (a case takes
  // milliseconds). Not a decision of the property: a safety net that turns a deadlock/livelock into a reported crash.
  void wait_watchdog(const char* what) {
    uint32_t g = gen.load(std::memory_order_acquire);
    if (count.fetch_add(1, std::memory_order_acq_rel) + 1 == n) {
      count.store(0, std::memory_order_relaxed);
      gen.store(g + 1, std::memory_order_release);
      return;
    }
    int64_t t0 = now_ns();
    unsigned spins = 0;
    while (gen.load(std::memory_order_acquire) == g) {
      if (++spins > 64) sched_yield();
      if ((spins & 0xFFF) == 0 && now_ns() - t0 > int64_t(180) * 1000000000) {
        fprintf(stderr, "C11 watchdog: worker threads did not reach the %s barrier within 180 s (deadlock or livelock inside AsmJit?)\n", what);
        fflush(stderr);
        _exit(96);
      }
    }
  }
};

struct ThreadFail { std::string key, msg; };

struct Shared {
  const vh::Opts* opts = nullptr;
  uint32_t nthreads = 2;
  Barrier b_start, b_audit, b_release, b_done;
  std::atomic<int> inside{0};
  std::atomic<bool> stop{false};
  // statistics-snapshot cases, counters only (relaxed, no synchronisation): workers still inside their script loop and
  // alloc()/release() calls completed so far
  std::atomic<int> workers_running{0};
  std::atomic<uint64_t> mutations{0};
  bool is_known(const std::string& k) const { return opts && !opts->known_match(k).empty(); }
};

// State every worker thread owns (read by the main thread only after a barrier / join).
struct ThreadBase {
  Shared* sh = nullptr;
  uint32_t id = 0;
  std::vector<const vh::Op*> script;
  bool failed = false;
  std::string fkey, fmsg;
  std::vector<std::string> known_seen;
  uint64_t kinds[K_COUNT] = {};
  uint64_t real_ops = 0;          // operations that entered AsmJit
  int max_inside = 0;
  std::vector<int64_t> stamps;    // completion time of every real operation (counters only)
  int64_t t_start = 0, t_end = 0;
  std::vector<std::pair<const char*, uint64_t>> counters;

  void cls(const char* name, uint64_t n = 1) {
    for (auto& kv : counters) if (kv.first == name) { kv.second += n; return; }
    counters.emplace_back(name, n);
  }
  [[noreturn]] void failv(const char* key, const char* fmt, ...) __attribute__((format(printf, 3, 4))) {
    char b[700];
    va_list ap; va_start(ap, fmt); vsnprintf(b, sizeof b, fmt, ap); va_end(ap);
    char p[48]; snprintf(p, sizeof p, "[thread %u of %u] ", id, sh->nthreads);
    throw ThreadFail{key, std::string(p) + b};
  }
  // known finding: counted, execution continues; otherwise the thread stops and the main thread reports
  void fail_unless_known(const char* key, const char* fmt, ...) __attribute__((format(printf, 3, 4))) {
    if (sh->is_known(key)) { known_seen.push_back(key); return; }
    char b[700];
    va_list ap; va_start(ap, fmt); vsnprintf(b, sizeof b, fmt, ap); va_end(ap);
    char p[48]; snprintf(p, sizeof p, "[thread %u of %u] ", id, sh->nthreads);
    throw ThreadFail{key, std::string(p) + b};
  }
  struct Inside {
    ThreadBase& t;
    explicit Inside(ThreadBase& t_) : t(t_) { int v = t.sh->inside.fetch_add(1, std::memory_order_relaxed) + 1; if (v > t.max_inside) t.max_inside = v; t.real_ops++; }
    ~Inside() { t.sh->inside.fetch_sub(1, std::memory_order_relaxed); t.stamps.push_back(now_ns()); }
  };
};
#define TCK(cond, key, ...) do { if (!(cond)) fail_unless_known((key), __VA_ARGS__); } while (0)

// Runs `body(op)` for every op of the script between the start barrier and the audit barrier.
template<class T, class F>
static void run_script(T& th, F&& body) {
  th.stamps.reserve(th.script.size() + 4);
  th.sh->b_start.wait();
  th.t_start = now_ns();
  try {
    for (const vh::Op* op : th.script) {
      if (th.sh->stop.load(std::memory_order_relaxed)) break;
      int kind = int(u(arg(*op, 1)) % K_COUNT);
      th.kinds[kind]++;
      if (kind == K_YIELD) { unsigned n = 1 + unsigned(u(arg(*op, 2)) % 3); for (unsigned i = 0; i < n; i++) sched_yield(); continue; }
      body(*op, kind);
    }
  } catch (const ThreadFail& f) {
    th.failed = true; th.fkey = f.key; th.fmsg = f.msg;
    th.sh->stop.store(true, std::memory_order_relaxed);
  }
  th.t_end = now_ns();
}

// ---- allocator set-up ---------------------------------------------------------------------------------------------------
static bool dual_mapping_available() {
  static int state = -1;
  if (state < 0) {
    VirtMem::DualMapping dm{};
    Error e = VirtMem::alloc_dual_mapping(Out(dm), 65536, VirtMem::MemoryFlags::kAccessRWX);
    if (e == Error::kOk) { state = 1; (void)VirtMem::release_dual_mapping(dm, 65536); }
    else state = 0;
  }
  return state == 1;
}

// The property excludes the lazily initialised host information: everything of that kind is touched here, on the main
// thread, before any worker thread exists.
static void host_init() {
  (void)CpuInfo::host();
  (void)VirtMem::info();
  (void)VirtMem::large_page_size();
  (void)VirtMem::hardened_runtime_info();
  (void)Environment::host();
  (void)dual_mapping_available();          // memfd / anonymous-memory strategy probes
  { JitAllocator a; Span s; if (a.alloc(Out(s), 100) == Error::kOk) (void)a.release(s.rx()); }
  { JitRuntime rt; (void)rt.allocator().statistics(); }
}

struct Setup {
  uint32_t opt = 0;
  JitAllocator::CreateParams params;
};

static Setup make_setup(const vh::Case& c, vh::Ctx& ctx) {
  Setup s;
  auto cf = [&](size_t i) -> uint64_t { return i < c.cfg.size() ? uint64_t(c.cfg[i]) : 0; };
  s.opt = uint32_t(cf(2)) & 0x3F;
  if ((s.opt & O_DUAL) && !dual_mapping_available()) { s.opt &= ~O_DUAL; ctx.cls("cfg_dual_unavailable"); }
  JitAllocatorOptions o = JitAllocatorOptions::kNone;
  if (s.opt & O_DUAL) o |= JitAllocatorOptions::kUseDualMapping;
  if (s.opt & O_MULTI) o |= JitAllocatorOptions::kUseMultiplePools;
  if (s.opt & O_FILL) o |= JitAllocatorOptions::kFillUnusedMemory;
  if (s.opt & O_IMMEDIATE) o |= JitAllocatorOptions::kImmediateRelease;
  if (s.opt & O_LARGE) o |= JitAllocatorOptions::kUseLargePages;
  if (s.opt & O_CUSTOM) o |= JitAllocatorOptions::kCustomFillPattern;
  s.params.options = o;
  s.params.block_size = kBlockSel[cf(3) % 4];
  s.params.granularity = kGranSel[cf(4) % 4];
  s.params.fill_pattern = 0x0BADC0DEu;
  return s;
}

struct AllocEnv {
  uint32_t G = 64, B0 = 65536, U = 128;
  bool multi = false, fill = false, dual = false;
  uint32_t pattern = 0;
  uint8_t pat[4] = {};
  size_t small_budget[2] = {0, 0};
};

static AllocEnv make_env(const JitAllocator& A, const Setup& su, uint32_t nthreads) {
  AllocEnv e;
  e.G = A.granularity();
  e.B0 = A.block_size();
  e.multi = (su.opt & O_MULTI) != 0;
  e.fill = (su.opt & O_FILL) != 0;
  e.dual = A.has_option(JitAllocatorOptions::kUseDualMapping);
  e.U = 2 * (e.multi ? 4 * e.G : e.G);
  e.pattern = A.fill_pattern();
  memcpy(e.pat, &e.pattern, 4);
  // pool p (granularity G << p) starts with a block of 2 * B0 bytes, one granule of which is padding
  for (int p = 0; p < 2; p++) {
    size_t cap = 2 * size_t(e.B0) - 2 * (size_t(e.G) << p);
    e.small_budget[p] = cap / nthreads;
  }
  return e;
}

static void record_classes(vh::Ctx& ctx, const Setup& su, const AllocEnv& e) {
  ctx.cls(e.dual ? "cfg_dual_mapping" : "cfg_single_mapping");
  ctx.cls(e.multi ? "cfg_multiple_pools" : "cfg_one_pool");
  if (e.fill) ctx.cls((su.opt & O_CUSTOM) ? "cfg_fill_custom_pattern" : "cfg_fill_default_pattern");
  if (su.opt & O_IMMEDIATE) ctx.cls("cfg_immediate_release");
  if (su.opt & O_LARGE) ctx.cls("cfg_large_pages");
  ctx.cls(e.G == 64 ? "cfg_granularity_64" : e.G == 128 ? "cfg_granularity_128" : "cfg_granularity_256");
  ctx.cls(e.B0 == 65536 ? "cfg_block_64k" : e.B0 == 131072 ? "cfg_block_128k" : "cfg_block_256k");
}

// ====================================================================================================================
// Mode A: one shared JitAllocator
// ====================================================================================================================
struct LiveSpan {
  Span span;
  std::vector<uint8_t> bytes;    // the thread-unique pattern last written (whole span)
  int small_pool = -1;           // multiple pools: 0/1 = odd-sized span living in pool 0/1 (budgeted); -1 = even-sized span
  uint64_t serial = 0;
};

static Error cb_write(Span& span, void* ud) noexcept;
struct CbData { const uint8_t* src; size_t off, len, truncate; size_t seen_size; void* seen_rw; int calls; };
static Error cb_write(Span& span, void* ud) noexcept {
  CbData* d = static_cast<CbData*>(ud);
  d->calls++;
  d->seen_size = span.size();
  d->seen_rw = span.rw();
  if (d->len && d->off + d->len <= span.size() && span.rw()) memcpy(static_cast<uint8_t*>(span.rw()) + d->off, d->src, d->len);
  if (d->truncate) span.shrink(d->truncate);
  return Error::kOk;
}

struct AllocThread : ThreadBase {
  JitAllocator* A = nullptr;
  const AllocEnv* env = nullptr;
  std::vector<LiveSpan> live;
  size_t live_bytes = 0, small_bytes[2] = {0, 0};
  uint64_t serial_no = 0, write_no = 0;
  int final_mode = 0;

  uint64_t next_seed() { return (uint64_t(id + 1) << 48) ^ (++write_no * 0x100000001B3ull); }

  void check_content(const LiveSpan& ls, const char* where) {
    size_t n = ls.span.size();
    if (ls.bytes.size() != n) failv("harness-internal", "%s: model size %zu vs span %zu", where, ls.bytes.size(), n);
    const uint8_t* rx = static_cast<const uint8_t*>(ls.span.rx());
    if (memcmp(rx, ls.bytes.data(), n) != 0) {
      size_t i = 0; while (rx[i] == ls.bytes[i]) i++;
      fail_unless_known("content-corrupted", "%s: span of %zu bytes (rx view): byte %zu is 0x%02x, this thread last wrote 0x%02x (granularity %u)", where, n, i, rx[i], ls.bytes[i], env->G);
    }
    const uint8_t* rw = static_cast<const uint8_t*>(ls.span.rw());
    if (rw != rx && memcmp(rw, ls.bytes.data(), n) != 0) {
      size_t i = 0; while (rw[i] == ls.bytes[i]) i++;
      fail_unless_known("content-corrupted", "%s: span of %zu bytes (rw view): byte %zu is 0x%02x, this thread last wrote 0x%02x", where, n, i, rw[i], ls.bytes[i]);
    }
  }

  void check_filled(const uint8_t* mem, size_t n, const char* key, const char* where) {
    for (size_t i = 0; i < n; i++) {
      uint8_t want = env->pat[(uintptr_t(mem) + i) & 3];
      if (mem[i] != want) { fail_unless_known(key, "%s: byte %zu of %zu is 0x%02x, fill pattern 0x%08x expects 0x%02x", where, i, n, mem[i], env->pattern, want); return; }
    }
  }

  // Writes `len` new bytes at `off` through the chosen form and updates the model.
  void write_span(LiveSpan& ls, int form, size_t off, size_t len, const char* where) {
    size_t size = ls.span.size();
    std::vector<uint8_t> buf(len);
    gen_bytes(buf.data(), len, next_seed());
    Span before = ls.span;
    Error e = Error::kOk;
    CbData d{buf.data(), off, len, 0, 0, nullptr, 0};
    {
      Inside in(*this);
      switch (form) {
        case 0: e = A->write(ls.span, off, buf.data(), len); break;
        case 1: e = A->write(ls.span, cb_write, &d); break;
        case 2: e = A->write(ls.span, [&](Span& s) noexcept -> Error { d.calls++; d.seen_size = s.size(); d.seen_rw = s.rw(); if (len) memcpy(static_cast<uint8_t*>(s.rw()) + off, buf.data(), len); return Error::kOk; }); break;
        case 3: { JitAllocator::WriteScope ws(*A); e = ws.write(ls.span, off, buf.data(), len); if (e == Error::kOk) e = ws.flush(); break; }
        default: { JitAllocator::WriteScope ws(*A); e = ws.write(ls.span, cb_write, &d); break; }
      }
    }
    TCK(e == Error::kOk, "write-failed", "%s: write form %d (offset %zu, %zu bytes) into a span of %zu bytes: error %u", where, form, off, len, size, unsigned(e));
    if (form == 1 || form == 2 || form == 4)
      TCK(d.calls == 1 && d.seen_size == size && d.seen_rw == before.rw(), "write-callback", "%s: callback calls %d, span size seen %zu (expected %zu)", where, d.calls, d.seen_size, size);
    TCK(ls.span.rx() == before.rx() && ls.span.rw() == before.rw() && ls.span.size() == size && ls.span._block == before._block, "write-changed-span", "%s: write form %d changed the span", where, form);
    if (len) memcpy(ls.bytes.data() + off, buf.data(), len);
    check_content(ls, where);
  }

  size_t decode_size(int64_t cls_, uint64_t k, int* small_pool) {
    const AllocEnv& e = *env;
    int c = int(u(cls_) % 6);
    *small_pool = -1;
    size_t G = e.G, U = e.U, B = e.B0;
    if (c == 5 && e.multi) {
      static const unsigned m[] = {1, 2, 3, 5, 6, 7, 9, 10, 11, 13, 14};
      unsigned mm = m[k % 11];
      size_t size = mm * G;
      int p = (mm & 1) ? 0 : 1;
      if (small_bytes[p] + size <= e.small_budget[p]) { *small_pool = p; return size - ((k / 11) % G); }
      cls("alloc_small_over_budget");
      c = 0;
    }
    size_t n;
    switch (c) {
      case 0: case 5: n = 1 + k % 4; break;
      case 1: n = 1 + k % 32; break;
      case 2: n = std::max<size_t>(1, (B / 16 + (k % 13) * (B / 64)) / U); break;
      case 3: n = std::max<size_t>(1, (B * 3 / 10 + (k % 17) * (B / 40)) / U); break;
      default: n = (2 * B + (k % 5) * (B / 2)) / U + (k % 3); break;
    }
    return n * U - ((k / 7) % G);
  }

  void do_alloc(const vh::Op& op) {
    int small_pool;
    size_t req = decode_size(arg(op, 2), u(arg(op, 3)), &small_pool);
    if (live.size() >= kMaxLivePerThread || live_bytes + req > kMaxBytesPerThread) { cls("alloc_skipped_cap"); return; }
    const AllocEnv& e = *env;
    Span s;
    s._rx = &s; s._rw = &s; s._size = 777;
    Error err;
    { Inside in(*this); err = A->alloc(Out(s), req); }
    TCK(err == Error::kOk, "alloc-failed", "alloc(%zu) returned error %u (this thread: %zu live spans, %zu bytes)", req, unsigned(err), live.size(), live_bytes);
    if (err != Error::kOk) return;
    uintptr_t rx = uintptr_t(s.rx()), rw = uintptr_t(s.rw());
    size_t size = s.size();
    TCK(rx != 0 && rw != 0 && s._block != nullptr, "null-span", "alloc(%zu): rx %p rw %p block %p", req, s.rx(), s.rw(), s._block);
    TCK(rx % e.G == 0 && rw % e.G == 0, "misaligned", "alloc(%zu): rx %% %u == %zu, rw %% %u == %zu", req, e.G, size_t(rx % e.G), e.G, size_t(rw % e.G));
    TCK(size == align_up(req, e.G), "size-not-granular", "alloc(%zu): span size %zu, expected %zu", req, size, align_up(req, e.G));
    if (e.dual) TCK(rw != rx, "views-not-distinct", "dual mapping requested but rw() == rx()");
    else TCK(rw == rx, "views-not-distinct", "single mapping but rw() != rx()");
    // disjoint from this thread's other spans right now (all threads together: audit barrier)
    for (const LiveSpan& o : live) {
      uintptr_t orx = uintptr_t(o.span.rx()), orw = uintptr_t(o.span.rw());
      TCK(rx + size <= orx || orx + o.span.size() <= rx, "overlap", "alloc(%zu): new span overlaps another live span of this thread (rx view)", req);
      TCK(rw + size <= orw || orw + o.span.size() <= rw, "overlap-rw", "alloc(%zu): new span overlaps another live span of this thread (rw view)", req);
    }
    if (e.fill) {
      check_filled(static_cast<const uint8_t*>(s.rx()), size, "alloc-not-filled", "alloc (fresh span)");
      if (rw != rx) check_filled(static_cast<const uint8_t*>(s.rw()), size, "alloc-not-filled", "alloc (fresh span, rw view)");
    }
    LiveSpan ls;
    ls.span = s;
    ls.small_pool = small_pool;
    ls.serial = ++serial_no;
    ls.bytes.assign(size, 0);
    live.push_back(std::move(ls));
    live_bytes += size;
    if (small_pool >= 0) small_bytes[small_pool] += size;
    // the whole span gets this thread's pattern right away
    write_span(live.back(), int(u(arg(op, 4)) % 5), 0, size, "initial write");
    cls(small_pool >= 0 ? "alloc_small_odd_pool01" : size >= 2 * size_t(e.B0) ? "alloc_size_dedicated_block" : size * 4 >= e.B0 ? "alloc_size_quarter_block_or_more" : "alloc_size_small_even");
  }

  void forget(size_t idx) {
    LiveSpan& ls = live[idx];
    live_bytes -= ls.span.size();
    if (ls.small_pool >= 0) small_bytes[ls.small_pool] -= ls.span.size();
    if (idx + 1 != live.size()) live[idx] = std::move(live.back());
    live.pop_back();
  }

  void do_release(size_t idx, bool via_shrink0, const char* where) {
    LiveSpan& ls = live[idx];
    check_content(ls, where);   // contents are kept until released
    Error e;
    if (via_shrink0) {
      Span tmp = ls.span;
      { Inside in(*this); e = A->shrink(tmp, 0); }
      TCK(e == Error::kOk, "release-failed", "shrink(span, 0) error %u", unsigned(e));
      TCK(tmp.rx() == nullptr && tmp.size() == 0, "shrink-zero-span-not-cleared", "shrink(span, 0) did not clear the span");
    } else {
      { Inside in(*this); e = A->release(ls.span.rx()); }
      TCK(e == Error::kOk, "release-failed", "release(live span of %zu bytes) error %u", ls.span.size(), unsigned(e));
    }
    forget(idx);
    cls(via_shrink0 ? "shrink_to_zero" : "release");
  }

  // new size following the parity rule; *expect = resulting span size (0 = only bounded)
  size_t shrink_target(const LiveSpan& ls, uint64_t v, size_t* expect) {
    const AllocEnv& e = *env;
    size_t old = ls.span.size();
    if (ls.small_pool >= 0) {
      size_t ns = 1 + v % old;
      *expect = 0;
      return ns;
    }
    size_t units = old / e.U;
    size_t n = 1 + v % units;
    if (v % 7 == 0) n = units;                       // same size
    size_t ns = n * e.U - ((v / 16) % e.G);
    *expect = n * e.U;
    return ns;
  }

  void after_shrink(LiveSpan& ls, const Span& after, size_t old, size_t ns, size_t expect, const char* where) {
    const AllocEnv& e = *env;
    TCK(after.rx() == ls.span.rx() && after.rw() == ls.span.rw() && after._block == ls.span._block, "shrink-moved-span", "%s: span pointers changed", where);
    size_t got = after.size();
    if (expect) TCK(got == expect, "shrink-wrong-size", "%s: %zu -> %zu bytes requested, span size became %zu, expected %zu", where, old, ns, got, expect);
    else TCK(got >= ns && got <= old && got % e.G == 0 && got <= align_up(ns, 2 * size_t(e.G)), "shrink-wrong-size", "%s: %zu -> %zu bytes requested, span size became %zu", where, old, ns, got);
    if (got > old || got == 0) failv("shrink-wrong-size", "%s: %zu -> %zu bytes requested, span size became %zu", where, old, ns, got);
    live_bytes -= old - got;
    if (ls.small_pool >= 0) small_bytes[ls.small_pool] -= old - got;
    ls.span._size = got;
    ls.bytes.resize(got);
    check_content(ls, where);
    cls(got < old ? "shrink_freed_granules" : "shrink_same_granules");
  }

  void do_shrink(const vh::Op& op) {
    if (live.empty()) { cls("noop_empty"); return; }
    size_t idx = size_t(u(arg(op, 2)) % live.size());
    uint64_t v = u(arg(op, 3));
    if (v % 11 == 0) { do_release(idx, true, "shrink(span, 0)"); return; }
    LiveSpan& ls = live[idx];
    size_t old = ls.span.size(), expect;
    size_t ns = shrink_target(ls, v, &expect);
    Span sp = ls.span;
    if (arg(op, 4) & 1) {
      Span q;
      Error qe;
      { Inside in(*this); qe = A->query(Out(q), ls.span.rx()); }
      TCK(qe == Error::kOk, "query-live-failed", "query(live start) error %u", unsigned(qe));
      if (qe == Error::kOk) sp = q;
    }
    Error e;
    { Inside in(*this); e = A->shrink(sp, ns); }
    TCK(e == Error::kOk, "shrink-failed", "shrink(span of %zu bytes, %zu) error %u", old, ns, unsigned(e));
    if (e != Error::kOk) return;
    after_shrink(ls, sp, old, ns, expect, "shrink");
  }

  void query_start(const LiveSpan& ls, const char* where) {
    Span out;
    Error e;
    { Inside in(*this); e = A->query(Out(out), ls.span.rx()); }
    TCK(e == Error::kOk, "query-live-failed", "%s: query(live start) error %u", where, unsigned(e));
    if (e != Error::kOk) return;
    TCK(out.rx() == ls.span.rx() && out.rw() == ls.span.rw() && out._block == ls.span._block, "query-wrong-pointer", "%s: query(live start) returned other pointers (rx delta %td rw delta %td)", where,
        (const uint8_t*)out.rx() - (const uint8_t*)ls.span.rx(), (const uint8_t*)out.rw() - (const uint8_t*)ls.span.rw());
    TCK(out.size() == ls.span.size(), "query-wrong-size", "%s: query(live start) size %zu, span size %zu", where, out.size(), ls.span.size());
  }

  void do_query(const vh::Op& op) {
    if (live.empty()) { cls("noop_empty"); return; }
    const AllocEnv& env_ = *env;
    LiveSpan& ls = live[size_t(u(arg(op, 2)) % live.size())];
    size_t size = ls.span.size();
    if ((arg(op, 3) & 1) == 0 || size < 2) { query_start(ls, "query"); cls("query_live_start"); return; }
    size_t off = 1 + u(arg(op, 4)) % (size - 1);
    uint8_t* srx = static_cast<uint8_t*>(ls.span.rx());
    uint8_t* p = srx + off;
    Span out;
    Error e;
    { Inside in(*this); e = A->query(Out(out), p); }
    TCK(e == Error::kOk, "query-live-failed", "query(rx + %zu) inside a live span of %zu bytes: error %u", off, size, unsigned(e));
    if (e != Error::kOk) return;
    uint8_t* orx = static_cast<uint8_t*>(out.rx());
    TCK(orx >= srx && orx <= p && orx + out.size() == srx + size, "query-wrong-size", "query(rx + %zu): returned [+%td, +%td) for a live span [0, %zu)", off, orx - srx, orx - srx + ptrdiff_t(out.size()), size);
    TCK(size_t(orx - srx) % env_.G == 0 && size_t(p - orx) < size_t(env_.G) * (env_.multi ? 4 : 1), "query-wrong-pointer", "query(rx + %zu): returned start +%td", off, orx - srx);
    TCK((uint8_t*)out.rw() - orx == (uint8_t*)ls.span.rw() - srx && out._block == ls.span._block, "query-wrong-pointer", "query(rx + %zu): rw/rx views or block token inconsistent", off);
    cls("query_interior");
  }

  void do_write(const vh::Op& op) {
    if (live.empty()) { cls("noop_empty"); return; }
    size_t idx = size_t(u(arg(op, 2)) % live.size());
    LiveSpan& ls = live[idx];
    int form = int(u(arg(op, 3)) % 6);
    size_t size = ls.span.size();
    uint64_t ov = u(arg(op, 4)), lv = u(arg(op, 5));
    if (form == 5) {
      // truncating callback: writes the kept prefix and shrinks through write()
      size_t expect, old = size;
      size_t ns = shrink_target(ls, ov, &expect);
      std::vector<uint8_t> buf(ns);
      gen_bytes(buf.data(), ns, next_seed());
      CbData d{buf.data(), 0, ns, ns, 0, nullptr, 0};
      Span sp = ls.span;
      Error e;
      { Inside in(*this);
        if (lv & 1) { JitAllocator::WriteScope ws(*A); e = ws.write(sp, cb_write, &d); }
        else e = A->write(sp, cb_write, &d); }
      TCK(d.calls == 1 && d.seen_size == old, "write-callback", "truncating callback: calls %d, span size seen %zu (expected %zu)", d.calls, d.seen_size, old);
      TCK(e == Error::kOk, "write-failed", "write(truncating callback %zu -> %zu) error %u", old, ns, unsigned(e));
      if (e != Error::kOk) return;
      memcpy(ls.bytes.data(), buf.data(), ns);
      after_shrink(ls, sp, old, ns, expect, "write(truncating callback)");
      cls("write_truncating_callback");
      return;
    }
    size_t off = ov % (size + 1);
    size_t len = (size - off) ? lv % (size - off + 1) : 0;
    if (lv % 4 == 0) { off = 0; len = size; }
    write_span(ls, form, off, len, "write");
    static const char* const names[] = {"write_offset", "write_callback", "write_lambda", "write_scope_offset", "write_scope_callback"};
    cls(names[form]);
  }

  void do_stats() {
    Stats st;
    { Inside in(*this); st = A->statistics(); }
    size_t cap = size_t(sh->nthreads) * kMaxLivePerThread;
    TCK(st.allocation_count() >= live.size() && st.allocation_count() <= cap, "stat-allocation-count", "concurrent statistics(): allocation_count() %zu, this thread alone has %zu live spans (all threads at most %zu)", st.allocation_count(), live.size(), cap);
    TCK(st.used_size() >= live_bytes + (live.empty() ? 0 : env->G), "stat-used-size", "concurrent statistics(): used_size() %zu, this thread alone has %zu live bytes", st.used_size(), live_bytes);
    TCK(st.reserved_size() >= st.used_size() && st.reserved_size() >= st.block_count() * 2 * size_t(env->B0), "stat-reserved-size", "concurrent statistics(): reserved_size() %zu used_size() %zu blocks %zu", st.reserved_size(), st.used_size(), st.block_count());
    TCK(st.block_count() >= (live.empty() ? 0u : 1u) && st.block_count() <= cap, "stat-block-count", "concurrent statistics(): block_count() %zu with %zu live spans in this thread", st.block_count(), live.size());
    TCK((st.block_count() == 0) == (st.overhead_size() == 0), "stat-overhead", "concurrent statistics(): %zu blocks, overhead_size() %zu", st.block_count(), st.overhead_size());
    // accessors documented as thread-safe
    TCK(A->granularity() == env->G && A->block_size() == env->B0 && A->fill_pattern() == env->pattern && A->has_option(JitAllocatorOptions::kUseMultiplePools) == env->multi,
        "create-params", "accessors changed while threads run: granularity %u block_size %u", A->granularity(), A->block_size());
    cls("statistics");
  }

  void step(const vh::Op& op, int kind) {
    if (live.empty() && kind != K_ALLOC && kind != K_STATS) {
      // nothing to work on yet: allocate instead (size class and init form taken from the op's arguments)
      cls("empty_so_alloc_instead");
      do_alloc(vh::Op{arg(op, 0), K_ALLOC, int64_t(u(arg(op, 3)) % 4), arg(op, 2) + arg(op, 4), arg(op, 3)});
      return;
    }
    switch (kind) {
      case K_ALLOC: do_alloc(op); break;
      case K_RELEASE: do_release(size_t(u(arg(op, 2)) % live.size()), false, "release"); break;
      case K_SHRINK: do_shrink(op); break;
      case K_QUERY: do_query(op); break;
      case K_WRITE: do_write(op); break;
      case K_STATS: do_stats(); break;
    }
  }

  void release_all() {
    try {
      size_t k = 0;
      while (!live.empty()) {
        if (sh->stop.load(std::memory_order_relaxed)) break;
        size_t idx = 0;
        if (final_mode == 2) idx = (k * 7) % live.size();
        else for (size_t j = 1; j < live.size(); j++) if (final_mode == 0 ? live[j].serial < live[idx].serial : live[j].serial > live[idx].serial) idx = j;
        do_release(idx, false, "final release");
        k++;
      }
    } catch (const ThreadFail& f) {
      failed = true; fkey = f.key; fmsg = f.msg;
      sh->stop.store(true, std::memory_order_relaxed);
    }
  }

  void main() {
    run_script(*this, [this](const vh::Op& op, int kind) { step(op, kind); });
    sh->b_audit.wait();
    // the main thread audits the union of the models here
    sh->b_release.wait();
    if (!sh->stop.load(std::memory_order_relaxed)) release_all();
    sh->b_done.wait();
  }
};

// ---- overlap measurement + reporting shared by the three modes -------------------------------------------------------
template<class T>
static void report_threads(vh::Ctx& ctx, int mode, std::vector<std::unique_ptr<T>>& ths, std::string* sample) {
  // failures first (the first failing thread by index decides the key; deterministic given the same schedule)
  for (auto& t : ths) for (auto& k : t->known_seen) ctx.known_excluded(k);
  for (auto& t : ths) for (auto& kv : t->counters) ctx.cls(kv.first, kv.second);
  uint32_t active = 0;
  int max_inside = 0;
  int64_t first_end = INT64_MAX, last_start = 0;
  uint64_t total_real = 0;
  for (auto& t : ths) {
    for (int k = 0; k < K_COUNT; k++) if (t->kinds[k]) ctx.cls(kKindNames[mode][k], t->kinds[k]);
    if (t->real_ops) { active++; first_end = std::min(first_end, t->t_end); last_start = std::max(last_start, t->t_start); }
    max_inside = std::max(max_inside, t->max_inside);
    total_real += t->real_ops;
  }
  // operations completed between the start barrier and the moment the first thread finished its script
  uint64_t window_ops = 0; uint32_t window_threads = 0;
  if (active >= 2) {
    for (auto& t : ths) {
      uint64_t n = 0;
      for (int64_t s : t->stamps) if (s <= first_end) n++;
      if (n) window_threads++;
      window_ops += n;
    }
  }
  char b[64];
  snprintf(b, sizeof b, "threads_%02zu", ths.size()); ctx.cls(b);
  snprintf(b, sizeof b, "active_threads_%s", active >= 9 ? "9_16" : active >= 5 ? "5_8" : active >= 3 ? "3_4" : active == 2 ? "2" : "0_1"); ctx.cls(b);
  snprintf(b, sizeof b, "max_simultaneously_inside_%s", max_inside >= 9 ? "9_16" : max_inside >= 5 ? "5_8" : max_inside >= 3 ? "3_4" : max_inside == 2 ? "2" : "0_1"); ctx.cls(b);
  if (max_inside >= 2) ctx.cls("overlap_cases_two_or_more_threads_inside_entry_points");
  if (window_threads >= 2) { ctx.cls("overlap_cases_window_two_or_more_threads"); ctx.cls("overlap_window_ops", window_ops); }
  ctx.cls("real_ops_total", total_real);
  if (active >= 2) ctx.nontrivial();
  if (sample) {
    snprintf(b, sizeof b, " | active %u, max inside %d, window ops %llu/%llu", active, max_inside, (unsigned long long)window_ops, (unsigned long long)total_real);
    *sample += b;
  }
  for (auto& t : ths) if (t->failed) ctx.fail_unless_known(t->fkey, t->fmsg);
}

static uint32_t thread_count(const vh::Case& c) {
  int64_t n = c.cfg.size() > 1 ? c.cfg[1] : 2;
  return uint32_t(std::min<int64_t>(16, std::max<int64_t>(2, n)));
}

template<class T>
static void distribute(const vh::Case& c, std::vector<std::unique_ptr<T>>& ths) {
  for (const vh::Op& op : c.ops) {
    if (op.size() < 2) continue;
    ths[size_t(u(op[0]) % ths.size())]->script.push_back(&op);
  }
}

static void run_mode_alloc(const vh::Case& c, vh::Ctx& ctx) {
  Setup su = make_setup(c, ctx);
  uint32_t n = thread_count(c);
  JitAllocator A(&su.params);
  AllocEnv env = make_env(A, su, n);
  record_classes(ctx, su, env);
  ctx.cls("mode_A_allocator");

  Stats st0 = A.statistics();
  VH_CHECK(ctx, st0.block_count() == 0 && st0.allocation_count() == 0 && st0.used_size() == 0 && st0.reserved_size() == 0, "stat-empty-residue", "fresh allocator: blocks %zu allocations %zu used %zu", st0.block_count(), st0.allocation_count(), st0.used_size());

  Shared sh;
  sh.opts = ctx.opts;
  sh.nthreads = n;
  sh.b_start.n = sh.b_audit.n = sh.b_release.n = sh.b_done.n = n + 1;
  std::vector<std::unique_ptr<AllocThread>> ths;
  for (uint32_t i = 0; i < n; i++) {
    ths.emplace_back(new AllocThread());
    AllocThread& t = *ths.back();
    t.sh = &sh; t.id = i; t.A = &A; t.env = &env;
    t.final_mode = int((c.cfg.size() > 5 ? u(c.cfg[5]) : 0) % 3);
  }
  distribute(c, ths);
  std::vector<std::thread> threads;
  for (uint32_t i = 0; i < n; i++) threads.emplace_back([&ths, i] { ths[i]->main(); });
  sh.b_start.wait();
  sh.b_audit.wait_watchdog("audit");

  // ---- audit: the union of the per-thread models, while every span is still live and no thread is running ----
  vh::Failure audit_fail;
  bool audit_failed = false;
  size_t total_spans = 0, total_bytes = 0;
  if (!sh.stop.load()) {
    try {
      struct R { uintptr_t a; size_t n; uint32_t t; };
      std::vector<R> rx, rw;
      for (auto& t : ths) for (const LiveSpan& ls : t->live) {
        rx.push_back({uintptr_t(ls.span.rx()), ls.span.size(), t->id});
        rw.push_back({uintptr_t(ls.span.rw()), ls.span.size(), t->id});
        total_spans++; total_bytes += ls.span.size();
      }
      auto lt = [](const R& x, const R& y) { return x.a < y.a; };
      std::sort(rx.begin(), rx.end(), lt);
      std::sort(rw.begin(), rw.end(), lt);
      for (size_t i = 1; i < rx.size(); i++)
        VH_CHECK(ctx, rx[i - 1].a + rx[i - 1].n <= rx[i].a, "overlap", "audit: span of thread %u (%zu bytes) overlaps span of thread %u by %zu bytes (rx view)", rx[i - 1].t, rx[i - 1].n, rx[i].t, size_t(rx[i - 1].a + rx[i - 1].n - rx[i].a));
      for (size_t i = 1; i < rw.size(); i++)
        VH_CHECK(ctx, rw[i - 1].a + rw[i - 1].n <= rw[i].a, "overlap-rw", "audit: span of thread %u overlaps span of thread %u (rw view)", rw[i - 1].t, rw[i].t);
      for (auto& r : rx) VH_CHECK(ctx, r.a % env.G == 0 && r.a != 0, "misaligned", "audit: rx of a span of thread %u not aligned to %u", r.t, env.G);
      Stats st = A.statistics();
      VH_CHECK(ctx, st.allocation_count() == total_spans, "stat-allocation-count", "audit: allocation_count() %zu, union of the thread models has %zu live spans", st.allocation_count(), total_spans);
      size_t Bc = st.block_count();
      if (!env.multi)
        VH_CHECK(ctx, st.used_size() == total_bytes + Bc * env.G, "stat-used-size", "audit: used_size() %zu, live bytes of all threads %zu + %zu blocks * padding %u", st.used_size(), total_bytes, Bc, env.G);
      else
        VH_CHECK(ctx, st.used_size() >= total_bytes + Bc * env.G && st.used_size() <= total_bytes + Bc * 4 * env.G && (st.used_size() - total_bytes) % env.G == 0, "stat-used-size",
                 "audit: used_size() %zu outside [%zu, %zu] (live bytes %zu, %zu blocks)", st.used_size(), total_bytes + Bc * env.G, total_bytes + Bc * 4 * env.G, total_bytes, Bc);
      VH_CHECK(ctx, st.reserved_size() >= st.used_size() && st.reserved_size() >= Bc * 2 * size_t(env.B0), "stat-reserved-size", "audit: reserved_size() %zu used %zu blocks %zu", st.reserved_size(), st.used_size(), Bc);
      VH_CHECK(ctx, (Bc == 0) == (total_spans == 0) || total_spans == 0, "stat-block-count", "audit: %zu blocks for %zu live spans", Bc, total_spans);
      // contents + query of every span (single-threaded now; the barrier ordered everything before)
      for (auto& t : ths) {
        try {
          for (const LiveSpan& ls : t->live) { t->check_content(ls, "audit"); t->query_start(ls, "audit"); }
        } catch (const ThreadFail& f) { ctx.fail_unless_known(f.key, f.msg); }
      }
    } catch (const vh::Failure& f) { audit_fail = f; audit_failed = true; sh.stop.store(true); }
  }
  sh.b_release.wait();
  sh.b_done.wait_watchdog("end");
  for (auto& th : threads) th.join();
  if (audit_failed) throw audit_fail;

  std::string sample;
  if (ctx.want_sample()) {
    char b[160];
    snprintf(b, sizeof b, "mode A, %u threads, opt=0x%x B=%u G=%u, %zu ops, audit: %zu live spans / %zu bytes", n, su.opt, env.B0, env.G, c.ops.size(), total_spans, total_bytes);
    sample = b;
  }
  report_threads(ctx, M_ALLOC, ths, ctx.want_sample() ? &sample : nullptr);
  if (total_spans) ctx.cls("audit_with_live_spans");
  if (total_spans >= 2 * size_t(n)) ctx.cls("audit_many_live_spans");

  // ---- after everything was released concurrently ----
  Stats st = A.statistics();
  size_t Bc = st.block_count();
  VH_CHECK(ctx, st.allocation_count() == 0, "final-residue", "after every thread released everything allocation_count() is %zu", st.allocation_count());
  VH_CHECK(ctx, st.used_size() >= Bc * env.G && st.used_size() <= Bc * env.G * (env.multi ? 4 : 1), "final-residue", "after every thread released everything used_size() is %zu with %zu blocks (initial value 0 + one padding granule per kept block)", st.used_size(), Bc);
  VH_CHECK(ctx, st.reserved_size() >= st.used_size(), "stat-reserved-size", "final: reserved_size() %zu < used_size() %zu", st.reserved_size(), st.used_size());
  if (Bc > 1) ctx.cls("final_blocks_kept_2_or_more");
  // the allocator still works
  {
    Span s;
    Error e = A.alloc(Out(s), env.U);
    VH_CHECK(ctx, e == Error::kOk && s.rx() && s.size() == env.U, "alloc-failed", "alloc after the concurrent phase: error %u size %zu", unsigned(e), s.size());
    e = A.release(s.rx());
    VH_CHECK(ctx, e == Error::kOk && A.statistics().allocation_count() == 0, "release-failed", "release after the concurrent phase: error %u", unsigned(e));
  }
  if (!sample.empty()) ctx.sample(sample);
}

static void run_mode_runtime(const vh::Case& c, vh::Ctx& ctx);
static void run_mode_codegen(const vh::Case& c, vh::Ctx& ctx);

} // namespace

//@@MODE_B@@
// ====================================================================================================================
// Mode B: one shared JitRuntime; every thread builds tiny functions with its own CodeHolder + emitter, adds, calls, releases
// ====================================================================================================================
namespace {

typedef int (*Fn0)(void);

struct LiveFn {
  void* fn = nullptr;
  int expect = 0;
  size_t span_size = 0;                                     // as reported by query() right after add()
  std::vector<std::pair<size_t, std::string>> image;        // (offset, bytes) of every section as copied by add()
  uint64_t serial = 0;
};

struct RuntimeThread : ThreadBase {
  JitRuntime* rt = nullptr;
  uint32_t G = 64;
  std::vector<LiveFn> live;
  uint64_t serial_no = 0;
  int final_mode = 0;

  // Builds the function `int f() { return value; }` in one of several shapes. Returns false on an emitter error.
  void build(CodeHolder& code, int shape, int value, unsigned v) {
    Error e = code.init(rt->environment(), rt->cpu_features());
    if (e != Error::kOk) failv("codegen-failed", "CodeHolder::init error %u", unsigned(e));
    uint32_t K = 0x5A5A0000u | (id << 8) | (v & 0xFF);
    if (shape == 5) {
      x86::Compiler cc(&code);
      cc.add_func(FuncSignature::build<int>());
      x86::Gp a = cc.new_gp32("a"), b = cc.new_gp32("b");
      cc.mov(a, int32_t(uint32_t(value) - K));
      cc.mov(b, int32_t(K));
      Label L = cc.new_label();
      cc.test(b, b);
      cc.jz(L);
      cc.add(a, b);
      cc.bind(L);
      cc.ret(a);
      cc.end_func();
      e = cc.finalize();
      if (e != Error::kOk) failv("codegen-failed", "x86::Compiler::finalize error %u", unsigned(e));
      return;
    }
    x86::Assembler a(&code);
    switch (shape) {
      case 0: a.mov(x86::eax, value); a.ret(); break;
      case 1: a.mov(x86::eax, int32_t(uint32_t(value) ^ K)); a.xor_(x86::eax, int32_t(K)); a.ret(); break;
      case 2: { Label L = a.new_label(); a.jmp(L); for (unsigned i = 0; i < 1 + v % 9; i++) a.ud2(); a.bind(L); a.mov(x86::eax, value); a.ret(); break; }
      case 3: { Label D = a.new_label(); a.lea(x86::rax, x86::ptr(D)); a.mov(x86::eax, x86::dword_ptr(x86::rax)); a.ret(); a.align(AlignMode::kData, 8); a.bind(D); a.embed_int32(value); break; }
      case 4: { for (unsigned i = 0; i < 60 + v; i++) a.nop(); a.mov(x86::eax, value); a.ret(); break; }
      default: {
        // second section + absolute address of a label (relocation applied by relocate_to_base inside add())
        Section* data = nullptr;
        e = code.new_section(Out(data), ".data", SIZE_MAX, SectionFlags::kNone, 8);
        if (e != Error::kOk) failv("codegen-failed", "new_section error %u", unsigned(e));
        Label D = a.new_label(), T = a.new_label();
        a.mov(x86::rax, x86::qword_ptr(T));     // rip-relative load of the absolute address stored at T
        a.mov(x86::eax, x86::dword_ptr(x86::rax));
        a.ret();
        a.align(AlignMode::kData, 8);
        a.bind(T);
        a.embed_label(D);
        a.section(data);
        a.bind(D);
        a.embed_int32(value);
        a.embed_int32(int32_t(K));
        break;
      }
    }
  }

  void check_image(const LiveFn& f, const char* where) {
    const uint8_t* base = static_cast<const uint8_t*>(f.fn);
    for (auto& seg : f.image) {
      if (memcmp(base + seg.first, seg.second.data(), seg.second.size()) != 0) {
        size_t i = 0; while (base[seg.first + i] == uint8_t(seg.second[i])) i++;
        fail_unless_known("content-corrupted", "%s: code of a live function differs from what add() copied: byte %zu is 0x%02x, expected 0x%02x", where, seg.first + i, base[seg.first + i], uint8_t(seg.second[i]));
        return;
      }
    }
  }

  void call(const LiveFn& f, const char* where) {
    check_image(f, where);
    int got = reinterpret_cast<Fn0>(f.fn)();
    TCK(got == f.expect, "jit-call-wrong-result", "%s: function added by this thread returned %d, expected %d", where, got, f.expect);
  }

  void do_add(const vh::Op& op) {
    if (live.size() >= kMaxLivePerThread) { cls("add_skipped_cap"); return; }
    int value = int(arg(op, 2));
    int shape = int(u(arg(op, 3)) % 7);
    unsigned v = unsigned(u(arg(op, 4)) % 256);
    CodeHolder code;
    void* fn = nullptr;
    Error e;
    {
      Inside in(*this);
      build(code, shape, value, v);
      e = rt->add(&fn, &code);
    }
    TCK(e == Error::kOk && fn != nullptr, "rt-add-failed", "JitRuntime::add (shape %d) error %u", shape, unsigned(e));
    if (e != Error::kOk || !fn) return;
    TCK(uintptr_t(fn) % G == 0, "misaligned", "add(): function pointer %% %u == %zu", G, size_t(uintptr_t(fn) % G));
    LiveFn f;
    f.fn = fn;
    f.expect = value;
    f.serial = ++serial_no;
    for (Section* s : code.sections()) if (s->buffer_size()) f.image.emplace_back(size_t(s->offset()), std::string(reinterpret_cast<const char*>(s->data()), s->buffer_size()));
    size_t cs = code.code_size();
    Span q;
    Error qe;
    { Inside in(*this); qe = rt->allocator().query(Out(q), fn); }
    TCK(qe == Error::kOk && q.rx() == fn && q.size() >= cs && q.size() < cs + 4 * size_t(G), "query-wrong-size", "query(function just added): error %u, size %zu for %zu bytes of code", unsigned(qe), q.size(), cs);
    f.span_size = qe == Error::kOk ? q.size() : align_up(cs, G);
    for (const LiveFn& o : live) {
      uintptr_t a0 = uintptr_t(fn), b0 = uintptr_t(o.fn);
      TCK(a0 + f.span_size <= b0 || b0 + o.span_size <= a0, "overlap", "add(): new function overlaps another live function of this thread");
    }
    call(f, "call after add");
    live.push_back(std::move(f));
    static const char* const names[] = {"rt_fn_mov_ret", "rt_fn_xor", "rt_fn_jump", "rt_fn_rip_data", "rt_fn_multi_granule", "rt_fn_compiler", "rt_fn_two_sections_abs_reloc"};
    cls(names[shape]);
  }

  void do_release(size_t idx, const char* where) {
    LiveFn& f = live[idx];
    call(f, where);
    Error e;
    { Inside in(*this); e = rt->release(f.fn); }
    TCK(e == Error::kOk, "release-failed", "%s: JitRuntime::release error %u", where, unsigned(e));
    if (idx + 1 != live.size()) live[idx] = std::move(live.back());
    live.pop_back();
    cls("rt_release");
  }

  void step(const vh::Op& op, int kind) {
    if (kind == K_ALLOC) { do_add(op); return; }
    if (kind == K_STATS) {
      Stats st;
      { Inside in(*this); st = rt->allocator().statistics(); }
      size_t cap = size_t(sh->nthreads) * kMaxLivePerThread;
      TCK(st.allocation_count() >= live.size() && st.allocation_count() <= cap, "stat-allocation-count", "concurrent statistics(): allocation_count() %zu, this thread alone has %zu live functions", st.allocation_count(), live.size());
      TCK(st.reserved_size() >= st.used_size() && st.used_size() >= live.size() * G, "stat-used-size", "concurrent statistics(): used_size() %zu reserved %zu, %zu live functions", st.used_size(), st.reserved_size(), live.size());
      cls("rt_statistics");
      return;
    }
    if (live.empty()) { cls("empty_so_add_instead"); do_add(vh::Op{arg(op, 0), K_ALLOC, arg(op, 2) * 7 + 1, arg(op, 2), arg(op, 2)}); return; }
    size_t idx = size_t(u(arg(op, 2)) % live.size());
    if (kind == K_RELEASE) do_release(idx, "call before release");
    else if (kind == K_QUERY) {
      Span q;
      Error e;
      { Inside in(*this); e = rt->allocator().query(Out(q), live[idx].fn); }
      TCK(e == Error::kOk && q.rx() == live[idx].fn && q.size() == live[idx].span_size, "query-wrong-size", "query(live function): error %u size %zu (was %zu)", unsigned(e), q.size(), live[idx].span_size);
      cls("rt_query");
    } else {
      Inside in(*this);
      call(live[idx], "call");
      cls("rt_call");
    }
  }

  void main() {
    run_script(*this, [this](const vh::Op& op, int kind) { step(op, kind); });
    sh->b_audit.wait();
    sh->b_release.wait();
    if (sh->stop.load(std::memory_order_relaxed)) { sh->b_done.wait(); return; }
    try {
      size_t k = 0;
      while (!live.empty() && !sh->stop.load(std::memory_order_relaxed)) {
        size_t idx = 0;
        if (final_mode == 2) idx = (k * 7) % live.size();
        else for (size_t j = 1; j < live.size(); j++) if (final_mode == 0 ? live[j].serial < live[idx].serial : live[j].serial > live[idx].serial) idx = j;
        do_release(idx, "final release");
        k++;
      }
    } catch (const ThreadFail& f) { failed = true; fkey = f.key; fmsg = f.msg; sh->stop.store(true, std::memory_order_relaxed); }
    sh->b_done.wait();
  }
};

static void run_mode_runtime(const vh::Case& c, vh::Ctx& ctx) {
  Setup su = make_setup(c, ctx);
  su.opt &= ~uint32_t(O_LARGE);
  su.params.options &= ~JitAllocatorOptions::kUseLargePages;
  uint32_t n = thread_count(c);
  bool default_params = (c.cfg.size() > 2 ? u(c.cfg[2]) : 0) % 5 == 0;   // JitRuntime() without CreateParams
  std::unique_ptr<JitRuntime> rtp(default_params ? new JitRuntime() : new JitRuntime(&su.params));
  JitRuntime& rt = *rtp;
  JitAllocator& A = rt.allocator();
  uint32_t G = A.granularity();
  bool multi = A.has_option(JitAllocatorOptions::kUseMultiplePools);
  ctx.cls("mode_B_runtime");
  ctx.cls(default_params ? "cfg_rt_default_params" : "cfg_rt_custom_params");
  if (!default_params) { AllocEnv env = make_env(A, su, n); record_classes(ctx, su, env); }

  Shared sh;
  sh.opts = ctx.opts;
  sh.nthreads = n;
  sh.b_start.n = sh.b_audit.n = sh.b_release.n = sh.b_done.n = n + 1;
  std::vector<std::unique_ptr<RuntimeThread>> ths;
  for (uint32_t i = 0; i < n; i++) {
    ths.emplace_back(new RuntimeThread());
    RuntimeThread& t = *ths.back();
    t.sh = &sh; t.id = i; t.rt = &rt; t.G = G;
    t.final_mode = int((c.cfg.size() > 5 ? u(c.cfg[5]) : 0) % 3);
  }
  distribute(c, ths);
  std::vector<std::thread> threads;
  for (uint32_t i = 0; i < n; i++) threads.emplace_back([&ths, i] { ths[i]->main(); });
  sh.b_start.wait();
  sh.b_audit.wait_watchdog("audit");

  vh::Failure audit_fail;
  bool audit_failed = false;
  size_t total = 0, total_bytes = 0;
  if (!sh.stop.load()) {
    try {
      struct R { uintptr_t a; size_t n; uint32_t t; };
      std::vector<R> rx;
      for (auto& t : ths) for (const LiveFn& f : t->live) { rx.push_back({uintptr_t(f.fn), f.span_size, t->id}); total++; total_bytes += f.span_size; }
      std::sort(rx.begin(), rx.end(), [](const R& x, const R& y) { return x.a < y.a; });
      for (size_t i = 1; i < rx.size(); i++)
        VH_CHECK(ctx, rx[i - 1].a + rx[i - 1].n <= rx[i].a, "overlap", "audit: function of thread %u overlaps function of thread %u", rx[i - 1].t, rx[i].t);
      Stats st = A.statistics();
      size_t Bc = st.block_count();
      VH_CHECK(ctx, st.allocation_count() == total, "stat-allocation-count", "audit: allocation_count() %zu, the threads hold %zu live functions", st.allocation_count(), total);
      VH_CHECK(ctx, st.used_size() >= total_bytes + Bc * G && st.used_size() <= total_bytes + Bc * G * (multi ? 4 : 1), "stat-used-size", "audit: used_size() %zu, live bytes %zu, %zu blocks", st.used_size(), total_bytes, Bc);
      for (auto& t : ths) {
        try { for (const LiveFn& f : t->live) t->call(f, "audit"); }
        catch (const ThreadFail& f) { ctx.fail_unless_known(f.key, f.msg); }
      }
    } catch (const vh::Failure& f) { audit_fail = f; audit_failed = true; sh.stop.store(true); }
  }
  sh.b_release.wait();
  sh.b_done.wait_watchdog("end");
  for (auto& th : threads) th.join();
  if (audit_failed) throw audit_fail;

  std::string sample;
  if (ctx.want_sample()) {
    char b[160];
    snprintf(b, sizeof b, "mode B, %u threads, %s, %zu ops, audit: %zu live functions", n, default_params ? "JitRuntime()" : "JitRuntime(params)", c.ops.size(), total);
    sample = b;
  }
  report_threads(ctx, M_RUNTIME, ths, ctx.want_sample() ? &sample : nullptr);
  if (total) ctx.cls("audit_with_live_spans");

  Stats st = A.statistics();
  size_t Bc = st.block_count();
  VH_CHECK(ctx, st.allocation_count() == 0, "final-residue", "after every thread released its functions allocation_count() is %zu", st.allocation_count());
  VH_CHECK(ctx, st.used_size() >= Bc * G && st.used_size() <= Bc * G * (multi ? 4 : 1), "final-residue", "after every thread released its functions used_size() is %zu with %zu blocks", st.used_size(), Bc);
  if (!sample.empty()) ctx.sample(sample);
}

} // namespace
//@@MODE_C@@
// ====================================================================================================================
// Mode C: independent code generation. A program is a pure function of (emitter, seed, length, flags).
// ====================================================================================================================
namespace {

struct Prng {
  uint64_t s;
  explicit Prng(uint64_t seed) : s((seed + 1) * 0xD6E8FEB86659FD93ull) { s = mix(s) ^ 0xC11; s = mix(s); }
  uint32_t operator()() { return uint32_t(mix(s) >> 16); }
  uint32_t operator()(uint32_t n) { return (*this)() % n; }
};

struct Sig {
  std::string text;
  unsigned errors = 0;
  void err(const char* what, size_t i, Error e) {
    if (e == Error::kOk) return;
    errors++;
    char b[64]; snprintf(b, sizeof b, "[%s@%zu:E%u]", what, i, unsigned(e));
    text += b;
  }
  void bytes(const void* p, size_t n) { text.append(static_cast<const char*>(p), n); }
};

static void finish_code(CodeHolder& code, Sig& sig, StringLogger* logger) {
  sig.err("flatten", 0, code.flatten());
  sig.err("resolve", 0, code.resolve_cross_section_fixups());
  sig.err("relocate", 0, code.relocate_to_base(0x40000000u));
  for (Section* sec : code.sections()) {
    char b[96];
    snprintf(b, sizeof b, "{section %u off %llu size %zu}", sec->section_id(), (unsigned long long)sec->offset(), size_t(sec->buffer_size()));
    sig.text += b;
    sig.bytes(sec->data(), sec->buffer_size());
  }
  char b[64];
  snprintf(b, sizeof b, "{code_size %zu labels %zu}", code.code_size(), size_t(code.label_count()));
  sig.text += b;
  if (logger) { sig.text += "{log}"; sig.bytes(logger->data(), logger->data_size()); }
}

// x86-64 program through the explicit emitter interface (Assembler or Builder).
template<class E>
static void prog_x86_raw(E& a, CodeHolder& code, Prng& r, int len, Sig& sig, bool allow_invalid) {
  using namespace x86;
  static const Gp g64[] = {rax, rcx, rdx, rbx, rsi, rdi, r8, r9, r10, r11, r12, r13, r14, r15};
  auto R64 = [&] { return g64[r(14)]; };
  auto R32 = [&] { return g64[r(14)].r32(); };
  auto M = [&](uint32_t size) { Mem m = r(2) ? ptr(R64(), int32_t(r(4096)) - 2048) : ptr(R64(), g64[r(14)], r(4), int32_t(r(256)) - 128); m.set_size(size); return m; };
  size_t nl = std::min<size_t>(24, 1 + size_t(len) / 6);
  std::vector<Label> L(nl);
  std::vector<int> pos(nl);
  for (size_t j = 0; j < nl; j++) {
    if (j % 5 == 4) { char nm[32]; snprintf(nm, sizeof nm, "named_%zu_%u", j, r(1000)); L[j] = a.new_named_label(nm); }
    else L[j] = a.new_label();
    pos[j] = int(r(uint32_t(len)));
  }
  Section* data = nullptr;
  bool two_sections = r(3) == 0;
  if (two_sections) sig.err("new_section", 0, code.new_section(Out(data), ".data", SIZE_MAX, SectionFlags::kNone, 16));
  Label D = a.new_label();
  for (int i = 0; i < len; i++) {
    for (size_t j = 0; j < nl; j++) if (pos[j] == i) sig.err("bind", size_t(i), a.bind(L[j]));
    Error e = Error::kOk;
    switch (r(26)) {
      case 0: e = a.mov(R64(), R64()); break;
      case 1: e = a.mov(R32(), int32_t(r())); break;
      case 2: e = a.mov(R64(), int64_t((uint64_t(r()) << 32) | r())); break;
      case 3: { static const InstId ids[] = {Inst::kIdAdd, Inst::kIdSub, Inst::kIdAnd, Inst::kIdOr, Inst::kIdXor, Inst::kIdCmp, Inst::kIdTest};
                e = a.emit(ids[r(7)], R64(), R64()); break; }
      case 4: e = a.add(R32(), M(4)); break;
      case 5: e = a.mov(M(8), R64()); break;
      case 6: e = a.lea(R64(), M(0)); break;
      case 7: { static const CondCode cc[] = {CondCode::kE, CondCode::kNE, CondCode::kL, CondCode::kGE, CondCode::kA, CondCode::kBE, CondCode::kS, CondCode::kNO};
                e = a.j(cc[r(8)], L[r(uint32_t(nl))]); break; }
      case 8: e = a.jmp(L[r(uint32_t(nl))]); break;
      case 9: e = r(2) ? a.nop() : a.align(AlignMode::kCode, 1u << r(5)); break;
      case 10: e = a.addps(xmm(r(16)), xmm(r(16))); break;
      case 11: e = a.movaps(xmm(r(16)), M(16)); break;
      case 12: e = a.vaddps(ymm(r(16)), ymm(r(16)), ymm(r(16))); break;
      case 13: e = a.k(k(1 + r(7))).z().vpaddd(zmm(r(32)), zmm(r(32)), M(4).clone_broadcasted(Mem::Broadcast::k1To16)); break;
      case 14: e = a.call(L[r(uint32_t(nl))]); break;
      case 15: { uint8_t buf[16]; uint32_t n = 1 + r(16); for (uint32_t k = 0; k < n; k++) buf[k] = uint8_t(r()); e = a.embed(buf, n); break; }
      case 16: e = a.lea(R64(), ptr(L[r(uint32_t(nl))])); break;
      case 17: e = r(2) ? a.push(R64()) : a.pop(R64()); break;
      case 18: e = a.imul(R64(), R64(), int32_t(r(100000)) - 50000); break;
      case 19: e = a.shl(R64(), r(64)); break;
      case 20: e = a.cmovne(R32(), R32()); break;
      case 21: e = a.setb(g64[r(14)].r8()); break;
      case 22: e = a.mov(R64(), ptr(D)); break;                       // cross-section (or later-bound) rip-relative reference
      case 23: e = a.vfmadd231pd(zmm(r(32)), zmm(r(32)), zmm(r(32))); break;
      case 24: e = allow_invalid ? a.emit(Inst::kIdMov, xmm(r(16)), imm(1)) : a.xchg(R64(), R64()); break;   // invalid on purpose: the error path must be thread-safe too
      default: e = a.lock().add(M(4), R32()); break;
    }
    sig.err("inst", size_t(i), e);
  }
  for (size_t j = 0; j < nl; j++) if (pos[j] >= len) sig.err("bind", size_t(len), a.bind(L[j]));
  sig.err("ret", 0, a.ret());
  if (two_sections && data) sig.err("section", 0, a.section(data));
  else sig.err("align", 0, a.align(AlignMode::kData, 8));
  sig.err("bind", 0, a.bind(D));
  sig.err("embed_label", 0, a.embed_label(L[r(uint32_t(nl))]));
  sig.err("embed", 0, a.embed_uint64(0x1122334455667788ull, 1 + r(3)));
  {
    Arena arena(1024);
    ConstPool pool(arena);
    size_t off;
    for (uint32_t k = 0, n = 1 + r(5); k < n; k++) { uint64_t v = r(4); (void)pool.add(&v, r(2) ? 8 : 4, Out(off)); }
    Label P = a.new_label();
    sig.err("embed_const_pool", 0, a.embed_const_pool(P, pool));
  }
}

template<class E>
static void prog_a64_raw(E& a, CodeHolder& code, Prng& r, int len, Sig& sig, bool allow_invalid) {
  using namespace a64;
  (void)code;
  auto X = [&] { return x(r(29)); };
  auto W = [&] { return w(r(29)); };
  auto V = [&] { return v(r(32)); };
  size_t nl = std::min<size_t>(24, 1 + size_t(len) / 6);
  std::vector<Label> L(nl);
  std::vector<int> pos(nl);
  for (size_t j = 0; j < nl; j++) { L[j] = a.new_label(); pos[j] = int(r(uint32_t(len))); }
  for (int i = 0; i < len; i++) {
    for (size_t j = 0; j < nl; j++) if (pos[j] == i) sig.err("bind", size_t(i), a.bind(L[j]));
    Error e = Error::kOk;
    switch (r(20)) {
      case 0: e = a.add(X(), X(), X()); break;
      case 1: e = a.add(X(), X(), r(4096)); break;
      case 2: e = a.mov(X(), (uint64_t(r()) << 32) | r()); break;
      case 3: e = a.mov(W(), r(65536)); break;
      case 4: e = a.ldr(X(), ptr(X(), int32_t(r(512)) * 8)); break;
      case 5: e = a.str(W(), ptr(X(), int32_t(r(512)) * 4)); break;
      case 6: e = a.b(L[r(uint32_t(nl))]); break;
      case 7: { static const CondCode cc[] = {CondCode::kEQ, CondCode::kNE, CondCode::kLT, CondCode::kGE, CondCode::kHI, CondCode::kLS};
                e = a.b(cc[r(6)], L[r(uint32_t(nl))]); break; }
      case 8: e = a.cbz(X(), L[r(uint32_t(nl))]); break;
      case 9: e = a.adr(X(), L[r(uint32_t(nl))]); break;
      case 10: e = a.fadd(V().s4(), V().s4(), V().s4()); break;
      case 11: e = a.ldp(X(), X(), ptr(X(), int32_t(r(32)) * 8)); break;
      case 12: e = a.add(X(), X(), X(), lsl(r(64))); break;
      case 13: e = a.cmp(X(), X()); break;
      case 14: e = a.csel(X(), X(), X(), CondCode::kNE); break;
      case 15: e = a.madd(X(), X(), X(), X()); break;
      case 16: e = a.bl(L[r(uint32_t(nl))]); break;
      case 17: e = a.tbz(X(), r(64), L[r(uint32_t(nl))]); break;
      case 18: e = a.add(X(), X(), allow_invalid ? 0x123456 : 0x123000); break;                  // not encodable: error path
      default: e = a.mul(V().s4(), V().s4(), V().s4()); break;
    }
    sig.err("inst", size_t(i), e);
  }
  for (size_t j = 0; j < nl; j++) if (pos[j] >= len) sig.err("bind", size_t(len), a.bind(L[j]));
  sig.err("ret", 0, a.ret(x(30)));
  sig.err("embed_label", 0, a.embed_label(L[r(uint32_t(nl))]));
  sig.err("embed", 0, a.embed_uint32(0xD503201Fu, 1 + r(3)));
}

// Compiler programs: one or two functions over virtual registers (more than the machine has -> spills), forward branches,
// a counted loop, stack slots, vector registers and calls.
static void prog_x86_compiler(x86::Compiler& cc, Prng& r, int len, Sig& sig) {
  using namespace x86;
  int nfunc = 1 + int(r(2));
  for (int fi = 0; fi < nfunc; fi++) {
    FuncNode* f = cc.add_func(FuncSignature::build<int, int, int>());
    if (!f) { sig.text += "[add_func failed]"; return; }
    size_t nv = 3 + r(22);
    std::vector<Gp> v(nv);
    for (size_t i = 0; i < nv; i++) v[i] = cc.new_gp32("v%zu", i);
    f->set_arg(0, v[0]);
    f->set_arg(1, v[1]);
    for (size_t i = 2; i < nv; i++) sig.err("init", i, cc.mov(v[i], int32_t(r(1000))));
    Vec xv[3] = {cc.new_xmm("x0"), cc.new_xmm("x1"), cc.new_xmm("x2")};
    for (int i = 0; i < 3; i++) sig.err("init", size_t(i), cc.movd(xv[i], v[r(uint32_t(nv))]));
    Mem stack = cc.new_stack(64, 16);
    struct Pending { Label l; int at; bool loop; Gp counter; };
    std::vector<Pending> pend;
    int body = std::max(1, len / nfunc);
    auto V = [&]() -> Gp& { return v[r(uint32_t(nv))]; };
    for (int i = 0; i < body; i++) {
      for (size_t p = 0; p < pend.size();) {
        if (pend[p].at == i) {
          if (pend[p].loop) { sig.err("loop", size_t(i), cc.dec(pend[p].counter)); sig.err("loop", size_t(i), cc.jnz(pend[p].l)); }
          else sig.err("bind", size_t(i), cc.bind(pend[p].l));
          pend.erase(pend.begin() + long(p));
        } else p++;
      }
      Error e = Error::kOk;
      switch (r(14)) {
        case 0: e = cc.add(V(), V()); break;
        case 1: e = cc.sub(V(), V()); break;
        case 2: e = cc.imul(V(), V()); break;
        case 3: e = cc.xor_(V(), int32_t(r())); break;
        case 4: { Mem m = stack; m.set_size(4); m.add_offset(int32_t(r(16)) * 4); e = cc.mov(m, V()); break; }
        case 5: { Mem m = stack; m.set_size(4); m.add_offset(int32_t(r(16)) * 4); e = cc.mov(V(), m); break; }
        case 6: { Label l = cc.new_label(); sig.err("cmp", size_t(i), cc.cmp(V(), V())); e = cc.jl(l); pend.push_back({l, i + 1 + int(r(12)), false, Gp()}); break; }
        case 7: { if (pend.size() < 6) { Gp c = cc.new_gp32("cnt"); sig.err("loop", size_t(i), cc.mov(c, 2 + int32_t(r(3)))); Label l = cc.new_label(); e = cc.bind(l); pend.push_back({l, i + 2 + int(r(10)), true, c}); } break; }
        case 8: e = cc.paddd(xv[r(3)], xv[r(3)]); break;
        case 9: e = cc.movd(V(), xv[r(3)]); break;
        case 10: { InvokeNode* in = nullptr; e = cc.invoke(Out(in), imm(uint64_t(0x7F0000001000ull) + r(64) * 16), FuncSignature::build<int, int, int>());
                   if (e == Error::kOk && in) { in->set_arg(0, V()); in->set_arg(1, V()); in->set_ret(0, V()); } break; }
        case 11: e = cc.lea(V(), ptr(v[0], v[1], r(4), int32_t(r(100)))); break;
        case 12: e = cc.shl(V(), r(32)); break;
        default: e = cc.mov(V(), V()); break;
      }
      sig.err("inst", size_t(i), e);
    }
    for (auto& p : pend) {
      if (p.loop) { sig.err("loop", size_t(body), cc.dec(p.counter)); sig.err("loop", size_t(body), cc.jnz(p.l)); }
      else sig.err("bind", size_t(body), cc.bind(p.l));
    }
    for (size_t i = 1; i < nv; i++) sig.err("sum", i, cc.add(v[0], v[i]));
    sig.err("ret", 0, cc.ret(v[0]));
    sig.err("end_func", 0, cc.end_func());
  }
}

static void prog_a64_compiler(a64::Compiler& cc, Prng& r, int len, Sig& sig) {
  using namespace a64;
  int nfunc = 1 + int(r(2));
  for (int fi = 0; fi < nfunc; fi++) {
    FuncNode* f = cc.add_func(FuncSignature::build<int, int, int>());
    if (!f) { sig.text += "[add_func failed]"; return; }
    size_t nv = 3 + r(36);
    std::vector<Gp> v(nv);
    for (size_t i = 0; i < nv; i++) v[i] = cc.new_gp32("v%zu", i);
    f->set_arg(0, v[0]);
    f->set_arg(1, v[1]);
    for (size_t i = 2; i < nv; i++) sig.err("init", i, cc.mov(v[i], r(1000)));
    Vec qv[3] = {cc.new_vec128("q0"), cc.new_vec128("q1"), cc.new_vec128("q2")};
    for (int i = 0; i < 3; i++) sig.err("init", size_t(i), cc.movi(qv[i].d2(), 0));
    std::vector<std::pair<Label, int>> pend;
    int body = std::max(1, len / nfunc);
    auto V = [&]() -> Gp& { return v[r(uint32_t(nv))]; };
    for (int i = 0; i < body; i++) {
      for (size_t p = 0; p < pend.size();) {
        if (pend[p].second == i) { sig.err("bind", size_t(i), cc.bind(pend[p].first)); pend.erase(pend.begin() + long(p)); } else p++;
      }
      Error e = Error::kOk;
      switch (r(10)) {
        case 0: e = cc.add(V(), V(), V()); break;
        case 1: e = cc.sub(V(), V(), V()); break;
        case 2: e = cc.mul(V(), V(), V()); break;
        case 3: e = cc.eor(V(), V(), V()); break;
        case 4: { Label l = cc.new_label(); sig.err("cmp", size_t(i), cc.cmp(V(), V())); e = cc.b_lt(l); pend.emplace_back(l, i + 1 + int(r(12))); break; }
        case 5: { Label l = cc.new_label(); e = cc.cbz(V(), l); pend.emplace_back(l, i + 1 + int(r(12))); break; }
        case 6: e = cc.add(qv[r(3)].s4(), qv[r(3)].s4(), qv[r(3)].s4()); break;
        case 7: { InvokeNode* in = nullptr; Gp t = cc.new_gp64("fn"); sig.err("mov", size_t(i), cc.mov(t, uint64_t(0x7F0000001000ull) + r(64) * 16));
                  e = cc.invoke(Out(in), t, FuncSignature::build<int, int, int>());
                  if (e == Error::kOk && in) { in->set_arg(0, V()); in->set_arg(1, V()); in->set_ret(0, V()); } break; }
        case 8: e = cc.add(V(), V(), r(4096)); break;
        default: e = cc.mov(V(), V()); break;
      }
      sig.err("inst", size_t(i), e);
    }
    for (auto& p : pend) sig.err("bind", size_t(body), cc.bind(p.first));
    for (size_t i = 1; i < nv; i++) sig.err("sum", i, cc.add(v[0], v[0], v[i]));
    sig.err("ret", 0, cc.ret(v[0]));
    sig.err("end_func", 0, cc.end_func());
  }
}

enum : int { E_X86_ASM = 0, E_X86_BUILDER, E_X86_COMPILER, E_A64_ASM, E_A64_COMPILER, E_A64_BUILDER, E_COUNT };
static const char* const kEmitterNames[] = {"codegen_x86_assembler", "codegen_x86_builder", "codegen_x86_compiler", "codegen_a64_assembler", "codegen_a64_compiler", "codegen_a64_builder"};

struct GenKey { int emitter; uint64_t seed; int len; unsigned flags; };
static GenKey decode_gen(const vh::Op& op) {
  GenKey k;
  k.emitter = int(u(arg(op, 2)) % E_COUNT);
  k.seed = u(arg(op, 3));
  k.len = int(std::min<int64_t>(400, std::max<int64_t>(1, arg(op, 4))));
  k.flags = unsigned(u(arg(op, 5)) & 7);
  return k;
}

// flags: 1 attach a StringLogger (text is part of the result), 2 machine-code annotations in the log, 4 strict validation
static Sig generate(const GenKey& k) {
  Sig sig;
  Prng r(k.seed * 31 + uint64_t(k.emitter));
  CodeHolder code;
  bool x86_ = k.emitter <= E_X86_COMPILER;
  Environment env(x86_ ? Arch::kX64 : Arch::kAArch64);
  sig.err("init", 0, code.init(env));
  StringLogger logger;
  if (k.flags & 1) {
    if (k.flags & 2) logger.add_flags(FormatFlags::kMachineCode | FormatFlags::kHexImms);
    code.set_logger(&logger);
  }
  DiagnosticOptions diag = (k.flags & 4) ? DiagnosticOptions::kValidateAssembler | DiagnosticOptions::kValidateIntermediate : DiagnosticOptions::kNone;
  switch (k.emitter) {
    case E_X86_ASM: { x86::Assembler a(&code); a.add_diagnostic_options(diag); prog_x86_raw(a, code, r, k.len, sig, true); break; }
    case E_X86_BUILDER: { x86::Builder b(&code); b.add_diagnostic_options(diag); prog_x86_raw(b, code, r, k.len, sig, false); sig.err("finalize", 0, b.finalize()); break; }
    case E_X86_COMPILER: { x86::Compiler cc(&code); cc.add_diagnostic_options(diag); prog_x86_compiler(cc, r, k.len, sig); sig.err("finalize", 0, cc.finalize()); break; }
    case E_A64_ASM: { a64::Assembler a(&code); a.add_diagnostic_options(diag); prog_a64_raw(a, code, r, k.len, sig, true); break; }
    case E_A64_COMPILER: { a64::Compiler cc(&code); cc.add_diagnostic_options(diag); prog_a64_compiler(cc, r, k.len, sig); sig.err("finalize", 0, cc.finalize()); break; }
    default: { a64::Builder b(&code); b.add_diagnostic_options(diag); prog_a64_raw(b, code, r, k.len, sig, false); sig.err("finalize", 0, b.finalize()); break; }
  }
  finish_code(code, sig, (k.flags & 1) ? &logger : nullptr);
  return sig;
}

struct CodegenThread : ThreadBase {
  std::vector<const std::string*> refs;   // reference result per script position (null for yield ops)
  size_t next = 0;
  uint64_t bytes_total = 0;

  void main() {
    run_script(*this, [this](const vh::Op& op, int) {
      // position of this op in the script == number of non-yield ops seen so far
      const std::string* ref = refs[next++];
      GenKey k = decode_gen(op);
      Sig got;
      { Inside in(*this); got = generate(k); }
      bytes_total += got.text.size();
      if (got.text != *ref) {
        size_t i = 0; while (i < got.text.size() && i < ref->size() && got.text[i] == (*ref)[i]) i++;
        fail_unless_known("codegen-differs-from-single-threaded", "%s seed %llu length %d flags %u: result differs from the same program generated alone (size %zu vs %zu, first difference at byte %zu)",
                          kEmitterNames[k.emitter], (unsigned long long)k.seed, k.len, k.flags, got.text.size(), ref->size(), i);
      }
      cls(kEmitterNames[k.emitter]);
      if (got.errors) cls("codegen_program_with_rejected_instructions");
      if (k.flags & 1) cls("codegen_with_logger");
      if (k.flags & 4) cls("codegen_with_validation");
    });
    sh->b_audit.wait();
    sh->b_release.wait();
    sh->b_done.wait();
  }
};

static void run_mode_codegen(const vh::Case& c, vh::Ctx& ctx) {
  uint32_t n = thread_count(c);
  ctx.cls("mode_C_codegen");
  Shared sh;
  sh.opts = ctx.opts;
  sh.nthreads = n;
  sh.b_start.n = sh.b_audit.n = sh.b_release.n = sh.b_done.n = n + 1;
  std::vector<std::unique_ptr<CodegenThread>> ths;
  for (uint32_t i = 0; i < n; i++) { ths.emplace_back(new CodegenThread()); ths.back()->sh = &sh; ths.back()->id = i; }
  distribute(c, ths);
  // reference: every program generated alone, on this thread, before any worker exists
  std::vector<std::vector<std::string>> refs(n);
  size_t programs = 0;
  for (uint32_t i = 0; i < n; i++) {
    for (const vh::Op* op : ths[i]->script) {
      if (int(u(arg(*op, 1)) % K_COUNT) == K_YIELD) continue;
      refs[i].push_back(generate(decode_gen(*op)).text);
      programs++;
      if (getenv("C11_DUMP")) {   // debugging aid: what the program looks like (errors, sizes, log)
        GenKey k = decode_gen(*op);
        const std::string& t = refs[i].back();
        fprintf(stderr, "== %s seed %llu len %d flags %u: %zu result bytes\n", kEmitterNames[k.emitter], (unsigned long long)k.seed, k.len, k.flags, t.size());
        for (size_t a = 0; a < t.size(); a++) if (t[a] == '[' || t[a] == '{') { size_t b = a; while (b < t.size() && b < a + 60 && t[b] != ']' && t[b] != '}') b++; if (b < t.size() && (t[b] == ']' || t[b] == '}')) { fwrite(&t[a], 1, b - a + 1, stderr); fputc(' ', stderr); } }
        fputc('\n', stderr);
        size_t lp = t.find("{log}");
        if (lp != std::string::npos && getenv("C11_DUMP")[0] == '2') fwrite(&t[lp + 5], 1, t.size() - lp - 5, stderr);
      }
    }
    for (auto& s : refs[i]) ths[i]->refs.push_back(&s);
  }
  std::vector<std::thread> threads;
  for (uint32_t i = 0; i < n; i++) threads.emplace_back([&ths, i] { ths[i]->main(); });
  sh.b_start.wait();
  sh.b_audit.wait_watchdog("audit");
  sh.b_release.wait();
  sh.b_done.wait_watchdog("end");
  for (auto& th : threads) th.join();
  // the reference itself must be reproducible (otherwise a difference says nothing about threads)
  for (uint32_t i = 0; i < n; i++) {
    size_t j = 0;
    for (const vh::Op* op : ths[i]->script) {
      if (int(u(arg(*op, 1)) % K_COUNT) == K_YIELD) continue;
      GenKey k = decode_gen(*op);
      if ((j + i) % 4 == 0) {
        std::string again = generate(k).text;
        VH_CHECK(ctx, again == refs[i][j], "codegen-not-reproducible-single-threaded", "%s seed %llu length %d flags %u: two single-threaded generations differ", kEmitterNames[k.emitter], (unsigned long long)k.seed, k.len, k.flags);
      }
      j++;
    }
  }
  std::string sample;
  if (ctx.want_sample()) {
    char b[160];
    uint64_t bytes = 0; for (auto& t : ths) bytes += t->bytes_total;
    snprintf(b, sizeof b, "mode C, %u threads, %zu programs, %llu result bytes compared", n, programs, (unsigned long long)bytes);
    sample = b;
  }
  report_threads(ctx, M_CODEGEN, ths, ctx.want_sample() ? &sample : nullptr);
  if (!sample.empty()) ctx.sample(sample);
}

} // namespace

//@@MODE_COLD@@
// ====================================================================================================================
// Cold start (cfg[0] == 3): the FIRST use of the library in a process, made by N threads at once.
//
// The lazily initialised process-wide state (CpuInfo::host(), VirtMem::info(), large-page size, anonymous-memory strategy /
// memfd probes, hardened-runtime detection) can only be raced once per process, and the worker process initialises all of it
// on its main thread (host_init) for the modes A-C. A cold-start case is therefore executed in a FRESH process: the worker
// re-executes its own binary (/proc/self/exe --coldstart=<scenario>; fork alone would inherit the initialised statics).
// In the child N threads are released together and every thread performs, as its very first library action, its generated
// operation(s). After all threads were joined the child repeats every operation single-threaded and compares:
//   * every observation made by a thread must equal the observation of the same operation made alone (key coldstart-differs:<op>)
//   * and must be sane (key coldstart-insane:<op>): host arch known, CPU features non-empty, page size > 0 ...
//   * the child is this same ThreadSanitizer build: a report ends it with exit code 97 (key coldstart-race:<global or function>)
// The parent decides nothing but "what did the child say": the scenario is a pure function of the Case.
//
// Case: cfg = [3, nthreads, -]   ops = [thread, operation, a, b, spin]   (at most kColdMaxOpsPerThread ops per thread, in order;
//   spin = start staggering in units of 4 PAUSE instructions, executed before the operation; no clock anywhere)
// ====================================================================================================================
#include <fcntl.h>
#include <signal.h>
#include <sys/mman.h>
#include <sys/wait.h>
#include <unistd.h>

extern char** environ;

namespace {

enum : int { M_COLD = 3 };
enum : int { C_CPUINFO = 0, C_RUNTIME, C_VMINFO, C_LARGEPAGE, C_ALLOCATOR, C_RT_ADD, C_ENVHOST, C_HARDENED, C_DUALMAP, C_COUNT };
static const char* const kColdNames[C_COUNT] = {"cpuinfo", "runtime", "vminfo", "large_page_size", "allocator", "rt_add", "env_host", "hardened_runtime", "dual_mapping"};
constexpr size_t kColdMaxOpsPerThread = 4;
constexpr uint32_t kColdMaxSpin = 2047;

struct ColdOp { uint32_t thread = 0; int op = 0; uint32_t a = 0, b = 0, spin = 0; };
struct ColdScenario { uint32_t n = 2; std::vector<ColdOp> ops; };

static bool is_cold_case(const vh::Case& c) { return !c.cfg.empty() && c.cfg[0] == M_COLD; }

static ColdScenario decode_cold(const vh::Case& c) {
  ColdScenario sc;
  sc.n = thread_count(c);
  std::vector<size_t> per(sc.n, 0);
  for (const vh::Op& op : c.ops) {
    if (op.size() < 2) continue;
    ColdOp o;
    o.thread = uint32_t(u(op[0]) % sc.n);
    o.op = int(u(op[1]) % C_COUNT);
    o.a = uint32_t(u(arg(op, 2)) & 0xFFFF);
    o.b = uint32_t(u(arg(op, 3)) & 0xFFFF);
    o.spin = uint32_t(u(arg(op, 4)) % (kColdMaxSpin + 1));
    if (per[o.thread] >= kColdMaxOpsPerThread) continue;
    per[o.thread]++;
    sc.ops.push_back(o);
  }
  return sc;
}

static std::string encode_cold(const ColdScenario& sc) {
  std::string s = std::to_string(sc.n);
  for (const ColdOp& o : sc.ops) {
    char b[96];
    snprintf(b, sizeof b, ":%u,%d,%u,%u,%u", o.thread, o.op, o.a, o.b, o.spin);
    s += b;
  }
  return s;
}

static ColdScenario parse_cold(const std::string& text) {
  ColdScenario sc;
  size_t p = 0;
  auto num = [&]() -> uint64_t { uint64_t v = 0; while (p < text.size() && text[p] >= '0' && text[p] <= '9') v = v * 10 + uint64_t(text[p++] - '0'); return v; };
  sc.n = uint32_t(std::min<uint64_t>(16, std::max<uint64_t>(2, num())));
  while (p < text.size() && text[p] == ':') {
    p++;
    uint64_t v[5] = {0, 0, 0, 0, 0};
    for (int i = 0; i < 5; i++) { v[i] = num(); if (i < 4 && p < text.size() && text[p] == ',') p++; }
    ColdOp o;
    o.thread = uint32_t(v[0] % sc.n); o.op = int(v[1] % C_COUNT); o.a = uint32_t(v[2] & 0xFFFF); o.b = uint32_t(v[3] & 0xFFFF); o.spin = uint32_t(v[4] % (kColdMaxSpin + 1));
    sc.ops.push_back(o);
  }
  return sc;
}

// ---- the operations (child process only) ------------------------------------------------------------------------------
static void appendf(std::string& s, const char* fmt, ...) __attribute__((format(printf, 2, 3)));
static void appendf(std::string& s, const char* fmt, ...) {
  char b[512];
  va_list ap; va_start(ap, fmt); vsnprintf(b, sizeof b, fmt, ap); va_end(ap);
  s += b;
}

static unsigned feature_count(const CpuFeatures& f) {
  unsigned n = 0;
  CpuFeatures::Iterator it = f.iterator();
  while (it.has_next()) { (void)it.next(); n++; }
  return n;
}

static void append_features(std::string& s, const CpuFeatures& f) {
  appendf(s, " nfeatures=%u features=", feature_count(f));
  const uint8_t* p = reinterpret_cast<const uint8_t*>(&f);
  for (size_t i = 0; i < sizeof(CpuFeatures); i++) appendf(s, "%02x", p[i]);
}

static void append_env(std::string& s, const Environment& e) {
  appendf(s, " env{arch=%u sub_arch=%u vendor=%u platform=%u abi=%u object_format=%u packed=%llx}", unsigned(e.arch()), unsigned(e.sub_arch()), unsigned(e.vendor()),
          unsigned(e.platform()), unsigned(e.platform_abi()), unsigned(e.object_format()), (unsigned long long)e._packed());
}

static bool pow2(uint64_t v) { return v && !(v & (v - 1)); }

static JitAllocator::CreateParams cold_params(uint32_t a, uint32_t b) {
  JitAllocator::CreateParams p;
  JitAllocatorOptions o = JitAllocatorOptions::kNone;
  if (a & O_DUAL) o |= JitAllocatorOptions::kUseDualMapping;
  if (a & O_MULTI) o |= JitAllocatorOptions::kUseMultiplePools;
  if (a & O_FILL) o |= JitAllocatorOptions::kFillUnusedMemory;
  if (a & O_IMMEDIATE) o |= JitAllocatorOptions::kImmediateRelease;
  if (a & O_LARGE) o |= JitAllocatorOptions::kUseLargePages;
  if (a & O_CUSTOM) o |= JitAllocatorOptions::kCustomFillPattern;
  if ((a & O_LARGE) && (a & 0x40)) o |= JitAllocatorOptions::kAlignBlockSizeToLargePage;   // really tries a large-page mapping (falls back to regular pages)
  p.options = o;
  p.block_size = kBlockSel[b % 4];
  p.granularity = kGranSel[(b / 4) % 4];
  p.fill_pattern = 0x0BADC0DEu;
  return p;
}

// Performs one operation and renders everything a caller can observe (no addresses). `bad` receives the first sanity complaint.
static std::string cold_observe(const ColdOp& o, std::string& bad) {
  std::string s;
  auto insane = [&](const char* what) { if (bad.empty()) bad = what; };
  switch (o.op) {
    case C_CPUINFO: {
      CpuInfo ci = CpuInfo::host();                       // what a caller copying the host information obtains
      appendf(s, "arch=%u sub_arch=%u was_detected=%d vendor='%.16s' brand='%.64s' family=%u model=%u brand_id=%u stepping=%u processor_type=%u max_logical=%u cache_line=%u hw_threads=%u hints=%x",
              unsigned(ci.arch()), unsigned(ci.sub_arch()), int(ci.was_detected()), ci.vendor(), ci.brand(), ci.family_id(), ci.model_id(), ci.brand_id(), ci.stepping(),
              ci.processor_type(), ci.max_logical_processors(), ci.cache_line_size(), ci.hw_thread_count(), unsigned(ci.hints()));
      append_features(s, ci.features());
      if (ci.arch() != Arch::kHost) insane("CpuInfo::host().arch() is not the host architecture");
      else if (feature_count(ci.features()) == 0) insane("CpuInfo::host().features() is empty");
      else if (ci.hw_thread_count() == 0) insane("CpuInfo::host().hw_thread_count() is 0");
      else if (ci.vendor()[0] == 0) insane("CpuInfo::host().vendor() is empty");
      break;
    }
    case C_RUNTIME: {
      JitAllocator::CreateParams p = cold_params(o.a & ~uint32_t(O_LARGE), o.b);
      std::unique_ptr<JitRuntime> rt((o.a & 0x100) ? new JitRuntime(&p) : new JitRuntime());
      appendf(s, "%s hints=%x", (o.a & 0x100) ? "JitRuntime(params)" : "JitRuntime()", unsigned(rt->cpu_hints()));
      append_features(s, rt->cpu_features());
      append_env(s, rt->environment());
      appendf(s, " allocator{options=%x granularity=%u block_size=%u}", unsigned(rt->allocator().options()), rt->allocator().granularity(), rt->allocator().block_size());
      if (rt->arch() != Arch::kHost) insane("JitRuntime::arch() is not the host architecture");
      else if (feature_count(rt->cpu_features()) == 0) insane("JitRuntime::cpu_features() is empty");
      else if (rt->environment().object_format() != ObjectFormat::kJIT) insane("JitRuntime::environment().object_format() is not kJIT");
      else if (!pow2(rt->allocator().granularity()) || rt->allocator().block_size() == 0) insane("JitRuntime's allocator has no granularity / block size");
      break;
    }
    case C_VMINFO: {
      VirtMem::Info vi = VirtMem::info();
      appendf(s, "page_size=%u page_granularity=%u", vi.page_size, vi.page_granularity);
      if (!pow2(vi.page_size) || long(vi.page_size) != sysconf(_SC_PAGESIZE)) insane("VirtMem::info().page_size is not the system page size");
      else if (!pow2(vi.page_granularity) || vi.page_granularity < vi.page_size) insane("VirtMem::info().page_granularity is not a power of two >= page_size");
      break;
    }
    case C_LARGEPAGE: {
      size_t lp = VirtMem::large_page_size();
      appendf(s, "large_page_size=%zu", lp);
      if (lp != 0 && (!pow2(lp) || long(lp) <= sysconf(_SC_PAGESIZE))) insane("VirtMem::large_page_size() is neither 0 nor a power of two above the page size");
      break;
    }
    case C_ALLOCATOR: {
      JitAllocator::CreateParams p = cold_params(o.a, o.b);
      JitAllocator A(&p);
      size_t req = 1 + size_t(o.b >> 4);
      uint32_t G = A.granularity();
      appendf(s, "options=%x granularity=%u block_size=%u fill_pattern=%08x alloc(%zu)", unsigned(A.options()), G, A.block_size(), A.fill_pattern(), req);
      if (!pow2(G) || A.block_size() == 0) { insane("JitAllocator has no granularity / block size"); break; }
      Span sp;
      Error e = A.alloc(Out(sp), req);
      appendf(s, " error=%u", unsigned(e));
      if (e != Error::kOk) { if (!(o.a & O_DUAL)) insane("JitAllocator::alloc failed (no dual mapping requested)"); break; }
      bool dual = sp.rw() != sp.rx();
      appendf(s, " size=%zu dual_views=%d", sp.size(), int(dual));
      if (!sp.rx() || !sp.rw() || sp.size() != align_up(req, G)) insane("JitAllocator::alloc returned a null / wrongly sized span");
      if (dual != ((o.a & O_DUAL) != 0)) insane("rw()/rx() views do not match kUseDualMapping");
      if (o.a & O_FILL) {
        bool filled = true;
        uint32_t pat = A.fill_pattern();
        const uint8_t* m = static_cast<const uint8_t*>(sp.rx());
        for (size_t i = 0; i < sp.size(); i++) if (m[i] != reinterpret_cast<const uint8_t*>(&pat)[(uintptr_t(m) + i) & 3]) filled = false;
        appendf(s, " fresh_span_filled=%d", int(filled));
        if (!filled) insane("fresh span is not filled with the fill pattern (kFillUnusedMemory)");
      }
      std::vector<uint8_t> buf(sp.size());
      gen_bytes(buf.data(), buf.size(), (uint64_t(o.a) << 16) | o.b);
      Error we = A.write(sp, 0, buf.data(), buf.size());
      bool same = we == Error::kOk && memcmp(sp.rx(), buf.data(), buf.size()) == 0;
      Stats st = A.statistics();
      appendf(s, " write_error=%u readback=%d allocations=%zu blocks=%zu", unsigned(we), int(same), st.allocation_count(), st.block_count());
      if (!same) insane("bytes written through JitAllocator::write are not visible through rx()");
      if (st.allocation_count() != 1 || st.block_count() != 1) insane("statistics() of a private allocator with one span is not 1 allocation / 1 block");
      Error re = A.release(sp.rx());
      appendf(s, " release_error=%u allocations_after=%zu", unsigned(re), A.statistics().allocation_count());
      if (re != Error::kOk || A.statistics().allocation_count() != 0) insane("JitAllocator::release failed");
      break;
    }
    case C_RT_ADD: {
      JitRuntime rt;
      int value = int(o.a) * 3 - 70000;
      int shape = int(o.b % 3);
      CodeHolder code;
      Error ie = code.init(rt.environment(), rt.cpu_features());
      appendf(s, "shape=%d init_error=%u", shape, unsigned(ie));
      append_features(s, rt.cpu_features());
      if (feature_count(rt.cpu_features()) == 0) insane("JitRuntime::cpu_features() is empty");
      if (ie != Error::kOk) { insane("CodeHolder::init(rt.environment(), rt.cpu_features()) failed"); break; }
      Error ge = Error::kOk;
      if (shape == 2) {
        x86::Compiler cc(&code);
        cc.add_func(FuncSignature::build<int>());
        x86::Gp a = cc.new_gp32("a"), b = cc.new_gp32("b");
        x86::Vec v = cc.new_xmm("v");
        cc.mov(a, value - 5);
        cc.mov(b, 5);
        cc.movd(v, b);
        cc.paddd(v, v);
        cc.movd(b, v);
        cc.add(a, b);
        cc.sub(a, 5);
        cc.ret(a);
        cc.end_func();
        ge = cc.finalize();
      } else {
        x86::Assembler a(&code);
        if (shape == 0) { a.mov(x86::eax, value); ge = a.ret(); }
        else { a.mov(x86::eax, int32_t(uint32_t(value) ^ 0x5A5A5A5Au)); a.xor_(x86::eax, int32_t(0x5A5A5A5A)); ge = a.ret(); }
      }
      const Section* text = code.text_section();
      appendf(s, " codegen_error=%u code_size=%zu code_hash=%016llx", unsigned(ge), code.code_size(), (unsigned long long)vh::fnv1a(text->data(), text->buffer_size()));
      if (ge != Error::kOk) { insane("generating a tiny function failed"); break; }
      void* fn = nullptr;
      Error ae = rt.add(&fn, &code);
      appendf(s, " add_error=%u", unsigned(ae));
      if (ae != Error::kOk || !fn) { insane("JitRuntime::add failed"); break; }
      int got = reinterpret_cast<int (*)(void)>(fn)();
      Error re = rt.release(fn);
      appendf(s, " returned=%d release_error=%u", got, unsigned(re));
      if (got != value) insane("the function added through JitRuntime::add returned a wrong value");
      if (re != Error::kOk) insane("JitRuntime::release failed");
      break;
    }
    case C_ENVHOST: {
      Environment e = Environment::host();
      append_env(s, e);
      if (e.arch() != Arch::kHost) insane("Environment::host().arch() is not the host architecture");
      break;
    }
    case C_HARDENED: {
      VirtMem::HardenedRuntimeInfo hi = VirtMem::hardened_runtime_info();
      appendf(s, "hardened_runtime_flags=%x", unsigned(hi.flags));
      break;
    }
    default: {
      size_t size = size_t(65536) << (o.a % 3);
      VirtMem::DualMapping dm{};
      Error e = VirtMem::alloc_dual_mapping(Out(dm), size, VirtMem::MemoryFlags::kAccessRWX);
      appendf(s, "alloc_dual_mapping(%zu) error=%u", size, unsigned(e));
      if (e != Error::kOk) break;                         // not available in this environment: must simply be the same answer alone
      bool distinct = dm.rx && dm.rw && dm.rx != dm.rw;
      bool visible = false;
      if (distinct) {
        uint8_t pat[64];
        gen_bytes(pat, sizeof pat, o.a * 977u + o.b);
        memcpy(static_cast<uint8_t*>(dm.rw) + (o.b % 1000) * 64, pat, sizeof pat);
        visible = memcmp(static_cast<const uint8_t*>(dm.rx) + (o.b % 1000) * 64, pat, sizeof pat) == 0;
      }
      Error re = VirtMem::release_dual_mapping(dm, size);
      appendf(s, " distinct_views=%d write_visible_through_rx=%d release_error=%u", int(distinct), int(visible), unsigned(re));
      if (!distinct) insane("alloc_dual_mapping returned null or identical views");
      else if (!visible) insane("bytes written through the rw view are not visible through the rx view");
      if (re != Error::kOk) insane("release_dual_mapping failed");
      break;
    }
  }
  return s;
}

struct ColdThread {
  std::vector<ColdOp> script;
  std::vector<std::string> obs, bad;
  int max_inside = 0;
};

// The child process: never returns. Nothing of AsmJit has been touched when the threads are released.
[[noreturn]] static void cold_child_main(const std::string& text) {
  alarm(150);                                             // safety net only: a hang ends the child with SIGALRM
  ColdScenario sc = parse_cold(text);
  std::vector<ColdThread> ths(sc.n);
  for (const ColdOp& o : sc.ops) if (ths[o.thread].script.size() < kColdMaxOpsPerThread) ths[o.thread].script.push_back(o);
  for (ColdThread& t : ths) { t.obs.resize(t.script.size()); t.bad.resize(t.script.size()); for (auto& x : t.obs) x.reserve(1024); }

  std::atomic<uint32_t> ready{0};
  std::atomic<bool> go{false};
  std::atomic<int> inside{0};
  std::vector<std::thread> threads;
  for (uint32_t i = 0; i < sc.n; i++) {
    threads.emplace_back([&, i] {
      ColdThread& t = ths[i];
      ready.fetch_add(1, std::memory_order_acq_rel);
      unsigned spins = 0;
      while (!go.load(std::memory_order_acquire)) { if (++spins > 20000) { sched_yield(); spins = 0; } }
      for (size_t k = 0; k < t.script.size(); k++) {
        for (uint32_t j = 0; j < t.script[k].spin * 4; j++) __builtin_ia32_pause();
        int v = inside.fetch_add(1, std::memory_order_relaxed) + 1;
        if (v > t.max_inside) t.max_inside = v;
        t.obs[k] = cold_observe(t.script[k], t.bad[k]);
        inside.fetch_sub(1, std::memory_order_relaxed);
      }
    });
  }
  { unsigned spins = 0; while (ready.load(std::memory_order_acquire) != sc.n) { if (++spins > 2000) { sched_yield(); spins = 0; } } }
  go.store(true, std::memory_order_release);
  for (std::thread& th : threads) th.join();

  // ---- every operation again, alone (everything is initialised by now) ----
  std::string fail_key, fail_msg;
  int max_inside = 0;
  uint32_t active = 0;
  for (uint32_t i = 0; i < sc.n; i++) {
    ColdThread& t = ths[i];
    max_inside = std::max(max_inside, t.max_inside);
    if (!t.script.empty()) active++;
    for (size_t k = 0; k < t.script.size(); k++) {
      std::string ref_bad;
      std::string ref = cold_observe(t.script[k], ref_bad);
      const char* name = kColdNames[t.script[k].op];
      if (!fail_key.empty()) continue;
      char head[160];
      snprintf(head, sizeof head, "[cold start, thread %u of %u, its operation #%zu %s%s] ", i, sc.n, k, name, k == 0 ? " = first library action of the thread" : "");
      if (t.obs[k] != ref) {
        fail_key = std::string("coldstart-differs:") + name;
        fail_msg = std::string(head) + "observed while the threads started together: {" + t.obs[k] + "} -- the same operation alone afterwards in the same process: {" + ref + "}";
      } else if (!t.bad[k].empty()) {
        fail_key = std::string("coldstart-insane:") + name;
        fail_msg = std::string(head) + t.bad[k] + ": {" + t.obs[k] + "}";
      } else if (!ref_bad.empty()) {
        fail_key = std::string("coldstart-insane:") + name;
        fail_msg = std::string(head) + "(single-threaded repetition) " + ref_bad + ": {" + ref + "}";
      }
    }
  }
  printf("COLD-CLS coldstart_max_simultaneously_inside_%s 1\n", max_inside >= 9 ? "9_16" : max_inside >= 5 ? "5_8" : max_inside >= 3 ? "3_4" : max_inside == 2 ? "2" : "0_1");
  if (max_inside >= 2) printf("COLD-CLS coldstart_overlap_cases_two_or_more_threads_inside_operations 1\n");
  printf("COLD-ACTIVE %u\n", active);
  if (fail_key.empty()) printf("COLD-OK\n");
  else {
    for (char& ch : fail_msg) if (ch == '\n' || ch == '\t' || ch == '\r') ch = ' ';
    printf("COLD-FAIL %s\t%s\n", fail_key.c_str(), fail_msg.c_str());
  }
  fflush(stdout);
  _exit(fail_key.empty() ? 0 : 1);
}

// ---- the parent side ----------------------------------------------------------------------------------------------------
struct ChildResult { int status = 0; bool spawned = false; std::string out, err; };

static std::string slurp_fd(int fd, size_t cap) {
  std::string s;
  if (fd < 0 || lseek(fd, 0, SEEK_SET) < 0) return s;
  char b[8192];
  ssize_t n;
  while (s.size() < cap && (n = read(fd, b, sizeof b)) > 0) s.append(b, size_t(n));
  return s;
}

static ChildResult spawn_cold_child(const std::string& scenario, const std::string& suppressions) {
  ChildResult r;
  int fd_out = memfd_create("c11-cold-out", 0), fd_err = memfd_create("c11-cold-err", 0), fd_sup = -1;
  std::string tsan;
  if (const char* e = getenv("TSAN_OPTIONS")) { tsan = e; tsan += ":"; }
  // halt_on_error=0: the child finishes its comparison after a report (a wrong observation is the more specific failure); its
  // exit code is still 97 when anything was reported
  tsan += "exitcode=97:halt_on_error=0:history_size=7:print_suppressions=1";
  if (!suppressions.empty()) {
    fd_sup = memfd_create("c11-cold-supp", 0);
    if (fd_sup >= 0 && write(fd_sup, suppressions.data(), suppressions.size()) == ssize_t(suppressions.size())) {
      char b[64]; snprintf(b, sizeof b, ":suppressions=/proc/self/fd/%d", fd_sup);
      tsan += b;
    }
  }
  std::vector<std::string> env_store;
  for (char** e = environ; e && *e; e++) if (strncmp(*e, "TSAN_OPTIONS=", 13) != 0) env_store.emplace_back(*e);
  env_store.push_back("TSAN_OPTIONS=" + tsan);
  std::vector<char*> envp;
  for (std::string& s : env_store) envp.push_back(&s[0]);
  envp.push_back(nullptr);
  std::string a0 = "/proc/self/exe", a1 = "--coldstart=" + scenario;
  char* argv[] = {&a0[0], &a1[0], nullptr};
  if (fd_out < 0 || fd_err < 0) { r.err = "memfd_create failed"; if (fd_out >= 0) close(fd_out); if (fd_err >= 0) close(fd_err); if (fd_sup >= 0) close(fd_sup); return r; }
  fflush(stdout); fflush(stderr);
  pid_t pid = fork();
  for (int attempt = 0; pid < 0 && attempt < 5; attempt++) { sched_yield(); pid = fork(); }   // EAGAIN on a busy machine
  if (pid == 0) {
    dup2(fd_out, 1);
    dup2(fd_err, 2);
    execve("/proc/self/exe", argv, envp.data());
    _exit(127);
  }
  if (pid > 0) {
    r.spawned = true;
    while (waitpid(pid, &r.status, 0) < 0 && errno == EINTR) {}
    r.out = slurp_fd(fd_out, 1 << 20);
    r.err = slurp_fd(fd_err, 1 << 20);
  } else r.err = std::string("fork failed: ") + strerror(errno);
  close(fd_out); close(fd_err); if (fd_sup >= 0) close(fd_sup);
  return r;
}

// A ThreadSanitizer report of the child: key "coldstart-race:<global>" (or <first AsmJit function in the report>), short rendering.
static void classify_tsan(const std::string& err, std::string* key, std::string* brief) {
  std::string what;
  size_t g = err.find("Location is global '");
  if (g != std::string::npos) {
    size_t a = g + 20, b = err.find('\'', a);
    std::string name = err.substr(a, b == std::string::npos ? 0 : b - a);
    size_t sp = name.find(' ');                                     // "vm_info (.0)": a compiler-split piece of the global
    if (sp != std::string::npos) name.resize(sp);
    size_t c = name.rfind("::");
    what = c == std::string::npos ? name : name.substr(c + 2);
  }
  if (what.empty()) {
    size_t a = err.find(" asmjit::");
    if (a != std::string::npos) { a++; size_t b = a; while (b < err.size() && (isalnum((unsigned char)err[b]) || err[b] == ':' || err[b] == '_')) b++; what = err.substr(a, b - a); }
  }
  std::string k;
  for (char ch : what) k += (isalnum((unsigned char)ch) || ch == '_' || ch == ':') ? ch : '_';
  *key = k.empty() ? "coldstart-race" : "coldstart-race:" + k;
  // short rendering: headline, access lines, location and the first frames of every stack
  std::string out;
  size_t p = err.find("WARNING: ThreadSanitizer");
  if (p == std::string::npos) p = 0;
  int frames = 0;
  while (p < err.size() && out.size() < 1500) {
    size_t q = err.find('\n', p);
    if (q == std::string::npos) q = err.size();
    std::string line = err.substr(p, q - p);
    p = q + 1;
    size_t f = line.find_first_not_of(' ');
    if (f == std::string::npos) continue;
    std::string t = line.substr(f);
    if (t[0] == '#') {
      if (++frames > 3) continue;
      size_t m = t.find("+0x");                                     // drop " (module+0x...) (BuildId: ...)"
      if (m != std::string::npos) { size_t sp = t.rfind(" (", m); if (sp != std::string::npos) t = t.substr(0, sp); }
      size_t an; while ((an = t.find("(anonymous namespace)::")) != std::string::npos) t.erase(an, 23);
      size_t bs; while ((bs = t.find("std::__cxx11::basic_string<char, std::char_traits<char>, std::allocator<char> >")) != std::string::npos) t.replace(bs, 79, "std::string");
      out += " " + t;
      continue;
    }
    if (t.rfind("SUMMARY", 0) == 0) break;
    if (t.rfind("Thread T", 0) == 0 || t.rfind("As if synchronized", 0) == 0) { frames = 100; continue; }   // creation stacks: not shown
    if (t.rfind("====", 0) == 0) continue;
    frames = 0;
    out += (out.empty() ? "" : " | ") + t;
  }
  *brief = out;
}

static bool cold_reaches(const ColdOp& o, int what) {   // what: 0 CpuInfo::host, 1 VirtMem::info, 2 large_page_size, 3 anonymous-memory strategy, 4 hardened-runtime detection
  switch (what) {
    case 0: return o.op == C_CPUINFO || o.op == C_RUNTIME || o.op == C_RT_ADD;
    case 1: return o.op == C_VMINFO || o.op == C_ALLOCATOR || o.op == C_RUNTIME || o.op == C_RT_ADD;
    case 2: return o.op == C_LARGEPAGE || (o.op == C_ALLOCATOR && (o.a & O_LARGE) && !(o.a & O_DUAL));
    case 3: return o.op == C_DUALMAP || (o.op == C_ALLOCATOR && (o.a & O_DUAL));
    default: return o.op == C_HARDENED || o.op == C_ALLOCATOR || o.op == C_RUNTIME || o.op == C_RT_ADD || o.op == C_DUALMAP;
  }
}

static void run_mode_cold(const vh::Case& c, vh::Ctx& ctx) {
  ColdScenario sc = decode_cold(c);
  ctx.cls("coldstart_cases");
  char b[96];
  snprintf(b, sizeof b, "coldstart_threads_%02u", sc.n); ctx.cls(b);
  std::vector<const ColdOp*> first(sc.n, nullptr);
  std::vector<size_t> per(sc.n, 0);
  uint32_t opmask = 0, firstmask = 0;
  bool staggered = false;
  for (const ColdOp& o : sc.ops) {
    ctx.cls(std::string("coldstart_op_") + kColdNames[o.op]);
    opmask |= 1u << o.op;
    if (!first[o.thread]) { first[o.thread] = &o; firstmask |= 1u << o.op; ctx.cls(std::string("coldstart_first_action_") + kColdNames[o.op]); if (o.spin) staggered = true; }
    else ctx.cls("coldstart_follow_up_operations");
    per[o.thread]++;
  }
  uint32_t active = 0;
  for (uint32_t i = 0; i < sc.n; i++) if (per[i]) active++;
  ctx.cls(__builtin_popcount(firstmask) <= 1 ? "coldstart_mix_all_threads_same_first_action" : __builtin_popcount(firstmask) == 2 ? "coldstart_mix_two_first_actions" : "coldstart_mix_three_or_more_first_actions");
  ctx.cls(staggered ? "coldstart_start_staggered" : "coldstart_start_not_staggered");
  static const char* const kLazy[] = {"cpuinfo_host", "virtmem_info", "large_page_size", "anonymous_memory_strategy", "hardened_runtime"};
  for (int w = 0; w < 5; w++) {
    uint32_t k = 0;
    for (const ColdOp* o : first) if (o && cold_reaches(*o, w)) k++;
    if (k >= 2) { snprintf(b, sizeof b, "coldstart_first_use_of_%s_by_2_or_more_threads", kLazy[w]); ctx.cls(b); }
  }
  if (active == 0) { ctx.cls("coldstart_no_operations"); return; }

  // Known findings "coldstart-race:<name>": ThreadSanitizer's report about exactly that global / function is suppressed in the
  // child (the value oracle stays); the hits ThreadSanitizer prints at exit are counted as exclusions.
  std::string supp;
  std::vector<std::string> supp_names;
  if (ctx.opts) for (const std::string& k : ctx.opts->known) {
    if (k.rfind("coldstart-race:", 0) != 0 || k.find_first_of("*?[") != std::string::npos || k.size() <= 15) continue;
    supp += "race:" + k.substr(15) + "\n";
    supp_names.push_back(k.substr(15));
  }

  ChildResult r = spawn_cold_child(encode_cold(sc), supp);
  std::string scen;
  for (uint32_t i = 0; i < sc.n; i++) {
    snprintf(b, sizeof b, "%st%u", i ? " " : "", i); scen += b;
    for (const ColdOp& o : sc.ops) if (o.thread == i) { snprintf(b, sizeof b, ":%s%s", kColdNames[o.op], o.spin ? "~" : ""); scen += b; }
  }
  auto flat = [](std::string s, size_t cap) { if (s.size() > cap) s = s.substr(0, cap) + " ..."; for (char& ch : s) if (ch == '\n' || ch == '\r' || ch == '\t') ch = ' '; return s; };
  if (!r.spawned) ctx.fail("coldstart-spawn-failed", "could not start the cold-start child process: " + flat(r.err, 300));

  // suppression hits ("<n> race:<name>" lines printed by ThreadSanitizer at exit)
  for (const std::string& nm : supp_names) {
    size_t p = r.err.find(" race:" + nm + "\n");
    if (p == std::string::npos) continue;
    size_t a = r.err.rfind('\n', p);
    a = a == std::string::npos ? 0 : a + 1;
    if (atol(r.err.c_str() + a) > 0) ctx.known_excluded("coldstart-race:" + nm);
  }
  for (size_t p = 0; (p = r.out.find("COLD-CLS ", p)) != std::string::npos; p += 9) {
    if (p && r.out[p - 1] != '\n') continue;
    size_t e = r.out.find(' ', p + 9);
    if (e != std::string::npos && r.out.find('\n', p) > e) ctx.cls(r.out.substr(p + 9, e - p - 9), uint64_t(std::max(1L, atol(r.out.c_str() + e + 1))));
  }

  if (WIFSIGNALED(r.status)) {
    int sig = WTERMSIG(r.status);
    snprintf(b, sizeof b, "cold-start child (%u threads) was killed by signal %d%s; scenario ", sc.n, sig, sig == SIGALRM ? " (150 s watchdog: deadlock or livelock during first use?)" : "");
    ctx.fail_unless_known(sig == SIGALRM ? "coldstart-hang" : "coldstart-crash", b + scen + "; stderr: " + flat(r.err.size() > 1200 ? r.err.substr(r.err.size() - 1200) : r.err, 1300));
    return;
  }
  int code = WEXITSTATUS(r.status);
  bool tsan_report = r.err.find("WARNING: ThreadSanitizer") != std::string::npos;
  size_t fp = r.out.find("COLD-FAIL ");
  if (fp != std::string::npos && (fp == 0 || r.out[fp - 1] == '\n')) {
    size_t tab = r.out.find('\t', fp), nl = r.out.find('\n', fp);
    if (tab != std::string::npos && nl != std::string::npos && tab < nl) {
      std::string key = r.out.substr(fp + 10, tab - fp - 10), also;
      if (tsan_report) { std::string rk, brief; classify_tsan(r.err, &rk, &brief); also = " ; ThreadSanitizer in the same child (" + rk + "): " + flat(brief, 500); }
      if (!ctx.fail_unless_known(key, flat(r.out.substr(tab + 1, nl - tab - 1), 1500) + " ; scenario " + scen + also)) return;
    }
  }
  if (code == 97 || tsan_report) {
    std::string key, brief;
    classify_tsan(r.err, &key, &brief);
    snprintf(b, sizeof b, "cold-start child (%u threads) ended with exit code %d, ThreadSanitizer: ", sc.n, code);
    ctx.fail_unless_known(key, b + flat(brief, 1500) + " ; scenario " + scen);
    return;
  }
  if (fp != std::string::npos) return;   // a known semantic finding, nothing else to say
  if (code != 0 || r.out.find("COLD-OK\n") == std::string::npos) {
    snprintf(b, sizeof b, "cold-start child (%u threads) ended with exit code %d without a verdict; scenario ", sc.n, code);
    ctx.fail_unless_known("coldstart-crash", b + scen + "; stderr: " + flat(r.err.size() > 1200 ? r.err.substr(r.err.size() - 1200) : r.err, 1300));
    return;
  }
  snprintf(b, sizeof b, "coldstart_active_threads_%s", active >= 9 ? "9_16" : active >= 5 ? "5_8" : active >= 3 ? "3_4" : active == 2 ? "2" : "0_1"); ctx.cls(b);
  if (active >= 2) {
    // counted like ctx.nontrivial() (distinct = distinct case text), but the sweep runs first in every worker and must not use up
    // the evidence samples: two workers contribute one rendering each
    ctx.sub_nontrivial(vh::hash_str(c.to_text()));
    static bool sampled = false;
    if (!sampled && ctx.opts && ctx.opts->worker % 4 == 0 && ctx.samples.size() < ctx.max_samples) {
      sampled = true;
      snprintf(b, sizeof b, " | %u active, child verdict OK, exit code %d", active, code);
      ctx.samples.push_back("cold start in a fresh process, " + std::to_string(sc.n) + " threads released together: " + scen + b);
    }
  }
}

} // namespace

//@@MODE_SNAP@@
// ====================================================================================================================
// Statistics snapshots (cfg[0] == 4): statistics() and query() return ONE state of the allocator.
//
// Every public JitAllocator function is documented as thread-safe, and statistics() returns its five numbers in one object:
// a caller may relate them to each other (the allocator's own unit test and benchmark do). That is only meaningful when the
// object describes one moment, i.e. when statistics() is atomic with respect to alloc()/release() like every other entry point.
// The race detector cannot see a violation: a statistics() that takes the lock once per pool or per field has no unsynchronised
// access. So the oracle is a value oracle:
//   * W worker threads execute generated scripts (`rounds` times) that allocate and release spans of a FEW FIXED SIZES
//     (single pool: one size of k granules, or two sizes; kUseMultiplePools: sizes that fall into pools 0/1/2), in matched
//     groups (alloc a, alloc b, ..., release all) or freely; a worker holds at most L spans.
//   * The script of a worker is a pure function of the Case, so the sequence of (live spans, live bytes) pairs it walks through is
//     known before any thread starts. alloc()/release() are atomic, hence at every moment every worker is in ONE of its pairs and
//     an atomic statistics() can only return (allocation_count, used_size) = pinned + sum over workers of one pair each: the
//     Minkowski sum of the per-worker pair sets (computed exactly, a bit matrix). With one span size that is the line
//     used_size == allocation_count * k * granularity; with sizes 64/256 in groups it is nB <= nA, used == 64 nA + 256 nB ...
//   * Whatever a block adds to used_size (the initial padding granule unless kDisableInitialPadding), its reserved bytes and its
//     overhead are not assumed: they are MEASURED single-threaded on a twin allocator with the same CreateParams in the same
//     process (first span of each pool: delta of block_count / reserved_size / overhead_size / used_size), and the formulas are
//     then validated single-threaded (every worker's script once, alone, statistics() after every step must equal the model
//     exactly, key snap-model-single-threaded) before the threads start.
//   * Observer threads (1..4) call statistics() in a tight loop (generated count) from the same start barrier and check every
//     object: no block <=> nothing reserved / no overhead / nothing used / nothing allocated; reserved_size >= used_size and
//     >= block_count * (measured size of a first block); kImmediateRelease: block_count <= allocation_count; pools holding a
//     pinned span have a block; (block_count, reserved_size, overhead_size) is the sum of the measured values of a set S of
//     pools; and (allocation_count, (used_size - padding of S) / granularity) is a reachable pair. Workers check their own
//     statistics() calls the same way (plus: allocation_count >= own live spans).
//   * query(): the main thread pins up to three spans for the whole case; observers query them while blocks are created and
//     deleted around them and must get exactly the pinned rx/rw/size/block; workers query their own live spans.
// The numbers of iterations are generated; overlap is measured with relaxed counters (snapshots taken while workers were inside
// their scripts / while an alloc() or release() completed during the very call), never assumed, and decides nothing.
//
// Case: cfg = [4, workers, option_bits, block_size_sel, granularity_sel, observers, rounds, observer_iterations, size_table, pinned]
//   option_bits as in modes A/B (large pages are not used: block sizes must be reproducible) plus 64 = kDisableInitialPadding
//   workers 1..12, observers 1..4, rounds 1..2000, observer_iterations 1..40000, pinned: bit i = a span of size class i is pinned
// ops = [worker, kind, a]   kind 0/4 alloc(size class a), 1 release(a-th live span), 2 release every live span (a&1: LIFO),
//                            3 query(a-th live span), 5 statistics() by the worker itself, 6 yield
// ====================================================================================================================
namespace {

enum : int { M_SNAP = 4, KN_SNAP = 3 };
enum : uint32_t { O_NOPAD = 64 };
constexpr uint32_t kSnapMaxWorkers = 12, kSnapMaxObservers = 4, kSnapMaxLive = 6, kSnapMaxRounds = 2000, kSnapMaxIters = 40000;
constexpr unsigned kSnapMaxPools = 3;

// span sizes in units of the allocator granularity (0 ends the list)
static const uint8_t kSnapSingle[8][3] = {{1, 0, 0}, {2, 0, 0}, {3, 0, 0}, {5, 0, 0}, {1, 4, 0}, {2, 3, 0}, {1, 0, 0}, {4, 0, 0}};
static const uint8_t kSnapMulti[8][3] = {{1, 2, 4}, {1, 4, 0}, {3, 2, 4}, {1, 6, 8}, {1, 2, 0}, {2, 4, 0}, {3, 6, 12}, {1, 4, 0}};

static bool is_snap_case(const vh::Case& c) { return !c.cfg.empty() && c.cfg[0] == M_SNAP; }

// Set of (count, units) pairs as a bit matrix.
struct Reach {
  size_t maxc = 0, maxu = 0, words = 1;
  std::vector<uint64_t> bits;
  void init(size_t mc, size_t mu) { maxc = mc; maxu = mu; words = mu / 64 + 1; bits.assign((mc + 1) * words, 0); }
  bool get(size_t c, size_t n) const { return c <= maxc && n <= maxu && ((bits[c * words + n / 64] >> (n % 64)) & 1); }
  void set(size_t c, size_t n) { bits[c * words + n / 64] |= uint64_t(1) << (n % 64); }
  size_t size() const { size_t n = 0; for (size_t c = 0; c <= maxc; c++) for (size_t k = 0; k <= maxu; k++) n += get(c, k); return n; }
  // this := { a + p : a in this, p in pairs }
  void add(const std::vector<std::pair<uint32_t, uint32_t>>& pairs) {
    std::vector<uint64_t> next(bits.size(), 0);
    for (size_t c = 0; c <= maxc; c++) {
      const uint64_t* row = &bits[c * words];
      bool any = false;
      for (size_t i = 0; i < words && !any; i++) any = row[i] != 0;
      if (!any) continue;
      for (const auto& p : pairs) {
        if (c + p.first > maxc) continue;
        uint64_t* dst = &next[(c + p.first) * words];
        size_t ws = p.second / 64, bs = p.second % 64;
        for (size_t i = words; i-- > ws;) {
          uint64_t v = row[i - ws] << bs;
          if (bs && i - ws > 0) v |= row[i - ws - 1] >> (64 - bs);
          dst[i] |= v;
        }
      }
    }
    bits.swap(next);
  }
};

struct SnapClass { uint32_t units; int pool; };

struct SnapEnv {
  uint32_t G = 64, B0 = 65536;
  bool multi = false, immediate = false, nopad = false, dual = false;
  unsigned npools = 1, used_pools = 0;          // used_pools: bit p = some size class falls into pool p
  std::vector<SnapClass> classes;
  std::string sizes_text;
  uint32_t W = 1, OBS = 1, L = 1, rounds = 1, iters = 1, qevery = 1;
  // measured single-threaded on the twin allocator: what the first block of pool p adds
  size_t R1[kSnapMaxPools] = {}, O1[kSnapMaxPools] = {}, pad[kSnapMaxPools] = {};
  size_t Rmin = 0, pad_min = 0, pad_max = 0;
  Reach reach;
  std::vector<Span> pinned;
};

// The script interpreter shared by the model and by the worker threads: the same decisions from the same integers.
template<class Sink>
static void snap_interpret(const SnapEnv& e, const std::vector<const vh::Op*>& script, uint32_t rounds, Sink& sink) {
  size_t nlive = 0;
  for (uint32_t r = 0; r < rounds; r++) {
    for (const vh::Op* opp : script) {
      if (sink.s_stopped()) return;
      const vh::Op& op = *opp;
      int kind = int(u(arg(op, 1)) % K_COUNT);
      sink.s_kind(kind);
      switch (kind) {
        case K_ALLOC: case K_WRITE:
          if (nlive >= e.L) { sink.s_skip(); break; }
          sink.s_alloc(unsigned(u(arg(op, 2)) % e.classes.size()));
          nlive++;
          break;
        case K_RELEASE:
          if (!nlive) { sink.s_skip(); break; }
          sink.s_release(size_t(u(arg(op, 2)) % nlive));
          nlive--;
          break;
        case K_SHRINK:
          while (nlive) {
            if (sink.s_stopped()) return;
            sink.s_release((arg(op, 2) & 1) ? nlive - 1 : 0);
            nlive--;
          }
          break;
        case K_QUERY:
          if (!nlive) { sink.s_skip(); break; }
          sink.s_query(size_t(u(arg(op, 2)) % nlive));
          break;
        case K_STATS: sink.s_stats(); break;
        default: sink.s_yield(1 + unsigned(u(arg(op, 2)) % 3)); break;
      }
    }
  }
}

// The model of one worker: the (live spans, live units) pairs it walks through.
struct SnapModel {
  const SnapEnv& e;
  std::vector<uint32_t> live;                  // units of every live span, in allocation order
  uint32_t count = 0, units = 0, maxc = 0, maxu = 0;
  unsigned pool_mask = 0;
  uint64_t allocs = 0, releases = 0;
  std::set<std::pair<uint32_t, uint32_t>> pairs;
  explicit SnapModel(const SnapEnv& e_) : e(e_) { pairs.insert({0, 0}); }
  bool s_stopped() const { return false; }
  void s_kind(int) {}
  void s_skip() {}
  void note() { maxc = std::max(maxc, count); maxu = std::max(maxu, units); pairs.insert({count, units}); }
  void s_alloc(unsigned c) { live.push_back(e.classes[c].units); count++; units += e.classes[c].units; pool_mask |= 1u << e.classes[c].pool; allocs++; note(); }
  void s_release(size_t idx) { count--; units -= live[idx]; live.erase(live.begin() + ptrdiff_t(idx)); releases++; note(); }
  void s_query(size_t) {}
  void s_stats() {}
  void s_yield(unsigned) {}
};

struct SnapThread : ThreadBase {
  JitAllocator* A = nullptr;
  const SnapEnv* env = nullptr;
  bool observer = false;
  bool validate = false;                        // single-threaded reference run on the twin allocator
  unsigned pin_mask = 0;                        // pools that hold a pinned span of the allocator this thread works on
  size_t pin_count = 0, pin_units = 0;
  std::vector<Span> spans;                      // worker: live spans in allocation order
  size_t live_units = 0;
  uint64_t snaps = 0, snaps_workers_running = 0, snaps_during_mutation = 0, snaps_count_changed = 0, snaps_exact_structure = 0, snaps_other_structure = 0;
  uint64_t snaps_nonempty = 0, snaps_blocks_2plus = 0, snaps_no_block = 0, pinned_queries = 0;

  std::string describe(const Stats& st, const char* where) const {
    char b[320];
    snprintf(b, sizeof b, "%s: statistics() returned {allocation_count %zu, used_size %zu, block_count %zu, reserved_size %zu, overhead_size %zu} (granularity %u, %s, %s%s, spans of %s bytes, %u workers, %zu pinned spans)",
             where, st.allocation_count(), st.used_size(), st.block_count(), st.reserved_size(), st.overhead_size(), env->G,
             env->multi ? "multiple pools" : "one pool", env->nopad ? "no initial padding" : "initial padding", env->immediate ? ", immediate release" : "",
             env->sizes_text.c_str(), env->W, pin_count);
    return b;
  }

  // exact == nullptr: any state the workers can be in; otherwise the one (spans, units) state the allocator is in (nobody else runs)
  void check_snapshot(const Stats& st, const char* where, const std::pair<size_t, size_t>* exact, size_t own_count) {
    const SnapEnv& e = *env;
    size_t Bc = st.block_count(), cnt = st.allocation_count(), used = st.used_size(), res = st.reserved_size(), ovh = st.overhead_size();
    snaps++;
    if (cnt) snaps_nonempty++;
    if (Bc >= 2) snaps_blocks_2plus++;
    if (!Bc) snaps_no_block++;
    TCK((Bc == 0) == (res == 0) && (Bc == 0) == (ovh == 0) && (Bc != 0 || (used == 0 && cnt == 0)), "stat-snapshot-blocks",
        "%s: not one state of the allocator: no block <=> nothing reserved, no overhead, nothing used, nothing allocated", describe(st, where).c_str());
    TCK(res >= used && res >= Bc * e.Rmin, "stat-snapshot-reserved",
        "%s: not one state of the allocator: reserved_size must cover used_size and %zu blocks of at least %zu bytes", describe(st, where).c_str(), Bc, e.Rmin);
    TCK(cnt >= own_count + pin_count && (exact || cnt <= e.reach.maxc), "stat-allocation-count",
        "%s: allocation_count outside [%zu, %zu] (%zu spans of the calling thread + %zu pinned; all workers together never hold more)", describe(st, where).c_str(), own_count + pin_count, e.reach.maxc, own_count, pin_count);
    TCK(size_t(__builtin_popcount(pin_mask)) <= Bc, "stat-snapshot-blocks", "%s: fewer blocks than pools that hold a pinned span (%d)", describe(st, where).c_str(), __builtin_popcount(pin_mask));
    if (e.immediate)
      TCK(Bc <= cnt, "stat-snapshot-blocks", "%s: kImmediateRelease: an empty block is released inside release(), so one state never has more blocks than live spans", describe(st, where).c_str());
    // which pools have their (first) block, and does the rest describe a state the workers can be in?
    bool structure = false, ok = false;
    for (unsigned S = 0; S < (1u << e.npools) && !ok; S++) {
      if ((S & ~e.used_pools) || size_t(__builtin_popcount(S)) != Bc || (S & pin_mask) != pin_mask) continue;
      size_t R = 0, O = 0, P = 0;
      for (unsigned p = 0; p < e.npools; p++) if (S & (1u << p)) { R += e.R1[p]; O += e.O1[p]; P += e.pad[p]; }
      if (R != res || O != ovh) continue;
      structure = true;
      if (used < P || (used - P) % e.G) continue;
      size_t n = (used - P) / e.G;
      ok = exact ? (cnt == exact->first && n == exact->second) : e.reach.get(cnt, n);
    }
    if (structure) snaps_exact_structure++;
    else {
      // a second block in some pool (never expected: a worker holds at most L small spans) - only bounds on the padding are known
      snaps_other_structure++;
      for (size_t P = Bc * e.pad_min; P <= Bc * e.pad_max && !ok; P += e.G) {
        if (used < P || (used - P) % e.G) continue;
        size_t n = (used - P) / e.G;
        ok = exact ? (cnt == exact->first && n == exact->second) : e.reach.get(cnt, n);
      }
    }
    if (exact)
      TCK(ok, "stat-snapshot-count-vs-used", "%s: expected allocation_count %zu and used_size %zu + the padding of the blocks", describe(st, where).c_str(), exact->first, exact->second * e.G);
    else
      TCK(ok, "stat-snapshot-count-vs-used", "%s: no state the worker threads can be in explains allocation_count and used_size together (%zu reachable (spans, bytes) states) - the object is not an atomic snapshot of the allocator",
          describe(st, where).c_str(), e.reach.size());
  }

  void check_query(const Span& want, const char* where) {
    Span out;
    Error e;
    { Inside in(*this); e = A->query(Out(out), want.rx()); }
    TCK(e == Error::kOk, "query-live-failed", "%s: query(start of a live span) error %u", where, unsigned(e));
    if (e != Error::kOk) return;
    TCK(out.rx() == want.rx() && out.rw() == want.rw() && out._block == want._block, "query-wrong-pointer", "%s: query(start of a live span) returned other pointers (rx delta %td, rw delta %td, %s block)", where,
        (const uint8_t*)out.rx() - (const uint8_t*)want.rx(), (const uint8_t*)out.rw() - (const uint8_t*)want.rw(), out._block == want._block ? "same" : "another");
    TCK(out.size() == want.size(), "query-wrong-size", "%s: query(start of a live span) size %zu, the span has %zu bytes", where, out.size(), want.size());
  }

  void check_exact(const char* where) {
    std::pair<size_t, size_t> ex{spans.size() + pin_count, live_units + pin_units};
    Stats st = A->statistics();
    check_snapshot(st, where, &ex, spans.size());
  }

  // ---- sink of snap_interpret: the real thing ----
  bool s_stopped() const { return sh->stop.load(std::memory_order_relaxed); }
  void s_kind(int kind) { kinds[kind]++; }
  void s_skip() { cls("snap_op_skipped_cap_or_empty"); }
  void s_alloc(unsigned c) {
    const SnapEnv& e = *env;
    size_t size = size_t(e.classes[c].units) * e.G;
    Span s;
    Error err;
    { Inside in(*this); err = A->alloc(Out(s), size); }
    if (err != Error::kOk) failv("alloc-failed", "alloc(%zu) returned error %u (this thread: %zu live spans)", size, unsigned(err), spans.size());
    sh->mutations.fetch_add(1, std::memory_order_relaxed);
    TCK(s.rx() && s.rw() && s._block, "null-span", "alloc(%zu): rx %p rw %p block %p", size, s.rx(), s.rw(), s._block);
    TCK(s.size() == size, "size-not-granular", "alloc(%zu): span size %zu", size, s.size());
    TCK(uintptr_t(s.rx()) % e.G == 0 && uintptr_t(s.rw()) % e.G == 0, "misaligned", "alloc(%zu): rx %p rw %p not aligned to %u", size, s.rx(), s.rw(), e.G);
    TCK((s.rx() != s.rw()) == e.dual, "views-not-distinct", "alloc(%zu): rx %p rw %p with%s dual mapping", size, s.rx(), s.rw(), e.dual ? "" : "out");
    for (const Span& o : spans)
      TCK(uintptr_t(s.rx()) + size <= uintptr_t(o.rx()) || uintptr_t(o.rx()) + o.size() <= uintptr_t(s.rx()), "overlap", "alloc(%zu): new span overlaps another live span of this thread", size);
    spans.push_back(s);
    live_units += e.classes[c].units;
    if (validate) check_exact("single-threaded reference run, after alloc");
  }
  void s_release(size_t idx) {
    Span s = spans[idx];
    Error err;
    { Inside in(*this); err = A->release(s.rx()); }
    if (err != Error::kOk) failv("release-failed", "release(live span of %zu bytes) error %u", s.size(), unsigned(err));
    sh->mutations.fetch_add(1, std::memory_order_relaxed);
    live_units -= s.size() / env->G;
    spans.erase(spans.begin() + ptrdiff_t(idx));
    if (validate) check_exact("single-threaded reference run, after release");
  }
  void s_query(size_t idx) { check_query(spans[idx], "worker, own span"); cls("snap_worker_query_own_span"); }
  void s_stats() {
    Stats st;
    { Inside in(*this); st = A->statistics(); }
    if (validate) { std::pair<size_t, size_t> ex{spans.size() + pin_count, live_units + pin_units}; check_snapshot(st, "single-threaded reference run", &ex, spans.size()); }
    else check_snapshot(st, "worker", nullptr, spans.size());
  }
  void s_yield(unsigned n) { for (unsigned i = 0; i < n; i++) sched_yield(); }

  void release_all() {
    while (!spans.empty() && !s_stopped()) s_release(spans.size() - 1);
  }

  void fold_counters() {
    if (snaps) cls("stats_snapshots_checked", snaps);
    if (snaps_workers_running) cls("stats_snapshots_while_workers_inside_their_scripts", snaps_workers_running);
    if (snaps_during_mutation) cls("stats_snapshots_during_concurrent_alloc", snaps_during_mutation);
    if (snaps_count_changed) cls("stats_snapshots_allocation_count_differs_from_previous", snaps_count_changed);
    if (snaps_exact_structure) cls("stats_snapshots_block_structure_identified", snaps_exact_structure);
    if (snaps_other_structure) cls("stats_snapshots_block_structure_other", snaps_other_structure);
    if (snaps_nonempty) cls("stats_snapshots_with_live_spans", snaps_nonempty);
    if (snaps_blocks_2plus) cls("stats_snapshots_two_or_more_blocks", snaps_blocks_2plus);
    if (snaps_no_block) cls("stats_snapshots_no_block", snaps_no_block);
    if (pinned_queries) cls("stats_observer_queries_of_pinned_spans", pinned_queries);
  }

  void observer_loop() {
    const SnapEnv& e = *env;
    size_t prev = SIZE_MAX;
    for (uint32_t i = 0; i < e.iters; i++) {
      if (s_stopped()) break;
      int r0 = sh->workers_running.load(std::memory_order_relaxed);
      uint64_t m0 = sh->mutations.load(std::memory_order_relaxed);
      Stats st;
      { Inside in(*this); st = A->statistics(); }
      uint64_t m1 = sh->mutations.load(std::memory_order_relaxed);
      int r1 = sh->workers_running.load(std::memory_order_relaxed);
      check_snapshot(st, "observer", nullptr, 0);
      if (r0 > 0 && r1 > 0) snaps_workers_running++;
      if (m0 != m1) snaps_during_mutation++;
      if (prev != SIZE_MAX && prev != st.allocation_count()) snaps_count_changed++;
      prev = st.allocation_count();
      if (!e.pinned.empty() && i % e.qevery == 0) {
        check_query(e.pinned[(i / e.qevery + id) % e.pinned.size()], "observer, pinned span");
        pinned_queries++;
      }
    }
  }

  void main() {
    stamps.reserve(observer ? size_t(env->iters) * 2 + 4 : size_t(env->rounds) * script.size() + 8);
    sh->b_start.wait();
    t_start = now_ns();
    try {
      if (observer) observer_loop();
      else snap_interpret(*env, script, env->rounds, *this);
    } catch (const ThreadFail& f) {
      failed = true; fkey = f.key; fmsg = f.msg;
      sh->stop.store(true, std::memory_order_relaxed);
    }
    if (!observer) sh->workers_running.fetch_sub(1, std::memory_order_relaxed);
    t_end = now_ns();
    sh->b_audit.wait();
    sh->b_release.wait();
    if (!observer && !failed) {
      try { release_all(); }
      catch (const ThreadFail& f) { failed = true; fkey = f.key; fmsg = f.msg; sh->stop.store(true, std::memory_order_relaxed); }
    }
    sh->b_done.wait();
  }
};

static void run_mode_snap(const vh::Case& c, vh::Ctx& ctx) {
  auto cf = [&](size_t i) -> uint64_t { return i < c.cfg.size() ? uint64_t(c.cfg[i]) : 0; };
  auto clampi = [&](size_t i, int64_t lo, int64_t hi) -> uint32_t { int64_t v = i < c.cfg.size() ? c.cfg[i] : lo; return uint32_t(std::min(hi, std::max(lo, v))); };
  Setup su = make_setup(c, ctx);
  su.opt &= ~uint32_t(O_LARGE);
  su.params.options &= ~JitAllocatorOptions::kUseLargePages;
  SnapEnv env;
  env.nopad = (cf(2) & O_NOPAD) != 0;
  if (env.nopad) su.params.options |= JitAllocatorOptions::kDisableInitialPadding;
  env.W = clampi(1, 1, kSnapMaxWorkers);
  env.OBS = clampi(5, 1, kSnapMaxObservers);
  env.rounds = clampi(6, 1, kSnapMaxRounds);
  env.iters = clampi(7, 1, kSnapMaxIters);

  JitAllocator A(&su.params), T(&su.params);
  env.G = A.granularity();
  env.B0 = A.block_size();
  env.multi = A.has_option(JitAllocatorOptions::kUseMultiplePools);
  env.immediate = A.has_option(JitAllocatorOptions::kImmediateRelease);
  env.dual = A.has_option(JitAllocatorOptions::kUseDualMapping);
  env.npools = env.multi ? kSnapMaxPools : 1;
  {
    const uint8_t* tab = env.multi ? kSnapMulti[cf(8) % 8] : kSnapSingle[cf(8) % 8];
    for (int i = 0; i < 3 && tab[i]; i++) {
      int pool = !env.multi ? 0 : tab[i] % 4 == 0 ? 2 : tab[i] % 2 == 0 ? 1 : 0;
      env.classes.push_back({tab[i], pool});
      env.used_pools |= 1u << pool;
      env.sizes_text += (i ? "/" : "") + std::to_string(size_t(tab[i]) * env.G);
    }
  }
  unsigned pin_sel = unsigned(cf(9) & 7);
  size_t npinned = 0;
  for (size_t i = 0; i < env.classes.size(); i++) if (pin_sel & (1u << i)) npinned++;
  // A worker holds at most L spans: chosen so that the spans of all threads always fit into the first block of every pool,
  // whatever the fragmentation (a request for m granules can only fail when every free run is shorter than m).
  {
    size_t L = kSnapMaxLive;
    for (unsigned p = 0; p < env.npools; p++) {
      if (!(env.used_pools & (1u << p))) continue;
      size_t gran = size_t(env.G) << p, m = 1;
      for (const SnapClass& k : env.classes) if (k.pool == int(p)) m = std::max(m, size_t(k.units) * env.G / gran);
      size_t capacity = 2 * size_t(env.B0) / gran - 1;
      size_t spans = capacity / (2 * m - 1);
      spans = spans > npinned + 2 ? spans - npinned - 2 : 1;
      L = std::min(L, std::max<size_t>(1, spans / env.W));
    }
    env.L = uint32_t(L);
  }
  env.qevery = 1 + uint32_t(cf(9) >> 3) % 7;

  AllocEnv aenv = make_env(A, su, env.W + env.OBS);
  record_classes(ctx, su, aenv);
  ctx.cls("mode_S_statistics_snapshots");
  ctx.cls("stats_snapshot_cases");
  ctx.cls(env.nopad ? "cfg_no_initial_padding" : "cfg_initial_padding");
  ctx.cls(std::string(env.multi ? "stats_case_multiple_pools_sizes_" : "stats_case_one_pool_sizes_") + (env.classes.size() == 1 ? "one" : env.classes.size() == 2 ? "two" : "three"));
  { char b[48]; snprintf(b, sizeof b, "stats_case_workers_%s", env.W >= 7 ? "7_12" : env.W >= 4 ? "4_6" : env.W >= 2 ? "2_3" : "1"); ctx.cls(b);
    snprintf(b, sizeof b, "stats_case_observers_%u", env.OBS); ctx.cls(b); }

  Shared sh;
  sh.opts = ctx.opts;
  uint32_t n = env.W + env.OBS;
  sh.nthreads = n;
  sh.b_start.n = sh.b_audit.n = sh.b_release.n = sh.b_done.n = n + 1;
  sh.workers_running.store(int(env.W), std::memory_order_relaxed);
  std::vector<std::unique_ptr<SnapThread>> ths;
  for (uint32_t i = 0; i < n; i++) {
    ths.emplace_back(new SnapThread());
    SnapThread& t = *ths.back();
    t.sh = &sh; t.id = i; t.A = &A; t.env = &env; t.observer = i >= env.W;
  }
  for (const vh::Op& op : c.ops) {
    if (op.size() < 2) continue;
    ths[size_t(u(op[0]) % env.W)]->script.push_back(&op);
  }

  // ---- single-threaded measurement on the twin allocator: what does the first block of a pool add? ----
  Shared shv;
  shv.opts = ctx.opts;
  shv.nthreads = 1;
  SnapThread val;
  val.sh = &shv; val.A = &T; val.env = &env; val.validate = true;
  {
    Stats e0 = T.statistics();
    VH_CHECK(ctx, e0.block_count() == 0 && e0.allocation_count() == 0 && e0.used_size() == 0 && e0.reserved_size() == 0 && e0.overhead_size() == 0, "stat-empty-residue",
             "fresh allocator: blocks %zu allocations %zu used %zu reserved %zu overhead %zu", e0.block_count(), e0.allocation_count(), e0.used_size(), e0.reserved_size(), e0.overhead_size());
    std::vector<Span> tmp;
    env.Rmin = SIZE_MAX; env.pad_min = SIZE_MAX; env.pad_max = 0;
    for (unsigned p = 0; p < env.npools; p++) {
      if (!(env.used_pools & (1u << p))) continue;
      size_t size = 0;
      for (const SnapClass& k : env.classes) if (k.pool == int(p)) size = size_t(k.units) * env.G;
      Stats s0 = T.statistics();
      Span s;
      Error e = T.alloc(Out(s), size);
      VH_CHECK(ctx, e == Error::kOk && s.size() == size, "alloc-failed", "single-threaded measurement: alloc(%zu) error %u", size, unsigned(e));
      tmp.push_back(s);
      Stats s1 = T.statistics();
      size_t gran = size_t(env.G) << p;
      VH_CHECK(ctx, s1.block_count() == s0.block_count() + 1 && s1.allocation_count() == s0.allocation_count() + 1 && s1.reserved_size() > s0.reserved_size() && s1.overhead_size() > s0.overhead_size() &&
               s1.used_size() >= s0.used_size() + size && s1.used_size() - s0.used_size() - size == (env.nopad ? 0 : gran), "snap-model-single-threaded",
               "single-threaded measurement, first span (%zu bytes) of pool %u: blocks %zu -> %zu, allocations %zu -> %zu, used %zu -> %zu (expected + span + %zu padding), reserved %zu -> %zu, overhead %zu -> %zu",
               size, p, s0.block_count(), s1.block_count(), s0.allocation_count(), s1.allocation_count(), s0.used_size(), s1.used_size(), env.nopad ? size_t(0) : gran, s0.reserved_size(), s1.reserved_size(), s0.overhead_size(), s1.overhead_size());
      env.R1[p] = s1.reserved_size() - s0.reserved_size();
      env.O1[p] = s1.overhead_size() - s0.overhead_size();
      env.pad[p] = s1.used_size() - s0.used_size() - size;
      env.Rmin = std::min(env.Rmin, env.R1[p]);
      env.pad_min = std::min(env.pad_min, env.pad[p]);
      env.pad_max = std::max(env.pad_max, env.pad[p]);
    }
    for (const Span& s : tmp) {
      Error e = T.release(s.rx());
      VH_CHECK(ctx, e == Error::kOk, "release-failed", "single-threaded measurement: release error %u", unsigned(e));
    }
  }

  // ---- the model: per-worker pair sets and their Minkowski sum ----
  std::vector<std::unique_ptr<SnapModel>> models;
  size_t maxc = 0, maxu = 0, pair_total = 0;
  uint64_t model_allocs = 0;
  unsigned workers_with_allocs = 0;
  for (uint32_t i = 0; i < env.W; i++) {
    models.emplace_back(new SnapModel(env));
    snap_interpret(env, ths[i]->script, env.rounds, *models.back());
    maxc += models.back()->maxc; maxu += models.back()->maxu;
    pair_total += models.back()->pairs.size();
    model_allocs += models.back()->allocs;
    if (models.back()->allocs) workers_with_allocs++;
  }

  // pinned spans (main thread, live for the whole case)
  unsigned pin_mask = 0;
  size_t pin_units = 0;
  for (size_t i = 0; i < env.classes.size(); i++) {
    if (!(pin_sel & (1u << i))) continue;
    Span s;
    size_t size = size_t(env.classes[i].units) * env.G;
    Error e = A.alloc(Out(s), size);
    VH_CHECK(ctx, e == Error::kOk && s.size() == size, "alloc-failed", "alloc(%zu) of a pinned span: error %u", size, unsigned(e));
    env.pinned.push_back(s);
    pin_mask |= 1u << env.classes[i].pool;
    pin_units += env.classes[i].units;
  }
  for (auto& t : ths) { t->pin_mask = pin_mask; t->pin_count = env.pinned.size(); t->pin_units = pin_units; }
  maxc += env.pinned.size(); maxu += pin_units;
  env.reach.init(maxc, maxu);
  env.reach.set(env.pinned.size(), pin_units);
  for (auto& m : models) env.reach.add(std::vector<std::pair<uint32_t, uint32_t>>(m->pairs.begin(), m->pairs.end()));
  size_t reach_states = env.reach.size();
  ctx.cls(reach_states <= 1 ? "stats_case_reachable_states_1" : reach_states <= 16 ? "stats_case_reachable_states_2_16" : reach_states <= 256 ? "stats_case_reachable_states_17_256" : "stats_case_reachable_states_257_or_more");
  ctx.cls(env.pinned.empty() ? "stats_case_no_pinned_span" : "stats_case_pinned_spans");

  // ---- the formulas hold single-threaded: every worker's script once, alone, on the twin ----
  try {
    uint32_t keep_rounds = env.rounds;
    for (uint32_t i = 0; i < env.W; i++) {
      val.script = ths[i]->script;
      snap_interpret(env, val.script, std::min<uint32_t>(keep_rounds, 2), val);
      val.release_all();
    }
    val.check_exact("single-threaded reference run, everything released");
  } catch (const ThreadFail& f) {
    for (auto& k : val.known_seen) ctx.known_excluded(k);
    for (const Span& s : env.pinned) (void)A.release(s.rx());
    ctx.fail_unless_known("snap-model-single-threaded", "[" + f.key + "] " + f.msg);
    return;
  }
  for (auto& k : val.known_seen) ctx.known_excluded(k);
  ctx.cls("stats_single_threaded_reference_snapshots", val.snaps);

  // ---- concurrent phase ----
  std::vector<std::thread> threads;
  for (uint32_t i = 0; i < n; i++) threads.emplace_back([&ths, i] { ths[i]->main(); });
  sh.b_start.wait();
  sh.b_audit.wait_watchdog("audit");

  vh::Failure audit_fail;
  bool audit_failed = false;
  size_t total_spans = 0, total_units = 0;
  if (!sh.stop.load()) {
    SnapThread aud;
    aud.sh = &shv; aud.A = &A; aud.env = &env; aud.pin_mask = pin_mask; aud.pin_count = env.pinned.size(); aud.pin_units = pin_units;
    try {
      for (uint32_t i = 0; i < env.W; i++) {
        total_spans += ths[i]->spans.size(); total_units += ths[i]->live_units;
        VH_CHECK(ctx, ths[i]->spans.size() == models[i]->count && ths[i]->live_units == models[i]->units, "harness-internal", "worker %u ended with %zu spans / %zu units, its model with %u / %u", i, ths[i]->spans.size(), ths[i]->live_units, models[i]->count, models[i]->units);
      }
      std::pair<size_t, size_t> ex{total_spans + env.pinned.size(), total_units + pin_units};
      Stats st = A.statistics();
      VH_CHECK(ctx, st.allocation_count() == ex.first, "stat-allocation-count", "audit: allocation_count() %zu, the threads hold %zu live spans (+ %zu pinned)", st.allocation_count(), total_spans, env.pinned.size());
      try {
        aud.check_snapshot(st, "audit (all threads at a barrier)", &ex, 0);
        for (uint32_t i = 0; i < env.W; i++) for (const Span& s : ths[i]->spans) aud.check_query(s, "audit");
        for (const Span& s : env.pinned) aud.check_query(s, "audit, pinned span");
      } catch (const ThreadFail& f) { ctx.fail_unless_known(f.key, f.msg); }
    } catch (const vh::Failure& f) { audit_fail = f; audit_failed = true; sh.stop.store(true); }
    for (auto& k : aud.known_seen) ctx.known_excluded(k);
  }
  sh.b_release.wait();
  sh.b_done.wait_watchdog("end");
  for (auto& th : threads) th.join();
  for (const Span& s : env.pinned) (void)A.release(s.rx());
  if (audit_failed) throw audit_fail;

  uint64_t snaps = 0, during = 0, running = 0;
  for (auto& t : ths) {
    if (t->observer) { snaps += t->snaps; during += t->snaps_during_mutation; running += t->snaps_workers_running; t->cls("stats_observer_snapshots", t->snaps); }
    else if (t->snaps) t->cls("stats_worker_snapshots", t->snaps);
    t->fold_counters();
  }
  if (during) ctx.cls("stats_cases_with_snapshot_during_concurrent_alloc");
  if (running) ctx.cls("stats_cases_with_snapshot_while_workers_inside_their_scripts");
  if (workers_with_allocs >= 2) ctx.cls("stats_cases_two_or_more_allocating_workers");

  std::string sample;
  if (ctx.want_sample()) {
    char b[400];
    snprintf(b, sizeof b, "statistics snapshots, %u workers x %u rounds (at most %u spans each of %s bytes, %llu alloc calls) + %u observers x %u statistics(), opt=0x%x%s B=%u G=%u, %zu pinned, %zu reachable (spans, bytes) states; "
             "%llu observer snapshots, %llu while workers ran, %llu overlapped a completed alloc/release", env.W, env.rounds, env.L, env.sizes_text.c_str(), (unsigned long long)model_allocs, env.OBS, env.iters,
             su.opt, env.nopad ? "+nopad" : "", env.B0, env.G, env.pinned.size(), reach_states, (unsigned long long)snaps, (unsigned long long)running, (unsigned long long)during);
    sample = b;
  }
  report_threads(ctx, KN_SNAP, ths, ctx.want_sample() ? &sample : nullptr);
  (void)pair_total;

  // ---- after everything was released ----
  {
    SnapThread fin;
    fin.sh = &shv; fin.A = &A; fin.env = &env;
    try { fin.check_exact("after every thread released everything"); }
    catch (const ThreadFail& f) { ctx.fail_unless_known(f.key == "stat-snapshot-count-vs-used" || f.key == "stat-allocation-count" ? "final-residue" : f.key, f.msg); }
    for (auto& k : fin.known_seen) ctx.known_excluded(k);
  }
  if (!sample.empty()) ctx.sample(sample);
}

} // namespace

// Child entry: `c11 --coldstart=<scenario>` (spawned by run_mode_cold). Runs before anything else of the harness.
void vh_init(const vh::Opts& o, vh::Ctx&) {
  auto it = o.kv.find("coldstart");
  if (it != o.kv.end()) cold_child_main(it->second);
}

// ====================================================================================================================
// Generator
// ====================================================================================================================
rc::Gen<vh::Case> vh_gen(const vh::Opts& o) {
  using namespace rc;
  long force_mode = o.geti("mode", -1), force_threads = o.geti("threads", -1), max_threads = o.geti("max-threads", 16);
  long cold_pct = force_mode == M_COLD ? 100 : force_mode >= 0 ? 0 : o.geti("cold-pct", 8);
  long snap_pct = force_mode == M_SNAP ? 100 : force_mode >= 0 ? 0 : o.geti("snap-pct", 8);
  // statistics snapshots: W workers with grouped or free alloc/release scripts, 1..4 observers
  auto snapGen = gen::exec([=]() -> vh::Case {
    auto pct = [](int p) { return *vh::irange<int>(0, 99) >= 100 - p; };
    int w = *vh::irange<int>(0, 99);
    int W = w < 6 ? 1 : w < 30 ? *vh::irange<int>(2, 3) : w < 72 ? *vh::irange<int>(4, 6) : *vh::irange<int>(7, 12);
    if (force_threads >= 2) W = int(force_threads) - 1;
    W = int(std::min<long>(W, std::max<long>(1, max_threads - 1)));
    int ob = *vh::irange<int>(0, 99);
    int OBS = ob < 55 ? 1 : ob < 85 ? 2 : *vh::irange<int>(3, 4);
    int64_t opt = 0;
    if (pct(12)) opt |= O_DUAL;
    if (pct(50)) opt |= O_MULTI;
    bool fill = pct(20);
    if (fill) opt |= O_FILL;
    if (pct(25)) opt |= O_IMMEDIATE;
    if (pct(fill ? 50 : 5)) opt |= O_CUSTOM;
    if (pct(65)) opt |= O_NOPAD;
    int b = *vh::irange<int>(0, 99);
    int64_t bsel = b < 60 ? 0 : b < 80 ? 1 : b < 92 ? 2 : 3;
    int g = *vh::irange<int>(0, 99);
    int64_t gsel = g < 50 ? 0 : g < 65 ? 1 : g < 85 ? 2 : 3;
    int r = *vh::irange<int>(0, 99);
    int rounds = r < 25 ? *vh::irange<int>(5, 30) : r < 80 ? *vh::irange<int>(31, 120) : *vh::irange<int>(121, 300);
    if ((opt & O_IMMEDIATE) && (opt & (O_DUAL | O_FILL))) rounds = std::min(rounds, 60);   // a block is mapped (and filled) again and again
    vh::Case c;
    size_t longest = 1;
    for (int t = 0; t < W; t++) {
      size_t before = c.ops.size();
      if (pct(65)) {
        // matched groups: a few allocations, then everything is released again
        int groups = *vh::irange<int>(1, 3);
        for (int k = 0; k < groups; k++) {
          int na = *vh::irange<int>(1, 4);
          for (int i = 0; i < na; i++) c.ops.push_back(vh::Op{t, K_ALLOC, *vh::irange<int>(0, 5)});
          if (pct(20)) c.ops.push_back(vh::Op{t, K_QUERY, *vh::irange<int>(0, 5)});
          if (pct(10)) c.ops.push_back(vh::Op{t, K_STATS, 0});
          if (pct(6)) c.ops.push_back(vh::Op{t, K_YIELD, *vh::irange<int>(0, 2)});
          if (pct(50)) c.ops.push_back(vh::Op{t, K_SHRINK, *vh::irange<int>(0, 1)});
          else for (int i = 0; i < na; i++) c.ops.push_back(vh::Op{t, K_RELEASE, *vh::irange<int>(0, 5)});
        }
      } else {
        int len = *vh::irange<int>(3, 14);
        for (int i = 0; i < len; i++) {
          int sel = *vh::irange<int>(0, 99);
          int kind = sel < 42 ? K_ALLOC : sel < 78 ? K_RELEASE : sel < 86 ? K_QUERY : sel < 91 ? K_STATS : sel < 94 ? K_YIELD : K_SHRINK;
          c.ops.push_back(vh::Op{t, kind, *vh::irange<int>(0, 5)});
        }
      }
      longest = std::max(longest, c.ops.size() - before);
    }
    // the observers make about as many calls as a worker (half to twice as many), so that both loops run side by side
    int64_t iters = std::min<int64_t>(kSnapMaxIters, std::max<int64_t>(50, int64_t(rounds) * int64_t(longest) * *vh::irange<int>(50, 200) / 100));
    c.cfg = {M_SNAP, W, opt, bsel, gsel, OBS, rounds, iters, *vh::irange<int>(0, 7), *vh::irange<int>(0, 63)};
    return c;
  });
  // cold start: every thread gets one first action (a quarter of the threads a follow-up operation as well)
  auto coldGen = gen::exec([=]() -> vh::Case {
    int t = *vh::irange<int>(0, 99);
    int n = t < 18 ? 2 : t < 42 ? *vh::irange<int>(3, 4) : t < 72 ? *vh::irange<int>(5, 8) : *vh::irange<int>(9, 16);
    if (force_threads >= 2) n = int(force_threads);
    n = int(std::min<long>(n, std::max<long>(2, max_threads)));
    auto pick = [] {
      int w = *vh::irange<int>(0, 99);
      return w < 22 ? C_CPUINFO : w < 40 ? C_RUNTIME : w < 50 ? C_VMINFO : w < 58 ? C_LARGEPAGE : w < 72 ? C_ALLOCATOR : w < 82 ? C_RT_ADD : w < 86 ? C_ENVHOST : w < 92 ? C_HARDENED : C_DUALMAP;
    };
    int same = *vh::irange<int>(0, 99) < 25 ? pick() : -1;
    bool stagger = *vh::irange<int>(0, 99) < 40;
    vh::Case c;
    c.cfg = {M_COLD, n, 0};
    auto one = [&](int thread, int op) {
      int spin = stagger && *vh::irange<int>(0, 99) < 60 ? *vh::irange<int>(1, 1500) : 0;
      c.ops.push_back(vh::Op{thread, op, *vh::irange<int>(0, 0x1FF), *vh::irange<int>(0, 65535), spin});
    };
    for (int i = 0; i < n; i++) one(i, same >= 0 ? same : pick());
    for (int i = 0; i < n; i++) if (*vh::irange<int>(0, 99) < 25) one(i, pick());
    return c;
  });
  auto cfgGen = gen::exec([=]() -> std::vector<int64_t> {
    auto pct = [](int p) { return *vh::irange<int>(0, 99) >= 100 - p; };
    int m = *vh::irange<int>(0, 99);
    int64_t mode = m < 55 ? M_ALLOC : m < 78 ? M_RUNTIME : M_CODEGEN;
    if (force_mode >= 0 && force_mode < M_COUNT) mode = force_mode;
    int t = *vh::irange<int>(0, 99);
    int64_t n = t < 18 ? 2 : t < 42 ? *vh::irange<int>(3, 4) : t < 72 ? *vh::irange<int>(5, 8) : *vh::irange<int>(9, 16);
    if (force_threads >= 2) n = force_threads;
    n = std::min<int64_t>(n, std::max<long>(2, max_threads));
    int64_t opt = 0;
    if (pct(25)) opt |= O_DUAL;
    if (pct(35)) opt |= O_MULTI;
    bool fill = pct(45);
    if (fill) opt |= O_FILL;
    if (pct(35)) opt |= O_IMMEDIATE;
    if (pct(8)) opt |= O_LARGE;
    if (pct(fill ? 50 : 5)) opt |= O_CUSTOM;
    int b = *vh::irange<int>(0, 99);
    int64_t bsel = b < 55 ? 0 : b < 75 ? 1 : b < 90 ? 2 : 3;
    int g = *vh::irange<int>(0, 99);
    int64_t gsel = g < 40 ? 0 : g < 55 ? 1 : g < 80 ? 2 : 3;
    return std::vector<int64_t>{mode, n, opt, bsel, gsel, *vh::irange<int>(0, 2)};
  });
  auto warmGen = gen::mapcat(cfgGen, [](const std::vector<int64_t>& cfg) {
    int mode = int(cfg[0]);
    int n = int(cfg[1]);
    auto opGen = gen::exec([mode, n]() -> vh::Op {
      int t = *vh::irange<int>(0, n - 1);
      int sel = *vh::irange<int>(0, 99);
      vh::Op op;
      op.push_back(t);
      if (mode == M_ALLOC) {
        int kind = sel < 30 ? K_ALLOC : sel < 46 ? K_RELEASE : sel < 57 ? K_SHRINK : sel < 71 ? K_QUERY : sel < 86 ? K_WRITE : sel < 94 ? K_STATS : K_YIELD;
        op.push_back(kind);
        switch (kind) {
          case K_ALLOC: { int cs = *vh::irange<int>(0, 99); op.push_back(cs < 30 ? 0 : cs < 50 ? 1 : cs < 65 ? 2 : cs < 80 ? 3 : cs < 84 ? 4 : 5); op.push_back(*vh::irange<int>(0, 99999)); op.push_back(*vh::irange<int>(0, 4)); break; }
          case K_RELEASE: op.push_back(*vh::irange<int>(0, 23)); break;
          case K_SHRINK: op.push_back(*vh::irange<int>(0, 23)); op.push_back(*vh::irange<int>(0, 99999)); op.push_back(*vh::irange<int>(0, 1)); break;
          case K_QUERY: op.push_back(*vh::irange<int>(0, 23)); op.push_back(*vh::irange<int>(0, 1)); op.push_back(*vh::irange<int>(0, 99999)); break;
          case K_WRITE: op.push_back(*vh::irange<int>(0, 23)); op.push_back(*vh::irange<int>(0, 5)); op.push_back(*vh::irange<int>(0, 99999)); op.push_back(*vh::irange<int>(0, 99999)); break;
          case K_YIELD: op.push_back(*vh::irange<int>(0, 2)); break;
        }
      } else if (mode == M_RUNTIME) {
        int kind = sel < 40 ? K_ALLOC : sel < 58 ? K_RELEASE : sel < 76 ? K_SHRINK : sel < 86 ? K_QUERY : sel < 94 ? K_STATS : K_YIELD;
        op.push_back(kind);
        switch (kind) {
          case K_ALLOC: op.push_back(*vh::irange<int>(-1000000, 1000000)); op.push_back(*vh::irange<int>(0, 6)); op.push_back(*vh::irange<int>(0, 255)); break;
          case K_RELEASE: case K_SHRINK: case K_QUERY: op.push_back(*vh::irange<int>(0, 23)); break;
          case K_YIELD: op.push_back(*vh::irange<int>(0, 2)); break;
        }
      } else {
        int kind = sel < 92 ? K_ALLOC : K_YIELD;
        op.push_back(kind);
        if (kind == K_ALLOC) {
          op.push_back(*vh::irange<int>(0, 5));          // emitter
          op.push_back(*vh::irange<int>(0, 999999));     // program seed
          int l = *vh::irange<int>(0, 99);
          op.push_back(l < 50 ? *vh::irange<int>(1, 24) : l < 90 ? *vh::irange<int>(25, 90) : *vh::irange<int>(91, 260));
          op.push_back(*vh::irange<int>(0, 7));          // flags
        } else op.push_back(*vh::irange<int>(0, 2));
      }
      return op;
    });
    double k = mode == M_CODEGEN ? 0.12 * n : mode == M_RUNTIME ? 0.45 * n : 0.8 * n;
    auto opsGen = gen::withSize([=](int size) { return gen::resize(int((size + 8) * k), gen::container<std::vector<vh::Op>>(opGen)); });
    return gen::map(opsGen, [cfg](std::vector<vh::Op> ops) {
      vh::Case c; c.cfg = cfg; c.ops = std::move(ops); return c; });
  });
  if (cold_pct >= 100) return coldGen;
  if (snap_pct >= 100) return snapGen;
  if (cold_pct <= 0 && snap_pct <= 0) return warmGen;
  return gen::mapcat(vh::irange<int>(0, 99), [=](int r) { return r >= 100 - int(cold_pct) ? coldGen : r < int(snap_pct) ? snapGen : warmGen; });
}

// Deterministic sweep of cold-start cases run before the generated ones: thread counts x (every operation as the common first
// action + mixes of operations that meet in the same lazily initialised state), repeated --cold-sweep times (every run of the
// same case is another schedule). Worker w takes the cases with index % workers == w.
bool vh_enum(const vh::Opts& o, uint64_t k, vh::Case& out) {
  static const int kThreads[] = {2, 3, 4, 6, 8, 12, 16};
  static const int kMixes[][4] = {
    {C_CPUINFO, C_RUNTIME, -1, -1}, {C_RUNTIME, C_RT_ADD, -1, -1}, {C_CPUINFO, C_RT_ADD, C_RUNTIME, -1}, {C_VMINFO, C_ALLOCATOR, C_LARGEPAGE, -1},
    {C_ALLOCATOR, C_DUALMAP, C_HARDENED, -1}, {C_VMINFO, C_RUNTIME, C_HARDENED, C_LARGEPAGE}, {C_CPUINFO, C_VMINFO, C_ALLOCATOR, C_DUALMAP}};
  constexpr uint64_t kPerThreads = C_COUNT + 7 + 3;
  constexpr uint64_t kSweep = 7 * kPerThreads;
  long force_mode = o.geti("mode", -1);
  uint64_t reps = force_mode >= 0 && force_mode != M_COLD ? 0 : uint64_t(std::max(0L, o.geti("cold-sweep", o.is_thorough() ? 6 : 1)));
  uint64_t sreps = force_mode >= 0 && force_mode != M_SNAP ? 0 : uint64_t(std::max(0L, o.geti("snap-sweep", o.is_thorough() ? 6 : 1)));
  uint64_t workers = uint64_t(std::max(1, o.workers));
  uint64_t idx = k * workers + uint64_t(std::max(0, o.worker)) % workers;
  if (idx >= reps * kSweep) {
    // Deterministic sweep of statistics-snapshot cases: worker counts x allocator configurations, the script of every worker is
    // "alloc one span of every size class, release them" (matched groups: the reachable set is small, a torn object stands out).
    static const int kW[] = {1, 2, 3, 4, 6, 8, 12};
    //                         options (1 dual, 2 multi, 4 fill, 8 immediate, 64 no padding), granularity_sel, size_table, pinned
    static const int kCfg[][4] = {{64, 0, 0, 0}, {0, 0, 1, 1}, {64 | 2, 0, 1, 0}, {64 | 2, 0, 0, 2}, {2, 2, 2, 5}, {64 | 8, 1, 4, 0}, {64 | 2 | 8, 0, 3, 1}, {64 | 2 | 1, 3, 6, 0}, {64, 0, 5, 3}, {2 | 8 | 4, 0, 0, 4}};
    constexpr uint64_t kSnapSweep = 7 * 10;
    uint64_t sidx = idx - reps * kSweep;
    if (sidx >= sreps * kSnapSweep) return false;
    uint64_t rep = sidx / kSnapSweep, j = sidx % kSnapSweep;
    int W = kW[j / 10];
    const int* cfg = kCfg[j % 10];
    uint64_t s = (rep + 1) * 7000003 + j;
    int rounds = (cfg[0] & 8) && (cfg[0] & (1 | 4)) ? 50 : 120;
    int OBS = 1 + int(mix(s) % 3);
    out = vh::Case();
    size_t len = 0;
    for (int t = 0; t < W; t++) {
      size_t before = out.ops.size();
      bool group = mix(s) & 1;
      for (int i = 0; i < 3; i++) out.ops.push_back(vh::Op{t, K_ALLOC, (i + t) % 3});
      if (mix(s) % 4 == 0) out.ops.push_back(vh::Op{t, K_QUERY, int64_t(mix(s) % 3)});
      if (group) out.ops.push_back(vh::Op{t, K_SHRINK, int64_t(mix(s) & 1)});
      else for (int i = 0; i < 3; i++) out.ops.push_back(vh::Op{t, K_RELEASE, int64_t(mix(s) % 3)});
      len = std::max(len, out.ops.size() - before);
    }
    out.cfg = {M_SNAP, W, cfg[0], int64_t(rep % 4), cfg[1], OBS, rounds, int64_t(rounds) * int64_t(len), cfg[2], cfg[3] | int64_t((mix(s) % 7) << 3)};
    return true;
  }
  uint64_t rep = idx / kSweep, j = idx % kSweep;
  int n = kThreads[j / kPerThreads];
  uint64_t v = j % kPerThreads;
  out = vh::Case();
  out.cfg = {M_COLD, n, int64_t(rep)};
  uint64_t s = (rep + 1) * 1000003 + j;
  for (int i = 0; i < n; i++) {
    int op, spin = 0;
    if (v < C_COUNT) op = int(v);                                                       // every thread the same first action
    else if (v < C_COUNT + 7) { const int* m = kMixes[v - C_COUNT]; int len = 0; while (len < 4 && m[len] >= 0) len++; op = m[i % len]; }
    else if (v == C_COUNT + 7) { op = i == 0 ? C_RUNTIME : C_CPUINFO; spin = i * 40; }          // staggered: later threads arrive while the first is still detecting
    else if (v == C_COUNT + 8) { op = i % 2 ? C_RT_ADD : C_RUNTIME; spin = (i / 2) * 25; }
    else { op = i; op %= C_COUNT; }                                                     // all operations round robin
    int64_t a = int64_t(mix(s) & 0x1FF), b = int64_t(mix(s) & 0xFFFF);
    out.ops.push_back(vh::Op{i, op, a, b, spin});
  }
  return true;
}

static void run_once(const vh::Case& c, vh::Ctx& ctx) {
  if (is_cold_case(c)) { run_mode_cold(c, ctx); return; }   // a new cfg value: every older case decodes as before
  host_init();
  if (is_snap_case(c)) { run_mode_snap(c, ctx); return; }   // likewise (exactly 4)
  int mode = int((c.cfg.empty() ? 0 : u(c.cfg[0])) % M_COUNT);
  if (mode == M_ALLOC) run_mode_alloc(c, ctx);
  else if (mode == M_RUNTIME) run_mode_runtime(c, ctx);
  else run_mode_codegen(c, ctx);
}

void vh_run(const vh::Case& c, vh::Ctx& ctx) {
  // The schedule is the operating system's: a replay repeats the case to raise the chance of meeting the failing interleaving.
  int reps = (ctx.opts && !ctx.opts->replay.empty()) ? int(ctx.opts->geti("replay-runs", 20)) : 1;
  for (int i = 0; i < reps; i++) run_once(c, ctx);
}
