// C12 — Instruction read/write information covers what the CPU really does.
//
// Case: cfg = [kind, index, state_seed, nstates, encsel]   ops[0] = integer choices (operand instantiation)
//   kind 0  x86-64 host execution of DB form #index: WRITES / READS / FEATURES / REG<->MEM sub-checks
//           encsel (default 0 = the instance as instantiated, no encoding option): bits 0..2 = encoding-selection options given to the
//           assembler and to the queries (1 {vex3}, 2 {vex}, 4 {evex}), bits 3..5 = operand/decoration shape (0 as instantiated, 1 plain:
//           registers 0..15 and no {k}{z}{er}{sae}{1toN}, 2 plain + one vector register 16..31, 3 plain + {k}, 4 plain + {k}{z},
//           5 plain + {1toN}, 6 plain + {er}|{sae}), bits 6..11 = which register / mask / rounding mode. FEATURES is judged against the
//           encoding the assembler really emitted (C4/C5 VEX, 62 EVEX, 8F XOP) and the ISA-database forms of that encoding that admit
//           the operands; combinations the assembler refuses or no database form admits are counted, not executed.
//   kind 1  x86 consecutive-run report of DB form #index (regIndexRel operands: k+1, xmm+3), API only
//   kind 2  AArch64 register-list form #index of build/gen/a64_lists.txt, API only
// Oracle: the host CPU (hostexec/msc) for kind 0; the ISA database syntax for kinds 1 and 2.
// Implicit operands are always passed explicitly in ISA-DB order (AsmJit's documented explicit forms, e.g.
// mul(rdx, rax, rcx), lods(eax, [rsi])), so that InstRWInfo::operands() describes every register the form names.
#define VH_MAIN
#include "vh.h"
#include "gen/x86inst.h"
#include "msc.h"

#include <asmjit/core.h>
#include <asmjit/x86.h>
#include <asmjit/a64.h>

#include <sys/mman.h>
#include <signal.h>

using namespace asmjit;

const char* vh_property() { return "C12"; }

namespace {

// ---------------------------------------------------------------------------------------------------------------------
// Data loaded at start
// ---------------------------------------------------------------------------------------------------------------------
struct Extra { std::string cats, io; bool vol = false; std::map<std::string, char> fl; };
struct A64Op { char kind = 'r'; char rt = 'v'; std::string et; bool has_idx = false; bool artificial = false; int run = 0; int plus = 0; std::string text; };
struct A64Form { std::string name, ext; std::vector<A64Op> ops; };

xdb::DB g_db;
std::vector<Extra> g_x;
std::vector<A64Form> g_a64;
std::vector<int> g_x86_runs;      // indexes of x86 forms that imply a consecutive run
std::set<std::string> g_dual;     // mnemonics that have both a VEX and an EVEX form in the ISA database (64-bit mode, APX forms aside)
std::set<std::string> g_prefer_evex;   // ... whose VEX forms carry the database's `encodingPreference: EVEX` (EVEX unless {vex}/{vex3} is given)
bool g_dump = false;
const int kChoices = 48;

static bool has_word(const std::string& list, const char* w) {
  size_t n = strlen(w), p = 0;
  while ((p = list.find(w, p)) != std::string::npos) {
    bool l = p == 0 || list[p - 1] == ',', r = p + n == list.size() || list[p + n] == ',';
    if (l && r) return true;
    p += n;
  }
  return false;
}

static bool load_extra(const char* path) {
  FILE* f = fopen(path, "r");
  if (!f) return false;
  char* line = nullptr; size_t cap = 0; ssize_t n;
  while ((n = getline(&line, &cap, f)) > 0) {
    while (n > 0 && (line[n - 1] == '\n' || line[n - 1] == '\r')) line[--n] = 0;
    std::vector<std::string> t = xdb::split(line, '|');
    if (t.size() < 6 || t[0] != "X") continue;
    Extra e; e.cats = t[3]; e.io = t[4]; e.vol = t[5] == "1";
    if (e.io != "-") for (const std::string& kv : xdb::split(e.io, ',')) { size_t q = kv.find('='); if (q != std::string::npos && q + 1 < kv.size()) e.fl[kv.substr(0, q)] = kv[q + 1]; }
    g_x.push_back(e);
  }
  free(line); fclose(f);
  return !g_x.empty();
}

static bool load_a64(const char* path) {
  FILE* f = fopen(path, "r");
  if (!f) return false;
  char* line = nullptr; size_t cap = 0; ssize_t n;
  while ((n = getline(&line, &cap, f)) > 0) {
    while (n > 0 && (line[n - 1] == '\n' || line[n - 1] == '\r')) line[--n] = 0;
    std::vector<std::string> t = xdb::split(line, '|');
    if (t.size() < 5 || t[0] != "L") continue;
    A64Form fm; fm.name = t[2]; fm.ext = t[3];
    for (const std::string& os : xdb::split(t[4], ';')) {
      std::vector<std::string> p = xdb::split(os, ',');
      A64Op o;
      if (p.empty() || p[0].empty()) continue;
      o.kind = p[0][0];
      if (o.kind == 'r' && p.size() >= 7) { o.rt = p[1].empty() ? '?' : p[1][0]; o.et = p[2]; o.has_idx = p[3] == "1"; o.artificial = p[4] == "1"; o.run = atoi(p[5].c_str()); o.plus = atoi(p[6].c_str()); }
      else if (p.size() >= 2) o.text = p[1];
      fm.ops.push_back(o);
    }
    g_a64.push_back(fm);
  }
  free(line); fclose(f);
  return !g_a64.empty();
}

// ---------------------------------------------------------------------------------------------------------------------
// Executable arena: [code page RWX][guard][scratch 2 pages RW][guard], at a fixed low address (abs disp32 / a32 forms)
// ---------------------------------------------------------------------------------------------------------------------
const size_t kPage = 4096, kScr = 8192;
uint8_t* g_code = nullptr;
uint8_t* g_scr = nullptr;
const size_t kSlot0 = 2048, kSlot1 = 5120;     // 64-byte aligned effective addresses inside the scratch buffer
const size_t kCodeMain = 0, kCodeAlt = 1024;   // offsets of the two stubs inside the code page

static void arena_init() {
  if (g_code) return;
  for (uint64_t a = 0x30000000ull; a < 0x38000000ull; a += 0x1000000ull) {
    void* p = mmap((void*)a, 5 * kPage, PROT_NONE, MAP_PRIVATE | MAP_ANONYMOUS | MAP_FIXED_NOREPLACE, -1, 0);
    if (p == MAP_FAILED) continue;
    if (p != (void*)a) { munmap(p, 5 * kPage); continue; }
    if (mprotect(p, kPage, PROT_READ | PROT_WRITE | PROT_EXEC) != 0) { munmap(p, 5 * kPage); continue; }
    if (mprotect((uint8_t*)p + 2 * kPage, kScr, PROT_READ | PROT_WRITE) != 0) { munmap(p, 5 * kPage); continue; }
    g_code = (uint8_t*)p; g_scr = g_code + 2 * kPage;
    return;
  }
  fprintf(stderr, "c12: cannot map the low-address execution arena\n");
  exit(2);
}

static inline uint64_t mix(uint64_t x) { x += 0x9E3779B97F4A7C15ull; x = (x ^ (x >> 30)) * 0xBF58476D1CE4E5B9ull; x = (x ^ (x >> 27)) * 0x94D049BB133111EBull; return x ^ (x >> 31); }
struct Rng { uint64_t s; explicit Rng(uint64_t x) : s(mix(x)) {} uint64_t next() { s = mix(s); return s; } };

struct Snap { MState st; uint8_t scr[kScr]; };

static uint64_t gp_value(Rng& r) {
  uint64_t t = r.next();
  switch (t & 15) {
    case 0: case 1: case 2: return (t >> 8) & 63;
    case 3: case 4: return (t >> 8) & 255;
    case 5: return 0;
    case 6: return ~uint64_t(0);
    case 7: return uint64_t(1) << ((t >> 8) & 63);
    case 8: return (t >> 8) & 1 ? 0x80000000ull : 0x7fffffffull;
    case 9: return (t >> 8) & 0xffff;
    case 10: return (t >> 8) & 0xffffffffull;
    default: return r.next();
  }
}

static void gen_state(uint64_t seed, uint64_t idx, Snap& s) {
  Rng r(seed * 0x100000001B3ull + idx * 7919 + 1);
  memset(&s.st, 0, sizeof s.st);
  for (int i = 0; i < 16; i++) s.st.gpr[i] = gp_value(r);
  uint64_t fl = r.next();
  s.st.rflags = (fl & 0x8D5) | 0x202 | (((fl >> 16) & 7) == 0 ? 0x400 : 0);
  for (int i = 0; i < 8; i++) { uint64_t t = r.next(); s.st.k[i] = (t & 3) == 0 ? ((t >> 8) & 0xffff) : (t & 3) == 1 ? ~uint64_t(0) : r.next(); }
  s.st.mxcsr = 0x1F80;
  for (int i = 0; i < 32; i++) {
    uint64_t cls = r.next() & 7;
    for (int q = 0; q < 8; q++) {
      uint64_t v = r.next();
      if (cls == 0) v = 0;
      else if (cls == 1) { static const uint64_t c[] = {0x3FF0000000000000ull, 0x4000000000000000ull, 0xC008000000000000ull, 0x3F8000003F800000ull, 0x40490FDB3F000000ull, 0x3C003C003C003C00ull, 0x4200C50042004400ull, 0x0001000200030004ull}; v = c[v & 7]; }
      else if (cls == 2) v &= 0x000000FF000000FFull;
      memcpy(&s.st.zmm[i][q * 8], &v, 8);
    }
  }
  for (int i = 0; i < MSC_STACK_WORDS; i++) s.st.stack[i] = r.next();
  for (size_t i = 0; i < kScr; i += 8) { uint64_t v = r.next(); if ((i & 0x1C0) == 0x40) v &= 0x0000003F0000003Full; memcpy(&s.scr[i], &v, 8); }
}

static int run_code(size_t code_off, const Snap& pre, Snap& post) {
  memcpy(g_scr, pre.scr, kScr);
  post.st = pre.st;
  int sig = msc_run((void (*)(void))(g_code + code_off), &post.st);
  memcpy(post.scr, g_scr, kScr);
  return sig;
}

} // namespace

void vh_init(const vh::Opts& o, vh::Ctx&) {
  auto path = [&](const char* key, const char* dflt) { auto it = o.kv.find(key); return it != o.kv.end() ? it->second : std::string(dflt); };
  if (!g_db.load(path("forms", "build/gen/x86_forms.txt").c_str())) { fprintf(stderr, "c12: cannot load x86 forms\n"); exit(2); }
  if (!load_extra(path("extra", "build/gen/c12_x86_extra.txt").c_str()) || g_x.size() != g_db.forms.size()) { fprintf(stderr, "c12: cannot load x86 extras (or size mismatch)\n"); exit(2); }
  if (!load_a64(path("a64lists", "build/gen/a64_lists.txt").c_str())) { fprintf(stderr, "c12: cannot load a64 lists\n"); exit(2); }
  for (size_t i = 0; i < g_db.forms.size(); i++) {
    bool run = g_db.forms[i].consecutiveLead > 0;
    for (const xdb::Op& op : g_db.forms[i].ops) if (op.regIndexRel > 0) run = true;
    if (run) g_x86_runs.push_back(int(i));
  }
  {
    std::map<std::string, int> enc;
    for (const xdb::Form& f : g_db.forms) {
      if (f.is_apx() || !f.mode_ok(64)) continue;
      if (f.prefix == "VEX") enc[f.name] |= 1; else if (f.prefix == "EVEX") enc[f.name] |= 2;
      if (f.prefix == "VEX" && f.encPref == "EVEX") g_prefer_evex.insert(f.name);
    }
    for (auto& kv : enc) if (kv.second == 3) g_dual.insert(kv.first);
  }
  g_dump = o.geti("dump", 0) != 0;
  arena_init();
}

// =====================================================================================================================
// Part 2 — exclusions and instruction building
// =====================================================================================================================
namespace {

// Documented exclusion list (each class is counted as excl_<class>).
static const char* exclude_reason(const xdb::Form& f, const Extra& x) {
  if (!f.mode_ok(64)) return "mode32_only";
  if (f.is_apx()) return "apx";
  if (!f.privilege.empty() && f.privilege != "L3") return "privileged";
  if (!f.control.empty() && f.control != "none") return "control_flow";
  for (const xdb::Op& op : f.ops) if (op.is_rel()) return "rel_operand";
  if (has_word(x.cats, "FPU")) return "x87";
  if (has_word(x.cats, "AMX")) return "amx";
  if (has_word(x.cats, "VIRTUALIZATION")) return "virtualization";
  if (has_word(x.cats, "GP_IN_OUT")) return "port_io";
  for (const xdb::Op& op : f.ops) {
    const std::string& r = op.reg;
    if (r == "mm") return "mmx_operand";
    if (r == "st(0)" || r == "st(i)") return "x87";
    // reading a segment register into a general register / memory (mov r/m, sreg) is harmless in user mode and is executed; every other
    // special-register operand (loading a selector, control / debug / bound / tile registers) is not
    if (r == "sreg" && f.name == "mov" && f.ops.size() == 2 && &op == &f.ops[1]) continue;
    if (r == "sreg" || r == "creg" || r == "dreg" || r == "bnd" || r == "tmm" || r == "es" || r == "cs" || r == "ss" || r == "ds" || r == "fs" || r == "gs") return "special_register_operand";
    if (op.memFar) return "far_pointer";
  }
  if (f.ext.find("CET_SS") != std::string::npos) return "cet_shadow_stack";
  if (f.ext.find("AVX10_2") != std::string::npos) return "avx10_2_not_on_host";   // (AsmJit encodes some of them as older instructions: C01 findings)
  if (f.ext.find("LWP") != std::string::npos || f.ext.find("UINTR") != std::string::npos || f.ext.find("MPX") != std::string::npos) return "special_setup";
  static const char* stack[] = {"push", "pop", "pusha", "pushad", "popa", "popad", "pushf", "pushfd", "pushfq", "popf", "popfd", "popfq", "enter", "leave", "pushw", "popw", "push2", "pop2", "push2p", "pop2p"};
  for (const char* n : stack) if (f.name == n) return "stack_push_pop";
  static const char* trap[] = {"int", "int3", "into", "int1", "icebp", "ud0", "ud1", "ud2", "syscall", "sysenter", "sysexit", "sysexitq", "sysret", "sysretq", "iret", "iretd", "iretq", "hlt", "cli", "sti"};
  for (const char* n : trap) if (f.name == n) return "trap_or_system_call";
  static const char* unsafe[] = {"wrfsbase", "wrgsbase", "swapgs", "wrpkru", "xsave", "xsave64", "xsavec", "xsavec64", "xsaveopt", "xsaveopt64", "xsaves", "xsaves64", "xrstor", "xrstor64", "xrstors", "xrstors64",
                                 "fxsave", "fxsave64", "fxrstor", "fxrstor64", "xbegin", "xend", "xabort", "monitor", "mwait", "monitorx", "mwaitx", "umonitor", "umwait", "tpause", "ldtilecfg", "sttilecfg", "tilerelease",
                                 "enqcmd", "enqcmds", "pconfig", "lds", "les", "lfs", "lgs", "lss", "ptwrite", "xsetbv", "clzero", "movdir64b", "xresldtrk", "xsusldtrk", "hreset", "pbndkb"};
  for (const char* n : unsafe) if (f.name == n) return "unsafe_or_special_setup";
  static const char* umip[] = {"sgdt", "sidt", "sldt", "str", "smsw"};   // #GP under UMIP or emulated by the kernel (emulation does not follow the ISA's register semantics)
  for (const char* n : umip) if (f.name == n) return "system_descriptor_umip";
  static const char* implicit_state[] = {"vzeroall", "vzeroupper", "emms", "femms", "ldmxcsr", "vldmxcsr", "stmxcsr", "vstmxcsr", "xlatb"};
  for (const char* n : implicit_state) if (f.name == n) return "implicit_state_not_expressible";
  return nullptr;
}

static bool is_nondeterministic(const std::string& n) {
  static const char* k[] = {"rdtsc", "rdtscp", "rdrand", "rdseed", "rdpid", "cpuid", "xgetbv", "rdpmc", "rdpru", "rdpkru", "rdfsbase", "rdgsbase", "sgdt", "sidt", "sldt", "str", "smsw", "rdsspd", "rdsspq", "xtest", "lsl", "lar", "verr", "verw"};
  for (const char* x : k) if (n == x) return true;
  return false;
}

struct MemI {
  uint64_t ea = 0; int size = 0; int slot = 0;
  int base = -1, base_bits = 64, index = -1, scale = 1; bool index_vec = false; xi::RC index_rc = xi::RC::None; int vsib_elem = 0;
  int64_t disp = 0; bool rip = false, absaddr = false; int bcst = 0;
};
struct FOp { int kind = 0; /*0 reg 1 mem 2 imm*/ xi::Reg reg; int64_t imm = 0; MemI mem; bool implicit = false; int db = -1; };
struct VecSetup { int id; int elem_bits; };
struct BInst {
  const xdb::Form* f = nullptr; InstId id = 0; std::vector<FOp> ops; int k = 0; bool z = false; int er = -1; bool sae = false;
  std::vector<std::pair<int, uint64_t>> gp_setup; std::vector<VecSetup> vec_setup;
  bool valid = true; std::string why; bool all_reg = true; bool has_mem = false;
  InstOptions encopt = InstOptions::kNone; int encsel = 0;      // encoding-selection options ({vex3}/{vex}/{evex}); encsel != 0: encoding-selection case
};

static int reg_bytes(xi::RC rc) {
  switch (rc) { case xi::RC::Gp8Lo: case xi::RC::Gp8Hi: return 1; case xi::RC::Gp16: return 2; case xi::RC::Gp32: return 4; case xi::RC::Gp64: return 8;
                case xi::RC::Xmm: return 16; case xi::RC::Ymm: return 32; case xi::RC::Zmm: return 64; case xi::RC::K: return 8; default: return 0; }
}
static bool is_gp(xi::RC rc) { return rc >= xi::RC::Gp8Lo && rc <= xi::RC::Gp64; }
static bool is_vec(xi::RC rc) { return rc >= xi::RC::Xmm && rc <= xi::RC::Zmm; }

static int zreg_id(const std::string& t) {   // memRegOnly token -> GP id
  if (t.find("ax") != std::string::npos) return 0;
  if (t.find("cx") != std::string::npos) return 1;
  if (t.find("dx") != std::string::npos) return 2;
  if (t.find("bx") != std::string::npos) return 3;
  if (t.find("si") != std::string::npos) return 6;
  if (t.find("di") != std::string::npos) return 7;
  return -1;
}

// Builds the full operand list (ISA-DB order, implicit operands included) of one instance of form `f`.
static BInst build_inst(const xdb::Form& f, xi::Choices& ch) {
  BInst bi; bi.f = &f;
  xi::XInst x = xi::instantiate(f, 64, ch, false);
  if (!x.valid) { bi.valid = false; bi.why = x.why_invalid; return bi; }
  bi.k = x.k; bi.z = x.z; bi.er = x.er; bi.sae = x.sae;
  bool vsib = !f.vsibReg.empty();
  if (vsib && f.kmask && !bi.k) bi.k = 1 + ch.pick(7);      // EVEX gather/scatter: {k0} is #UD
  bool distinct = f.name.rfind("vfcmaddc", 0) == 0 || f.name.rfind("vfmaddc", 0) == 0 || f.name.rfind("vfcmulc", 0) == 0 || f.name.rfind("vfmulc", 0) == 0;   // destination == source is #UD
  bool same = ch.pick(6) == 0 && !vsib && !distinct;
  if (distinct) vsib = true;   // reuse the 'all vector registers distinct' path
  bool any_hi = false;
  for (const xi::Opnd& o : x.ops) if (o.kind == xi::Opnd::kReg && o.reg.rc == xi::RC::Gp8Hi) any_hi = true;

  // registers fixed by the form (never used as pointer registers by this generator)
  uint32_t fixed_gp = 1u << 4;
  for (const xdb::Op& d : f.ops) {
    xi::RC rc; int fx;
    if (d.is_reg() && xi::db_reg_class(d.reg, rc, fx) && fx >= 0 && is_gp(rc)) fixed_gp |= 1u << fx;
    if (!d.memRegOnly.empty()) { int id = zreg_id(d.memRegOnly); if (id >= 0) fixed_gp |= 1u << id; }
  }
  int same_id[20]; for (int& v : same_id) v = -1;
  int mem_slot = 0;
  std::vector<int> vec_used;

  for (size_t oi = 0; oi < f.ops.size(); oi++) {
    const xdb::Op& d = f.ops[oi];
    FOp fo; fo.db = int(oi);
    const xi::Opnd* xo = nullptr;
    for (const xi::Opnd& o : x.ops) if (o.db_index == int(oi)) xo = &o;
    if (!xo) {
      // implicit operand: fixed register or fixed-base memory
      fo.implicit = true;
      if (d.is_reg()) {
        xi::RC rc; int fx;
        if (!xi::db_reg_class(d.reg, rc, fx) || fx < 0) { bi.valid = false; bi.why = "implicit operand without fixed register: " + d.reg; return bi; }
        fo.kind = 0; fo.reg.rc = rc; fo.reg.id = fx;
      } else if (d.is_mem()) {
        int id = zreg_id(d.memRegOnly);
        if (id < 0) { bi.valid = false; bi.why = "implicit memory operand without fixed base"; return bi; }
        fo.kind = 1; fo.mem.base = id; fo.mem.slot = mem_slot++; fo.mem.size = d.memSize > 0 ? d.memSize / 8 : 0;
      } else { bi.valid = false; bi.why = "implicit operand of unknown kind"; return bi; }
      bi.ops.push_back(fo);
      continue;
    }
    if (xo->kind == xi::Opnd::kImm) {
      fo.kind = 2; fo.imm = xo->imm;
      // keep immediates inside the signed range of their field (same bits; out-of-range immediates are C01's subject)
      if (d.imm > 0 && d.imm < 64 && d.immSign != "unsigned") { int64_t m = int64_t(1) << d.imm; fo.imm &= m - 1; if (fo.imm >= (m >> 1)) fo.imm -= m; }
      bi.ops.push_back(fo); continue;
    }
    if (xo->kind == xi::Opnd::kReg) {
      fo.kind = 0; fo.reg = xo->reg;
      xi::RC rc; int fx = -1;
      xi::db_reg_class(d.reg, rc, fx);
      if (fx < 0) {
        if (is_gp(fo.reg.rc) && fo.reg.rc != xi::RC::Gp8Hi) {
          if (any_hi) fo.reg.id &= 7;
          if (fo.reg.id == 4) fo.reg.id = any_hi ? 6 : 8 + ch.pick(8); else ch.raw();
        }
        if (fo.reg.rc == xi::RC::K && d.write && d.regIndexRel == 0 && f.consecutiveLead > 0) fo.reg.id &= 6;
        int cls = int(fo.reg.rc);
        if (same && fo.reg.rc != xi::RC::Gp8Hi && d.regIndexRel == 0) { if (same_id[cls] < 0) same_id[cls] = fo.reg.id; else fo.reg.id = same_id[cls]; }
      }
      if (is_vec(fo.reg.rc)) {
        if (vsib) { while (std::find(vec_used.begin(), vec_used.end(), fo.reg.id) != vec_used.end()) fo.reg.id = (fo.reg.id + 1) % 16; }
        vec_used.push_back(fo.reg.id);
      }
      bi.ops.push_back(fo);
      continue;
    }
    // ---- memory operand: rebuilt so that it points into the scratch buffer ----
    const xi::Mem& m = xo->mem;
    fo.kind = 1;
    MemI& mi = fo.mem;
    mi.slot = mem_slot++;
    mi.size = m.size_bits > 0 ? m.size_bits / 8 : (d.memSize > 0 ? d.memSize / 8 : 0);
    mi.bcst = m.bcst;
    if (!d.memSegment.empty() || !d.memRegOnly.empty()) {
      int id = zreg_id(d.memRegOnly);
      if (id < 0) id = m.base.id;
      mi.base = id; mi.base_bits = 64;
    } else if (d.memOff || (m.abs && m.index.rc == xi::RC::None)) {
      mi.absaddr = true;
    } else if (m.base.rc == xi::RC::Rip) {
      mi.rip = true;
    } else {
      static const int poolA[] = {8, 9, 10, 11, 12, 13, 14, 15, 5, 3, 6, 7, 12, 13};
      static const int poolH[] = {5, 3, 6, 7, 5, 6, 7, 3};
      auto pick_ptr = [&](int avoid) {
        for (int tries = 0; tries < 40; tries++) {
          int id = any_hi ? poolH[ch.pick(8)] : poolA[ch.pick(14)];
          if (id != avoid && !(fixed_gp & (1u << id))) return id;
        }
        for (int id = 15; id >= 0; id--) if (id != avoid && !(fixed_gp & (1u << id)) && (!any_hi || id < 8)) return id;
        return -1;
      };
      mi.base_bits = m.addr_bits == 32 ? 32 : 64;
      bool has_base = m.base.rc != xi::RC::None;
      if (has_base) { mi.base = pick_ptr(-1); if (mi.base < 0) { bi.valid = false; bi.why = "no free pointer register"; return bi; } }
      if (m.index.rc != xi::RC::None) {
        mi.scale = m.scale;
        if (is_vec(m.index.rc)) {
          mi.index_vec = true; mi.index_rc = m.index.rc; mi.index = m.index.id % 16 + (f.is_evex() && (m.index.id & 16) ? 16 : 0);
          while (std::find(vec_used.begin(), vec_used.end(), mi.index) != vec_used.end()) mi.index = (mi.index + 1) % 16;
          vec_used.push_back(mi.index);
          mi.vsib_elem = d.vsibSize > 0 ? d.vsibSize : 32;
        } else {
          mi.index = pick_ptr(mi.base);
          if (mi.index < 0) { bi.valid = false; bi.why = "no free index register"; return bi; }
        }
      }
      if (!has_base) mi.absaddr = true;       // [index*scale + disp32]
      static const int64_t disps[] = {0, 0, 8, -8, 64, -64, 0x7f, -0x80, 0x100, 0x1000, -0x2000, 0x12340};
      mi.disp = disps[ch.pick(12)];
    }
    bi.ops.push_back(fo);
  }
  // a gather/scatter destination/source registered after the index may still collide: re-check
  if (vsib) {
    std::vector<int> seen;
    for (FOp& fo : bi.ops) {
      int* idp = fo.kind == 0 && is_vec(fo.reg.rc) ? &fo.reg.id : (fo.kind == 1 && fo.mem.index_vec ? &fo.mem.index : nullptr);
      if (!idp) continue;
      while (std::find(seen.begin(), seen.end(), *idp) != seen.end()) *idp = (*idp + 1) % 16;
      seen.push_back(*idp);
    }
  }
  if (!bi.ops.empty() && bi.ops[0].kind == 1) bi.z = false;     // zeroing-masking with a memory destination is #UD
  // effective addresses and pointer values
  for (FOp& fo : bi.ops) {
    if (fo.kind == 0) continue;
    if (fo.kind == 2) continue;
    bi.has_mem = true; bi.all_reg = false;
    MemI& mi = fo.mem;
    mi.ea = uint64_t(uintptr_t(g_scr)) + (mi.slot == 0 ? kSlot0 : mi.slot == 1 ? kSlot1 : kSlot1 + 1024);
    int64_t idxv = 0;
    if (mi.index >= 0 && !mi.index_vec) { idxv = ch.pick(16); bi.gp_setup.push_back({mi.index, uint64_t(idxv)}); }
    if (mi.index_vec) bi.vec_setup.push_back({mi.index, mi.vsib_elem});
    if (mi.base >= 0) {
      uint64_t bv = mi.ea - uint64_t(mi.disp) - uint64_t(idxv * mi.scale);
      if (mi.base_bits == 32) bv = (bv & 0xffffffffull) | 0xABCD000000000000ull;
      bi.gp_setup.push_back({mi.base, bv});
    } else if (mi.absaddr) {
      mi.disp = int64_t(mi.ea) - idxv * mi.scale;
    }
  }
  return bi;
}

static Operand make_reg(const xi::Reg& r) { return xi::to_asmjit_reg(r); }

// AsmJit operands of the instance. `rip_next` = address of the byte after the instruction (for rip-relative operands).
static void make_operands(const BInst& bi, uint64_t rip_next, Operand_* out, size_t& n, int replace_index = -1, const x86::Mem* replacement = nullptr) {
  n = 0;
  for (size_t i = 0; i < bi.ops.size() && n < 6; i++) {
    const FOp& fo = bi.ops[i];
    Operand op;
    if (int(i) == replace_index && replacement) op = *replacement;
    else if (fo.kind == 0) op = make_reg(fo.reg);
    else if (fo.kind == 2) op = Imm(fo.imm);
    else {
      const MemI& mi = fo.mem;
      x86::Mem m;
      uint32_t shift = mi.scale == 8 ? 3 : mi.scale == 4 ? 2 : mi.scale == 2 ? 1 : 0;
      uint32_t size = uint32_t(mi.size);
      if (mi.rip) m = x86::Mem(x86::rip, int32_t(int64_t(mi.ea) - int64_t(rip_next)), size);
      else if (mi.base >= 0) {
        Operand b = make_reg(xi::Reg{mi.base_bits == 32 ? xi::RC::Gp32 : xi::RC::Gp64, mi.base});
        if (mi.index >= 0) {
          Operand ix = mi.index_vec ? make_reg(xi::Reg{mi.index_rc, mi.index}) : make_reg(xi::Reg{mi.base_bits == 32 ? xi::RC::Gp32 : xi::RC::Gp64, mi.index});
          m = x86::Mem(b.as<asmjit::Reg>(), ix.as<asmjit::Reg>(), shift, int32_t(mi.disp), size);
        } else m = x86::Mem(b.as<asmjit::Reg>(), int32_t(mi.disp), size);
      } else {
        if (mi.index >= 0) {
          Operand ix = mi.index_vec ? make_reg(xi::Reg{mi.index_rc, mi.index}) : make_reg(xi::Reg{xi::RC::Gp64, mi.index});
          m = x86::Mem(uint64_t(mi.disp), ix.as<asmjit::Reg>(), shift, size);
        } else m = x86::Mem(uint64_t(mi.ea), size);
        m.set_addr_abs();
      }
      if (mi.bcst > 0) {
        x86::Mem::Broadcast b = mi.bcst == 2 ? x86::Mem::Broadcast::k1To2 : mi.bcst == 4 ? x86::Mem::Broadcast::k1To4 : mi.bcst == 8 ? x86::Mem::Broadcast::k1To8 :
                                mi.bcst == 16 ? x86::Mem::Broadcast::k1To16 : mi.bcst == 32 ? x86::Mem::Broadcast::k1To32 : x86::Mem::Broadcast::k1To64;
        m.set_broadcast(b);
      }
      op = m;
    }
    out[n++] = op;
  }
}

static InstOptions inst_options(const BInst& bi) {
  InstOptions opt = bi.encopt;
  if (bi.z) opt |= InstOptions::kX86_ZMask;
  if (bi.sae) opt |= InstOptions::kX86_SAE;
  if (bi.er >= 0) { opt |= InstOptions::kX86_ER; opt |= bi.er == 0 ? InstOptions::kX86_RN_SAE : bi.er == 1 ? InstOptions::kX86_RD_SAE : bi.er == 2 ? InstOptions::kX86_RU_SAE : InstOptions::kX86_RZ_SAE; }
  return opt;
}

// Assembles `inst ; ret` at g_code + code_off. Returns kOk and the instruction length, or the emitter's error.
static Error assemble(const BInst& bi, size_t code_off, size_t& inst_len, std::string* text, int replace_index = -1, const x86::Mem* replacement = nullptr, bool drop_implicit = false) {
  uint64_t at = uint64_t(uintptr_t(g_code)) + code_off;
  size_t len_guess = 0;
  for (int pass = 0; pass < 2; pass++) {
    CodeHolder code;
    code.init(Environment(Arch::kX64), at);
    x86::Assembler a(&code);
    Operand_ ops[8]; size_t n = 0;
    make_operands(bi, at + len_guess, ops, n, replace_index, replacement);
    if (drop_implicit) { size_t w = 0; for (size_t i = 0; i < n; i++) if (!bi.ops[i].implicit) ops[w++] = ops[i]; n = w; }
    a.add_inst_options(inst_options(bi));
    if (bi.k) a.set_extra_reg(x86::KReg(uint32_t(bi.k)));
    Error e = a.emit_op_array(bi.id, ops, n);
    if (e != Error::kOk) return e;
    size_t L = code.text_section()->buffer().size();
    bool has_rip = false;
    for (const FOp& fo : bi.ops) if (fo.kind == 1 && fo.mem.rip) has_rip = true;
    if (pass == 0 && has_rip && len_guess != L) { len_guess = L; continue; }
    if (a.ret() != Error::kOk) return Error::kInvalidState;
    const CodeBuffer& buf = code.text_section()->buffer();
    if (buf.size() > 64) return Error::kInvalidState;
    memcpy(g_code + code_off, buf.data(), buf.size());
    inst_len = L;
    if (text) {
      text->clear();
      String sb;
      BaseInst inst(bi.id, inst_options(bi));
      if (bi.k) inst.set_extra_reg(x86::KReg(uint32_t(bi.k)));
      Formatter::format_instruction(sb, FormatFlags::kNone, nullptr, Arch::kX64, inst, Span<const Operand_>(ops, n));
      *text = sb.data();
      *text += "  [";
      char b[4]; for (size_t i = 0; i < L; i++) { snprintf(b, sizeof b, "%02x", buf.data()[i]); *text += b; }
      *text += "]";
    }
    return Error::kOk;
  }
  return Error::kInvalidState;
}


// ---------------------------------------------------------------------------------------------------------------------
// Encoding selection: {vex3} / {vex} / {evex} x operand and decoration shapes that force (or do not force) EVEX
// ---------------------------------------------------------------------------------------------------------------------
enum { kShapeAsIs = 0, kShapePlain, kShapeHigh, kShapeK, kShapeKZ, kShapeBcst, kShapeErSae, kShapeCount };
static const char* shape_name(int s) { static const char* n[] = {"as_instantiated", "plain", "high_register", "k", "k_z", "broadcast", "er_sae"}; return n[size_t(s) % kShapeCount]; }
static std::string optmask_name(int m) {
  std::string s;
  if (m & 2) s += "vex";
  if (m & 1) s += s.empty() ? "vex3" : "+vex3";
  if (m & 4) s += s.empty() ? "evex" : "+evex";
  return s.empty() ? "none" : s;
}
static InstOptions optmask_options(int m) {
  InstOptions o = InstOptions::kNone;
  if (m & 1) o |= InstOptions::kX86_Vex3;
  if (m & 2) o |= InstOptions::kX86_Vex;
  if (m & 4) o |= InstOptions::kX86_Evex;
  return o;
}

// Does ISA-database form `g` admit the operands and decorations of instance `bi` (operand kinds, register classes, fixed registers,
// memory / broadcast element sizes, VSIB index class, registers 16..31 and {k}{z}{er}{sae} only where the form has them)?
static bool form_admits(const xdb::Form& g, const BInst& bi) {
  if (g.ops.size() != bi.ops.size()) return false;
  if (bi.k && !g.kmask) return false;
  if (bi.z && !g.zmask) return false;
  if (bi.er >= 0 && !g.er) return false;
  if (bi.sae && !g.sae) return false;
  for (size_t i = 0; i < g.ops.size(); i++) {
    const xdb::Op& d = g.ops[i]; const FOp& fo = bi.ops[i];
    if (fo.kind == 2) { if (!d.is_imm() || d.is_reg() || d.is_mem()) return false; continue; }
    if (fo.kind == 0) {
      xi::RC rc; int fx = -1;
      if (!d.is_reg() || !xi::db_reg_class(d.reg, rc, fx)) return false;
      bool same = rc == fo.reg.rc || (rc == xi::RC::Gp8Lo && fo.reg.rc == xi::RC::Gp8Hi && fx < 0);
      if (!same) return false;
      if (fx >= 0 && fx != fo.reg.id) return false;
      if (is_vec(rc) && fo.reg.id >= 16 && !g.is_evex()) return false;
      continue;
    }
    const MemI& mi = fo.mem;
    if (!d.is_mem()) return false;
    if (mi.index_vec != !d.vsibReg.empty()) return false;
    if (mi.index_vec) {
      xi::RC want = d.vsibReg == "xmm" ? xi::RC::Xmm : d.vsibReg == "ymm" ? xi::RC::Ymm : xi::RC::Zmm;
      if (want != mi.index_rc) return false;
      if (mi.index >= 16 && !g.is_evex()) return false;
    }
    if (mi.bcst > 0) {
      if (d.bcstSize <= 0 || d.bcstSize != mi.size * 8) return false;
      if (d.memSize > 0 && d.memSize != mi.bcst * d.bcstSize) return false;
    } else if (d.memSize > 0 && mi.size > 0 && d.memSize != mi.size * 8) return false;
  }
  return true;
}

// {vex}/{vex3} given (without {evex}) while nothing but a 512-bit memory operand forces EVEX (vcvtneps2bf16 ymm, m512).
static bool vex_hint_m512_only(const BInst& bi) {
  int optmask = bi.encsel & 7;
  if (!(optmask & 3) || (optmask & 4) || bi.k || bi.z || bi.er >= 0 || bi.sae) return false;
  bool other = false, m64 = false;
  for (const FOp& fo : bi.ops) {
    if (fo.kind == 0 && (fo.reg.rc == xi::RC::Zmm || fo.reg.rc == xi::RC::K || (is_vec(fo.reg.rc) && fo.reg.id >= 16))) other = true;
    if (fo.kind == 1) { if (fo.mem.bcst > 0 || fo.mem.index_vec) other = true; else if (fo.mem.size == 64) m64 = true; }
  }
  return m64 && !other;
}

static bool er_sae_len_ok(const xdb::Form& g, const BInst& bi) {
  int vl = 0;
  for (const FOp& fo : bi.ops) if (fo.kind == 0 && is_vec(fo.reg.rc)) vl = std::max(vl, reg_bytes(fo.reg.rc) * 8);
  return g.l == "512" || g.l == "LIG" || (g.l == "xyz" && g.groupIndex == 2) || vl == 512;
}

// Rewrites the instance into the requested shape. Returns nullptr, or the reason why the shape does not apply to this instance
// (`retry`: another reg/mem assignment of the same form may do).
static const char* apply_shape(BInst& bi, const xdb::Form& f, int shape, int sub, bool& retry) {
  retry = false;
  if (shape == kShapeAsIs) return nullptr;
  for (const FOp& fo : bi.ops) if (fo.kind == 1 && fo.mem.index_vec) return "vsib_form";
  bi.k = 0; bi.z = false; bi.er = -1; bi.sae = false;
  for (FOp& fo : bi.ops) {
    if (fo.kind == 0 && is_vec(fo.reg.rc)) fo.reg.id &= 15;
    if (fo.kind == 1 && fo.mem.bcst > 0) { fo.mem.bcst = 0; int full = f.ops[size_t(fo.db)].memSize; if (full > 0) fo.mem.size = full / 8; }
  }
  std::vector<const xdb::Form*> evex;
  { auto it = g_db.by_name.find(f.name); if (it != g_db.by_name.end()) for (int idx : it->second) { const xdb::Form& g = g_db.forms[size_t(idx)]; if (g.is_evex() && !g.is_apx() && g.mode_ok(64) && g.ops.size() == bi.ops.size()) evex.push_back(&g); } }
  switch (shape) {
    case kShapePlain: return nullptr;
    case kShapeHigh: {
      std::vector<size_t> v;
      for (size_t i = 0; i < bi.ops.size(); i++) {
        const FOp& fo = bi.ops[i];
        if (fo.kind != 0 || !is_vec(fo.reg.rc) || fo.implicit) continue;
        xi::RC rc; int fx = -1; xi::db_reg_class(f.ops[size_t(fo.db)].reg, rc, fx);
        if (fx < 0) v.push_back(i);
      }
      if (v.empty()) return "no_free_vector_register";
      bi.ops[v[size_t(sub) % v.size()]].reg.id |= 16;
      return nullptr;
    }
    case kShapeK: case kShapeKZ:
      if (bi.ops.empty()) return "no_operands";
      bi.k = 1 + sub % 7;
      if (shape == kShapeKZ) { if (bi.ops[0].kind == 1) { retry = true; return "z_with_memory_destination"; } bi.z = true; }
      return nullptr;
    case kShapeBcst: {
      for (size_t i = 0; i < bi.ops.size(); i++) {
        FOp& fo = bi.ops[i];
        if (fo.kind != 1 || fo.implicit) continue;
        for (const xdb::Form* g : evex) {
          const xdb::Op& d = g->ops[i];
          if (d.bcstSize <= 0 || d.memSize <= 0) continue;
          int n = d.memSize / d.bcstSize;
          if (n < 2 || n > 64) continue;
          MemI saved = fo.mem;
          fo.mem.bcst = n; fo.mem.size = d.bcstSize / 8;
          if (form_admits(*g, bi)) return nullptr;
          fo.mem = saved;
        }
      }
      retry = true;
      return "no_broadcastable_memory_operand";
    }
    case kShapeErSae: {
      if (bi.has_mem) { retry = true; return "has_memory_operand"; }
      for (const xdb::Form* g : evex) {
        if (!(g->er || g->sae) || !er_sae_len_ok(*g, bi)) continue;
        if (g->er) bi.er = sub % 4; else bi.sae = true;
        if (form_admits(*g, bi)) return nullptr;
        bi.er = -1; bi.sae = false;
      }
      return "no_evex_form_with_er_sae_admits_operands";
    }
  }
  return nullptr;
}

} // namespace

// =====================================================================================================================
// Part 3 — what the RW info covers, state comparison
// =====================================================================================================================
namespace {

struct LocSet {
  uint8_t gp[16]; uint64_t vec[32]; uint8_t k[8]; uint32_t flags; std::vector<std::pair<size_t, size_t>> mem;
  LocSet() { clear(); }
  void clear() { memset(gp, 0, sizeof gp); memset(vec, 0, sizeof vec); memset(k, 0, sizeof k); flags = 0; mem.clear(); }
  bool mem_has(size_t off) const { for (auto& r : mem) if (off >= r.first && off < r.first + r.second) return true; return false; }
};

static const uint32_t kStatusFlags = 0x8D5, kDF = 0x400;

static uint32_t to_rflags(CpuRWFlags f) {
  uint32_t r = 0;
  if (Support::test(f, CpuRWFlags::kX86_CF)) r |= 0x001;
  if (Support::test(f, CpuRWFlags::kX86_PF)) r |= 0x004;
  if (Support::test(f, CpuRWFlags::kX86_AF)) r |= 0x010;
  if (Support::test(f, CpuRWFlags::kX86_ZF)) r |= 0x040;
  if (Support::test(f, CpuRWFlags::kX86_SF)) r |= 0x080;
  if (Support::test(f, CpuRWFlags::kX86_DF)) r |= 0x400;
  if (Support::test(f, CpuRWFlags::kX86_OF)) r |= 0x800;
  return r;
}
static uint32_t db_flag_bit(const std::string& n) { return n == "CF" ? 1u : n == "PF" ? 4u : n == "AF" ? 0x10u : n == "ZF" ? 0x40u : n == "SF" ? 0x80u : n == "DF" ? 0x400u : n == "OF" ? 0x800u : 0u; }
static std::string flag_names(uint32_t m) {
  std::string s; static const struct { uint32_t b; const char* n; } t[] = {{1, "CF"}, {4, "PF"}, {0x10, "AF"}, {0x40, "ZF"}, {0x80, "SF"}, {0x400, "DF"}, {0x800, "OF"}};
  for (auto& e : t) if (m & e.b) { if (!s.empty()) s += ","; s += e.n; }
  return s;
}

struct Phys { int cls = -1; /*0 gp 1 vec 2 k*/ int id = 0; int off = 0; int bytes = 0; };
static Phys phys_of(const xi::Reg& r) {
  Phys p;
  if (is_gp(r.rc)) { p.cls = 0; p.id = r.id & 15; p.off = r.rc == xi::RC::Gp8Hi ? 1 : 0; if (r.rc == xi::RC::Gp8Hi) p.id = r.id & 3; p.bytes = reg_bytes(r.rc); }
  else if (is_vec(r.rc)) { p.cls = 1; p.id = r.id & 31; p.bytes = reg_bytes(r.rc); }
  else if (r.rc == xi::RC::K) { p.cls = 2; p.id = r.id & 7; p.bytes = 8; }
  return p;
}
static uint64_t lsb_bytes(int n) { return n >= 64 ? ~uint64_t(0) : ((uint64_t(1) << n) - 1); }

struct RwView {
  LocSet wr, wonly, ext, rd, ovw;   // covered by a written operand (GP: write|extend bytes; vector/mask registers: whole register), write mask only,
                                    // extend mask, reported read (+ pointer registers), bytes the RW info claims to be overwritten (write|extend)
  bool mem_written = false;
  uint32_t wflags = 0, rflags = 0, undef_flags = 0;
  std::string api_violation;        // cheap API-level findings (pointer register / {k} not reported as read)
};

static void add_mask(LocSet& s, const Phys& p, uint64_t mask) {
  if (p.cls == 0) s.gp[p.id] |= uint8_t((mask << p.off) & 0xFF);
  else if (p.cls == 1) s.vec[p.id] |= mask;
  else if (p.cls == 2) s.k[p.id] |= uint8_t(mask & 0xFF);
}

static RwView make_view(const BInst& bi, const InstRWInfo& rw, const Extra& x) {
  RwView v;
  v.wflags = to_rflags(rw.write_flags()); v.rflags = to_rflags(rw.read_flags());
  for (auto& kv : x.fl) if (kv.second == 'U') v.undef_flags |= db_flag_bit(kv.first);
  {  // SDM: OF is defined only for 1-bit rotates/shifts, AF is undefined for shifts (the ISA database lists them as plain writes)
    const std::string& n = bi.f->name;
    if (n == "rol" || n == "ror" || n == "rcl" || n == "rcr") v.undef_flags |= 0x800;
    if (n == "shl" || n == "shr" || n == "sar" || n == "sal" || n == "shld" || n == "shrd") v.undef_flags |= 0x810;
  }
  for (size_t i = 0; i < bi.ops.size() && i < rw.op_count(); i++) {
    const FOp& fo = bi.ops[i];
    const OpRWInfo& o = rw.operand(i);
    if (fo.kind == 0) {
      Phys p = phys_of(fo.reg);
      if (p.cls < 0) continue;
      if (o.is_write()) { add_mask(v.wr, p, p.cls == 0 ? (o.write_byte_mask() | o.extend_byte_mask()) : ~uint64_t(0)); add_mask(v.ovw, p, o.write_byte_mask() | o.extend_byte_mask()); add_mask(v.wonly, p, o.write_byte_mask()); add_mask(v.ext, p, o.extend_byte_mask()); }
      if (o.is_read()) add_mask(v.rd, p, ~uint64_t(0));     // reads are judged per operand (the register allocator only uses the flag)
    } else if (fo.kind == 1) {
      const MemI& mi = fo.mem;
      if (o.is_write()) v.mem_written = true;
      if (mi.base >= 0) {
        v.rd.gp[mi.base] = 0xFF;
        if (o.is_mem_base_write()) { v.wr.gp[mi.base] = 0xFF; v.wonly.gp[mi.base] = 0xFF; v.ovw.gp[mi.base] = 0xFF; }
        if (!o.is_mem_base_read() && !o.is_mem_base_write()) v.api_violation = "base register of memory operand #" + std::to_string(i) + " is not reported as read";
      }
      if (mi.index >= 0) {
        if (mi.index_vec) v.rd.vec[mi.index] = ~uint64_t(0); else v.rd.gp[mi.index] = 0xFF;
        if (o.is_mem_index_write()) { if (mi.index_vec) { v.wr.vec[mi.index] = ~uint64_t(0); v.wonly.vec[mi.index] = ~uint64_t(0); } else { v.wr.gp[mi.index] = 0xFF; v.wonly.gp[mi.index] = 0xFF; } }
        if (!o.is_mem_index_read() && !o.is_mem_index_write()) v.api_violation = "index register of memory operand #" + std::to_string(i) + " is not reported as read";
      }
    }
  }
  if (bi.k) {
    v.rd.k[bi.k] = 0xFF;
    const OpRWInfo& e = rw.extra_reg();
    if (!e.is_read()) v.api_violation = "{k} mask register is not reported as read (extra_reg)";
    if (e.is_write()) { v.wr.k[bi.k] = 0xFF; v.ovw.k[bi.k] |= uint8_t((e.write_byte_mask() | e.extend_byte_mask()) & 0xFF); }
  }
  return v;
}

static std::string hexbytes(const uint8_t* p, int n) { std::string s; char b[4]; for (int i = n - 1; i >= 0; i--) { snprintf(b, sizeof b, "%02x", p[i]); s += b; } return s; }
static const char* gpn(int i) { static const char* n[] = {"rax", "rcx", "rdx", "rbx", "rsp", "rbp", "rsi", "rdi", "r8", "r9", "r10", "r11", "r12", "r13", "r14", "r15"}; return n[i & 15]; }

// First location (outside `excl`) where two snapshots differ. Returns "" when equal.
static std::string first_diff(const Snap& a, const Snap& b, const LocSet& excl, uint32_t flag_mask, const char* la, const char* lb) {
  char buf[400];
  for (int i = 0; i < 16; i++) {
    if (i == 4) continue;
    const uint8_t* x = (const uint8_t*)&a.st.gpr[i]; const uint8_t* y = (const uint8_t*)&b.st.gpr[i];
    for (int q = 0; q < 8; q++) if (x[q] != y[q] && !(excl.gp[i] & (1u << q))) { snprintf(buf, sizeof buf, "%s byte %d: %s=%016llx %s=%016llx", gpn(i), q, la, (unsigned long long)a.st.gpr[i], lb, (unsigned long long)b.st.gpr[i]); return buf; }
  }
  for (int i = 0; i < 32; i++)
    for (int q = 0; q < 64; q++) if (a.st.zmm[i][q] != b.st.zmm[i][q] && !(excl.vec[i] & (uint64_t(1) << q))) {
      int lo = q & ~15; snprintf(buf, sizeof buf, "zmm%d byte %d: %s[%d..%d]=%s %s=%s", i, q, la, lo, lo + 15, hexbytes(&a.st.zmm[i][lo], 16).c_str(), lb, hexbytes(&b.st.zmm[i][lo], 16).c_str()); return buf; }
  for (int i = 0; i < 8; i++) {
    const uint8_t* x = (const uint8_t*)&a.st.k[i]; const uint8_t* y = (const uint8_t*)&b.st.k[i];
    for (int q = 0; q < 8; q++) if (x[q] != y[q] && !(excl.k[i] & (1u << q))) { snprintf(buf, sizeof buf, "k%d byte %d: %s=%016llx %s=%016llx", i, q, la, (unsigned long long)a.st.k[i], lb, (unsigned long long)b.st.k[i]); return buf; }
  }
  uint32_t fd = uint32_t(a.st.rflags ^ b.st.rflags) & flag_mask & ~excl.flags;
  if (fd) { snprintf(buf, sizeof buf, "flags %s: %s=%03llx %s=%03llx", flag_names(fd).c_str(), la, (unsigned long long)(a.st.rflags & 0xCD5), lb, (unsigned long long)(b.st.rflags & 0xCD5)); return buf; }
  for (size_t i = 0; i < kScr; i++) if (a.scr[i] != b.scr[i] && !excl.mem_has(i)) {
    size_t lo = i & ~size_t(7); snprintf(buf, sizeof buf, "memory scratch+%zu: %s=%s %s=%s", i, la, hexbytes(&a.scr[lo], 8).c_str(), lb, hexbytes(&b.scr[lo], 8).c_str()); return buf; }
  return std::string();
}

static std::string rw_text(const BInst& bi, const InstRWInfo& rw) {
  std::string s; char b[200];
  for (size_t i = 0; i < rw.op_count() && i < bi.ops.size(); i++) {
    const OpRWInfo& o = rw.operand(i);
    snprintf(b, sizeof b, " op%zu[%s%s%s R=%llx W=%llx X=%llx%s%s rm=%u phys=%u clc=%u%s]", i, o.is_read() ? "R" : "", o.is_write() ? "W" : "", bi.ops[i].implicit ? " impl" : "",
             (unsigned long long)o.read_byte_mask(), (unsigned long long)o.write_byte_mask(), (unsigned long long)o.extend_byte_mask(), o.is_mem_base_write() ? " baseW" : "", o.is_mem_index_write() ? " indexW" : "",
             o.is_rm() ? o.rm_size() : 0u, o.has_op_flag(OpRWFlags::kRegPhysId) ? o.phys_id() : 255u, o.consecutive_lead_count(), o.has_op_flag(OpRWFlags::kConsecutive) ? " consec" : "");
    s += b;
  }
  snprintf(b, sizeof b, " flagsR=%s flagsW=%s", flag_names(to_rflags(rw.read_flags())).c_str(), flag_names(to_rflags(rw.write_flags())).c_str());
  s += b;
  return s;
}

// WRITES: everything that differs between pre and post must be covered. Returns false (and key/msg) on a violation.
static bool check_writes(const BInst& bi, const RwView& v, const Snap& pre, const Snap& post, std::string& key, std::string& msg) {
  char buf[400];
  const std::string& mn = bi.f->name;
  for (int i = 0; i < 16; i++) {
    if (i == 4) continue;
    const uint8_t* x = (const uint8_t*)&pre.st.gpr[i]; const uint8_t* y = (const uint8_t*)&post.st.gpr[i];
    uint8_t d = 0; for (int q = 0; q < 8; q++) if (x[q] != y[q]) d |= uint8_t(1u << q);
    if (d & ~v.wr.gp[i]) { snprintf(buf, sizeof buf, "%s changed %016llx -> %016llx (changed byte mask %02x) but the RW info covers only byte mask %02x of it", gpn(i), (unsigned long long)pre.st.gpr[i], (unsigned long long)post.st.gpr[i], d, v.wr.gp[i]);
      key = "unreported-write:gp:" + mn; msg = buf; return false; }
    uint8_t ez = v.ext.gp[i] & ~v.wonly.gp[i];
    if (ez && (d & v.wonly.gp[i])) for (int q = 0; q < 8; q++) if ((ez & (1u << q)) && y[q] != 0) {
      snprintf(buf, sizeof buf, "%s = %016llx after execution: byte %d is reported as zero-extended (extend mask %02x) but is not zero (before: %016llx)", gpn(i), (unsigned long long)post.st.gpr[i], q, v.ext.gp[i], (unsigned long long)pre.st.gpr[i]);
      key = "zext-bytes-not-zero:" + mn; msg = buf; return false; }
  }
  for (int i = 0; i < 32; i++) {
    uint64_t d = 0; for (int q = 0; q < 64; q++) if (pre.st.zmm[i][q] != post.st.zmm[i][q]) d |= uint64_t(1) << q;
    if (d & ~v.wr.vec[i]) { int q = __builtin_ctzll(d & ~v.wr.vec[i]); int lo = q & ~15;
      snprintf(buf, sizeof buf, "zmm%d byte %d changed ([%d..%d] %s -> %s; changed mask %016llx) but the RW info covers only byte mask %016llx", i, q, lo, lo + 15, hexbytes(&pre.st.zmm[i][lo], 16).c_str(), hexbytes(&post.st.zmm[i][lo], 16).c_str(),
               (unsigned long long)d, (unsigned long long)v.wr.vec[i]);
      key = "unreported-write:vec:" + mn; msg = buf; return false; }
  }
  for (int i = 0; i < 8; i++) {
    const uint8_t* x = (const uint8_t*)&pre.st.k[i]; const uint8_t* y = (const uint8_t*)&post.st.k[i];
    uint8_t d = 0; for (int q = 0; q < 8; q++) if (x[q] != y[q]) d |= uint8_t(1u << q);
    if (d & ~v.wr.k[i]) { snprintf(buf, sizeof buf, "k%d changed %016llx -> %016llx (changed byte mask %02x) but the RW info covers only byte mask %02x", i, (unsigned long long)pre.st.k[i], (unsigned long long)post.st.k[i], d, v.wr.k[i]);
      key = "unreported-write:k:" + mn; msg = buf; return false; }
  }
  uint32_t fd = uint32_t(pre.st.rflags ^ post.st.rflags) & (kStatusFlags | kDF);
  if (fd & ~v.wflags) { snprintf(buf, sizeof buf, "flags %s changed (%03llx -> %03llx) but write_flags() reports only {%s}", flag_names(fd & ~v.wflags).c_str(), (unsigned long long)(pre.st.rflags & 0xCD5), (unsigned long long)(post.st.rflags & 0xCD5), flag_names(v.wflags).c_str());
    key = "unreported-write:flags:" + mn; msg = buf; return false; }
  if (!v.mem_written) for (size_t i = 0; i < kScr; i++) if (pre.scr[i] != post.scr[i]) {
    size_t lo = i & ~size_t(7); snprintf(buf, sizeof buf, "memory at scratch+%zu changed (%s -> %s) but no memory operand is reported as written", i, hexbytes(&pre.scr[lo], 8).c_str(), hexbytes(&post.scr[lo], 8).c_str());
    key = "unreported-write:mem:" + mn; msg = buf; return false; }
  return true;
}

struct Pert { int cls = 0; /*0 gp 1 vec 2 k 3 mem 4 flags*/ int id = 0; uint64_t mask = 0; size_t moff = 0, mlen = 0; uint32_t flags = 0; std::string what; };

static void apply_pert(const Pert& p, Snap& s) {
  if (p.cls == 0) { uint8_t* b = (uint8_t*)&s.st.gpr[p.id]; for (int q = 0; q < 8; q++) if (p.mask & (1u << q)) b[q] ^= 0xA5; }
  else if (p.cls == 1) { for (int q = 0; q < 64; q++) if (p.mask & (uint64_t(1) << q)) s.st.zmm[p.id][q] ^= 0xA5; }
  else if (p.cls == 2) { uint8_t* b = (uint8_t*)&s.st.k[p.id]; for (int q = 0; q < 8; q++) if (p.mask & (1u << q)) b[q] ^= 0xA5; }
  else if (p.cls == 3) { for (size_t i = 0; i < p.mlen; i++) s.scr[p.moff + i] ^= 0xA5; }
  else if (p.cls == 4) s.st.rflags ^= p.flags;
}

// Locations that are NOT reported as read, per operand (READS sub-check).
static std::vector<Pert> make_perts(const BInst& bi, const InstRWInfo& rw, const RwView& v) {
  std::vector<Pert> out;
  char buf[120];
  for (size_t i = 0; i < bi.ops.size() && i < rw.op_count(); i++) {
    const FOp& fo = bi.ops[i];
    const OpRWInfo& o = rw.operand(i);
    if (fo.kind == 0) {
      Phys p = phys_of(fo.reg);
      if (p.cls < 0 || o.is_read()) continue;
      uint64_t opmask = lsb_bytes(p.bytes);
      Pert pt; pt.cls = p.cls; pt.id = p.id;
      if (p.cls == 0) pt.mask = ((opmask << p.off) & 0xFF) & ~uint64_t(v.rd.gp[p.id]);
      else if (p.cls == 1) pt.mask = opmask & ~v.rd.vec[p.id];
      else pt.mask = (opmask & 0xFF) & ~uint64_t(v.rd.k[p.id]);
      if (!pt.mask) continue;
      snprintf(buf, sizeof buf, "operand #%zu (%s, not reported as read; write mask %llx, extend mask %llx), bytes %llx", i, xi::reg_name(fo.reg).c_str(), (unsigned long long)o.write_byte_mask(), (unsigned long long)o.extend_byte_mask(), (unsigned long long)pt.mask);
      pt.what = buf;
      out.push_back(pt);
    } else if (fo.kind == 1) {
      const MemI& mi = fo.mem;
      if (o.is_read() || o.is_mem_fake() || mi.size <= 0 || mi.index_vec || mi.size > 64) continue;
      Pert pt; pt.cls = 3; pt.moff = size_t(mi.ea - uint64_t(uintptr_t(g_scr))); pt.mlen = size_t(mi.size);
      snprintf(buf, sizeof buf, "memory operand #%zu (%d bytes, not reported as read)", i, mi.size);
      pt.what = buf;
      out.push_back(pt);
    }
  }
  uint32_t fp = (kStatusFlags | kDF) & ~v.rflags;
  if (fp) { Pert pt; pt.cls = 4; pt.flags = fp; pt.what = "flags {" + flag_names(fp) + "} (not in read_flags)"; out.push_back(pt); }
  return out;
}

} // namespace

// =====================================================================================================================
// Part 4 — kind 0: host execution (WRITES, READS, FEATURES, REG<->MEM)
// =====================================================================================================================
namespace {

static std::map<std::string, std::set<std::string>> g_rare;   // rare class -> mnemonics (reported as notes)
static void rare(vh::Ctx& ctx, const char* cls, const std::string& mn) { ctx.cls(cls); if (g_rare[cls].size() < 40) g_rare[cls].insert(mn); }

static void apply_setup(const BInst& bi, uint64_t seed, uint64_t idx, Snap& s) {
  Rng r(seed * 31 + idx * 1000003 + 17);
  for (const VecSetup& vs : bi.vec_setup) {
    if (vs.elem_bits == 64) for (int q = 0; q < 8; q++) { uint64_t v = r.next() % 16; memcpy(&s.st.zmm[vs.id][q * 8], &v, 8); }
    else for (int q = 0; q < 16; q++) { uint32_t v = uint32_t(r.next() % 16); memcpy(&s.st.zmm[vs.id][q * 4], &v, 4); }
  }
  for (auto& g : bi.gp_setup) s.st.gpr[g.first] = g.second;
}

static bool host_has_all(const CpuFeatures& need, std::string* missing) {
  const CpuFeatures& host = CpuInfo::host().features();
  CpuFeatures::Iterator it(need.iterator());
  bool ok = true;
  while (it.has_next()) {
    uint32_t id = uint32_t(it.next());
    if (!host.has(id)) { ok = false; if (missing) { String sb; Formatter::format_feature(sb, Arch::kX64, id); if (!missing->empty()) *missing += ","; *missing += sb.data(); } }
  }
  return ok;
}
static std::string features_text(const CpuFeatures& f) {
  std::string s; CpuFeatures::Iterator it(f.iterator());
  while (it.has_next()) { String sb; Formatter::format_feature(sb, Arch::kX64, uint32_t(it.next())); if (!s.empty()) s += "&"; s += sb.data(); }
  return s.empty() ? "-" : s;
}

static std::map<std::string, uint32_t>& feature_ids() {
  static std::map<std::string, uint32_t> m;
  if (m.empty()) for (uint32_t id = 1; id < 256; id++) { String sb; if (Formatter::format_feature(sb, Arch::kX64, id) == Error::kOk && sb.size() && strcmp(sb.data(), "<Unknown>") != 0) m[sb.data()] = id; }
  return m;
}

static const uint8_t* reg_bytes_ptr(const Snap& s, const Phys& p) {
  if (p.cls == 0) return (const uint8_t*)&s.st.gpr[p.id] + p.off;
  if (p.cls == 1) return s.st.zmm[p.id];
  return (const uint8_t*)&s.st.k[p.id];
}

static bool exec_built(vh::Ctx& ctx, BInst& bi, const xdb::Form& f, const Extra& x, uint64_t sseed, int nstates, bool allow_retry);

static void run_exec(const vh::Case& c, vh::Ctx& ctx) {
  size_t fi = c.cfg.size() > 1 ? size_t(uint64_t(c.cfg[1]) % g_db.forms.size()) : 0;
  const xdb::Form& f = g_db.forms[fi];
  const Extra& x = g_x[fi];
  uint64_t sseed = c.cfg.size() > 2 ? uint64_t(c.cfg[2]) : 1;
  int nstates = c.cfg.size() > 3 ? int(std::max<int64_t>(1, std::min<int64_t>(64, c.cfg[3]))) : 16;
  int encsel = c.cfg.size() > 4 ? int(uint64_t(c.cfg[4]) & 0xFFF) : 0;
  int optmask = encsel & 7, shape = ((encsel >> 3) & 7) % kShapeCount, sub = (encsel >> 6) & 63;
  const std::string& mn = f.name;

  if (const char* why = exclude_reason(f, x)) { ctx.cls(std::string("excl_") + why); return; }
  static const vh::Op empty;
  const vh::Op& ch0 = c.ops.empty() ? empty : c.ops[0];
  BInst bi;
  if (!optmask && !shape) {
    xi::Choices ch(ch0, 0);
    bi = build_inst(f, ch);
  } else {
    // encoding-selection case: the shape is imposed on the instance; shapes that need a memory operand / no memory operand retry with
    // choice vectors derived from the case's own (a pure function of the case)
    if (shape != kShapeAsIs && !g_dual.count(mn)) { ctx.cls("encsel_shape_ignored_mnemonic_without_vex_and_evex_forms"); shape = kShapeAsIs; }
    const char* why = nullptr;
    for (int attempt = 0; attempt < 10; attempt++) {
      vh::Op derived = ch0;
      if (attempt) { derived.resize(std::max<size_t>(derived.size(), size_t(kChoices))); for (size_t i = 0; i < derived.size(); i++) derived[i] = int64_t(mix(uint64_t(derived[i]) + uint64_t(attempt) * 0x9E3779B1ull + i) >> 34); }
      xi::Choices ch(derived, 0);
      bi = build_inst(f, ch);
      if (!bi.valid) break;
      bool retry = false;
      why = apply_shape(bi, f, shape, sub, retry);
      if (!why || !retry) break;
    }
    if (bi.valid && why) { ctx.cls(std::string("encsel_shape_not_applicable:") + shape_name(shape) + ":" + why); return; }
    bi.encopt = optmask_options(optmask);
    bi.encsel = optmask | (shape << 3) | 0x1000;
  }
  if (!bi.valid) { rare(ctx, "skip_uninstantiable", mn); if (g_dump) printf("uninstantiable: %s\n", bi.why.c_str()); return; }
  bi.id = InstAPI::string_to_inst_id(Arch::kX64, mn.c_str(), mn.size());
  if (bi.id == 0) { rare(ctx, "skip_unknown_mnemonic", mn); return; }
  if (g_prefer_evex.count(mn) && vex_hint_m512_only(bi)) {     // known finding: excluded by construction once listed
    std::string key = "features-underreported:vex-hint-m512:" + mn;
    if (ctx.is_known(key)) { ctx.known_excluded(key); return; }
  }
  if (exec_built(ctx, bi, f, x, sseed, nstates, true)) {
    // SIGILL with {k}/{z}/{er}/{sae}: legality of a decoration per form is C01/C13's subject; judge the undecorated instruction
    rare(ctx, "sigill_with_decoration_retried_plain", mn);
    bi.k = 0; bi.z = false; bi.er = -1; bi.sae = false;
    exec_built(ctx, bi, f, x, sseed, nstates, false);
  }
}

// FEATURES vs the ISA database: the encoding class is read off the emitted bytes; the judge is the set of database forms of the mnemonic
// in THAT class which admit the operands (the form the instance was built from when it is in that class, otherwise its siblings).
struct FeatVerdict { bool judged = false, satisfied = false, strict = false, sibling = false, exact = false; std::string pc, lacking; };

static std::string emitted_class(const uint8_t* bytes, size_t ilen) {
  size_t bp = 0;
  while (bp < ilen && (bytes[bp] == 0x66 || bytes[bp] == 0xF2 || bytes[bp] == 0xF3 || bytes[bp] == 0x67 || bytes[bp] == 0x2E || bytes[bp] == 0x36 || bytes[bp] == 0x3E || bytes[bp] == 0x26 || bytes[bp] == 0x64 || bytes[bp] == 0x65 || bytes[bp] == 0xF0)) bp++;
  return bp < ilen && bytes[bp] == 0x62 ? "EVEX" : bp < ilen && (bytes[bp] == 0xC4 || bytes[bp] == 0xC5) ? "VEX" : bp < ilen && bytes[bp] == 0x8F && bp + 1 < ilen && (bytes[bp + 1] & 0x1F) >= 8 ? "XOP" : "";
}

static FeatVerdict judge_features(vh::Ctx& ctx, const BInst& bi, const xdb::Form& f, const uint8_t* bytes, size_t ilen, const CpuFeatures& feats) {
  FeatVerdict r;
  const std::string& mn = f.name;
  r.pc = emitted_class(bytes, ilen);
  bool wide = bi.er >= 0 || bi.sae;
  for (const FOp& fo : bi.ops) { if (fo.kind == 0 && fo.reg.rc == xi::RC::Zmm) wide = true; if (fo.kind == 1 && fo.mem.index_vec && fo.mem.index_rc == xi::RC::Zmm) wide = true; }
  // AVX512_F is taken to imply AVX2/AVX/FMA/F16C, AVX2 to imply AVX; AVX512_VL is not required for 512-bit/scalar-rounding forms.
  CpuFeatures have = feats;
  auto& ids = feature_ids();
  auto addf = [&](const char* n) { auto it = ids.find(n); if (it != ids.end()) have.add(it->second); };
  auto hasf = [&](const char* n) { auto it = ids.find(n); return it != ids.end() && have.has(it->second); };
  if (hasf("AVX512_F")) { addf("AVX2"); addf("AVX"); addf("FMA"); addf("F16C"); }
  if (hasf("AVX2")) addf("AVX");
  std::vector<const xdb::Form*> cands, all;
  auto fit = g_db.by_name.find(mn);
  if (fit != g_db.by_name.end()) for (int idx : fit->second) {
    const xdb::Form& df = g_db.forms[size_t(idx)];
    if (df.prefix != r.pc || df.is_apx() || !df.mode_ok(64)) continue;
    all.push_back(&df);
    bool adm = form_admits(df, bi);
    if (&df == &f && !adm && !bi.encsel) { adm = true; rare(ctx, "admission_matcher_rejects_the_instantiated_form", mn); }   // plain sweep: the form the instance was built from always counts
    if (adm) cands.push_back(&df);
  }
  r.strict = !cands.empty();
  if (!r.strict && !bi.encsel) cands = all;      // plain sweep: fall back to 'some form of the mnemonic in the emitted encoding class'
  if (cands.empty()) return r;
  r.judged = true;
  r.sibling = f.prefix != r.pc;
  for (const xdb::Form* df : cands) {
    std::string miss; CpuFeatures need;
    if (!df->ext.empty()) for (const std::string& e : xdb::split(df->ext, ',')) {
      auto it = ids.find(e);
      if (it == ids.end()) { rare(ctx, "db_extension_without_asmjit_feature", e); continue; }
      if (e == "AVX512_VL" && wide) continue;
      need.add(it->second);
      if (!have.has(it->second)) { if (!miss.empty()) miss += ","; miss += e; }
    }
    if (miss.empty()) { r.satisfied = true; r.exact = need == feats; if (r.exact) break; continue; }
    if (r.lacking.empty()) r.lacking = miss;
  }
  return r;
}

static bool exec_built(vh::Ctx& ctx, BInst& bi, const xdb::Form& f, const Extra& x, uint64_t sseed, int nstates, bool allow_retry) {
  const std::string& mn = f.name;
  size_t ilen = 0; std::string text;
  Error ae = assemble(bi, kCodeMain, ilen, &text);
  bool dropped = false;
  if (ae != Error::kOk) {
    bool any_impl = false; for (const FOp& fo : bi.ops) if (fo.implicit) any_impl = true;
    if (any_impl && assemble(bi, kCodeMain, ilen, &text, -1, nullptr, true) == Error::kOk) { dropped = true; rare(ctx, "emitted_without_implicit_operands", mn); }
    else {
      if (bi.encsel) ctx.cls(std::string("encsel_rejected_by_assembler:") + optmask_name(bi.encsel & 7) + ":" + shape_name((bi.encsel >> 3) & 7));
      rare(ctx, "rejected_by_assembler", mn); if (g_dump) printf("rejected: %s err=%u\n", mn.c_str(), unsigned(ae)); return false;
    }
  }
  ctx.cls("assembled");

  Operand_ ops[8]; size_t nops = 0;
  make_operands(bi, uint64_t(uintptr_t(g_code)) + kCodeMain + ilen, ops, nops);
  BaseInst inst(bi.id, inst_options(bi));
  if (bi.k) inst.set_extra_reg(x86::KReg(uint32_t(bi.k)));
  InstRWInfo rw; memset(&rw, 0, sizeof rw);
  Error re = InstAPI::query_rw_info(Arch::kX64, inst, ops, nops, &rw);
  std::string desc = text + (dropped ? " (implicit operands passed to the query only)" : "");
  if (re != Error::kOk) {
    ctx.cls("rwinfo_error");
    ctx.fail_unless_known("rwinfo-failed:" + mn, desc + " :: query_rw_info returned error " + std::to_string(unsigned(re)) + " for an instruction the assembler accepts");
    return false;
  }
  CpuFeatures feats;
  Error fe = InstAPI::query_features(Arch::kX64, inst, ops, nops, &feats);
  std::string missing;
  bool host_ok = fe == Error::kOk && host_has_all(feats, &missing);
  desc += " ::" + rw_text(bi, rw) + " features=" + features_text(feats);
  if (g_dump) printf("%s\n", desc.c_str());

  // FEATURES vs the ISA database (the host has almost every extension, so under-reporting cannot be seen through SIGILL): some database
  // form of this mnemonic in the encoding AsmJit really emitted (legacy / VEX / EVEX / XOP) that admits these operands must have all its
  // extensions reported.
  if (fe == Error::kOk) {
    FeatVerdict fv = judge_features(ctx, bi, f, g_code + kCodeMain, ilen, feats);
    int optmask = bi.encsel & 7;
    bool pe = g_prefer_evex.count(mn) != 0;
    if (!fv.judged) {
      if (bi.encsel) { rare(ctx, "encsel_no_db_form_of_emitted_encoding_admits_operands", mn + "(" + optmask_name(optmask) + "," + shape_name((bi.encsel >> 3) & 7) + ")"); return false; }   // outside the database: encoder's business (C01/C13)
      rare(ctx, "no_db_form_in_emitted_encoding_class", mn);
    } else {
      ctx.cls("features_checked");
      ctx.cls(fv.strict ? "features_checked_against_forms_admitting_the_operands" : "features_checked_against_encoding_class_only");
      if (fv.sibling) ctx.cls("features_checked_emitted_encoding_differs_from_instantiated_form");
      if (fv.satisfied) ctx.cls(fv.exact ? "features_equal_to_a_db_form" : "features_superset_of_a_db_form");
      if (bi.encsel) {
        ctx.cls("features_checked_encsel");
        ctx.cls("features_checked_opt_" + optmask_name(optmask));
        if (optmask & 1) ctx.cls("features_checked_vex3");
        if (optmask & 2) ctx.cls("features_checked_vex");
        if (optmask & 4) ctx.cls("features_checked_evex");
        ctx.cls(std::string("features_checked_shape_") + shape_name((bi.encsel >> 3) & 7));
        ctx.cls("features_checked_encsel_emitted_" + (fv.pc.empty() ? std::string("legacy") : fv.pc));
        if (g_dual.count(mn)) ctx.cls("features_checked_encsel_vex_and_evex_mnemonics");
      }
      if (pe) { ctx.cls("features_checked_prefer_evex_forms"); ctx.cls("prefer_evex:" + mn + ":" + optmask_name(optmask) + ":" + fv.pc); }
      if (!fv.satisfied) {
        bool bcst = false; for (const FOp& fo : bi.ops) if (fo.kind == 1 && fo.mem.bcst > 0) bcst = true;
        // attribute the failure to the option only if the same instance without it is judged fine
        std::string cause;
        if (optmask) {
          BInst b2 = bi; b2.encopt = InstOptions::kNone;
          size_t l2 = 0; CpuFeatures f2;
          BaseInst i2(b2.id, inst_options(b2)); if (b2.k) i2.set_extra_reg(x86::KReg(uint32_t(b2.k)));
          if (assemble(b2, kCodeAlt, l2, nullptr, -1, nullptr, dropped) == Error::kOk) {
            Operand_ o2[8]; size_t n2 = 0; make_operands(b2, uint64_t(uintptr_t(g_code)) + kCodeAlt + l2, o2, n2);
            if (InstAPI::query_features(Arch::kX64, i2, o2, n2, &f2) == Error::kOk) { FeatVerdict v2 = judge_features(ctx, b2, f, g_code + kCodeAlt, l2, f2); if (!v2.judged || v2.satisfied) cause = "opt-" + optmask_name(optmask) + ":"; }
          }
        }
        if (pe && fv.pc == "EVEX" && vex_hint_m512_only(bi)) cause = "vex-hint-m512:";
        ctx.fail_unless_known(std::string("features-underreported:") + (bcst ? "broadcast:" : "") + cause + mn, desc + " :: the instruction is " + (fv.pc.empty() ? std::string("legacy") : fv.pc) + "-encoded, and every " + (fv.pc.empty() ? std::string("legacy") : fv.pc) +
                              "-encoded ISA-database form of it" + (fv.strict ? " that admits these operands" : "") + " requires an extension query_features does not report (e.g. " + fv.lacking + ")");
      }
    }
  }
  RwView v = make_view(bi, rw, x);
  if (!v.api_violation.empty()) ctx.fail_unless_known(std::string("unreported-read:") + (v.api_violation[0] == '{' ? "kmask:" : "pointer:") + mn, desc + " :: " + v.api_violation);
  // fixed registers: a reported physical id must be the register the form fixes
  for (size_t i = 0; i < bi.ops.size() && i < rw.op_count(); i++) {
    const OpRWInfo& o = rw.operand(i);
    if (bi.ops[i].kind != 0 || !o.has_op_flag(OpRWFlags::kRegPhysId)) continue;
    xi::RC rc; int fx = -1;
    xi::db_reg_class(f.ops[size_t(bi.ops[i].db)].reg, rc, fx);
    if (fx >= 0 && int(o.phys_id()) != fx) ctx.fail_unless_known("wrong-phys-id:" + mn, desc + " :: operand #" + std::to_string(i) + " is fixed to register id " + std::to_string(fx) + " by the ISA but the RW info reports physical id " + std::to_string(o.phys_id()));
    else if (fx < 0) rare(ctx, "physid_reported_for_free_operand", mn);
  }

  bool nondet = is_nondeterministic(mn);
  std::vector<Pert> perts = nondet ? std::vector<Pert>() : make_perts(bi, rw, v);
  uint32_t cmp_flags = (kStatusFlags | kDF) & ~v.undef_flags;

  std::vector<Snap> kept_pre;
  int good = 0, sigill = 0, faults = 0, attempts = 0;
  static Snap pre, post, pre2, post2;
  for (; attempts < nstates * 3 && good < nstates; attempts++) {
    gen_state(sseed, uint64_t(attempts), pre);
    apply_setup(bi, sseed, uint64_t(attempts), pre);
    int sig = run_code(kCodeMain, pre, post);
    if (sig == SIGILL) { sigill++; if (sigill >= 2 && good == 0) break; continue; }
    if (sig != 0) { faults++; ctx.cls(sig == SIGSEGV ? "state_discarded_sigsegv" : sig == SIGFPE ? "state_discarded_sigfpe" : "state_discarded_other_signal"); continue; }
    if (post.st.rsp_exit != post.st.rsp_entry + 8) { ctx.cls("state_discarded_rsp_changed"); continue; }
    good++;
    if (g_dump && good == 1) { LocSet none; printf("  first change: %s\n", first_diff(pre, post, none, kStatusFlags | kDF, "pre", "post").c_str()); }
    std::string key, msg;
    if (!check_writes(bi, v, pre, post, key, msg)) { ctx.fail_unless_known(key, desc + " :: state #" + std::to_string(attempts) + ": " + msg); }
    // ---- READS ----
    for (const Pert& pt : perts) {
      pre2 = pre; apply_pert(pt, pre2);
      int s2 = run_code(kCodeMain, pre2, post2);
      ctx.cls("perturbation_runs");
      if (s2 != 0) {
        if (s2 == SIGFPE || s2 == SIGSEGV || s2 == SIGBUS)
          ctx.fail_unless_known("unreported-read:" + mn, desc + " :: state #" + std::to_string(attempts) + ": perturbing " + pt.what + " makes the instruction fault (signal " + std::to_string(s2) + "), so it is read");
        continue;
      }
      LocSet excl;
      // bytes the RW info claims to be overwritten (write|extend) must not depend on their old value; other perturbed bytes are preserved by definition
      if (pt.cls == 0) excl.gp[pt.id] = uint8_t(pt.mask) & ~v.ovw.gp[pt.id];
      else if (pt.cls == 1) excl.vec[pt.id] = pt.mask & ~v.ovw.vec[pt.id];
      else if (pt.cls == 2) excl.k[pt.id] = uint8_t(pt.mask) & ~v.ovw.k[pt.id];
      else if (pt.cls == 3) excl.mem.push_back({pt.moff, pt.mlen});
      else excl.flags = pt.flags;
      if ((mn == "bsf" || mn == "bsr") && (post.st.rflags & 0x40) && bi.ops[0].kind == 0) { Phys p = phys_of(bi.ops[0].reg); excl.gp[p.id] = 0xFF; }   // zero source: destination undefined (SDM)
      std::string d = first_diff(post, post2, excl, cmp_flags, "run1", "run2");
      bool kmask_cause = bi.k && !rw.extra_reg().is_read() && pt.cls == 1;   // consequence of the {k} register not being handled at all (one root cause, one key)
      if (!d.empty()) ctx.fail_unless_known(std::string("unreported-read:") + (kmask_cause ? "kmask:" : "") + mn, desc + " :: state #" + std::to_string(attempts) + ": perturbing only " + pt.what + " changes the result: " + d);
    }
    if (kept_pre.size() < 6) kept_pre.push_back(pre);
  }
  if (sigill && !good && allow_retry && (bi.k || bi.z || bi.er >= 0 || bi.sae)) return true;
  if (sigill) {
    if (host_ok) ctx.fail_unless_known("features-sigill:" + mn, desc + " :: every feature reported by query_features is present on the host CPU, but the instruction raises SIGILL");
    else ctx.cls("feature_missing_sigill");
    if (!good) return false;
  }
  if (!host_ok && good) rare(ctx, "executes_although_reported_feature_missing", mn + "(" + missing + ")");
  if (good == 0) { rare(ctx, faults ? "form_not_executable_here_faults" : "form_not_executed", mn); return false; }

  // ---- REG <-> MEM ----
  if (bi.all_reg && !nondet) {
    uint32_t used = 1u << 4;
    bool any_hi = false;
    for (const FOp& fo : bi.ops) if (fo.kind == 0 && is_gp(fo.reg.rc)) { used |= 1u << phys_of(fo.reg).id; if (fo.reg.rc == xi::RC::Gp8Hi) any_hi = true; }
    int base = -1;
    for (int id = any_hi ? 7 : 15; id >= 0; id--) if (!(used & (1u << id))) { base = id; break; }
    for (size_t i = 0; i < bi.ops.size() && i < rw.op_count() && base >= 0; i++) {
      const OpRWInfo& o = rw.operand(i);
      if (bi.ops[i].kind != 0 || !o.is_rm() || o.rm_size() == 0) continue;
      Phys p = phys_of(bi.ops[i].reg);
      if (p.cls < 0) continue;
      uint32_t s = o.rm_size();
      ctx.cls("regmem_operands_checked");
      uint64_t ea = uint64_t(uintptr_t(g_scr)) + kSlot0;
      x86::Mem repl(x86::gpq(uint32_t(base)), 0x40, s);
      Operand_ ops2[8]; size_t n2 = 0;
      make_operands(bi, 0, ops2, n2, int(i), &repl);
      std::string what = "operand #" + std::to_string(i) + " (" + xi::reg_name(bi.ops[i].reg) + ") is reported as replaceable by a " + std::to_string(s) + "-byte memory operand";
      Error ve = InstAPI::validate(Arch::kX64, inst, ops2, n2);
      size_t ilen2 = 0; std::string text2;
      Error ae2 = ve == Error::kOk ? assemble(bi, kCodeAlt, ilen2, &text2, int(i), &repl, dropped) : ve;
      if (ve != Error::kOk || ae2 != Error::kOk) {
        // one key per cause: options the query ignores ({sae}/{er}, {z} on a destination) vs. a per-operand flag that does not hold for this form
        std::string cause = (bi.sae || bi.er >= 0) ? "sae-er:" : (bi.z && o.is_write()) ? "zmask-dest:" : "";
        ctx.fail_unless_known("regmem-not-replaceable:" + cause + mn, desc + " :: " + what + ", but that instruction " + (ve != Error::kOk ? "does not validate" : "does not assemble") + " (error " + std::to_string(unsigned(ve != Error::kOk ? ve : ae2)) + ")");
        continue;
      }
      if (rw.rm_feature() && !CpuInfo::host().features().has(rw.rm_feature())) { ctx.cls("regmem_feature_missing_on_host"); continue; }
      if (uint32_t(p.bytes) < s && p.cls == 0) { ctx.cls("regmem_size_exceeds_register"); }
      size_t moff = kSlot0;
      for (size_t si = 0; si < kept_pre.size(); si++) {
        pre = kept_pre[si];
        pre.st.gpr[base] = ea - 0x40;
        pre2 = pre;
        uint32_t avail = p.cls == 0 ? uint32_t(8 - p.off) : p.cls == 1 ? 64u : 8u;
        uint32_t ncopy = std::min(s, avail);
        memcpy(&pre2.scr[moff], reg_bytes_ptr(pre, p), ncopy);
        int sa = run_code(kCodeMain, pre, post), sb = run_code(kCodeAlt, pre2, post2);
        if (sa != 0 || sb != 0) {
          if (sa == 0 && sb == SIGILL) {
            // the memory form may be encoded differently (a register 16..31 replaced under {vex}: VEX instead of EVEX) and need a feature the host lacks
            CpuFeatures fm; std::string miss2;
            if (InstAPI::query_features(Arch::kX64, inst, ops2, n2, &fm) == Error::kOk && !host_has_all(fm, &miss2)) { rare(ctx, "regmem_memory_form_needs_feature_missing_on_host", mn + "(" + miss2 + ")"); break; }
            std::string cause = (bi.sae || bi.er >= 0) ? "sae-er:" : (bi.z && o.is_write()) ? "zmask-dest:" : "";
            ctx.fail_unless_known("regmem-not-replaceable:" + cause + mn, desc + " :: " + what + " (" + text2 + "), but the memory form raises SIGILL"); break; }
          ctx.cls("regmem_state_discarded_fault"); continue;
        }
        ctx.cls("regmem_pairs_executed");
        LocSet excl; excl.mem.push_back({moff, size_t(s)});
        if (o.is_write()) { if (p.cls == 0) excl.gp[p.id] = 0xFF; else if (p.cls == 1) excl.vec[p.id] = ~uint64_t(0); else excl.k[p.id] = 0xFF; }
        std::string d = first_diff(post, post2, excl, cmp_flags, "reg-form", "mem-form");
        if (d.empty() && o.is_write() && memcmp(&post2.scr[moff], reg_bytes_ptr(post, p), ncopy) != 0)
          d = "memory result " + hexbytes(&post2.scr[moff], int(ncopy)) + " differs from the low bytes of the register result " + hexbytes(reg_bytes_ptr(post, p), int(ncopy));
        if (!d.empty()) { ctx.fail_unless_known("regmem-different-result:" + mn, desc + " :: " + what + " (" + text2 + "), but the two forms compute different results: " + d); break; }
      }
    }
  }

  ctx.cls(bi.has_mem ? "executed_with_memory_operand" : "executed_register_only");
  if (bi.k) ctx.cls(bi.z ? "executed_with_k_z" : "executed_with_k");
  ctx.cls(f.prefix.empty() ? "enc_legacy" : "enc_" + f.prefix);
  if (bi.encsel) ctx.cls("encsel_executed");
  if (good >= (bi.encsel ? std::min(nstates, 8) : 8)) { ctx.nontrivial(); if (ctx.want_sample()) ctx.sample(desc + " :: " + std::to_string(good) + " states"); }
  else rare(ctx, "executed_in_fewer_than_8_states", mn);
  return false;
}

} // namespace

// =====================================================================================================================
// Part 5 — kinds 1 and 2: consecutive register runs (API only, both back ends)
// =====================================================================================================================
namespace {

static void run_x86_consecutive(const vh::Case& c, vh::Ctx& ctx) {
  if (g_x86_runs.empty()) { ctx.cls("x86_no_run_forms_in_db"); return; }
  size_t fi = size_t(g_x86_runs[size_t(uint64_t(c.cfg.size() > 1 ? c.cfg[1] : 0) % g_x86_runs.size())]);
  const xdb::Form& f = g_db.forms[fi];
  static const vh::Op empty;
  xi::Choices ch(c.ops.empty() ? empty : c.ops[0], 0);
  BInst bi = build_inst(f, ch);
  if (!bi.valid) { ctx.cls("skip_uninstantiable"); return; }
  bi.id = InstAPI::string_to_inst_id(Arch::kX64, f.name.c_str(), f.name.size());
  if (!bi.id) { ctx.cls("skip_unknown_mnemonic"); return; }
  Operand_ ops[8]; size_t n = 0;
  make_operands(bi, 0, ops, n);
  BaseInst inst(bi.id, inst_options(bi));
  if (bi.k) inst.set_extra_reg(x86::KReg(uint32_t(bi.k)));
  if (InstAPI::validate(Arch::kX64, inst, ops, n) != Error::kOk) { ctx.cls("x86_run_form_not_validated"); return; }
  InstRWInfo rw; memset(&rw, 0, sizeof rw);
  if (InstAPI::query_rw_info(Arch::kX64, inst, ops, n, &rw) != Error::kOk) { ctx.cls("rwinfo_error"); return; }
  String sb; Formatter::format_instruction(sb, FormatFlags::kNone, nullptr, Arch::kX64, inst, Span<const Operand_>(ops, n));
  std::string desc = std::string(sb.data()) + " ::" + rw_text(bi, rw);
  for (size_t i = 0; i < bi.ops.size(); i++) {
    int rel = f.ops[size_t(bi.ops[i].db)].regIndexRel;
    if (rel <= 0 || int(i) - rel < 0) continue;
    size_t lead = i - size_t(rel);
    uint32_t need = 1; for (size_t j = lead + 1; j < bi.ops.size(); j++) if (f.ops[size_t(bi.ops[j].db)].regIndexRel == int(j - lead)) need = uint32_t(j - lead + 1);
    if (!rw.operand(i).has_op_flag(OpRWFlags::kConsecutive))
      ctx.fail_unless_known("consecutive-not-reported:x86:" + f.name, desc + " :: operand #" + std::to_string(i) + " must be register(operand #" + std::to_string(lead) + ")+" + std::to_string(rel) + " by the encoding, but is not flagged kConsecutive");
    if (rw.operand(lead).consecutive_lead_count() < need)
      ctx.fail_unless_known("consecutive-not-reported:x86:" + f.name, desc + " :: operand #" + std::to_string(lead) + " leads a run of " + std::to_string(need) + " registers, but consecutive_lead_count() is " + std::to_string(rw.operand(lead).consecutive_lead_count()));
  }
  ctx.cls("x86_run_forms_checked");
  ctx.nontrivial();
  if (ctx.want_sample()) ctx.sample(desc);
}

static std::map<std::string, std::vector<InstId>>& a64_names() {
  static std::map<std::string, std::vector<InstId>> m;
  if (m.empty()) {
    for (InstId id = 1; id < a64::Inst::_kIdCount; id++) {
      String sb;
      if (InstAPI::inst_id_to_string(Arch::kAArch64, id, InstStringifyOptions::kNone, sb) == Error::kOk && sb.size()) m[sb.data()].push_back(id);
    }
  }
  return m;
}

static a64::Vec a64_vec(uint32_t id, const std::string& et, bool has_idx, int arrangement, uint32_t idx) {
  a64::Vec v = a64::v(id);
  if (has_idx) {
    if (et == "B") return v.b(idx); if (et == "H") return v.h(idx); if (et == "S") return v.s(idx); if (et == "D") return v.d(idx);
    return v.b(idx);
  }
  if (et == "8B") return v.b8(); if (et == "16B") return v.b16(); if (et == "4H") return v.h4(); if (et == "8H") return v.h8();
  if (et == "2S") return v.s2(); if (et == "4S") return v.s4(); if (et == "2D") return v.d2();
  switch (arrangement & 7) { case 0: return v.b16(); case 1: return v.b8(); case 2: return v.h8(); case 3: return v.h4(); case 4: return v.s4(); case 5: return v.s2(); case 6: return v.d2(); default: return v.b16(); }
}

static void run_a64_list(const vh::Case& c, vh::Ctx& ctx) {
  if (g_a64.empty()) return;
  const A64Form& fm = g_a64[size_t(uint64_t(c.cfg.size() > 1 ? c.cfg[1] : 0) % g_a64.size())];
  static const vh::Op empty;
  xi::Choices ch(c.ops.empty() ? empty : c.ops[0], 0);
  auto it = a64_names().find(fm.name);
  if (it == a64_names().end()) { rare(ctx, "a64_mnemonic_not_in_asmjit", fm.name); return; }
  for (const A64Op& o : fm.ops) if (o.kind == 'r' && o.rt != 'v' && o.rt != 'w' && o.rt != 'x') { rare(ctx, "a64_unsupported_register_type", fm.name); return; }

  uint32_t ids[8]; uint32_t prev = 0;
  uint32_t idx = uint32_t(ch.pick(2));
  std::vector<uint32_t> taken;
  for (size_t i = 0; i < fm.ops.size() && i < 8; i++) {
    const A64Op& o = fm.ops[i];
    ids[i] = 0;
    if (o.kind != 'r') continue;
    if (o.artificial) ids[i] = prev + 1;
    else {
      uint32_t id = uint32_t(ch.pick(28));
      if (o.run >= 2 && o.rt != 'v') id &= ~1u;                    // register pairs start at an even register
      if (o.run >= 2 && id + uint32_t(o.run) > 30) id = 24 - (o.rt != 'v' ? 0 : 1);
      for (int guard = 0; guard < 40; guard++) {                    // keep runs disjoint from other operands
        bool clash = false;
        for (uint32_t t : taken) for (uint32_t q = 0; q < uint32_t(std::max(1, o.run)); q++) if (t == id + q) clash = true;
        if (!clash) break;
        id = (id + (o.rt != 'v' && o.run >= 2 ? 2 : 1)) % 24;
      }
      ids[i] = id;
    }
    prev = ids[i];
    taken.push_back(ids[i]);
  }
  int nlist = 0; for (const A64Op& o : fm.ops) if (o.kind == 'r' && (o.run >= 2 || o.artificial)) nlist++;
  for (InstId id : it->second) {
    for (int arr = 0; arr < 24; arr++) {
      // arr / 8: 0 = post-index immediate as written in the database, 1/2 = the architectural value (registers x 8 / x 16 bytes; the
      // database lists #16/#32 for ld3/st3 where the architecture and AsmJit use #24/#48)
      int off_mode = arr / 8;
      Operand_ ops[8]; size_t n = 0;
      for (size_t i = 0; i < fm.ops.size() && n < 6; i++) {
        const A64Op& o = fm.ops[i];
        Operand op;
        if (o.kind == 'r') {
          if (o.rt == 'v') op = a64_vec(ids[i], o.et, o.has_idx, arr, idx);
          else if (o.rt == 'w') op = a64::w(ids[i]); else op = a64::x(ids[i]);
        } else if (o.kind == 'm') {
          a64::Gp base = a64::x(27);
          if (o.text.find("Xm") != std::string::npos) op = a64::ptr_post(base, a64::x(26));
          else if (o.text.find("#off") != std::string::npos) { size_t q = o.text.rfind('='); int off = q != std::string::npos ? atoi(o.text.c_str() + q + 1) : 0; if (off_mode) off = nlist * 8 * off_mode; op = a64::ptr_post(base, off); }
          else op = a64::ptr(base);
        } else op = Imm(idx);
        ops[n++] = op;
      }
      CodeHolder code; code.init(Environment(Arch::kAArch64));
      a64::Assembler a(&code);
      if (a.emit_op_array(id, ops, n) != Error::kOk) continue;
      // accepted: this is an instance of the DB form
      if (off_mode) rare(ctx, "a64_db_postindex_offset_differs_from_architecture", fm.name);
      BaseInst inst(id);
      InstRWInfo rw; memset(&rw, 0, sizeof rw);
      if (InstAPI::query_rw_info(Arch::kAArch64, inst, ops, n, &rw) != Error::kOk) { ctx.cls("rwinfo_error"); return; }
      String sb; Formatter::format_instruction(sb, FormatFlags::kNone, nullptr, Arch::kAArch64, inst, Span<const Operand_>(ops, n));
      std::string desc = std::string(sb.data()) + " ::";
      for (size_t i = 0; i < n; i++) { char b[96]; const OpRWInfo& o = rw.operand(i); snprintf(b, sizeof b, " op%zu[%s%s clc=%u%s]", i, o.is_read() ? "R" : "", o.is_write() ? "W" : "", o.consecutive_lead_count(), o.has_op_flag(OpRWFlags::kConsecutive) ? " consec" : ""); desc += b; }
      bool over = false;
      for (size_t i = 0; i < fm.ops.size() && i < n; i++) {
        const A64Op& o = fm.ops[i];
        if (o.kind != 'r' || o.run < 2) continue;
        const OpRWInfo& lead = rw.operand(i);
        bool lead_ok = lead.consecutive_lead_count() >= uint32_t(o.run) || lead.has_op_flag(OpRWFlags::kConsecutive);
        if (lead.has_op_flag(OpRWFlags::kConsecutive) || lead.consecutive_lead_count() > uint32_t(o.run)) over = true;
        if (!lead_ok)
          ctx.fail_unless_known("consecutive-not-reported:a64:" + fm.name, desc + " :: operand #" + std::to_string(i) + " leads a run of " + std::to_string(o.run) + " consecutive registers (ISA database: " + std::to_string(o.run) + "x{...}), but consecutive_lead_count() is " +
                                std::to_string(lead.consecutive_lead_count()));
        for (size_t j = i + 1; j < i + size_t(o.run) && j < n; j++)
          if (!rw.operand(j).has_op_flag(OpRWFlags::kConsecutive))
            ctx.fail_unless_known("consecutive-not-reported:a64:" + fm.name, desc + " :: operand #" + std::to_string(j) + " must be register(operand #" + std::to_string(i) + ")+" + std::to_string(j - i) + " by the encoding, but is not flagged kConsecutive");
      }
      // (The database's access letters for AArch64 are derived from operand names - casp lists Ws as read-only and the new value as written - and are
      // not used as an oracle here.)
      if (over) ctx.cls("a64_run_overconstrained_" + fm.name);
      ctx.cls("a64_list_forms_checked");
      ctx.nontrivial();
      if (ctx.want_sample()) ctx.sample(desc);
      return;
    }
  }
  rare(ctx, "a64_form_not_assemblable", fm.name);
}

} // namespace

// =====================================================================================================================
// Part 6 — driver glue
// =====================================================================================================================
void vh_run(const vh::Case& c, vh::Ctx& ctx) {
  int kind = c.cfg.empty() ? 0 : int(uint64_t(c.cfg[0]) % 3);
  if (kind == 0) run_exec(c, ctx);
  else if (kind == 1) run_x86_consecutive(c, ctx);
  else run_a64_list(c, ctx);
}

static void fill_choices(vh::Case& out, uint64_t seed) {
  vh::Op chv; uint64_t s = mix(seed);
  for (int i = 0; i < kChoices; i++) { s = mix(s + uint64_t(i)); chv.push_back(int64_t(s >> 33)); }
  out.ops.push_back(chv);
}

// Encoding-selection sweep: every non-excluded VEX / EVEX form of a mnemonic that has both encodings in the database x every applicable
// shape x {no option, {vex3}, {vex}, {evex}}, plus the option combinations for the first shape (all 8 option sets x every shape for the
// "prefer EVEX" instructions).
static const std::vector<std::pair<int, int>>& enc_sweep() {
  static std::vector<std::pair<int, int>> v; static bool built = false;
  if (built) return v;
  built = true;
  uint64_t n = 0;
  for (size_t fi = 0; fi < g_db.forms.size(); fi++) {
    const xdb::Form& f = g_db.forms[fi];
    if ((f.prefix != "VEX" && f.prefix != "EVEX") || !g_dual.count(f.name) || exclude_reason(f, g_x[fi])) continue;
    bool vsib = !f.vsibReg.empty(), has_zmm = false, can_bcst = false, can_er = false;
    for (const xdb::Op& d : f.ops) { if (!d.vsibReg.empty()) vsib = true; if (d.reg == "zmm") has_zmm = true; }
    for (int idx : g_db.by_name[f.name]) {
      const xdb::Form& g = g_db.forms[size_t(idx)];
      if (!g.is_evex() || g.is_apx() || !g.mode_ok(64) || g.ops.size() != f.ops.size()) continue;
      for (const xdb::Op& d : g.ops) if (d.bcstSize > 0) can_bcst = true;
      if ((g.er || g.sae) && (g.l == "LIG" || has_zmm || &g == &f)) can_er = true;
    }
    std::vector<int> shapes;
    if (vsib) shapes = {kShapeAsIs};
    else { shapes = {kShapePlain, kShapeHigh, kShapeK, kShapeKZ}; if (can_bcst) shapes.push_back(kShapeBcst); if (can_er) shapes.push_back(kShapeErSae); }
    bool pe = g_prefer_evex.count(f.name) != 0;
    for (int sh : shapes) for (int om = 0; om < 8; om++) {
      bool single = om == 0 || om == 1 || om == 2 || om == 4;
      if (!single && !pe && sh != shapes[0]) continue;
      if (!om && !sh) continue;
      v.push_back({int(fi), om | (sh << 3) | (int(mix(n++) & 63) << 6)});
    }
  }
  return v;
}

// Deterministic sweep: every x86 form x R assignments (kind 0), every run form (kind 1), every AArch64 list form x 2 (kind 2), the
// encoding-selection sweep (kind 0 with encsel, `encstates` machine states each).
bool vh_enum(const vh::Opts& o, uint64_t k, vh::Case& out) {
  uint64_t reps = uint64_t(o.geti("reps", 1)), states = uint64_t(o.geti("states", 16));
  uint64_t encreps = uint64_t(o.geti("encreps", 1)), encstates = uint64_t(o.geti("encstates", 3));
  const std::vector<std::pair<int, int>>& es = enc_sweep();
  uint64_t nf = g_db.forms.size(), nx = g_x86_runs.size() * 4, na = g_a64.size() * 2, ne = es.size() * encreps;
  uint64_t total = nf * reps + nx + na + ne;
  uint64_t g = k * uint64_t(o.workers) + uint64_t(o.worker);
  if (g >= total) return false;
  uint64_t base = mix(((o.seed / 1000) + 1) * 1000003ull);   // the driver passes seed*1000 + worker: keep the sweep identical across workers
  out = vh::Case();
  if (g < nf * reps) { out.cfg = {0, int64_t(g % nf), int64_t(mix(base + g) >> 34), int64_t(states), 0}; fill_choices(out, base + g * 7 + 1); }
  else if (g < nf * reps + nx) { uint64_t q = g - nf * reps; out.cfg = {1, int64_t(q % g_x86_runs.size()), 0, 0, 0}; fill_choices(out, base + q * 13 + 5); }
  else if (g < nf * reps + nx + na) { uint64_t q = g - nf * reps - nx; out.cfg = {2, int64_t(q % g_a64.size()), 0, 0, 0}; fill_choices(out, base + q * 17 + 3); }
  else { uint64_t q = g - nf * reps - nx - na; const auto& e = es[size_t(q % es.size())]; out.cfg = {0, int64_t(e.first), int64_t(mix(base + g + 99) >> 34), int64_t(encstates), int64_t(e.second)}; fill_choices(out, base + q * 19 + 11); }
  return true;
}

rc::Gen<vh::Case> vh_gen(const vh::Opts& o) {
  using namespace rc;
  int nforms = int(g_db.forms.size());
  int states = int(o.geti("states", 16));
  return gen::apply([states](int kindsel, int form, int sseed, std::vector<int> ch, int encp, int encsel) {
      vh::Case c; int kind = kindsel < 94 ? 0 : kindsel < 96 ? 1 : 2;
      c.cfg = {kind, form, sseed, states, kind == 0 && encp < 30 ? encsel : 0};
      vh::Op op; for (int v : ch) op.push_back(v);
      c.ops.push_back(op); return c; },
    vh::irange<int>(0, 99), vh::irange<int>(0, nforms - 1), vh::irange<int>(0, 0x3fffffff),
    gen::container<std::vector<int>>(size_t(kChoices), vh::irange<int>(0, 0x3fffffff)),
    vh::irange<int>(0, 99), vh::irange<int>(1, 0xFFF));
}

void vh_fini(const vh::Opts&, vh::Ctx& ctx) {
  for (auto& kv : g_rare) { std::string s = kv.first + ":"; for (auto& m : kv.second) { s += " "; s += m; } ctx.notes.push_back(s); }
}
