// C13 — Validation, encoder and ISA database agree on which instruction forms exist (x86 part + name round trips).
//
// Case: cfg = [variant, mode(32|64), form_index | inst id, K]   ops[0] = choices
//   variant 0: DB form in an allowed mode: validate() / strict assembler / lenient assembler agree; vendored acceptance list
//   variant 1: DB form in a mode the DB excludes: validator and strict assembler must refuse
//   variant 2: near-miss mutation of a valid instance: if AsmJit accepts it, the DB or LLVM must know such a form
//   variant 3: instruction-name round trip (x86 + AArch64), aliases, mutated strings
#define VH_MAIN
#include "vh.h"
#include "gen/x86inst.h"
#include "gen/x86tmpl.h"
#include "oracle/llvm_mc.h"

#include <asmjit/a64.h>
#include <memory>
#include <set>
#include <unordered_set>

using namespace asmjit;

const char* vh_property() { return "C13"; }

static xdb::DB g_db;
static std::vector<std::pair<std::string, std::string>> g_aliases;
static std::unique_ptr<oracle::LlvmMc> g_mc32, g_mc64;
static std::unordered_set<std::string> g_vendored, g_a64_unfindable;
static bool g_have_vendored = false;
static FILE* g_vendor_out = nullptr;
static const int kChoices = 40;

static std::string form_sig(const xdb::Form& f) {
  std::string s = f.name + " ";
  for (size_t i = 0; i < f.ops.size(); i++) { if (i) s += ","; if (f.ops[i].implicit) s += "<"; s += f.ops[i].data; }
  s += " | " + f.opcodeString;
  return s;
}

void vh_init(const vh::Opts& o, vh::Ctx& ctx) {
  std::string path = "build/gen/x86_forms.txt";
  auto it = o.kv.find("forms");
  if (it != o.kv.end()) path = it->second;
  if (!g_db.load(path.c_str())) { fprintf(stderr, "cannot load %s\n", path.c_str()); exit(2); }
  // aliases
  {
    std::string text;
    if (vh::read_file(path, text)) {
      size_t p = 0;
      while (p < text.size()) {
        size_t e = text.find('\n', p); if (e == std::string::npos) e = text.size();
        if (text.compare(p, 2, "A|") == 0) { std::vector<std::string> t = xdb::split(text.substr(p, e - p), '|'); if (t.size() >= 3) g_aliases.push_back({t[1], t[2]}); }
        p = e + 1;
      }
    }
  }
  xi::allow_rel_operands() = true;      // rel8/rel32 operands are instantiated as a label bound at the instruction
  g_mc32.reset(new oracle::LlvmMc(oracle::Target::X86_32));
  g_mc64.reset(new oracle::LlvmMc(oracle::Target::X86_64));
  auto vit = o.kv.find("vendor-out");
  if (vit != o.kv.end()) { char b[512]; snprintf(b, sizeof b, "%s.%d", vit->second.c_str(), o.worker); g_vendor_out = fopen(b, "w"); }
  std::string vtext;
  if (vh::read_file("data/c13_accepted_x86.txt", vtext)) {
    size_t p = 0;
    while (p < vtext.size()) { size_t e = vtext.find('\n', p); if (e == std::string::npos) e = vtext.size(); if (e > p && vtext[p] != '#') g_vendored.insert(vtext.substr(p, e - p)); p = e + 1; }
    g_have_vendored = !g_vendored.empty();
  }
  {
    std::string t;
    if (vh::read_file("data/c13_a64_unfindable_names.txt", t)) { size_t p = 0; while (p < t.size()) { size_t e = t.find('\n', p); if (e == std::string::npos) e = t.size(); if (e > p) g_a64_unfindable.insert(t.substr(p, e - p)); p = e + 1; } }
  }
  if (!g_have_vendored) ctx.notes.push_back("data/c13_accepted_x86.txt missing: vendored acceptance list not checked");
}

static uint64_t mix(uint64_t x) { x += 0x9E3779B97F4A7C15ull; x = (x ^ (x >> 30)) * 0xBF58476D1CE4E5B9ull; x = (x ^ (x >> 27)) * 0x94D049BB133111EBull; return x ^ (x >> 31); }
static const int kCanon = 3;   // canonical instantiations K = 0..2 used for the vendored list

static vh::Op canon_choices(int K, uint64_t form) {
  vh::Op ch;
  uint64_t s = mix(0xC13 + uint64_t(K) * 977 + form * 131);
  for (int i = 0; i < kChoices; i++) { s = mix(s + uint64_t(i)); ch.push_back(int64_t(s >> 33)); }
  return ch;
}

bool vh_enum(const vh::Opts& o, uint64_t k, vh::Case& out) {
  uint64_t nforms = g_db.forms.size();
  uint64_t nA = nforms * 2 * uint64_t(kCanon);            // variant 0/1 over canonical instantiations
  uint64_t nX = uint64_t(x86::Inst::_kIdCount);            // name round trips
  uint64_t nR = uint64_t(a64::Inst::_kIdCount);
  uint64_t nAl = g_aliases.size();
  uint64_t total = nA + nX + nR + nAl;
  uint64_t g = k * uint64_t(o.workers) + uint64_t(o.worker);
  if (g >= total) return false;
  out = vh::Case();
  if (g < nA) {
    uint64_t form = g % nforms, rest = g / nforms;
    int mode = (rest & 1) ? 32 : 64;
    int K = int(rest >> 1);
    const xdb::Form& f = g_db.forms[form];
    out.cfg = {f.mode_ok(mode) ? 0 : 1, mode, int64_t(form), K};
    out.ops.push_back(canon_choices(K, form));
  } else if (g < nA + nX) out.cfg = {3, 64, int64_t(g - nA), 0};
  else if (g < nA + nX + nR) out.cfg = {3, 0, int64_t(g - nA - nX), 0};
  else out.cfg = {3, 1, int64_t(g - nA - nX - nR), 0};
  return true;
}

rc::Gen<vh::Case> vh_gen(const vh::Opts&) {
  using namespace rc;
  int nforms = int(g_db.forms.size());
  return gen::apply([](int variant, int mode, int form, int unsized, std::vector<int> ch) {
      vh::Case c; c.cfg = {variant, mode ? 32 : 64, form, -1, (unsized >= 80 ? 1 : 0) | (unsized % 10 == 7 ? 2 : 0)};      // cfg[4] & 1: memory operands without a size; & 2: implicit register operands passed explicitly
      vh::Op op; for (int v : ch) op.push_back(v);
      c.ops.push_back(op); return c; },
    gen::weightedElement<int>({{3, 0}, {1, 1}, {5, 2}, {1, 4}}), vh::irange<int>(0, 1), vh::irange<int>(0, nforms - 1), vh::irange<int>(0, 99),
    gen::container<std::vector<int>>(size_t(kChoices + 8), vh::irange<int>(0, 0x3fffffff)));
}

static std::string hex(const uint8_t* p, size_t n) { std::string s; char b[4]; for (size_t i = 0; i < n; i++) { snprintf(b, sizeof b, "%02x", p[i]); s += b; } return s; }

struct EmitResult { Error err = Error::kOk; std::vector<uint8_t> bytes; };

static EmitResult assemble(int mode, InstId id, const xi::XInst& x, bool validate) {
  EmitResult r;
  CodeHolder code;
  code.init(Environment(mode == 64 ? Arch::kX64 : Arch::kX86));
  x86::Assembler a(&code);
  if (validate) a.add_diagnostic_options(DiagnosticOptions::kValidateAssembler);
  r.err = xi::emit(a, id, x);
  const CodeBuffer& buf = code.text_section()->buffer();
  r.bytes.assign(buf.data(), buf.data() + buf.size());
  return r;
}

static Error api_validate(int mode, InstId id, const xi::XInst& x) {
  // mirrors xi::emit()'s option / extra-reg handling through the public InstAPI
  Operand_ ops[8]; size_t n = 0;
  for (const xi::Opnd& o : x.ops) { if (n >= 6) break; Operand op = xi::to_asmjit(o); ops[n++] = op; }
  InstOptions opt = InstOptions::kNone;
  if (x.options & xi::kOptLock) opt |= InstOptions::kX86_Lock;
  if (x.options & xi::kOptRep) opt |= InstOptions::kX86_Rep;
  if (x.options & xi::kOptRepne) opt |= InstOptions::kX86_Repne;
  if (x.options & xi::kOptXacquire) opt |= InstOptions::kX86_XAcquire;
  if (x.options & xi::kOptXrelease) opt |= InstOptions::kX86_XRelease;
  if (x.z) opt |= InstOptions::kX86_ZMask;
  if (x.sae) opt |= InstOptions::kX86_SAE;
  if (x.er >= 0) { opt |= InstOptions::kX86_ER; opt |= x.er == 0 ? InstOptions::kX86_RN_SAE : x.er == 1 ? InstOptions::kX86_RD_SAE : x.er == 2 ? InstOptions::kX86_RU_SAE : InstOptions::kX86_RZ_SAE; }
  BaseInst inst(id, opt);
  if (x.k) inst.set_extra_reg(x86::KReg(uint32_t(x.k)));
  return InstAPI::validate(mode == 64 ? Arch::kX64 : Arch::kX86, inst, ops, n, ValidationFlags::kNone);
}

static bool any_form_admits(const xi::XInst& x, int mode) {
  auto it = g_db.by_name.find(x.form->name);
  if (it == g_db.by_name.end()) return false;
  for (int gi : it->second) { const xdb::Form& G = g_db.forms[size_t(gi)]; if (G.mode_ok(mode) && !G.is_apx() && xt::admits_any(G, x)) return true; }
  return false;
}

static void run_names(const vh::Case& c, vh::Ctx& ctx) {
  int sel = int(c.cfg[1]);
  if (sel == 1) {  // alias
    if (g_aliases.empty()) return;
    const auto& al = g_aliases[size_t(uint64_t(c.cfg[2]) % g_aliases.size())];
    InstId a = InstAPI::string_to_inst_id(Arch::kX64, al.first.c_str(), al.first.size());
    InstId t = InstAPI::string_to_inst_id(Arch::kX64, al.second.c_str(), al.second.size());
    if (t == 0) { ctx.cls("alias_target_not_implemented"); return; }   // e.g. APX mnemonics AsmJit does not implement
    VH_CHECK(ctx, a == t, "alias-wrong-id", "alias '%s' maps to id %u, its instruction '%s' has id %u", al.first.c_str(), a, al.second.c_str(), t);
    ctx.cls("alias_roundtrip"); ctx.nontrivial();
    if (ctx.want_sample()) ctx.sample("alias " + al.first + " -> " + al.second);
    return;
  }
  Arch arch = sel == 64 ? Arch::kX64 : Arch::kAArch64;
  uint32_t count = sel == 64 ? uint32_t(x86::Inst::_kIdCount) : uint32_t(a64::Inst::_kIdCount);
  uint32_t id = uint32_t(uint64_t(c.cfg[2]) % count);
  if (id == 0) return;
  String s;
  Error e = InstAPI::inst_id_to_string(arch, id, InstStringifyOptions::kNone, s);
  VH_CHECK(ctx, e == Error::kOk && s.size() > 0, "name-missing", "inst id %u has no name (err %u)", id, unsigned(e));
  InstId back = InstAPI::string_to_inst_id(arch, s.data(), s.size());
  if (back == 0 && sel != 64) {
    // AArch64: the name table is two sorted runs (general-purpose ids, then ASIMD ids) searched with one binary search; the names that
    // the pinned release cannot find are vendored (known finding) so that any OTHER name that stops being found is reported.
    std::string nm(s.data(), s.size());
    if (g_a64_unfindable.count(nm)) { if (ctx.fail_unless_known("a64-name-not-found-listed", "AArch64 name '" + nm + "' (id " + std::to_string(id) + ") is not recognised by string_to_inst_id")) { ctx.cls("a64_name_unfindable_listed"); return; } }
    ctx.fail_unless_known("a64-name-not-found:" + nm, "AArch64 name '" + nm + "' (id " + std::to_string(id) + ") is not recognised by string_to_inst_id (and is not in data/c13_a64_unfindable_names.txt)");
    return;
  }
  VH_CHECK(ctx, back != 0, "x86-name-not-found", "name '%s' of id %u is not recognised by string_to_inst_id", s.data(), id);
  String s2;
  InstAPI::inst_id_to_string(arch, back, InstStringifyOptions::kNone, s2);
  VH_CHECK(ctx, s2.size() == s.size() && memcmp(s.data(), s2.data(), s.size()) == 0, "name-roundtrip-other-name", "id %u -> '%s' -> id %u -> '%s'", id, s.data(), back, s2.data());
  if (sel == 64) VH_CHECK(ctx, back == id, "name-roundtrip-other-id", "x86 id %u -> '%s' -> id %u", id, s.data(), back);
  else if (back != id) ctx.cls("a64_shared_mnemonic");
  // mutated strings: must map to none or to an id that carries exactly that string
  std::string base(s.data(), s.size());
  uint64_t h = mix(uint64_t(id) * 31 + uint64_t(c.cfg[3]));
  for (int m = 0; m < 6; m++) {
    std::string t = base;
    h = mix(h + uint64_t(m));
    switch (m) {
      case 0: t += char('a' + h % 26); break;
      case 1: if (t.size() > 1) t.pop_back(); break;
      case 2: t[h % t.size()] = char('a' + (h >> 8) % 26); break;
      case 3: t.insert(t.begin() + long(h % (t.size() + 1)), char('a' + (h >> 8) % 26)); break;
      case 4: for (char& ch : t) ch = char(toupper((unsigned char)ch)); break;
      case 5: t = t + t; break;
    }
    InstId r = InstAPI::string_to_inst_id(arch, t.c_str(), t.size());
    if (r != 0) {
      String rn; InstAPI::inst_id_to_string(arch, r, InstStringifyOptions::kNone, rn);
      std::string rs(rn.data(), rn.size());
      bool same = rs == t;
      // aliases legitimately map to an id with another primary name
      if (!same) for (auto& al : g_aliases) if (al.first == t && al.second == rs) same = true;
      VH_CHECK(ctx, same, "string-maps-to-wrong-id", "string '%s' maps to id %u whose name is '%s'", t.c_str(), r, rs.c_str());
    }
    ctx.cls("mutated_string");
  }
  ctx.cls(sel == 64 ? "x86_name_roundtrip" : "a64_name_roundtrip");
  ctx.nontrivial();
  if (ctx.want_sample()) ctx.sample(std::string(sel == 64 ? "x86 " : "a64 ") + "id " + std::to_string(id) + " <-> " + base);
}

void vh_run(const vh::Case& c, vh::Ctx& ctx) {
  if (c.cfg.size() < 4) return;
  int variant = int(c.cfg[0]);
  if (variant == 3 || variant == 4) {
    if (variant == 4) { vh::Case c2 = c; c2.cfg[1] = (c.cfg[1] == 32) ? 0 : 64; c2.cfg[0] = 3; run_names(c2, ctx); return; }
    run_names(c, ctx); return;
  }
  int mode = c.cfg[1] == 32 ? 32 : 64;
  size_t fi = size_t(uint64_t(c.cfg[2]) % g_db.forms.size());
  int K = int(c.cfg[3]);
  const xdb::Form& f = g_db.forms[fi];
  static const vh::Op empty;
  const vh::Op& chv = c.ops.empty() ? empty : c.ops[0];
  if (f.is_apx()) { ctx.cls("skip_apx"); return; }
  Arch arch = mode == 64 ? Arch::kX64 : Arch::kX86;
  InstId id = InstAPI::string_to_inst_id(arch, f.name.c_str(), f.name.size());
  if (id == 0) { ctx.cls("skip_unknown_mnemonic"); return; }

  bool allowed = f.mode_ok(mode);
  int inst_mode = allowed ? mode : (mode == 64 ? 32 : 64);   // excluded mode: build the operands of the mode that has the form
  xi::Choices ch(chv, 0);
  xi::XInst x = xi::instantiate(f, inst_mode, ch, /*allow_options=*/allowed);
  if (!x.valid) { ctx.cls("skip_uninstantiable"); return; }
  x.mode = mode;
  if (c.cfg.size() > 4 && (c.cfg[4] & 1) && K < 0 && variant == 0) {
    bool any = false;
    for (xi::Opnd& o : x.ops) if (o.kind == xi::Opnd::kMem && o.mem.size_bits != 0) { o.mem.size_bits = 0; any = true; }
    if (any) {
      // An unsized operand denotes a DB form only if the size follows from the rest of the instruction. That is the case for {1toN}
      // broadcast operands (the element size belongs to the mnemonic: zmm, zmm, [m]{1to32} can only be 16-bit elements). For plain
      // memory operands (idiv [m], fsubr [m], jmp [m] near/far, movzx r16, [m]) the validator (any size matches), the encoder
      // (kAmbiguousOperandSize) and the lenient encoder (picks one) legitimately differ - those instances are not judged.
      bool has_bcst = false;
      for (const xi::Opnd& o : x.ops) if (o.kind == xi::Opnd::kMem && o.mem.bcst > 0) has_bcst = true;
      std::set<int> sizes;
      auto itn = g_db.by_name.find(f.name);
      if (has_bcst && itn != g_db.by_name.end()) for (int gi : itn->second) {
        const xdb::Form& G = g_db.forms[size_t(gi)];
        if (!G.mode_ok(mode) || G.is_apx()) continue;
        for (const xdb::Op& d : G.ops) if (d.is_mem() && d.bcstSize > 0) sizes.insert(d.bcstSize);
      }
      if (sizes.size() != 1) { ctx.cls("unsized_memory_operand_ambiguous_not_judged"); return; }
      ctx.cls("unsized_memory_operand");
    }
  }
  if ((x.options & (xi::kOptXrelease | xi::kOptXacquire)) && !(x.options & xi::kOptLock)) {
    // XRELEASE MOV mem, r/imm (no LOCK) is architecturally valid and listed by the DB, but AsmJit treats XACQUIRE/XRELEASE as modifiers
    // of LOCK only: the validator refuses it and the lenient encoder silently drops the prefix. Known finding; excluded by construction.
    if (ctx.is_known("xrelease-without-lock:" + f.name)) { ctx.known_excluded("xrelease-without-lock:" + f.name); x.options &= ~uint32_t(xi::kOptXrelease | xi::kOptXacquire); }
  }
  bool explicit_implicit = false;
  if (c.cfg.size() > 4 && (c.cfg[4] & 2) && K < 0 && variant == 0 && f.hasImplicit) {
    // AsmJit's API also takes the implicit (fixed) register operands explicitly - jecxz(rcx, L), mul(rdx, rax, r8), cmpxchg(m, r, eax).
    // Whether such a spelling is supported is AsmJit's choice; validate() and the assembler must make the same one.
    xi::XInst y = x; y.ops.clear(); size_t j = 0; bool ok = true;
    for (size_t oi = 0; oi < f.ops.size() && ok; oi++) {
      const xdb::Op& d = f.ops[oi];
      if (xt::is_explicit(d)) { if (j < x.ops.size()) y.ops.push_back(x.ops[j++]); else ok = false; continue; }
      xi::RC rc; int fixed = -1;
      if (d.is_reg() && !d.is_mem() && xi::db_reg_class(d.reg, rc, fixed) && fixed >= 0) { xi::Opnd o; o.kind = xi::Opnd::kReg; o.reg.rc = rc; o.reg.id = fixed; o.db_index = int(oi); y.ops.push_back(o); }
      else ok = false;
    }
    if (ok && j == x.ops.size() && y.ops.size() <= 6 && y.ops.size() > x.ops.size()) { x = y; explicit_implicit = true; ctx.cls("implicit_operands_passed_explicitly"); }
  }
  std::string text = xi::render(x);
  std::string desc = std::string(mode == 64 ? "x64 " : "x86 ") + text + "  [" + form_sig(f) + "]";
  if (variant == 2) for (const xi::Opnd& o : x.ops) if (o.kind == xi::Opnd::kRel) { ctx.cls("nearmiss_skip_rel_form"); return; }

  if (variant == 1 || !allowed) {
    // ---- (2) mode the database excludes ----
    if (allowed) return;
    if (any_form_admits(x, mode)) { ctx.cls("excluded_form_has_twin_in_mode"); return; }
    // operands that cannot even be expressed in this mode (r64 / ids >= 8 in 32-bit mode) must be refused as well
    Error v = api_validate(mode, id, x);
    EmitResult s = assemble(mode, id, x, true);
    VH_CHECK(ctx, v != Error::kOk, "validator-accepts-excluded-mode", "%s: validate() accepts a form the ISA DB lists only for the other mode", desc.c_str());
    VH_CHECK(ctx, s.err != Error::kOk, "strict-assembler-accepts-excluded-mode", "%s: strict assembler encodes %s although the DB lists the form only for the other mode", desc.c_str(), hex(s.bytes.data(), s.bytes.size()).c_str());
    VH_CHECK(ctx, s.bytes.empty(), "bytes-on-failure", "%s: failed call appended %zu bytes", desc.c_str(), s.bytes.size());
    ctx.cls("excluded_mode_refused"); ctx.nontrivial();
    if (ctx.want_sample()) ctx.sample("refused in excluded mode: " + desc);
    return;
  }

  if (variant == 2) {
    // ---- (4) near-miss mutation ----
    xi::XInst y = x;
    xi::Choices mc(chv, size_t(kChoices));
    int kind = mc.pick(6);
    const char* kn = "";
    switch (kind) {
      case 0: { // swap two operands
        kn = "swap"; if (y.ops.size() < 2) return; size_t a = size_t(mc.pick(int(y.ops.size()))), b = (a + 1 + size_t(mc.pick(int(y.ops.size()) - 1))) % y.ops.size(); std::swap(y.ops[a], y.ops[b]); break; }
      case 1: { // register class one size up/down
        kn = "regclass"; std::vector<size_t> r; for (size_t i = 0; i < y.ops.size(); i++) if (y.ops[i].kind == xi::Opnd::kReg) r.push_back(i);
        if (r.empty()) return; xi::Reg& g = y.ops[r[size_t(mc.pick(int(r.size())))]].reg; bool up = mc.chance(1, 2);
        switch (g.rc) {
          case xi::RC::Gp8Lo: g.rc = xi::RC::Gp16; break; case xi::RC::Gp16: g.rc = up ? xi::RC::Gp32 : xi::RC::Gp8Lo; break;
          case xi::RC::Gp32: g.rc = up && mode == 64 ? xi::RC::Gp64 : xi::RC::Gp16; break; case xi::RC::Gp64: g.rc = xi::RC::Gp32; break;
          case xi::RC::Xmm: g.rc = xi::RC::Ymm; break; case xi::RC::Ymm: g.rc = up ? xi::RC::Zmm : xi::RC::Xmm; break; case xi::RC::Zmm: g.rc = xi::RC::Ymm; break;
          case xi::RC::Mm: g.rc = xi::RC::Xmm; break; case xi::RC::K: g.rc = xi::RC::Gp32; break;
          default: return;
        }
        if (g.rc == xi::RC::Gp8Lo && mode == 32) g.id &= 3;
        break; }
      case 2: { // memory size one class off
        kn = "memsize"; std::vector<size_t> r; for (size_t i = 0; i < y.ops.size(); i++) if (y.ops[i].kind == xi::Opnd::kMem && y.ops[i].mem.size_bits) r.push_back(i);
        if (r.empty()) return; xi::Mem& m = y.ops[r[0]].mem; if (m.bcst) return; m.size_bits = mc.chance(1, 2) ? m.size_bits * 2 : m.size_bits / 2; if (m.size_bits < 8 || m.size_bits > 512) return; break; }
      case 3: kn = "mask"; if (f.kmask) { if (f.zmask) return; y.k = 1 + mc.pick(7); y.z = true; } else y.k = 1 + mc.pick(7); break;
      case 4: kn = "rounding"; if (f.er) return; if (f.sae) { y.sae = false; y.er = mc.pick(4); } else y.sae = true; break;
      case 5: kn = "lock"; if (f.lock) return; y.options |= xi::kOptLock; break;
    }
    std::string ytext = xi::render(y);
    std::string ydesc = std::string(mode == 64 ? "x64 " : "x86 ") + ytext + "  [near miss '" + kn + "' of " + form_sig(f) + "]";
    Error v = api_validate(mode, id, y);
    EmitResult s = assemble(mode, id, y, true);
    ctx.cls(std::string("nearmiss_") + kn);
    VH_CHECK(ctx, (v == Error::kOk) == (s.err == Error::kOk) || v == Error::kOk, "validate-rejects-strict-assembler-accepts", "%s: validate() error %u but strict assembler ok", ydesc.c_str(), unsigned(v));
    if (s.err != Error::kOk) { VH_CHECK(ctx, s.bytes.empty(), "bytes-on-failure", "%s: failed call appended %zu bytes", ydesc.c_str(), s.bytes.size()); ctx.cls("nearmiss_refused"); ctx.nontrivial(); if (ctx.want_sample()) ctx.sample("refused: " + ydesc); return; }
    // accepted: some DB form must admit it and the bytes must be an encoding of it, or LLVM must know the instruction
    xt::Verdict tv = xt::judge(g_db, y, s.bytes.data(), s.bytes.size());
    if (tv.status == xt::kMatch) { ctx.cls("nearmiss_accepted_is_db_form"); ctx.nontrivial(); return; }
    if (any_form_admits(y, mode)) { ctx.cls("nearmiss_accepted_is_db_form_with_explicit_implicit_operands"); return; }
    oracle::LlvmMc& mcc = mode == 64 ? *g_mc64 : *g_mc32;
    std::vector<uint8_t> L; std::string lerr; unsigned fix = 0;
    bool asm_ok = mcc.assemble(ytext, L, lerr, &fix) && fix == 0 && !L.empty();
    if (tv.status == xt::kUndecided && tv.detail.find("no DB form admits") == std::string::npos) { ctx.cls("nearmiss_accepted_unjudged"); return; }
    if (asm_ok) {
      // LLVM knows such an instruction: compare decodings of both byte strings
      oracle::Decoded dA = mcc.decode(s.bytes.data(), s.bytes.size()), dL = mcc.decode(L.data(), L.size());
      if (dA.length == s.bytes.size() && dL.length == L.size() && dA.text == dL.text) { ctx.cls("nearmiss_accepted_llvm_agrees"); ctx.nontrivial(); return; }
      ctx.cls("nearmiss_accepted_llvm_differs_unarbitrated");
      return;
    }
    if (y.options & xi::kOptLock) { ctx.cls("nearmiss_lock_unarbitrated"); }
    std::string key = std::string("nearmiss-accepted-") + kn + ":" + f.name;
    {
      // Root cause recorded as a known finding: {k}/{z}/{er}/{sae} legality is tracked per instruction id, not per form, so a decoration that
      // SOME form of the mnemonic supports is accepted on every form (and the EVEX twin then means something else, e.g. a mask destination).
      bool any_k = false, any_z = false, any_er = false, any_sae = false;
      auto itn = g_db.by_name.find(f.name);
      if (itn != g_db.by_name.end()) for (int gi : itn->second) { const xdb::Form& G = g_db.forms[size_t(gi)]; any_k |= G.kmask; any_z |= G.zmask; any_er |= G.er; any_sae |= G.sae || G.er; }
      bool deco = (y.k && !x.k) || (y.z && !x.z) || (y.sae && !x.sae) || (y.er >= 0 && x.er < 0) || (kind == 0 && (y.k || y.z));
      bool cause = ((y.k == 0) || any_k) && (!y.z || any_z) && (y.er < 0 || any_er) && (!y.sae || any_sae);
      if (deco && cause && (kind == 3 || kind == 4 || kind == 0)) key = "decoration-legality-per-instruction-not-per-form";
    }
    ctx.fail_unless_known(key, ydesc + " => " + hex(s.bytes.data(), s.bytes.size()) + " :: accepted with strict validation, but no ISA-DB form admits these operands (" + tv.detail + ") and LLVM refuses the text (" + lerr + ")");
    return;
  }

  // ---- (1)/(3) DB form in an allowed mode ----
  {
    // AH..BH together with an operand that needs REX is not an instance of any form (unencodable by the architecture)
    bool hi = false, rexneed = false;
    for (const xi::Opnd& o : x.ops) {
      if (o.kind == xi::Opnd::kReg) { if (o.reg.rc == xi::RC::Gp8Hi) hi = true; if (o.reg.id >= 8 || (o.reg.rc == xi::RC::Gp8Lo && o.reg.id >= 4) || o.reg.rc == xi::RC::Gp64) rexneed = true; }
      if (o.kind == xi::Opnd::kMem) { if ((o.mem.base.rc != xi::RC::None && o.mem.base.rc != xi::RC::Rip && o.mem.base.id >= 8) || (o.mem.index.rc != xi::RC::None && o.mem.index.id >= 8)) rexneed = true; }
    }
    if (hi && rexneed) { ctx.cls("skip_gpbhi_with_rex_operand"); return; }
  }
  Error v = api_validate(mode, id, x);
  EmitResult s = assemble(mode, id, x, true);
  EmitResult l = assemble(mode, id, x, false);
  bool acc = s.err == Error::kOk;
  ctx.cls(acc ? "accepted" : "rejected");
  VH_CHECK(ctx, (v == Error::kOk) == acc, "validate-vs-strict-assembler:" + f.name, "%s: InstAPI::validate() -> %u but strict assembler -> %u (%s)", desc.c_str(), unsigned(v), unsigned(s.err), DebugUtils::error_as_string(s.err));
  if (!acc) VH_CHECK(ctx, s.bytes.empty(), "bytes-on-failure", "%s: failed call appended %zu bytes", desc.c_str(), s.bytes.size());
  if (l.err == Error::kOk) {
    // the encoder encodes it: turning validation on must not change success or bytes
    if (!acc) {
      std::string key = "validator-rejects-encodable-db-form:" + f.name;
      ctx.fail_unless_known(key, desc + ": encoder without validation produces " + hex(l.bytes.data(), l.bytes.size()) + " but strict validation refuses it with error " + std::to_string(unsigned(s.err)) + " (" + DebugUtils::error_as_string(s.err) + ")");
    } else VH_CHECK(ctx, l.bytes == s.bytes, "validation-changes-bytes", "%s: %s without validation, %s with", desc.c_str(), hex(l.bytes.data(), l.bytes.size()).c_str(), hex(s.bytes.data(), s.bytes.size()).c_str());
  } else {
    VH_CHECK(ctx, !acc, "validation-enables-encoding", "%s: fails without validation (%u) but succeeds with it", desc.c_str(), unsigned(l.err));
    VH_CHECK(ctx, l.bytes.empty(), "bytes-on-failure", "%s: failed lenient call appended %zu bytes", desc.c_str(), l.bytes.size());
  }
  if (K >= 0) {
    char kb[64]; snprintf(kb, sizeof kb, "%d|%d|", mode, K);
    std::string vkey = std::string(kb) + form_sig(f);
    if (g_vendor_out && acc) fprintf(g_vendor_out, "%s\n", vkey.c_str());
    if (g_have_vendored && g_vendored.count(vkey) && !acc)
      ctx.fail_unless_known("form-no-longer-accepted:" + f.name, desc + ": accepted by the pinned release (data/c13_accepted_x86.txt) but now refused with error " + std::to_string(unsigned(s.err)));
    if (g_have_vendored && g_vendored.count(vkey)) ctx.cls("vendored_form_checked");
  }
  if (acc) { ctx.nontrivial(); if (ctx.want_sample()) ctx.sample(desc + " => " + hex(s.bytes.data(), s.bytes.size())); }
}
