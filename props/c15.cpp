// C15 — Allocation failure yields an error — never a crash, leak or wrong code.
//
// One Case = (workload, instantiation, fault plan).
//   cfg = [W, variant, p0, p1, p2, p3, reset_hard, mode, hist]
//     W        1 assemble  2 build+serialize  3 compile  4 JIT runtime / allocator / virtmem  5 containers
//     variant  W1-3: 0 x86-64, 1 AArch64      W4: 0 JitRuntime::add/release, 1 JitAllocator ops, 2 VirtMem ops, 3 JitRuntime::add() of
//              multi-feature programs (address table through absolute call/jmp, 1-4 sections, cross-section references, embed_label jump
//              tables, embed_label_delta tables with expression relocations, const pools, blobs up to 70000 bytes) on a runtime created
//              with the option set p0 (dual mapping, multiple pools, fill, immediate release, no initial padding): the FAULT WINDOW IS THE
//              add() CALLS ONLY (building the holders is paused), so every fault position k is a heap / virtual-memory request made inside
//              add(). A failed add() is judged on the spot - null function pointer, allocator statistics exactly those before the call (a
//              block created for the request may stay as the pool's one empty block) - and repeated without faults (same holder, or a
//              holder rebuilt from the same program: p3 bit 1); every installed function is decoded (absolute targets reached directly or
//              through an address-table slot holding the target), compared with the holder's sections and CALLED against the model of its
//              program; after releasing everything the allocator reports no allocation (see run_add)
//     p0..p3   W1/W2: extra sections+alignment, label count, base address, bits (1 logger, 2 error handler, 8 re-run through reinit(),
//              16 previous use + reinit() inside the fault window)   W3: virtual register count, bits (1 logger, 2 error handler,
//              4 two functions)   W4: allocator option bits, misc   W5: arena block size
//     mode     bit0: continue after the first error (W1/W5 only; every later error is tolerated, no crash allowed)
//              bit1 (W1-W3, hist == 0): CONTINUE WINDOW - an instruction call of the window (step codes 100..139) that returns
//              kOutOfMemory is survived: the caller (an application whose error handler logs and returns) goes on with the next step.
//              Every other call (section, label, bind, embed, ...) still stops the workload at its first error, so the model is
//              exact: the output must be the output of the same program WITHOUT the failed calls
//     hist     0: one generation (as before). != 0 (W1/W2/W3/W5): a HISTORY inside the fault window - the same objects run generation
//              A (a prefix of the steps), are soft-reset, and run generation B (all steps = the larger program); only B's output is
//              judged. mask 2: the in-window reset is CodeHolder::reinit() instead of reset(kSoft)+init()+attach() (W1-W3); mask 4: growing
//              requests (every generation asks for more than the previous one: Builder/Compiler embed() of 135000/270000/530000 bytes ->
//              builder-arena requests larger than the kept block, W5 alloc_oneshot of 3x/5x/7x the block size, named labels with long
//              names, a growing ConstPool); mask 8: three generations; masks 16+32: prefix of generation A (1/2, 1/4, 3/4, all)
//   ops: [code<50, a, b, c]             program step of the workload (decoded robustly)
//        [100..139, a, b, c]            W1-W3: window instruction. kind = (code-100) mod 9 (W1/W2 x86: lock-able ALU on memory, ALU with
//                                       imm8 {long}, vaddps zmm {k}{z}/{er}, vmovups [mem]{k}, rep/repne movs/stos/scas, jmp/jz {short|long}
//                                       to a label bound after the last step, vmaxps/vcmpps {sae}{k}, lock inc/xadd/cmpxchg, mov/lea;
//                                       AArch64: the plain instructions) or mod 6 (W3: the same through virtual registers, a virtual
//                                       {k} register; no jumps/rep). ONE-SHOT STATE armed before the call per `a`: a&7 = 0 nothing,
//                                       1 inline comment, even: instruction options / extra register of the kind, odd >= 3: both
//                                       (AArch64: comments only). Outside a continue window the call stops the workload like any other.
//        [140..144, a, b, c]            W1-W3: "burn" - the next instruction meets an exhausted block: Builder/Compiler: the node arena is
//                                       used up to its last 0/40/120 bytes (next node, or only the copy of its comment, needs malloc);
//                                       Assembler: the section buffer is padded to 8..16 bytes below its capacity (next instruction grows it)
//        [50..89, a, b, c]              W5 only: arena-history step, kind (code-50) mod 6: 0 soft reset of every container + Arena::reset(kSoft)
//                                       1 large alloc_oneshot / alloc_oneshot_zeroed (1024..300000 bytes, c&1: at least twice the largest
//                                       request so far) 2 large Arena::dup / ArenaString::set_data 3 ConstPool burst 4 ArenaVector growth
//                                       burst 5 ArenaHash growth burst
//        [90, kind, k, from, size, site]  fault entry: kind 0 arena (H1 hook) 1 heap (malloc/realloc/calloc) 2 virtual memory
//                                       (mmap/mprotect/ftruncate/shm_open/memfd_create); fail request #k (from != 0: every request
//                                       >= k); optional size / site restrict the entry to requests of that size / issued by the
//                                       function whose symbolised name hashes to `site`. k is taken modulo (clean-run count + 1).
//        [90, kind, k, 0, 0, 0, period, until]  periodic entry: requests k, k+period, k+2*period, ... (below `until`, if given) fail
// Oracle (vh_run): reference run on fresh objects (never faulted) -> faulty run on fresh objects -> (a) no crash / sanitizer report /
// assertion / exception, (b) an injected fault must surface as an error of some API call or the output must be byte-identical,
// (c) reset()/re-init of the SAME objects and a fault-free re-run must reproduce the reference output, (d) after destroying
// everything no heap block / mapping / descriptor obtained through the wrapped entry points is live and LeakSanitizer's recoverable
// check is clean, (e) after the faulted run and after the re-run every block listed by an Arena of the workload (W5 arena, CodeHolder
// arena, ConstPool arena, Builder/Compiler node and pass arenas) is a live heap block: a stale link is reported under its own key
// (<W>-<kind>-arena-references-released-block) before the use-after-free / double free it leads to aborts the process.
// Continue window (mode bit1), additionally: (f) right after EVERY window call - above all after one that returned an error - the emitter
// holds no one-shot state: inst_options() == none, no extra register, inline_comment() == null (<W>-<kind>-oneshot-state-survives-
// failed-call; checked in every mode, also for the Assembler); (g) when every other call succeeded, output (bytes + Builder/Compiler node
// list with options, extra register, operands and comment of every instruction) == output of a never-faulted run on fresh objects
// of the program minus exactly the calls that reported kOutOfMemory (<W>-<kind>-continue-output-differs-from-program-minus-failed-
// calls); (h) when a later call fails although no request was failed since the last survived failure and the program minus the
// failed calls is valid, the error is a residue of the failed call (<W>-<kind>-continue-later-call-fails-without-new-fault).
// A successful call whose inline-comment copy could not be allocated yields a node without comment (BaseBuilder::_emit ignores a
// null Arena::dup): an annotation, not code - tolerated, counted (<W>.window.comment_copy_failed_call_succeeded) and modelled.
#define VH_MAIN
#include "vh.h"

#include <asmjit/core.h>
#include <asmjit/x86.h>
#include <asmjit/a64.h>
#include <asmjit/support/arenabitset_p.h>
#include <asmjit/support/arenahash.h>
#include <asmjit/support/arenastring.h>
#include <asmjit/support/arenavector.h>

#include <errno.h>
#include <execinfo.h>
#include <sys/mman.h>
#include <sys/syscall.h>

#include <functional>
#include <memory>
#include <unordered_map>

using namespace asmjit;

const char* vh_property() { return "C15"; }

extern "C" int __lsan_do_recoverable_leak_check();
extern "C" void __lsan_ignore_object(const void* p);

// =============================================================================================
// fault engine
// =============================================================================================
extern "C" void __sanitizer_print_stack_trace();
extern "C" void __sanitizer_symbolize_pc(void* pc, const char* fmt, char* out_buf, size_t out_buf_size);
namespace fi {
static bool g_trace_fail = false;
enum Kind : int { kArena = 0, kHeap = 1, kVm = 2, kKinds = 3 };
static const char* const kKindName[] = {"arena", "heap", "vm"};
struct Entry { int kind; uint64_t k; bool from; uint64_t size; uint64_t seen; uint64_t site; uint64_t period = 0; uint64_t until = 0; };   // period != 0: requests k, k+period, k+2*period, ... fail (until != 0: only requests below it)   // site != 0: only requests whose requesting function hashes to it   // size != 0: only requests of exactly that size are counted by this entry
struct Blk { size_t size; uint64_t seq; int phase; };
struct State {
  bool armed = false;      // requests are counted and failed according to the plan
  bool paused = false;     // armed, but the workload is outside its fault window: requests are neither counted nor failed (W4 variant 3:
                           // only the requests made inside JitRuntime::add() are fault points)
  bool tracking = false;   // live heap blocks / mappings / memfd descriptors are recorded
  int phase = 0;           // 0 reference 1 faulty 2 rerun
  uint64_t count[kKinds] = {0, 0, 0};
  uint64_t hits[kKinds] = {0, 0, 0};
  bool marked = false;                 // the workload passed its first in-window soft reset
  uint64_t mark[kKinds] = {0, 0, 0};   // request counts at that moment
  uint64_t hits_after_mark = 0;        // faults injected after it
  bool win_open = false;               // continue window: the request counts before its first and after its last tolerated-failure call
  uint64_t win_lo[kKinds] = {0, 0, 0}, win_hi[kKinds] = {0, 0, 0};
  Entry plan[8];
  int nplan = 0;
  uint64_t heap_seq = 0;
  uint64_t munmap_unknown = 0;
  uint64_t suppressed = 0;
  bool record_sites = false, need_site = false;
  std::map<uint64_t, std::pair<uint64_t, std::string>>* sites = nullptr;   // [kKinds] requesting functions of a clean run (enumeration)   // faults not injected because their call site is a listed known crash
  const char* last_fail = "";
  std::unordered_map<void*, Blk>* live = nullptr;
  std::unordered_map<void*, size_t>* maps = nullptr;
  std::set<int>* fds = nullptr;
};
static State S;

// `excluded_site`: the request comes from a call site whose failure is a listed known crash; the fault is suppressed and counted.
// Names the AsmJit function that issued the current request (first frame that is not an allocator helper).
static char g_site[200] = "";
static __attribute__((noinline)) void site_name(char* out, size_t out_size) {
  void* ra[14];
  int nra = backtrace(ra, 14);     // unwind-table based: safe at any stack depth
  out[0] = 0;
  for (int i = 0; i < nra; i++) {
    char fn[160] = "";
    if (!ra[i]) break;
    __sanitizer_symbolize_pc(ra[i], "%f", fn, sizeof fn);
    if (!fn[0] || strstr(fn, "should_fail") || strstr(fn, "backtrace") || strstr(fn, "asmjit_verif_fail_alloc") || strstr(fn, "__wrap_") || strstr(fn, "alloc_oneshot") || strstr(fn, "new_oneshot") ||
        strstr(fn, "alloc_reusable") || strstr(fn, "Arena::") || strstr(fn, "Arena_") || strstr(fn, "new_node_t") || strstr(fn, "site_name") ||
        strstr(fn, "ArenaVector") || strstr(fn, "ArenaPool") || strstr(fn, "reserve_additional")) continue;
    snprintf(out, out_size, "%.150s", fn);
    break;
  }
}
static inline uint64_t site_hash(const char* name) { return (vh::fnv1a(name, strlen(name)) & 0x3FFFFFFFull) | 1ull; }
static inline bool should_fail(int kind, const char* what, size_t req_size, bool excluded_site = false) {
  if (!S.armed || S.paused) return false;
  uint64_t idx = S.count[kind]++;
  uint64_t sh = 0;
  char nm[160];
  if (S.need_site || S.record_sites) {
    site_name(nm, sizeof nm);
    sh = site_hash(nm);
    if (S.record_sites && S.sites) { auto& e = S.sites[kind][sh]; if (e.first++ == 0) e.second = nm; }
  }
  bool fail = false;
  for (int i = 0; i < S.nplan; i++) {
    Entry& e = S.plan[i];
    if (e.kind != kind || (e.size && e.size != req_size) || (e.site && e.site != sh)) continue;
    uint64_t seen = e.seen++;
    if (e.period ? (seen >= e.k && (seen - e.k) % e.period == 0 && (!e.until || seen < e.until)) : e.from ? seen >= e.k : seen == e.k) fail = true;
  }
  if (!fail) return false;
  if (excluded_site) { S.suppressed++; return false; }
  S.hits[kind]++; S.last_fail = what;
  if (S.marked) S.hits_after_mark++;
  if (S.hits[0] + S.hits[1] + S.hits[2] == 1) { if (!S.need_site && !S.record_sites) site_name(nm, sizeof nm); snprintf(g_site, sizeof g_site, "%s in %s", what, nm); }
  if (g_trace_fail) { fprintf(stderr, "---- injected failure: %s request #%llu (size %zu) ----\n", what, (unsigned long long)idx, req_size); __sanitizer_print_stack_trace(); }
  return true;
}
static void arm(const std::vector<Entry>& plan) {
  S.nplan = 0;
  S.need_site = false;
  for (const Entry& e : plan) if (S.nplan < 8) { S.plan[S.nplan] = e; S.plan[S.nplan++].seen = 0; if (e.site) S.need_site = true; }
  for (int k = 0; k < kKinds; k++) { S.count[k] = 0; S.hits[k] = 0; S.mark[k] = 0; }
  S.marked = false; S.hits_after_mark = 0;
  S.win_open = false;
  for (int k = 0; k < kKinds; k++) { S.win_lo[k] = 0; S.win_hi[k] = 0; }
  S.last_fail = "";
  g_site[0] = 0;
  S.suppressed = 0;
  S.paused = false;
  S.armed = true;
}
static void disarm() { S.armed = false; S.paused = false; }
// Fault window of a workload that is narrower than its run(): while paused, requests are not fault points.
struct Pause { bool prev; Pause() : prev(S.paused) { S.paused = true; } ~Pause() { S.paused = prev; } };
struct Unpause { bool prev; Unpause() : prev(S.paused) { S.paused = false; } ~Unpause() { S.paused = prev; } };
// Called by a workload immediately before its first soft reset inside the fault window.
static void mark_reset_point() { if (S.armed && !S.marked) { S.marked = true; for (int k = 0; k < kKinds; k++) S.mark[k] = S.count[k]; } }
static uint64_t total_hits() { return S.hits[0] + S.hits[1] + S.hits[2]; }
// Called by a workload around every call of its continue window (an instruction whose failure the caller survives).
static void window_call_begin() { if (S.armed && !S.win_open) { S.win_open = true; for (int k = 0; k < kKinds; k++) S.win_lo[k] = S.count[k]; } }
static void window_call_end() { if (S.armed && S.win_open) for (int k = 0; k < kKinds; k++) S.win_hi[k] = S.count[k]; }
} // namespace fi

// Call-site identification for the arena hook (return addresses learned by calibration in vh_init).
namespace fi {
struct Site { void* r[4]; bool same(const Site& o, int upto) const { for (int i = 0; i <= upto; i++) if (r[i] != o.r[i]) return false; return true; } };
static bool g_calibrating = false;
static std::vector<Site>* g_calib = nullptr;
static Site g_constpool_shared = {{nullptr, nullptr, nullptr, nullptr}};   // ConstPool::add, shared sub-constant node allocation
static int g_constpool_level = -1;                     // which return-address level distinguishes it (-1: unknown)
static bool g_exclude_constpool_shared = false;
}
extern "C" __attribute__((noinline)) int asmjit_verif_fail_alloc(size_t req_size) noexcept {
  bool excl = false;
  if (fi::g_calibrating || (fi::g_exclude_constpool_shared && fi::g_constpool_level >= 0 && fi::S.armed)) {
    fi::Site s = {{__builtin_return_address(0), __builtin_return_address(1), __builtin_return_address(2), __builtin_return_address(3)}};
    if (fi::g_calibrating && fi::g_calib) fi::g_calib->push_back(s);
    else excl = s.same(fi::g_constpool_shared, fi::g_constpool_level);
  }
  return fi::should_fail(fi::kArena, "arena", req_size, excl) ? 1 : 0;
}

extern "C" {
void* __real_malloc(size_t);
void* __real_realloc(void*, size_t);
void* __real_calloc(size_t, size_t);
void __real_free(void*);
void* __real_mmap(void*, size_t, int, int, int, off_t);
int __real_munmap(void*, size_t);
int __real_mprotect(void*, size_t, int);
int __real_ftruncate(int, off_t);
int __real_ftruncate64(int, off_t);
int __real_shm_open(const char*, int, mode_t);
long __real_syscall(long, long, long, long, long, long, long);
int __real_close(int);

static void track_add(void* p, size_t n) { if (fi::S.live) (*fi::S.live)[p] = fi::Blk{n, fi::S.heap_seq, fi::S.phase}; }
static void track_del(void* p) { if (fi::S.live) fi::S.live->erase(p); }

void* __wrap_malloc(size_t n) {
  if (fi::should_fail(fi::kHeap, "malloc", n)) { errno = ENOMEM; return nullptr; }
  void* p = __real_malloc(n);
  if (fi::S.tracking && p) { fi::S.heap_seq++; track_add(p, n); }
  return p;
}
void* __wrap_calloc(size_t a, size_t b) {
  if (fi::should_fail(fi::kHeap, "calloc", a * b)) { errno = ENOMEM; return nullptr; }
  void* p = __real_calloc(a, b);
  if (fi::S.tracking && p) { fi::S.heap_seq++; track_add(p, a * b); }
  return p;
}
void* __wrap_realloc(void* old, size_t n) {
  if (fi::should_fail(fi::kHeap, "realloc", n)) { errno = ENOMEM; return nullptr; }
  void* p = __real_realloc(old, n);
  if (fi::S.tracking && p) { fi::S.heap_seq++; if (old) track_del(old); track_add(p, n); }
  return p;
}
void __wrap_free(void* p) {
  if (p && fi::S.tracking) track_del(p);
  __real_free(p);
}
void* __wrap_mmap(void* a, size_t len, int prot, int flags, int fd, off_t off) {
  if (fi::should_fail(fi::kVm, "mmap", len)) { errno = ENOMEM; return MAP_FAILED; }
  void* p = __real_mmap(a, len, prot, flags, fd, off);
  if (fi::S.tracking && p != MAP_FAILED && fi::S.maps) (*fi::S.maps)[p] = len;
  return p;
}
int __wrap_munmap(void* a, size_t len) {
  int r = __real_munmap(a, len);
  if (fi::S.tracking && r == 0 && fi::S.maps) {
    auto it = fi::S.maps->find(a);
    if (it != fi::S.maps->end() && it->second == len) fi::S.maps->erase(it); else fi::S.munmap_unknown++;
  }
  return r;
}
int __wrap_mprotect(void* a, size_t len, int prot) {
  if (fi::should_fail(fi::kVm, "mprotect", len)) { errno = ENOMEM; return -1; }
  return __real_mprotect(a, len, prot);
}
int __wrap_ftruncate(int fd, off_t n) {
  if (fi::should_fail(fi::kVm, "ftruncate", size_t(n))) { errno = ENOSPC; return -1; }
  return __real_ftruncate(fd, n);
}
int __wrap_ftruncate64(int fd, off_t n) {
  if (fi::should_fail(fi::kVm, "ftruncate", size_t(n))) { errno = ENOSPC; return -1; }
  return __real_ftruncate64(fd, n);
}
int __wrap_shm_open(const char* name, int fl, mode_t m) {
  if (fi::should_fail(fi::kVm, "shm_open", 0)) { errno = ENOMEM; return -1; }
  int fd = __real_shm_open(name, fl, m);
  if (fi::S.tracking && fd >= 0 && fi::S.fds) fi::S.fds->insert(fd);
  return fd;
}
long __wrap_syscall(long n, long a, long b, long c, long d, long e, long f) {
#if defined(__NR_memfd_create)
  if (n == __NR_memfd_create) {
    if (fi::should_fail(fi::kVm, "memfd_create", 0)) { errno = ENOMEM; return -1; }   // not ENOSYS: that would disable memfd for the process
    long fd = __real_syscall(n, a, b, c, d, e, f);
    if (fi::S.tracking && fd >= 0 && fi::S.fds) fi::S.fds->insert(int(fd));
    return fd;
  }
#endif
  return __real_syscall(n, a, b, c, d, e, f);
}
int __wrap_close(int fd) {
  if (fi::S.tracking && fi::S.fds) fi::S.fds->erase(fd);
  return __real_close(fd);
}
} // extern "C"

// =============================================================================================
// common helpers
// =============================================================================================
static size_t umod(int64_t v, size_t n) { return n ? size_t(uint64_t(v) % uint64_t(n)) : 0; }
static int64_t argof(const vh::Op& op, size_t i) { return i < op.size() ? op[i] : 0; }
#define NELEM(a) (sizeof(a) / sizeof((a)[0]))

struct Res {
  Error err = Error::kOk;
  const char* call = "";      // API call that returned the first error
  int step = -1;              // program step of the first error
  unsigned later_errors = 0;  // continue mode: errors after the first one
  std::string bytes;          // output compared between the reference and a faulted-but-successful run
  std::string full;           // superset compared between the reference and the re-run (layouts that may legitimately vary under faults)
  std::string sem;            // non-empty: the workload itself observed wrong content (semantic check), with description
  std::string sem_key;        // failure-key suffix of `sem` (empty: "wrong-content")
  std::map<std::string, uint64_t> counts;   // class counters of the workload (reported as <W>.<name>)
  std::set<std::string> shapes;   // what the instantiation actually did (class counters)
  // ---- continue window: instruction calls whose kOutOfMemory the caller survives (cfg[7] bit 1) ----
  std::vector<uint32_t> failed_calls;       // window-call indices that returned kOutOfMemory and were survived
  std::vector<uint32_t> dropped_comments;   // successful calls whose node has no inline comment because the copy of the text could not be allocated
  std::string state_leak;                   // one-shot emitter state found right after a window call returned
  std::string nodes;                        // Builder / Compiler: the node list before finalize(), one line per node
  unsigned win_calls = 0, win_decorated = 0, win_failed_decorated = 0, win_failed_opt = 0, win_failed_xreg = 0, win_failed_comment = 0,
           win_state_checks_after_failure = 0, win_next_checked = 0, win_next_decorated = 0;
  uint64_t hits_at_last_survived = 0, hits_at_first_error = 0, survived_hits_before_error = 0;
  size_t survived_before_error = 0;          // survived window failures before the first error that was not survived
};

// Records the first error; returns true when the workload has to stop.
struct Tracker {
  Res& r;
  bool cont;
  int step = -1;
  Tracker(Res& r_, bool cont_) : r(r_), cont(cont_) {}
  bool bad(Error e, const char* call) {
    if (e == Error::kOk) return false;
    if (r.err == Error::kOk) { r.err = e; r.call = call; r.step = step; r.hits_at_first_error = fi::total_hits(); r.survived_hits_before_error = r.hits_at_last_survived; r.survived_before_error = r.failed_calls.size(); }
    else r.later_errors++;
    return !cont;
  }
  bool failed() const { return r.err != Error::kOk; }
};
#define TRY(T, expr, name) do { if ((T).bad((expr), name)) return; } while (0)

static void put_u64(std::string& s, uint64_t v) { s.append(reinterpret_cast<const char*>(&v), 8); }

class ErrH : public ErrorHandler {
public:
  unsigned n = 0;
  Error last = Error::kOk;
  void handle_error(Error err, const char* msg, BaseEmitter*) override { n++; last = err; if (getenv("C15_DEBUG")) fprintf(stderr, "handle_error: %s\n", msg); }
};

// One-shot state armed before an instruction call of the continue window.
struct Deco {
  InstOptions opts = InstOptions::kNone;
  RegOnly xreg;                     // extra register ({k} mask); none when !is_reg()
  Deco() { xreg.reset(); }
  const char* comment = nullptr;    // static text (the emitter keeps the pointer until the instruction is emitted)
  bool any() const { return opts != InstOptions::kNone || xreg.is_reg() || comment != nullptr; }
};
static const char* const kComments[] = {
  "c", "spill slot 3", "loop header: induction variable update (unrolled x4)", "x = y", "call site #17",
  "a much longer annotation that does not fit into any small string buffer: 0123456789 0123456789 0123456789 0123456789 0123456789"};

// Continue window of a workload. `skip` / `drop` are inputs of the model run ("reference minus the failed calls"): window calls
// that are not made at all / that are made without their inline comment.
struct StreamCtl {
  std::set<uint32_t> skip, drop;
  uint32_t idx = 0;
  bool prev_failed = false;
  void restart() { idx = 0; prev_failed = false; }
};
static bool g_state_check = true;      // --statecheck=0: the emitter state after a window call is not judged (sensitivity experiments)

struct Decoded;
static bool decoded_stream(const Decoded& d);

// Window call: arms the one-shot state, makes the call, judges the emitter's pending state right after it returned (it must be
// clean after a success AND after a failure: options none, no extra register, no inline comment), and survives kOutOfMemory in
// continue mode. `bb` (Builder / Compiler) is used to see whether a successful call kept the comment. Returns true when the
// workload has to stop.
template<typename F>
static bool window_call(const Decoded& d, Tracker& T, StreamCtl& sc, BaseEmitter* e, BaseBuilder* bb, Deco dc, const char* name, F&& emit) {
  Res& r = T.r;
  uint32_t idx = sc.idx++;
  if (sc.skip.count(idx)) return false;
  if (sc.drop.count(idx)) dc.comment = nullptr;
  bool deco = dc.any();
  r.win_calls++;
  if (deco) r.win_decorated++;
  uint64_t h0 = fi::total_hits();
  fi::window_call_begin();
  if (dc.opts != InstOptions::kNone) e->add_inst_options(dc.opts);
  if (dc.xreg.is_reg()) e->set_extra_reg(dc.xreg);
  if (dc.comment) e->set_inline_comment(dc.comment);
  Error err = emit();
  fi::window_call_end();
  if (g_state_check && r.state_leak.empty() && (e->inst_options() != InstOptions::kNone || e->has_extra_reg() || e->inline_comment() != nullptr)) {
    char m[400];
    snprintf(m, sizeof m, "right after window call #%u (%s, armed with options 0x%08X, extra register %s, comment %s) returned %u the emitter still holds one-shot state: "
             "inst_options() = 0x%08X, has_extra_reg() = %d, inline_comment() = %s%.40s%s - it will be applied to the next instruction",
             idx, name, unsigned(dc.opts), dc.xreg.is_reg() ? "yes" : "no", dc.comment ? "yes" : "no", unsigned(err), unsigned(e->inst_options()), int(e->has_extra_reg()),
             e->inline_comment() ? "\"" : "", e->inline_comment() ? e->inline_comment() : "null", e->inline_comment() ? "\"" : "");
    r.state_leak = m;
  }
  if (err == Error::kOk) {
    if (sc.prev_failed) { r.win_next_checked++; if (deco) r.win_next_decorated++; }
    sc.prev_failed = false;
    if (bb && dc.comment && fi::total_hits() > h0) {
      BaseNode* n = bb->cursor();
      if (n && n->is_inst() && !n->has_inline_comment()) r.dropped_comments.push_back(idx);
    }
    return false;
  }
  r.win_state_checks_after_failure++;
  if (getenv("C15_DEBUG")) fprintf(stderr, "window call #%u %s -> %u %s (options 0x%08X xreg %d comment %d)\n", idx, name, unsigned(err), DebugUtils::error_as_string(err), unsigned(dc.opts), int(dc.xreg.is_reg()), dc.comment != nullptr);
  if (err == Error::kOutOfMemory && decoded_stream(d)) {
    r.failed_calls.push_back(idx);
    if (deco) r.win_failed_decorated++;
    if (dc.opts != InstOptions::kNone) r.win_failed_opt++;
    if (dc.xreg.is_reg()) r.win_failed_xreg++;
    if (dc.comment) r.win_failed_comment++;
    r.hits_at_last_survived = fi::total_hits();
    sc.prev_failed = true;
    return false;
  }
  return T.bad(err, name);
}

// Text of a Builder / Compiler node list: every instruction with its id, options, extra register, operands and inline comment.
static void dump_nodes(BaseBuilder* bb, std::string& out) {
  char b[160];
  size_t guard = 0;
  for (BaseNode* n = bb->first_node(); n && guard < 100000; n = n->next(), guard++) {
    if (n->is_inst()) {
      InstNode* in = n->as<InstNode>();
      snprintf(b, sizeof b, "I%u id=%u opt=%08X xr=%08X/%u ops=%u", unsigned(n->type()), unsigned(in->inst_id()), unsigned(in->options()),
               unsigned(in->extra_reg().signature().bits()), in->extra_reg().is_reg() ? unsigned(in->extra_reg().id()) : 0u, unsigned(in->op_count()));
      out += b;
      for (const Operand& o : in->operands()) {
        uint32_t w[4]; static_assert(sizeof(Operand) == 16, "operand layout"); memcpy(w, &o, 16);
        snprintf(b, sizeof b, " %08X:%08X:%08X:%08X", w[0], w[1], w[2], w[3]);
        out += b;
      }
    } else { snprintf(b, sizeof b, "N%u", unsigned(n->type())); out += b; }
    if (n->has_inline_comment()) { out += " ; "; out += n->inline_comment(); }
    out += '\n';
  }
}

class Workload {
public:
  StreamCtl sc;
  virtual ~Workload() {}
  virtual void run(Res& r) = 0;        // performs the complete work on this object's AsmJit objects
  virtual void reset(bool hard) = 0;   // resets / re-initialises every AsmJit object (faults disarmed)
  virtual bool arenas_ok(std::string& why) { (void)why; return true; }   // every block an Arena references is a live heap block
};

// An Arena must only reference memory it owns: every managed / dynamic block in its lists is a live block obtained through the
// wrapped malloc (the static first block and the shared zero block excepted). Nothing is dereferenced before it is known to be live.
static Arena::ManagedBlock* g_zero_block = nullptr;
static bool g_arena_check = true;      // --arenacheck=0: leave the detection of a stale block to ASan (use-after-free / double free)
static bool arena_blocks_ok(Arena& a, const char* name, std::string& why) {
  if (!fi::S.live || !fi::S.tracking || !g_arena_check) return true;
  size_t n = 0;
  for (Arena::ManagedBlock* b = a._first_block; b && b != g_zero_block; n++) {
    bool is_static = a.has_static_block() && b == a._first_block;
    if (!is_static && !fi::S.live->count(static_cast<void*>(b))) {
      char m[200]; snprintf(m, sizeof m, "%s: managed block #%zu of the block list is not a live heap block (released or never allocated)", name, n);
      why = m; return false;
    }
    if (n > 1000000) { why = std::string(name) + ": managed block list does not end"; return false; }
    b = b->next;
  }
  n = 0;
  for (Arena::DynamicBlock* b = a._dynamic_blocks; b; n++) {
    if (!fi::S.live->count(static_cast<void*>(b))) {
      char m[200]; snprintf(m, sizeof m, "%s: dynamic block #%zu of the block list is not a live heap block (released or never allocated)", name, n);
      why = m; return false;
    }
    if (n > 1000000) { why = std::string(name) + ": dynamic block list does not end"; return false; }
    b = b->next;
  }
  return true;
}
static size_t arena_block_count(Arena& a) {
  size_t n = 0;
  for (Arena::ManagedBlock* b = a._first_block; b && b != g_zero_block; b = b->next) n++;
  return n;
}
// Number of kept blocks after the current one whose capacity is below `size` (they are released by a oneshot request of that size).
static size_t arena_kept_blocks_smaller_than(Arena& a, size_t size) {
  size_t n = 0;
  if (!a._current_block || a._current_block == g_zero_block) return 0;
  for (Arena::ManagedBlock* b = a._current_block->next; b && b->size < size; b = b->next) n++;
  return n;
}

struct Decoded {
  int W = 5, variant = 0;
  int64_t p[4] = {0, 0, 0, 0};
  bool hard = false, cont = false;
  bool stream = false; // continue window: a kOutOfMemory of an instruction call of the window (step codes 100..139) is survived (W1-W3)
  int hist = 0;        // history bits (see the header comment); 0: a single generation
  std::vector<vh::Op> steps;
  std::vector<fi::Entry> plan;
  std::string key;     // text of the instantiation (without the plan): reference cache key
};

static bool decoded_stream(const Decoded& d) { return d.stream; }
static bool is_window_step(const vh::Op& op) { return !op.empty() && op[0] >= 100 && op[0] < 140; }
static bool is_burn_step(const vh::Op& op) { return !op.empty() && op[0] >= 140 && op[0] < 145; }

static const char kKeyConstPoolShared[] = "constpool-shared-node-null-deref";

static const char kKeyDeltaReloc[] = "embed-label-delta-oom-stale-reloc";
static bool g_excl_delta = false;       // the key above is listed: relocate_to_base is not called after a failed embed_label_delta
static uint64_t g_excluded_delta = 0;
// history helpers: number of generations, number of steps of generation g
static size_t hist_gens(const Decoded& d) { return !d.hist ? 1 : (d.hist & 8) ? 3 : 2; }
static size_t hist_steps(const Decoded& d, size_t g) {
  size_t n = d.steps.size(), ng = hist_gens(d);
  if (g + 1 >= ng) return n;
  static const size_t num[] = {2, 1, 3, 4};
  size_t a = n * num[(d.hist >> 4) & 3] / 4;
  return g == 0 ? a : std::min(n, a + (n - a) / 2);
}
// Builder node arena: the first block holds 128 KiB, every further block twice the previous one. Generation A's data block needs a
// second block (256 KiB), the next generation's does not fit into that kept block (it is released and a 512 KiB one requested), ...
static const size_t kHistEmbed[] = {135000, 270000, 530000};
static void hist_fill(std::string& data, uint64_t seed) {
  uint64_t x = seed * 0x9E3779B97F4A7C15ull + 1;
  size_t i = 0;
  for (; i + 8 <= data.size(); i += 8) { x = x * 6364136223846793005ull + 1442695040888963407ull; memcpy(&data[i], &x, 8); }
  for (; i < data.size(); i++) data[i] = char(x >> (8 * (i & 7)));
}
static const char* wname(int W) { static const char* n[] = {"w0", "w1", "w2", "w3", "w4", "w5"}; return n[W >= 1 && W <= 5 ? W : 0]; }

// =============================================================================================
// W5 — containers, strings and constant pool sharing one Arena
// =============================================================================================
namespace {
struct Rec24 { uint32_t a, b, c, d, e, f; };
struct HNode : public ArenaHashNode {
  HNode(uint32_t h, uint32_t k, uint32_t v) : ArenaHashNode(h), key(k), val(v) {}
  uint32_t key, val;
};
struct HKey {
  uint32_t k;
  uint32_t hash_code() const { return k * 2654435761u; }
  bool matches(const HNode* n) const { return n->key == k; }
};

static const size_t kArenaBlk[] = {1024, 4096, 16384, 65536};

class W5 : public Workload {
public:
  const Decoded& d;
  Arena arena;
  ArenaVector<uint32_t> v32;
  ArenaVector<Rec24> v24;
  ArenaHash<HNode> hash;
  ArenaString<16> astr[2];
  String str;
  StringTmp<40> tstr;
  ConstPool pool;
  ArenaBitSet bits;

  explicit W5(const Decoded& d_) : d(d_), arena(kArenaBlk[umod(d_.p[0], NELEM(kArenaBlk))]), pool(arena) {}

  void reset(bool hard) override {
    v32.reset(); v24.reset(); hash.reset(); astr[0].reset(); astr[1].reset();
    (void)str.reset(); (void)tstr.reset(); pool.reset(); bits.reset();
    arena.reset(hard ? ResetPolicy::kHard : ResetPolicy::kSoft);
  }

  static void make_text(std::string& s, uint64_t seed, size_t n) {
    s.clear();
    for (size_t i = 0; i < n; i++) { seed = seed * 6364136223846793005ull + 1442695040888963407ull; s += char('a' + (seed >> 33) % 26); }
  }

  bool arenas_ok(std::string& why) override { return arena_blocks_ok(arena, "W5 arena", why); }

  // The block size of the arena (Arena rounds the constructor argument up to the next power of two above it).
  size_t blk() const { return kArenaBlk[umod(d.p[0], NELEM(kArenaBlk))]; }

  void run(Res& r) override {
    Tracker T(r, d.cont);
    size_t ngen = hist_gens(d);
    for (size_t g = 0; g < ngen; g++) {
      if (g) {
        // the history's soft reset, inside the fault window: every container is dropped, the arena keeps its blocks
        fi::mark_reset_point();
        if (arena_block_count(arena) >= 2) r.shapes.insert("arena_2plus_blocks_at_soft_reset");
        reset(false);
        r.bytes.clear(); r.full.clear();
        r.shapes.insert("soft_reset_between_generations");
      }
      run_gen(r, T, hist_steps(d, g), g);
      if (T.failed() && !d.cont) return;
    }
  }

  struct PoolRec { size_t off, size; std::string data; };
  struct Big { uint8_t* p; size_t n; uint8_t pat; std::string copy; };

  // A oneshot request of `n` bytes is about to be made: records what it will meet (kept blocks after a soft reset).
  void note_request(Res& r, size_t n) {
    if (n <= arena.remaining_size()) return;
    if (arena._current_block && arena._current_block != g_zero_block && arena._current_block->next) {
      r.shapes.insert("slow_request_with_kept_blocks");
      size_t k = arena_kept_blocks_smaller_than(arena, n);
      if (k) r.shapes.insert("request_larger_than_next_kept_block");
      if (k > 1) r.shapes.insert("request_larger_than_2plus_kept_blocks");
    }
  }

  void run_gen(Res& r, Tracker& T, size_t nsteps, size_t gen) {
    std::vector<PoolRec> precs;
    std::vector<uint32_t> hkeys;
    std::vector<Big> bigs;
    std::string text;
    size_t last_big = 0;
    bool soft_reset_seen = gen != 0;
    auto big_request = [&](size_t n, bool zeroed, uint8_t pat) -> bool {   // false: failed
      note_request(r, n);
      if (soft_reset_seen) r.shapes.insert("large_request_after_soft_reset");
      void* p = zeroed ? arena.alloc_oneshot_zeroed(n) : arena.alloc_oneshot(n);
      if (!p) return false;
      if (zeroed) for (size_t i = 0; i < n; i += 509) if (static_cast<uint8_t*>(p)[i]) r.sem = "alloc_oneshot_zeroed returned memory that is not zero";
      memset(p, pat, n);
      bigs.push_back(Big{static_cast<uint8_t*>(p), n, pat, std::string()});
      last_big = std::max(last_big, n);
      return true;
    };
    // The first arena request creates the first managed block (a dynamic block without any managed block would never be
    // released by ~Arena: recorded under C18 as arena-hard-reset-leaks-dynamic, avoided here by construction).
    { void* p0 = arena.alloc_oneshot(8); TRY(T, p0 ? Error::kOk : Error::kOutOfMemory, "Arena::alloc_oneshot"); }
    int sidx = 0;
    for (size_t si = 0; si < nsteps && si < d.steps.size(); si++) {
      const vh::Op& op = d.steps[si];
      T.step = sidx++;
      int64_t a = argof(op, 1), b = argof(op, 2), c = argof(op, 3);
      // growing requests of a history: half way through, every generation asks for more than the previous one got
      if ((d.hist & 4) && si == nsteps / 2) {
        size_t n = std::min<size_t>(blk(), 16384) * (3 + 2 * gen);
        TRY(T, big_request(n, false, uint8_t(0xB0 + gen)) ? Error::kOk : Error::kOutOfMemory, "Arena::alloc_oneshot(growing)");
      }
      int64_t code = argof(op, 0);
      if (code >= 50 && code < 90) {
        switch ((code - 50) % 6) {
          case 0: {
            fi::mark_reset_point();
            if (arena_block_count(arena) >= 2) r.shapes.insert("arena_2plus_blocks_at_soft_reset");
            reset(false);
            precs.clear(); hkeys.clear(); bigs.clear();
            soft_reset_seen = true;
            r.shapes.insert("soft_reset_step");
            break;
          }
          case 1: {
            static const size_t zs[] = {1024, 2040, 3000, 4096, 6000, 9000, 20000, 40000, 70000, 140000, 300000};
            size_t n = zs[umod(b, NELEM(zs))];
            if (c & 1) n = std::min<size_t>(std::max(n, last_big * 2), 400000);
            TRY(T, big_request(n, (c & 2) != 0, uint8_t(0x40 + umod(a, 64))) ? Error::kOk : Error::kOutOfMemory, (c & 2) ? "Arena::alloc_oneshot_zeroed(large)" : "Arena::alloc_oneshot(large)");
            break;
          }
          case 2: {
            static const size_t ls[] = {200, 600, 1500, 2500, 5000, 9000, 30000};
            size_t n = ls[umod(b, NELEM(ls))];
            make_text(text, uint64_t(a) + 11, n);
            note_request(r, n + 8);
            if (soft_reset_seen) r.shapes.insert("large_string_after_soft_reset");
            if (c & 1) TRY(T, astr[(c >> 1) & 1].set_data(arena, text.data(), text.size()), "ArenaString::set_data(large)");
            else {
              char* p = static_cast<char*>(arena.dup(text.data(), text.size(), true));
              TRY(T, p ? Error::kOk : Error::kOutOfMemory, "Arena::dup(large)");
              if (p) { if (p[n] != 0) r.sem = "Arena::dup(null_terminate) did not terminate the copy"; bigs.push_back(Big{reinterpret_cast<uint8_t*>(p), n, 0, text}); r.bytes.append(p, n); }
            }
            break;
          }
          case 3: {
            size_t n = 8 + umod(b, 40), size = size_t(8) << umod(c, 3);
            if (soft_reset_seen) r.shapes.insert("constpool_burst_after_soft_reset");
            for (size_t i = 0; i < n; i++) {
              uint8_t data[32];
              uint64_t x = uint64_t(a) * 1000003u + i * 7919u + 1;
              for (size_t j = 0; j < 32; j += 8) { x = x * 6364136223846793005ull + 1442695040888963407ull; memcpy(data + j, &x, 8); }
              size_t off = size_t(0) - 1;
              TRY(T, pool.add(data, size, Out(off)), "ConstPool::add(burst)");
              if (off != size_t(0) - 1) precs.push_back(PoolRec{off, size, std::string(reinterpret_cast<char*>(data), size)});
            }
            break;
          }
          case 4: {
            size_t n = 200 + umod(b, 8) * 200;
            if (soft_reset_seen) r.shapes.insert("vector_burst_after_soft_reset");
            for (size_t i = 0; i < n && v32.size() < 6000; i++) TRY(T, v32.append(arena, uint32_t(a) * 17u + uint32_t(i)), "ArenaVector::append(burst)");
            break;
          }
          default: {
            size_t n = 60 + umod(b, 6) * 60;
            if (soft_reset_seen) r.shapes.insert("hash_burst_after_soft_reset");
            for (size_t i = 0; i < n && hkeys.size() < 2000; i++) {
              uint32_t k = uint32_t(a) * 131u + uint32_t(i) * 3u + 0x10000u;
              if (hash.get(HKey{k})) continue;
              HNode* node = arena.new_oneshot<HNode>(HKey{k}.hash_code(), k, k ^ 0x5A5Au);
              if (T.bad(node ? Error::kOk : Error::kOutOfMemory, "Arena::new_oneshot(burst)")) return;
              if (!node) continue;
              hash.insert(arena, node);
              hkeys.push_back(k);
            }
            break;
          }
        }
        continue;
      }
      switch (umod(code, 12)) {
        case 0: { size_t n = 1 + umod(b, 40); for (size_t i = 0; i < n; i++) TRY(T, v32.append(arena, uint32_t(a + int64_t(i))), "ArenaVector::append"); break; }
        case 1: { size_t n = 1 + umod(b, 12); for (size_t i = 0; i < n; i++) { uint32_t x = uint32_t(a) + uint32_t(i); TRY(T, v24.append(arena, Rec24{x, x + 1, x + 2, x + 3, x + 4, x + 5}), "ArenaVector<24>::append"); } break; }
        case 2: {
          static const size_t ns[] = {1, 7, 33, 130, 700, 3000};
          size_t n = ns[umod(b, NELEM(ns))];
          switch (umod(c, 4)) {
            case 0: TRY(T, v32.reserve_grow(arena, v32.size() + n), "ArenaVector::reserve_grow"); break;
            case 1: TRY(T, v32.reserve_fit(arena, v32.size() + n), "ArenaVector::reserve_fit"); break;
            case 2: TRY(T, v32.resize_grow(arena, std::min<size_t>(v32.size() + n, 6000)), "ArenaVector::resize_grow"); break;
            default: TRY(T, v24.reserve_additional(arena, n % 200 + 1), "ArenaVector<24>::reserve_additional"); break;
          }
          break;
        }
        case 3: {
          if (c & 1) TRY(T, v32.prepend(arena, uint32_t(a)), "ArenaVector::prepend");
          else TRY(T, v32.insert(arena, umod(b, v32.size() + 1), uint32_t(a)), "ArenaVector::insert");
          break;
        }
        case 4: {
          size_t n = 1 + umod(b, 24);
          for (size_t i = 0; i < n; i++) {
            uint32_t k = uint32_t(a) * 31u + uint32_t(i);
            if (hash.get(HKey{k})) continue;
            HNode* node = arena.new_oneshot<HNode>(HKey{k}.hash_code(), k, k ^ 0x5A5Au);
            if (T.bad(node ? Error::kOk : Error::kOutOfMemory, "Arena::new_oneshot")) return;
            if (!node) continue;
            hash.insert(arena, node);
            hkeys.push_back(k);
          }
          break;
        }
        case 5: { make_text(text, uint64_t(a), umod(b, 48)); TRY(T, astr[c & 1].set_data(arena, text.data(), text.size()), "ArenaString::set_data"); break; }
        case 6: {
          static const size_t ls[] = {0, 1, 5, 30, 100, 127, 128, 129, 400, 2000};
          size_t n = ls[umod(b, NELEM(ls))];
          make_text(text, uint64_t(a) + 7, n);
          switch (umod(c, 5)) {
            case 0: TRY(T, str.append(text.data(), text.size()), "String::append"); break;
            case 1: TRY(T, str.append_format("%s:%d;", text.c_str(), int(a)), "String::append_format"); break;
            case 2: TRY(T, str.append_chars(char('A' + umod(a, 26)), n), "String::append_chars"); break;
            case 3: TRY(T, str.assign(text.data(), text.size()), "String::assign"); break;
            default: TRY(T, str.append_uint(uint64_t(a) * 1000003u, 10, n % 30), "String::append_uint"); break;
          }
          break;
        }
        case 7: {
          size_t size = size_t(1) << umod(b, 7);
          uint8_t data[64];
          uint32_t alpha = 1 + uint32_t(umod(c, 3));
          uint64_t x = uint64_t(a);
          for (size_t i = 0; i < 64; i += 4) { x = x * 6364136223846793005ull + 1442695040888963407ull; uint32_t w = uint32_t((x >> 40) % (alpha * 2)) * 0x01010101u; memcpy(data + i, &w, 4); }
          if (size < 4) data[0] = uint8_t(a);
          size_t off = size_t(0) - 1;
          TRY(T, pool.add(data, size, Out(off)), "ConstPool::add");
          if (off != size_t(0) - 1) precs.push_back(PoolRec{off, size, std::string(reinterpret_cast<char*>(data), size)});
          break;
        }
        case 8: {
          static const size_t ns[] = {0, 1, 63, 64, 65, 200, 1000, 5000, 40000};
          if (c & 4) { size_t n = 1 + umod(b, 70); for (size_t i = 0; i < n; i++) TRY(T, bits.append(arena, ((a >> (i & 31)) & 1) != 0), "ArenaBitSet::append"); }
          else TRY(T, bits.resize(arena, ns[umod(b, NELEM(ns))], (c & 1) != 0), "ArenaBitSet::resize");
          break;
        }
        case 9: {
          switch (umod(c, 4)) {
            case 0: { make_text(text, uint64_t(a) + 3, 1 + umod(b, 300)); void* p = arena.dup(text.data(), text.size(), true); TRY(T, p ? Error::kOk : Error::kOutOfMemory, "Arena::dup"); if (p) r.bytes.append(static_cast<char*>(p), text.size()); break; }
            case 1: { char* p = arena.sformat("%d-%u", int(a), unsigned(b)); TRY(T, p ? Error::kOk : Error::kOutOfMemory, "Arena::sformat"); if (p) r.bytes += p; break; }
            default: {
              static const size_t zs[] = {16, 100, 512, 2048, 2049, 5000, 70000};
              size_t n = zs[umod(b, NELEM(zs))];
              size_t got = 0;
              void* p = arena.alloc_reusable(n, Out(got));
              TRY(T, p ? Error::kOk : Error::kOutOfMemory, "Arena::alloc_reusable");
              if (p) { memset(p, 0x5C, n); if (got < n) { r.sem = "alloc_reusable returned allocated_size < size"; } arena.free_reusable(p, got); }
              break;
            }
          }
          break;
        }
        case 10: { size_t n = 1 + umod(b, 60); TRY(T, v24.resize_grow(arena, std::min<size_t>(v24.size() + n, 900)), "ArenaVector<24>::resize_grow"); break; }
        default: { TRY(T, tstr.append_format("%08X|", unsigned(a)), "StringTmp::append_format"); break; }
      }
    }
    T.step = sidx;
    // memory handed out by large oneshot requests since the last soft reset still holds what was written into it
    for (const Big& bg : bigs) {
      bool ok = true;
      if (!bg.copy.empty()) ok = memcmp(bg.p, bg.copy.data(), bg.n) == 0 && bg.p[bg.n] == 0;
      else for (size_t i = 0; i < bg.n; i++) if (bg.p[i] != bg.pat) { ok = false; break; }
      if (!ok) { char m[160]; snprintf(m, sizeof m, "memory handed out by a large Arena request (%zu bytes) was overwritten by a later request", bg.n); r.sem = m; }
    }
    // ---- serialise the final state ----
    std::string& o = r.bytes;
    put_u64(o, v32.size()); for (uint32_t x : v32) o.append(reinterpret_cast<const char*>(&x), 4);
    put_u64(o, v24.size()); for (const Rec24& x : v24) o.append(reinterpret_cast<const char*>(&x), sizeof x);
    put_u64(o, hash.size());
    for (uint32_t k : hkeys) { HNode* n = hash.get(HKey{k}); if (!n || n->val != (k ^ 0x5A5Au)) r.sem = "ArenaHash lost a node that insert() accepted"; }
    if (hash.size() != hkeys.size()) r.sem = "ArenaHash::size() differs from the number of inserted nodes";
    for (int i = 0; i < 2; i++) { put_u64(o, astr[i].size()); o.append(astr[i].data(), astr[i].size()); }
    put_u64(o, str.size()); o.append(str.data(), str.size());
    put_u64(o, tstr.size()); o.append(tstr.data(), tstr.size());
    put_u64(o, bits.size()); for (size_t i = 0; i < bits.size(); i++) o += char('0' + (bits.bit_at(i) ? 1 : 0));
    // constant pool: semantic check always; exact layout only in `full` (a failed gap record legitimately changes the layout)
    {
      size_t n = pool.size();
      std::vector<uint8_t> img(n + 1, 0xEE);
      pool.fill(img.data());
      if (img[n] != 0xEE) r.sem = "ConstPool::fill wrote past size()";
      for (const PoolRec& pr : precs) {
        if (pr.off % pr.size != 0 || pr.off + pr.size > n || memcmp(img.data() + pr.off, pr.data.data(), pr.size) != 0) {
          char m[160]; snprintf(m, sizeof m, "ConstPool: constant of %zu bytes reported at offset %zu is misaligned, out of range (size %zu) or has wrong content", pr.size, pr.off, n);
          r.sem = m;
        }
      }
      put_u64(o, precs.size());
      r.full = o;
      put_u64(r.full, n); put_u64(r.full, pool.alignment());
      r.full.append(reinterpret_cast<char*>(img.data()), n);
      for (const PoolRec& pr : precs) put_u64(r.full, pr.off);
    }
  }
};
} // namespace

// =============================================================================================
// W1 / W2 — Assembler (W1) or Builder + finalize (W2): labels, sections, relocations, address table, flatten, relocate, copy
// =============================================================================================
#define C15_HAVE_W1
namespace {
static const uint64_t kW1Bases[] = {0x10000ull, 0x400000ull, 0x7FFF0000ull, 0x100000000ull, 0x7F0000000000ull};
static const size_t kEmbedLens[] = {1, 3, 8, 17, 64, 300, 9000};

class W1 : public Workload {
public:
  const Decoded& d;
  bool builder;
  int arch;
  CodeHolder code;
  x86::Assembler xa; a64::Assembler aa;
  x86::Builder xb; a64::Builder ab;
  Arena pool_arena;
  ConstPool pool;
  StringLogger logger;
  ErrH eh;
  bool reinit_done = false;

  W1(const Decoded& d_, bool builder_) : d(d_), builder(builder_), arch(d_.variant & 1), pool_arena(1024), pool(pool_arena) {}

  BaseEmitter* emitter() {
    if (arch == 0) return builder ? static_cast<BaseEmitter*>(&xb) : static_cast<BaseEmitter*>(&xa);
    return builder ? static_cast<BaseEmitter*>(&ab) : static_cast<BaseEmitter*>(&aa);
  }

  void reset(bool hard) override {
    ResetPolicy rp = hard ? ResetPolicy::kHard : ResetPolicy::kSoft;
    reinit_done = false;
    BaseEmitter* e = emitter();
    if ((d.p[3] & 8) && code.is_initialized() && e->code() == &code) {
      reinit_done = code.reinit() == Error::kOk;
    }
    if (!reinit_done) code.reset(rp);
    pool.reset();
    pool_arena.reset(rp);
    logger.clear();
    eh = ErrH();
  }

  Error inst_plain(BaseEmitter* e, int64_t a, int64_t b) {
    if (arch == 0) {
      x86::Emitter* x = e->as<x86::Emitter>();
      switch (umod(a, 6)) {
        case 0: return x->nop();
        case 1: return x->add(x86::eax, x86::ecx);
        case 2: return x->mov(x86::rdx, imm(uint64_t(b) * 0x0101010101010101ull));
        case 3: return x->lea(x86::rax, x86::ptr(x86::rbx, x86::rcx, 2, int32_t(b)));
        case 4: return x->movups(x86::xmm0, x86::ptr(x86::rsi, int32_t(b) * 4));
        default: return x->vaddps(x86::ymm1, x86::ymm2, x86::ymm3);
      }
    } else {
      a64::Emitter* x = e->as<a64::Emitter>();
      switch (umod(a, 6)) {
        case 0: return x->nop();
        case 1: return x->add(a64::x0, a64::x1, a64::x2);
        case 2: return x->mov(a64::w3, imm(uint32_t(b) & 0xFFFF));
        case 3: return x->ldr(a64::x4, a64::ptr(a64::x5, int32_t(b & 31) * 8));
        case 4: return x->fadd(a64::d0, a64::d1, a64::d2);
        default: return x->add(a64::v0.b16(), a64::v1.b16(), a64::v2.b16());
      }
    }
  }
  Error inst_jump(BaseEmitter* e, int64_t a, const Label& L) {
    if (arch == 0) {
      x86::Emitter* x = e->as<x86::Emitter>();
      switch (umod(a, 4)) { case 0: return x->jmp(L); case 1: return x->jz(L); case 2: return x->jne(L); default: return x->call(L); }
    } else {
      a64::Emitter* x = e->as<a64::Emitter>();
      switch (umod(a, 4)) { case 0: return x->b(L); case 1: return x->b_eq(L); case 2: return x->cbz(a64::x1, L); default: return x->bl(L); }
    }
  }
  Error inst_addr_of(BaseEmitter* e, int64_t a, const Label& L) {
    if (arch == 0) {
      x86::Emitter* x = e->as<x86::Emitter>();
      return (a & 1) ? x->mov(x86::eax, x86::dword_ptr(L, 4)) : x->lea(x86::rax, x86::ptr(L));
    } else {
      a64::Emitter* x = e->as<a64::Emitter>();
      return (a & 1) ? x->ldr(a64::x1, a64::ptr(L)) : x->adr(a64::x0, L);
    }
  }

  Arena* builder_arena() { return !builder ? nullptr : arch == 0 ? &xb._builder_arena : &ab._builder_arena; }
  BaseBuilder* base_builder() { return !builder ? nullptr : arch == 0 ? static_cast<BaseBuilder*>(&xb) : static_cast<BaseBuilder*>(&ab); }

  // ---- continue window: instructions that carry one-shot state (x86: 9 kinds; AArch64: the plain instructions with comments) ----
  static const int kWinKinds = 9;
  Error win_inst_x86(x86::Emitter* x, int kind, int64_t b, int64_t c, const Label& L) {
    x86::Mem m = x86::dword_ptr(x86::rbx, int32_t(umod(b, 32)) * 4);
    switch (kind) {
      case 0: switch (umod(c, 4)) { case 0: return x->add(m, x86::ecx); case 1: return x->xor_(m, x86::ecx); case 2: return x->or_(m, x86::edx); default: return x->and_(m, x86::esi); }
      case 1: return x->add(x86::ecx, imm(1 + int(umod(b, 100))));
      case 2: return x->vaddps(x86::zmm(uint32_t(umod(b, 8))), x86::zmm9, x86::zmm(16 + uint32_t(umod(c, 16))));
      case 3: return x->vmovups(x86::zmmword_ptr(x86::rsi, int32_t(umod(b, 8)) * 64), x86::zmm(uint32_t(umod(c, 16))));
      case 4: switch (umod(c, 3)) { case 0: return x->movs(x86::dword_ptr(x86::rdi), x86::dword_ptr(x86::rsi)); case 1: return x->stos(x86::dword_ptr(x86::rdi), x86::eax); default: return x->scas(x86::eax, x86::dword_ptr(x86::rdi)); }
      case 5: return (c & 1) ? x->jz(L) : x->jmp(L);
      case 6: return (c & 1) ? x->vcmpps(x86::k(2 + uint32_t(umod(b, 5))), x86::zmm1, x86::zmm2, imm(int(umod(c / 2, 8)))) : x->vmaxps(x86::zmm(uint32_t(umod(b, 8))), x86::zmm10, x86::zmm11);
      case 7: switch (umod(c, 3)) { case 0: return x->inc(m); case 1: return x->xadd(m, x86::eax); default: return x->cmpxchg(m, x86::ecx); }
      default: return (c & 1) ? x->mov(x86::rdx, imm(uint64_t(b) * 0x0101010101010101ull + 0x8000000000000000ull)) : x->lea(x86::rax, x86::ptr(x86::rbx, x86::rcx, 2, int32_t(b)));
    }
  }
  // a: bits 0-2 select what is armed (0 nothing, 1 comment, even options, odd >= 3 both), a / 8 selects the option set of the kind
  Deco win_deco(int kind, int64_t a, int64_t b, int64_t c, bool short_ok) {
    Deco dc;
    size_t sel = umod(a, 8), ov = umod(a / 8, 16);
    bool want_comment = (sel & 1) != 0;
    if (arch != 0) { if (sel) dc.comment = kComments[umod(b + c, NELEM(kComments))]; return dc; }
    if (sel >= 2) {
      InstOptions o = InstOptions::kNone;
      bool kreg = false;
      switch (kind) {
        case 0: case 7: o = InstOptions::kX86_Lock; break;
        case 1: o = InstOptions::kLongForm; break;
        case 2: {
          static const InstOptions vo[] = {InstOptions::kX86_ZMask, InstOptions::kNone, InstOptions::kX86_ER | InstOptions::kX86_RN_SAE, InstOptions::kX86_ER | InstOptions::kX86_RD_SAE,
                                           InstOptions::kX86_ER | InstOptions::kX86_RU_SAE | InstOptions::kX86_ZMask, InstOptions::kX86_ER | InstOptions::kX86_RZ_SAE};
          static const bool vk[] = {true, true, false, false, true, true};
          o = vo[ov % 6]; kreg = vk[ov % 6];
          break;
        }
        case 3: kreg = true; break;
        case 4: o = (umod(c, 3) == 2 && (ov & 1)) ? InstOptions::kX86_Repne : InstOptions::kX86_Rep; break;
        case 5: o = (short_ok && (ov & 1)) ? InstOptions::kShortForm : InstOptions::kLongForm; break;
        case 6: o = InstOptions::kX86_SAE; if (ov & 1) { kreg = true; if (!(c & 1)) o |= InstOptions::kX86_ZMask; } break;
        default: want_comment = true; break;
      }
      dc.opts = o;
      if (kreg) dc.xreg.init(x86::k(1 + uint32_t(umod(b + int64_t(ov), 7))));
    }
    if (want_comment) dc.comment = kComments[umod(b + c, NELEM(kComments))];
    return dc;
  }

  bool arenas_ok(std::string& why) override {
    if (!arena_blocks_ok(code.arena(), "CodeHolder arena", why) || !arena_blocks_ok(pool_arena, "ConstPool arena", why)) return false;
    if (builder) {
      BaseBuilder* bb = arch == 0 ? static_cast<BaseBuilder*>(&xb) : static_cast<BaseBuilder*>(&ab);
      if (!arena_blocks_ok(bb->_builder_arena, "Builder node arena", why) || !arena_blocks_ok(bb->_pass_arena, "Builder pass arena", why)) return false;
    }
    return true;
  }

  void run(Res& r) override {
    Tracker T(r, d.cont);
    size_t ngen = hist_gens(d);
    sc.restart();
    for (size_t g = 0; g < ngen; g++) {
      if (g) {
        // the history's soft reset, inside the fault window: the holder (and with it the attached emitter and its arenas), the
        // constant pool and its arena are reused for a larger program
        fi::mark_reset_point();
        if (arena_block_count(code.arena()) >= 2) r.shapes.insert("holder_arena_2plus_blocks_at_reset");
        if (arena_block_count(pool_arena) >= 2) r.shapes.insert("constpool_arena_2plus_blocks_at_reset");
        if (Arena* ba = builder_arena()) if (arena_block_count(*ba) >= 2) r.shapes.insert("builder_arena_2plus_blocks_at_reset");
        r.bytes.clear(); r.full.clear();
        pool.reset();
        pool_arena.reset(ResetPolicy::kSoft);
        logger.clear();
        if ((d.hist & 2) && code.is_initialized() && emitter()->code() == &code) {
          r.shapes.insert("reinit_between_generations");
          if (T.bad(code.reinit(), "CodeHolder::reinit")) return;      // after a failed reinit() the holder is uninitialised: run_gen() starts from init()
        } else {
          r.shapes.insert("soft_reset_between_generations");
          code.reset(ResetPolicy::kSoft);
        }
      }
      run_gen(r, T, hist_steps(d, g), g);
      if (T.failed() && !d.cont) return;
    }
  }

  void run_gen(Res& r, Tracker& T, size_t nsteps, size_t gen) {
    bool has_delta = false, tainted_delta = false;
    BaseEmitter* e = emitter();
    uint64_t base = kW1Bases[umod(d.p[2], NELEM(kW1Bases))];
    if (!code.is_initialized()) {
      Environment env(arch == 0 ? Arch::kX64 : Arch::kAArch64);
      // reinit variant: the base address is part of what reinit() keeps, so it is given to init() in every run
      if (T.bad((d.p[3] & 8) ? code.init(env, base) : code.init(env), "CodeHolder::init")) return;
      if (!code.is_initialized()) return;           // nothing can be done with an uninitialised CodeHolder
      // (the log of a 100+ KiB embed() would dominate the run: growing histories run without logger)
      if ((d.p[3] & 1) && !(d.hist & 4)) { logger.set_flags(FormatFlags::kMachineCode | FormatFlags::kHexImms); code.set_logger(&logger); }
      if (d.p[3] & 2) code.set_error_handler(&eh);
    }
    if (e->code() != &code) {
      Error aerr = code.attach(e);
      if (T.bad(aerr, "CodeHolder::attach")) return;
      if (aerr != Error::kOk || e->code() != &code) return;               // not attached: every emitter call would just report kNotInitialized
    }
    if (d.p[3] & 16) {
      // a short previous use of the same objects followed by reinit() inside the fault window
      Section* pre = nullptr;
      TRY(T, inst_plain(e, 1, 0), "emit(plain)");
      TRY(T, code.new_section(Out(pre), ".pre", SIZE_MAX, SectionFlags::kNone, 8, 0), "CodeHolder::new_section");
      Label pl = e->new_label();
      if (pl.is_valid()) TRY(T, e->bind(pl), "bind");
      Error rerr = code.reinit();
      if (T.bad(rerr, "CodeHolder::reinit")) return;
      if (rerr != Error::kOk) return;              // the holder is uninitialised now: nothing more can be done in this run
    }
    // sections
    Section* secs[3] = {code.text_section(), nullptr, nullptr};
    size_t nsec = 1;
    size_t extra = umod(d.p[0], 3);
    for (size_t i = 0; i < extra; i++) {
      Section* s = nullptr;
      char name[16]; snprintf(name, sizeof name, ".sec%zu", i);
      Error err = code.new_section(Out(s), name, SIZE_MAX, i ? SectionFlags::kNone : SectionFlags::kReadOnly, uint32_t(1) << umod(d.p[0] / 3 + int64_t(i) * 2, 7), int32_t(i));
      if (T.bad(err, "CodeHolder::new_section")) return;
      if (s) secs[nsec++] = s;
    }
    // labels
    size_t nl = 2 + umod(d.p[1], 10);
    std::vector<Label> L(nl);
    std::vector<char> bound(nl, 0);
    for (size_t i = 0; i < nl; i++) {
      L[i] = e->new_label();
      if (T.bad(L[i].is_valid() ? Error::kOk : Error::kOutOfMemory, "new_label")) return;
    }
    // Every label has a home section (where it will be bound). A code reference (jump / rip-relative / literal) to a label that is
    // already bound in a DIFFERENT section at the time the assembler sees the reference is not generated: the assemblers route it to
    // new_fixup(), which requires an unbound label (ASMJIT_ASSERT(!le.is_bound())) — outside C15. A Builder serialises section by
    // section (first-use order = index order here), so for it only references to the same or a later section are generated.
    auto home = [&](size_t j) -> size_t { return j % nsec; };
    auto ref_label = [&](int64_t v, size_t cur_sec) -> size_t {
      for (size_t i = 0; i < nl; i++) {
        size_t j = (umod(v, nl) + i) % nl;
        if (home(j) == cur_sec || (builder ? home(j) > cur_sec : !bound[j])) return j;
      }
      return nl;
    };
    if (builder && nsec > 1) {
      for (size_t i = 1; i < nsec; i++) TRY(T, e->section(secs[i]), "section");
      TRY(T, e->section(secs[0]), "section");
    }
    // Continue window. Its jumps go to one label that is bound right after the last step: allowed when no section switch follows
    // (jump_ok), in short form only when nothing but at most 7 window instructions follow (short_ok: the displacement fits).
    const size_t nrun = std::min(nsteps, d.steps.size());
    std::vector<char> jump_ok(nrun, 0), short_ok(nrun, 0);
    bool has_window = false;
    {
      bool no_switch = true, only_window = true;
      size_t tail = 0;
      for (size_t si = nrun; si-- > 0;) {
        const vh::Op& op = d.steps[si];
        jump_ok[si] = no_switch; short_ok[si] = only_window && tail <= 7;
        if (is_window_step(op)) { has_window = true; tail++; }
        else { only_window = false; if (!is_burn_step(op) && umod(argof(op, 0), 13) == 3) no_switch = false; }
      }
    }
    Label L_end;
    if (has_window && arch == 0) {
      L_end = e->new_label();
      if (T.bad(L_end.is_valid() ? Error::kOk : Error::kOutOfMemory, "new_label")) return;
    }
    size_t cur = 0;
    unsigned named = 0;
    int sidx = 0;
    for (size_t si = 0; si < nsteps && si < d.steps.size(); si++) {
      const vh::Op& op = d.steps[si];
      T.step = sidx++;
      int64_t a = argof(op, 1), b = argof(op, 2), c = argof(op, 3);
      if (is_window_step(op)) {
        int kind = int((argof(op, 0) - 100) % kWinKinds);
        if (kind == 5 && (!jump_ok[si] || !L_end.is_valid())) kind = 0;
        Deco dc = win_deco(kind, a, b, c, short_ok[si] != 0);
        bool stop = arch == 0 ? window_call(d, T, sc, e, base_builder(), dc, "emit(window)", [&]() { return win_inst_x86(e->as<x86::Emitter>(), kind, b, c, L_end); })
                              : window_call(d, T, sc, e, base_builder(), dc, "emit(window)", [&]() { return inst_plain(e, b, c); });
        if (stop) return;
        continue;
      }
      if (is_burn_step(op)) {
        // The next instruction meets an exhausted block: the Builder's node arena is used up to the last 0 / 40 / 120 bytes (its
        // next node, or only the copy of its comment, needs a new block = malloc); the Assembler's section buffer is padded up to
        // 8..16 bytes below the capacity boundary (16288, 32608, 65248) that follows the current offset (its next instruction has to grow the buffer).
        if (Arena* ba = builder_arena()) {
          static const size_t keeps[] = {0, 40, 120};
          size_t rem = ba->remaining_size() & ~size_t(Arena::kAlignment - 1), keep = keeps[umod(b, 3)];
          if (rem > keep) { void* p = ba->alloc_oneshot(rem - keep); TRY(T, p ? Error::kOk : Error::kOutOfMemory, "Arena::alloc_oneshot(burn)"); }
        } else {
          size_t off = static_cast<BaseAssembler*>(e)->offset();
          size_t bound = 2 * (8192u - Globals::kAllocOverhead) - Globals::kAllocOverhead;      // first capacity of a section buffer (CodeHolder::grow_buffer), then doubling
          while (bound < off + 64) bound = (bound + Globals::kAllocOverhead) * 2 - Globals::kAllocOverhead;
          size_t target = bound - 8 - 4 * umod(b, 3);
          if (target > off && target <= 66000) { std::string filler(target - off, char(0x90)); if (arch == 1) for (size_t i = 0; i + 4 <= filler.size(); i += 4) memcpy(&filler[i], "\x1f\x20\x03\xd5", 4); TRY(T, e->embed(filler.data(), filler.size()), "embed(burn)"); }
        }
        continue;
      }
      switch (umod(argof(op, 0), 13)) {
        case 0: TRY(T, inst_plain(e, a, b), "emit(plain)"); break;
        case 1: { size_t j = ref_label(a, cur); if (j < nl) TRY(T, inst_jump(e, c, L[j]), "emit(jump to label)"); break; }
        case 2: {
          for (size_t i = 0; i < nl; i++) { size_t j = (umod(a, nl) + i) % nl; if (!bound[j] && home(j) == cur) { bound[j] = 1; if (L[j].is_valid()) { TRY(T, e->bind(L[j]), "bind"); } break; } }
          break;
        }
        case 3: { cur = umod(a, nsec); TRY(T, e->section(secs[cur]), "section"); break; }
        case 4: {
          size_t len = kEmbedLens[umod(b, (c & 8) ? NELEM(kEmbedLens) : NELEM(kEmbedLens) - 1)];
          if (arch == 1) len = (len + 3) & ~size_t(3);   // AArch64: labels / instructions stay 4-byte aligned
          std::string data(len, 0);
          uint32_t x = uint32_t(a) * 2654435761u + 1;
          for (size_t i = 0; i < len; i++) { x = x * 1664525u + 1013904223u; data[i] = char(x >> 24); }
          TRY(T, e->embed(data.data(), len), "embed");
          break;
        }
        case 5: TRY(T, e->embed_label(L[umod(a, nl)], 8), "embed_label"); break;
        case 6: {
          has_delta = true;
          Error e6 = e->embed_label_delta(L[umod(a, nl)], L[umod(b, nl)], (c & 1) ? 4 : 8);
          if (e6 != Error::kOk) tainted_delta = true;
          TRY(T, e6, "embed_label_delta");
          break;
        }
        case 7: {
          if (arch == 0) {
            uint64_t addr = (c & 2) ? 0x7F1234561000ull + uint64_t(umod(a, 4)) * 0x1000 : base + 0x2000 + uint64_t(umod(a, 4)) * 0x100;
            x86::Emitter* x = e->as<x86::Emitter>();
            TRY(T, (c & 1) ? x->jmp(imm(addr)) : x->call(imm(addr)), "emit(absolute call/jmp)");
          } else { size_t j = ref_label(a, cur); if (j < nl) TRY(T, inst_addr_of(e, 1, L[j]), "emit(ldr literal)"); }
          break;
        }
        case 8: TRY(T, e->align(AlignMode(umod(c, 3)), uint32_t(1) << umod(b, 6)), "align"); break;
        case 9: { size_t j = ref_label(a, cur); if (j < nl) TRY(T, inst_addr_of(e, c, L[j]), "emit(address of label)"); break; }
        case 10: {
          pool.reset();
          uint8_t data[16];
          for (size_t i = 0; i < 16; i++) data[i] = uint8_t((uint64_t(a) * 0x9E3779B97F4A7C15ull) >> (i * 4));
          size_t off;
          Error pe1 = pool.add(data, 16, Out(off));                      // descending sizes: the layout never has gaps
          TRY(T, pe1, "ConstPool::add");
          Error pe2 = pool.add(data + 4, 8, Out(off));
          TRY(T, pe2, "ConstPool::add");
          Error pe3 = pool.add(data + 1, 4, Out(off));
          TRY(T, pe3, "ConstPool::add");
          if (pe1 != Error::kOk || pe2 != Error::kOk || pe3 != Error::kOk) break;   // continue mode: a pool whose add() failed is not embedded
          Label pl = e->new_label();
          if (T.bad(pl.is_valid() ? Error::kOk : Error::kOutOfMemory, "new_label")) return;
          if (pl.is_valid()) TRY(T, e->embed_const_pool(pl, pool), "embed_const_pool");
          break;
        }
        case 11: {
          char name[24]; snprintf(name, sizeof name, "named_%u", named++);
          Label nlb = e->new_named_label(name, SIZE_MAX, LabelType::kGlobal);
          if (T.bad(nlb.is_valid() ? Error::kOk : Error::kOutOfMemory, "new_named_label")) return;
          if (nlb.is_valid()) TRY(T, e->bind(nlb), "bind");
          break;
        }
        default: {
          uint32_t vals[4] = {uint32_t(a), uint32_t(b), uint32_t(c), 0xDEADBEEFu};
          TRY(T, e->embed_data_array(TypeId::kUInt32, vals, 4, 1 + umod(b, 3)), "embed_data_array");
          break;
        }
      }
    }
    T.step = sidx;
    if (L_end.is_valid()) TRY(T, e->bind(L_end), "bind");
    if (d.hist & 4) {
      // growing history: every generation asks for more than the previous one got.
      // (a) named labels with long names: the holder's arena (32 KiB blocks) gets a second block in generation A already
      size_t nnamed = gen == 0 ? 18 : 6;
      for (size_t i = 0; i < nnamed; i++) {
        char head[40]; snprintf(head, sizeof head, "hist_%zu_%zu_", gen, i);
        std::string name = std::string(head) + std::string(1900, char('a' + (i % 26)));
        Label nlb = e->new_named_label(name.c_str(), name.size(), LabelType::kGlobal);
        if (T.bad(nlb.is_valid() ? Error::kOk : Error::kOutOfMemory, "new_named_label(long)")) return;
        if (nlb.is_valid()) TRY(T, e->bind(nlb), "bind");
      }
      // (b) a constant pool that outgrows the blocks its arena kept
      {
        pool.reset();
        size_t nconst = 16 * (gen + 1);
        bool pool_ok = true;
        for (size_t i = 0; i < nconst; i++) {
          uint64_t cv[2] = {0x9E3779B97F4A7C15ull * (i + 1) + gen, ~uint64_t(i) * 0xD1B54A32D192ED03ull};
          size_t off;
          Error pe = pool.add(cv, 16, Out(off));
          if (pe != Error::kOk) pool_ok = false;
          TRY(T, pe, "ConstPool::add(growing)");
        }
        if (pool_ok) {
          Label pl = e->new_label();
          if (T.bad(pl.is_valid() ? Error::kOk : Error::kOutOfMemory, "new_label")) return;
          if (pl.is_valid()) TRY(T, e->embed_const_pool(pl, pool), "embed_const_pool(growing)");
        }
      }
      // (c) a data block: through a Builder it is ONE node-arena request that the kept blocks cannot hold (see kHistEmbed); through
      //     the Assembler it grows the section buffer
      {
        size_t len = builder ? kHistEmbed[std::min<size_t>(gen, 2)] : 20000 * (gen + 1);
        std::string data(len, 0);
        hist_fill(data, gen + 12345);
        if (Arena* ba = builder_arena()) {
          if (len > ba->remaining_size() && ba->_current_block && ba->_current_block != g_zero_block && ba->_current_block->next) {
            r.shapes.insert("builder_slow_request_with_kept_blocks");
            if (arena_kept_blocks_smaller_than(*ba, len)) r.shapes.insert("builder_request_larger_than_next_kept_block");
          }
        }
        TRY(T, e->embed(data.data(), len), "embed(growing)");
      }
    }
    for (size_t i = 0; i < nl; i++) {
      if (bound[i]) continue;
      if (nsec > 1 && cur != home(i)) { cur = home(i); TRY(T, e->section(secs[cur]), "section"); }
      if (L[i].is_valid()) TRY(T, e->bind(L[i]), "bind");
    }
    if (builder) { r.nodes.clear(); if (!T.failed()) dump_nodes(base_builder(), r.nodes); }
    if (builder) { Error ef = e->finalize(); if (ef != Error::kOk && has_delta) tainted_delta = true; TRY(T, ef, "Builder::finalize"); }
    if (tainted_delta && g_excl_delta) { g_excluded_delta++; return; }
    TRY(T, code.flatten(), "CodeHolder::flatten");
    TRY(T, code.resolve_cross_section_fixups(), "CodeHolder::resolve_cross_section_fixups");
    TRY(T, code.relocate_to_base(base), "CodeHolder::relocate_to_base");
    size_t cs = code.code_size();
    if (cs > (1u << 24)) return;
    std::vector<uint8_t> img(cs + 1, 0xA5);
    TRY(T, code.copy_flattened_data(img.data(), cs, CopySectionFlags::kPadSectionBuffer | CopySectionFlags::kPadTargetBuffer), "CodeHolder::copy_flattened_data");
    if (T.failed()) return;   // continue mode: the image of a failed build is not an output
    put_u64(r.bytes, cs);
    put_u64(r.bytes, code.unresolved_fixup_count());
    for (Section* s : code.sections()) { put_u64(r.bytes, s->offset()); put_u64(r.bytes, s->buffer_size()); }
    r.bytes.append(reinterpret_cast<char*>(img.data()), cs);
    r.bytes += r.nodes;
    r.full = r.bytes;
    r.full.append(logger.data(), logger.data_size());
  }
};
} // namespace

// =============================================================================================
// W3 — Compiler: functions with more virtual registers than physical ones, loops, branches, an invoke, constants, a stack slot
// =============================================================================================
#define C15_HAVE_W3
namespace {
class W3 : public Workload {
public:
  const Decoded& d;
  int arch;
  CodeHolder code;
  x86::Compiler xc;
  a64::Compiler ac;
  StringLogger logger;
  ErrH eh;

  explicit W3(const Decoded& d_) : d(d_), arch(d_.variant & 1) {}

  void reset(bool hard) override {
    code.reset(hard ? ResetPolicy::kHard : ResetPolicy::kSoft);
    logger.clear();
    eh = ErrH();
  }

  struct Open { Label label; bool loop; size_t counter; };

  bool arenas_ok(std::string& why) override {
    BaseBuilder* bb = arch == 0 ? static_cast<BaseBuilder*>(&xc) : static_cast<BaseBuilder*>(&ac);
    return arena_blocks_ok(code.arena(), "CodeHolder arena", why) && arena_blocks_ok(bb->_builder_arena, "Compiler node arena", why) &&
           arena_blocks_ok(bb->_pass_arena, "Compiler pass arena", why);
  }

  template<typename CC, typename GP>
  void gen_func(CC& cc, Tracker& T, size_t nv, unsigned fidx, size_t nsteps) {
    constexpr bool X = std::is_same<CC, x86::Compiler>::value;
    std::vector<GP> v(nv);
    GP ptr, fn, cnt[3];
    FuncNode* func = nullptr;
    TRY(T, cc.add_func_node(Out(func), FuncSignature::build<uint32_t, uint32_t*, uint32_t>()), "Compiler::add_func_node");
    if (!func) return;
    auto newreg = [&](GP& out, TypeId t, const char* nm) -> Error { return cc._new_reg_with_name(Out<Reg>(out), t, nm); };
    TRY(T, newreg(ptr, TypeId::kUIntPtr, "ptr"), "Compiler::new_reg");
    TRY(T, newreg(fn, TypeId::kUIntPtr, "fn"), "Compiler::new_reg");
    for (size_t i = 0; i < nv; i++) TRY(T, newreg(v[i], TypeId::kUInt32, (i & 1) ? "v" : nullptr), "Compiler::new_reg");
    for (size_t i = 0; i < 3; i++) TRY(T, newreg(cnt[i], TypeId::kUInt32, "cnt"), "Compiler::new_reg");
    func->set_arg(0, ptr);
    func->set_arg(1, v[0]);
    for (size_t i = 1; i < nv; i++) TRY(T, cc.mov(v[i], imm(uint32_t(i * 3 + 1))), "emit(mov imm)");
    // continue window (x86): three virtual zmm registers and a virtual {k} register, defined before the window
    bool has_window = false;
    for (size_t si = 0; si < nsteps && si < d.steps.size(); si++) if (is_window_step(d.steps[si])) has_window = true;
    Reg zv[3], kv;
    if constexpr (X) {
      if (has_window) {
        for (size_t i = 0; i < 3; i++) {
          TRY(T, cc._new_reg_with_name(Out<Reg>(zv[i]), TypeId::kFloat32x16, "zv"), "Compiler::new_reg");
          TRY(T, cc.vmovups(zv[i].as<x86::Vec>(), x86::zmmword_ptr(ptr, int32_t(i) * 64)), "emit(load)");
        }
        TRY(T, cc._new_reg_with_name(Out<Reg>(kv), TypeId::kMask16, "kv"), "Compiler::new_reg");
        TRY(T, cc.kmovw(kv.as<x86::KReg>(), v[0]), "emit(kmov)");
      }
    }
    std::vector<Open> open;
    size_t ncnt = 0;
    unsigned invokes = 0;
    int sidx = 0;
    for (size_t si = 0; si < nsteps && si < d.steps.size(); si++) {
      const vh::Op& op = d.steps[si];
      T.step = sidx++;
      int64_t a = argof(op, 1), b = argof(op, 2), c = argof(op, 3);
      size_t ia = umod(a, nv), ib = umod(b, nv), ic = umod(c + a, nv);
      if (is_window_step(op)) {
        // an instruction of the continue window: virtual registers, one-shot state armed per `a` (see W1::win_deco)
        int kind = int((argof(op, 0) - 100) % 6);
        size_t sel = umod(a, 8), ov = umod(a / 8, 16);
        Deco dc;
        bool want_comment = (sel & 1) != 0;
        if (!X) { if (sel) want_comment = true; }
        else if (sel >= 2) {
          switch (kind) {
            case 0: case 4: dc.opts = InstOptions::kX86_Lock; break;
            case 1: dc.opts = InstOptions::kLongForm; break;
            case 2: {
              static const InstOptions vo[] = {InstOptions::kX86_ZMask, InstOptions::kNone, InstOptions::kX86_ER | InstOptions::kX86_RN_SAE, InstOptions::kX86_ER | InstOptions::kX86_RU_SAE | InstOptions::kX86_ZMask};
              static const bool vk[] = {true, true, false, true};
              dc.opts = vo[ov % 4]; if (vk[ov % 4]) dc.xreg.init(kv);
              break;
            }
            case 3: dc.xreg.init(kv); break;
            default: want_comment = true; break;
          }
        }
        if (want_comment) dc.comment = kComments[umod(b + c, NELEM(kComments))];
        BaseBuilder* bb = &cc;
        bool stop;
        if constexpr (X) {
          x86::Mem m = x86::dword_ptr(ptr, int32_t(umod(b, 16)) * 4);
          stop = window_call(d, T, sc, &cc, bb, dc, "emit(window)", [&]() -> Error {
            switch (kind) {
              case 0: switch (umod(c, 3)) { case 0: return cc.add(m, v[ia]); case 1: return cc.xor_(m, v[ia]); default: return cc.or_(m, v[ia]); }
              case 1: return cc.add(v[ia], imm(1 + int(umod(b, 100))));
              case 2: return cc.vaddps(zv[umod(b, 3)].as<x86::Vec>(), zv[umod(c, 3)].as<x86::Vec>(), zv[umod(b + c, 3)].as<x86::Vec>());
              case 3: return cc.vmovups(x86::zmmword_ptr(ptr, int32_t(umod(b, 4)) * 64), zv[umod(c, 3)].as<x86::Vec>());
              case 4: return (c & 1) ? cc.inc(m) : cc.xadd(m, v[ia]);
              default: return (c & 1) ? cc.add(v[ia], v[ib]) : cc.xor_(v[ia], v[ic]);
            }
          });
        } else {
          stop = window_call(d, T, sc, &cc, bb, dc, "emit(window)", [&]() -> Error {
            switch (kind) {
              case 0: return cc.add(v[ia], v[ib], v[ic]);
              case 1: return cc.add(v[ia], v[ib], imm(1 + int(umod(b, 100))));
              case 2: return cc.eor(v[ia], v[ib], v[ic]);
              case 3: return cc.str(v[ia], a64::ptr(ptr, int32_t(umod(b, 16)) * 4));
              case 4: return cc.ldr(v[ia], a64::ptr(ptr, int32_t(umod(b, 16)) * 4));
              default: return cc.mul(v[ia], v[ib], v[ic]);
            }
          });
        }
        if (stop) return;
        continue;
      }
      if (is_burn_step(op)) {
        static const size_t keeps[] = {0, 40, 120};
        Arena& ba = cc._builder_arena;
        size_t rem = ba.remaining_size() & ~size_t(Arena::kAlignment - 1), keep = keeps[umod(b, 3)];
        if (rem > keep) { void* p = ba.alloc_oneshot(rem - keep); TRY(T, p ? Error::kOk : Error::kOutOfMemory, "Arena::alloc_oneshot(burn)"); }
        continue;
      }
      switch (umod(argof(op, 0) + fidx * 3, 10)) {
        case 0: case 1: {
          if constexpr (X) { switch (umod(c, 4)) { case 0: TRY(T, cc.add(v[ia], v[ib]), "emit(alu)"); break; case 1: TRY(T, cc.xor_(v[ia], v[ib]), "emit(alu)"); break; case 2: TRY(T, cc.imul(v[ia], v[ib]), "emit(alu)"); break; default: TRY(T, cc.lea(v[ia], x86::ptr(v[ib].r64(), v[ic].r64(), 1, 7)), "emit(alu)"); break; } }
          else { switch (umod(c, 4)) { case 0: TRY(T, cc.add(v[ia], v[ib], v[ic]), "emit(alu)"); break; case 1: TRY(T, cc.eor(v[ia], v[ib], v[ic]), "emit(alu)"); break; case 2: TRY(T, cc.mul(v[ia], v[ib], v[ic]), "emit(alu)"); break; default: TRY(T, cc.add(v[ia], v[ib], imm(7)), "emit(alu)"); break; } }
          break;
        }
        case 2: {
          if constexpr (X) TRY(T, cc.mov(v[ia], x86::dword_ptr(ptr, int32_t(umod(b, 16)) * 4)), "emit(load)");
          else TRY(T, cc.ldr(v[ia], a64::ptr(ptr, int32_t(umod(b, 16)) * 4)), "emit(load)");
          break;
        }
        case 3: {
          if constexpr (X) TRY(T, cc.mov(x86::dword_ptr(ptr, int32_t(umod(b, 16)) * 4), v[ia]), "emit(store)");
          else TRY(T, cc.str(v[ia], a64::ptr(ptr, int32_t(umod(b, 16)) * 4)), "emit(store)");
          break;
        }
        case 4: {   // open a loop
          if (open.size() >= 3 || ncnt >= 3) break;
          Label L = cc.new_label();
          if (T.bad(L.is_valid() ? Error::kOk : Error::kOutOfMemory, "new_label")) return;
          if (!L.is_valid()) break;
          TRY(T, cc.mov(cnt[ncnt], imm(uint32_t(2 + umod(b, 3)))), "emit(mov imm)");
          TRY(T, cc.bind(L), "bind");
          open.push_back(Open{L, true, ncnt++});
          break;
        }
        case 5: {   // open a forward branch
          if (open.size() >= 3) break;
          Label L = cc.new_label();
          if (T.bad(L.is_valid() ? Error::kOk : Error::kOutOfMemory, "new_label")) return;
          if (!L.is_valid()) break;
          if constexpr (X) { TRY(T, cc.test(v[ia], v[ia]), "emit(test)"); TRY(T, cc.jz(L), "emit(jcc)"); }
          else TRY(T, cc.cbz(v[ia], L), "emit(cbz)");
          open.push_back(Open{L, false, 0});
          break;
        }
        case 6: {   // close the innermost loop / branch
          if (open.empty()) break;
          Open o = open.back(); open.pop_back();
          if (o.loop) {
            if constexpr (X) { TRY(T, cc.sub(cnt[o.counter], imm(1)), "emit(sub)"); TRY(T, cc.jnz(o.label), "emit(jcc)"); }
            else { TRY(T, cc.sub(cnt[o.counter], cnt[o.counter], imm(1)), "emit(sub)"); TRY(T, cc.cbnz(cnt[o.counter], o.label), "emit(cbnz)"); }
          } else TRY(T, cc.bind(o.label), "bind");
          break;
        }
        case 7: {   // call through a register
          if (invokes >= 2) break;
          invokes++;
          TRY(T, cc.mov(fn, imm(uint64_t(0x123456789000ull) + uint64_t(umod(a, 8)) * 64)), "emit(mov imm)");
          InvokeNode* inv = nullptr;
          TRY(T, cc.invoke(Out(inv), fn, FuncSignature::build<uint32_t, uint32_t, uint32_t>()), "Compiler::invoke");
          if (!inv) break;
          inv->set_arg(0, v[ia]);
          inv->set_arg(1, v[ib]);
          inv->set_ret(0, v[ic]);
          break;
        }
        case 8: {   // constant (8 bytes: a single size never creates alignment gaps, halves are registered as shared constants)
          uint64_t val = (uint64_t(umod(a, 5)) << 32) | uint64_t(umod(b, 3));
          BaseMem m;
          TRY(T, cc._new_const(Out<BaseMem>(m), (c & 1) ? ConstPoolScope::kGlobal : ConstPoolScope::kLocal, &val, 8), "Compiler::new_const");
          if (m.is_none()) break;
          if constexpr (X) { x86::Mem xm = m.as<x86::Mem>(); xm.set_size(4); TRY(T, cc.add(v[ia], xm), "emit(alu const)"); }
          else { a64::Mem am = m.as<a64::Mem>(); TRY(T, cc.ldr(v[ia], am), "emit(ldr const)"); }
          break;
        }
        default: {  // stack slot
          BaseMem m;
          TRY(T, cc._new_stack(Out<BaseMem>(m), 16, 8, nullptr), "Compiler::new_stack");
          if (m.is_none()) break;
          if constexpr (X) { x86::Mem xm = m.as<x86::Mem>(); xm.set_size(4); TRY(T, cc.mov(xm, v[ia]), "emit(store stack)"); TRY(T, cc.add(v[ib], xm), "emit(load stack)"); }
          else { a64::Mem am = m.as<a64::Mem>(); TRY(T, cc.str(v[ia], am), "emit(store stack)"); TRY(T, cc.ldr(v[ib], am), "emit(load stack)"); }
          break;
        }
      }
    }
    T.step = sidx;
    while (!open.empty()) {
      Open o = open.back(); open.pop_back();
      if (o.loop) {
        if constexpr (X) { TRY(T, cc.sub(cnt[o.counter], imm(1)), "emit(sub)"); TRY(T, cc.jnz(o.label), "emit(jcc)"); }
        else { TRY(T, cc.sub(cnt[o.counter], cnt[o.counter], imm(1)), "emit(sub)"); TRY(T, cc.cbnz(cnt[o.counter], o.label), "emit(cbnz)"); }
      } else TRY(T, cc.bind(o.label), "bind");
    }
    // every virtual register is live until here: more of them than physical registers -> spills
    for (size_t i = 1; i < nv; i++) {
      if constexpr (X) TRY(T, cc.add(v[0], v[i]), "emit(alu)");
      else TRY(T, cc.add(v[0], v[0], v[i]), "emit(alu)");
    }
    TRY(T, cc.ret(v[0]), "emit(ret)");
    TRY(T, cc.end_func(), "Compiler::end_func");
  }

  void run(Res& r) override {
    Tracker T(r, false);
    size_t ngen = hist_gens(d);
    sc.restart();
    for (size_t g = 0; g < ngen; g++) {
      if (g) {
        // the history's soft reset, inside the fault window: holder and Compiler (node arena, pass arena, virtual registers) are
        // reused for a larger function
        fi::mark_reset_point();
        if (arena_block_count(code.arena()) >= 2) r.shapes.insert("holder_arena_2plus_blocks_at_reset");
        if (arena_block_count(arch == 0 ? xc._builder_arena : ac._builder_arena) >= 2) r.shapes.insert("builder_arena_2plus_blocks_at_reset");
        r.bytes.clear(); r.full.clear();
        logger.clear();
        BaseEmitter* e = arch == 0 ? static_cast<BaseEmitter*>(&xc) : static_cast<BaseEmitter*>(&ac);
        if ((d.hist & 2) && code.is_initialized() && e->code() == &code) {
          r.shapes.insert("reinit_between_generations");
          TRY(T, code.reinit(), "CodeHolder::reinit");
        } else {
          r.shapes.insert("soft_reset_between_generations");
          code.reset(ResetPolicy::kSoft);
        }
      }
      run_gen(r, T, hist_steps(d, g), g, ngen);
      if (T.failed()) return;
    }
  }

  void run_gen(Res& r, Tracker& T, size_t nsteps, size_t gen, size_t ngen) {
    BaseEmitter* e = arch == 0 ? static_cast<BaseEmitter*>(&xc) : static_cast<BaseEmitter*>(&ac);
    if (!code.is_initialized()) {
      Environment env(arch == 0 ? Arch::kX64 : Arch::kAArch64);
      TRY(T, code.init(env), "CodeHolder::init");
      if ((d.p[1] & 1) && !(d.hist & 4)) { logger.set_flags(FormatFlags::kMachineCode); code.set_logger(&logger); }
      if (d.p[1] & 2) code.set_error_handler(&eh);
    }
    if (e->code() != &code) TRY(T, code.attach(e), "CodeHolder::attach");
    size_t nv = 3 + umod(d.p[0], 30);
    if (gen + 1 < ngen) nv = std::max<size_t>(3, nv * (gen + 1) / ngen);      // earlier generations: fewer virtual registers
    unsigned nfunc = (d.p[1] & 4) ? 2 : 1;
    for (unsigned f = 0; f < nfunc; f++) {
      if (arch == 0) gen_func<x86::Compiler, x86::Gp>(xc, T, nv, f, nsteps); else gen_func<a64::Compiler, a64::Gp>(ac, T, nv, f, nsteps);
      if (T.failed()) return;
    }
    if (d.hist & 4) {
      // growing history: a data block after the last function - ONE node-arena request that no kept block can hold
      size_t len = kHistEmbed[std::min<size_t>(gen, 2)];
      std::string data(len, 0);
      hist_fill(data, gen + 777);
      Arena& ba = arch == 0 ? xc._builder_arena : ac._builder_arena;
      if (len > ba.remaining_size() && ba._current_block && ba._current_block != g_zero_block && ba._current_block->next) {
        r.shapes.insert("builder_slow_request_with_kept_blocks");
        if (arena_kept_blocks_smaller_than(ba, len)) r.shapes.insert("builder_request_larger_than_next_kept_block");
      }
      TRY(T, e->embed(data.data(), len), "embed(growing)");
    }
    r.nodes.clear();
    dump_nodes(arch == 0 ? static_cast<BaseBuilder*>(&xc) : static_cast<BaseBuilder*>(&ac), r.nodes);
    TRY(T, e->finalize(), "Compiler::finalize");
    TRY(T, code.flatten(), "CodeHolder::flatten");
    TRY(T, code.resolve_cross_section_fixups(), "CodeHolder::resolve_cross_section_fixups");
    TRY(T, code.relocate_to_base(0x400000), "CodeHolder::relocate_to_base");
    size_t cs = code.code_size();
    std::vector<uint8_t> img(cs + 1, 0xA5);
    TRY(T, code.copy_flattened_data(img.data(), cs, CopySectionFlags::kPadSectionBuffer | CopySectionFlags::kPadTargetBuffer), "CodeHolder::copy_flattened_data");
    put_u64(r.bytes, cs);
    r.bytes.append(reinterpret_cast<char*>(img.data()), cs);
    r.bytes += r.nodes;
    r.full = r.bytes;
    r.full.append(logger.data(), logger.data_size());
  }
};
} // namespace

// =============================================================================================
// W4 — JitRuntime::add/release (variant 0), JitAllocator alloc/write/shrink/release/query (1), VirtMem alloc/protect/dual mapping (2)
// =============================================================================================
#define C15_HAVE_W4
// Targets of the absolute call / jmp instructions of variant 3 (reached through the address table of the installed code).
static inline uint64_t c15_w4_helper_model(unsigned k, uint64_t x) {
  switch (k & 3) { case 0: return x * 3 + 1; case 1: return (x >> 3) ^ 0x5BD1E995ull; case 2: return x + 0x0123456789ABull; default: return ~x; }
}
extern "C" {
__attribute__((noinline, used)) uint64_t c15_w4_h0(uint64_t x) { return c15_w4_helper_model(0, x); }
__attribute__((noinline, used)) uint64_t c15_w4_h1(uint64_t x) { return c15_w4_helper_model(1, x); }
__attribute__((noinline, used)) uint64_t c15_w4_h2(uint64_t x) { return c15_w4_helper_model(2, x); }
__attribute__((noinline, used)) uint64_t c15_w4_h3(uint64_t x) { return c15_w4_helper_model(3, x); }
}
static uint64_t (*const kW4Helpers[4])(uint64_t) = {c15_w4_h0, c15_w4_h1, c15_w4_h2, c15_w4_h3};
namespace {
static JitAllocatorOptions w4_options(int64_t p) {
  JitAllocatorOptions o = JitAllocatorOptions::kNone;
  if (p & 1) o |= JitAllocatorOptions::kUseDualMapping;
  if (p & 2) o |= JitAllocatorOptions::kUseMultiplePools;
  if (p & 4) o |= JitAllocatorOptions::kFillUnusedMemory;
  if (p & 8) o |= JitAllocatorOptions::kImmediateRelease;
  if (p & 16) o |= JitAllocatorOptions::kDisableInitialPadding;
  return o;
}

class W4 : public Workload {
public:
  const Decoded& d;
  std::unique_ptr<JitRuntime> rt;
  std::unique_ptr<JitAllocator> ja;
  CodeHolder code;
  x86::Assembler xa;
  bool unusable = false;    // the allocator could not be constructed (kNotInitialized): the object can only be destroyed

  explicit W4(const Decoded& d_) : d(d_) {}

  void reset(bool) override {
    // JitAllocator::reset(kSoft) with more than one block is a recorded C09 finding (stale tree links): always hard here.
    // An allocator whose construction failed has no re-initialisation API (it can only be destroyed): probe and recreate.
    JitAllocator* a = rt ? &rt->allocator() : ja.get();
    if (a && !unusable) {
      JitAllocator::Span s;
      Error e = a->alloc(Out(s), 64);
      if (e == Error::kNotInitialized) unusable = true;
      else if (e == Error::kOk) (void)a->release(s.rx());
    }
    if (unusable) { rt.reset(); ja.reset(); unusable = false; }
    if (rt) rt->reset(ResetPolicy::kHard);
    if (ja) ja->reset(ResetPolicy::kHard);
    code.reset(d.hard ? ResetPolicy::kHard : ResetPolicy::kSoft);
  }

  void run(Res& r) override {
    Tracker T(r, false);
    switch (d.variant) {
      case 0: run_runtime(r, T); break;
      case 1: run_allocator(r, T); break;
      case 3: run_add(r, T); break;
      default: run_virtmem(r, T); break;
    }
  }

  // ---- variant 0 ----
  void emit_function(Tracker& T, unsigned fidx, size_t first, size_t count) {
    x86::Assembler& a = xa;
    Label L[4];
    for (Label& l : L) { l = a.new_label(); if (T.bad(l.is_valid() ? Error::kOk : Error::kOutOfMemory, "new_label")) return; }
    Section* data = nullptr;
    if ((d.p[1] + fidx) & 1) TRY(T, code.new_section(Out(data), ".data", SIZE_MAX, SectionFlags::kNone, 16, 1), "CodeHolder::new_section");
    bool bound[4] = {false, false, false, false};
    for (size_t i = first; i < first + count && i < d.steps.size(); i++) {
      const vh::Op& op = d.steps[i];
      T.step = int(i);
      int64_t x = argof(op, 1), y = argof(op, 2), z = argof(op, 3);
      switch (umod(argof(op, 0), 7)) {
        case 0: TRY(T, a.mov(x86::eax, imm(uint32_t(x))), "emit"); break;
        case 1: TRY(T, a.add(x86::rax, x86::rcx), "emit"); break;
        case 2: { size_t j = umod(x, 4); TRY(T, (z & 1) ? a.jz(L[j]) : a.jmp(L[j]), "emit(jump)"); break; }
        case 3: { size_t j = umod(x, 4); if (!bound[j]) { bound[j] = true; TRY(T, a.bind(L[j]), "bind"); } break; }
        case 4: TRY(T, a.lea(x86::rax, x86::ptr(L[umod(x, 4)])), "emit(lea label)"); break;
        case 5: TRY(T, a.embed_label(L[umod(x, 4)], 8), "embed_label"); break;
        default: {
          static const size_t ls[] = {4, 16, 100, 700, 9000};
          std::string blob(ls[umod(y, NELEM(ls))], char(x));
          TRY(T, a.embed(blob.data(), blob.size()), "embed");
          break;
        }
      }
    }
    TRY(T, a.ret(), "emit");
    if (data) TRY(T, a.section(data), "section");
    for (size_t j = 0; j < 4; j++) if (!bound[j]) { TRY(T, a.bind(L[j]), "bind"); uint64_t v = 0x1111111111111111ull * (j + 1); TRY(T, a.embed(&v, 8), "embed"); }
  }

  void run_runtime(Res& r, Tracker& T) {
    if (!rt) {
      JitAllocator::CreateParams params;
      params.options = w4_options(d.p[0]);
      rt.reset(new JitRuntime(&params));
    }
    unsigned nfun = 1 + unsigned(umod(d.p[1] / 2, 3));
    size_t per = d.steps.size() / nfun + 1;
    std::vector<void*> fns;
    struct Release { JitRuntime* rt; std::vector<void*>& v; ~Release() { for (void* p : v) if (p) (void)rt->release(p); } } rel{rt.get(), fns};
    for (unsigned f = 0; f < nfun; f++) {
      code.reset(ResetPolicy::kSoft);
      TRY(T, code.init(rt->environment(), rt->cpu_features()), "CodeHolder::init");
      TRY(T, code.attach(&xa), "CodeHolder::attach");
      emit_function(T, f, size_t(f) * per, per);
      if (T.failed()) return;
      void* fn = nullptr;
      Error err = rt->add(&fn, &code);
      if (err == Error::kNotInitialized) unusable = true;
      TRY(T, err, "JitRuntime::add");
      if (!fn) { r.sem = "JitRuntime::add returned kOk and a null function pointer"; return; }
      fns.push_back(fn);
      // the installed image must equal the CodeHolder's relocated sections; position-dependent slots are normalised
      size_t cs = code.code_size();
      std::string img(static_cast<const char*>(fn), cs);
      std::vector<uint8_t> flat(cs + 1, 0);
      TRY(T, code.copy_flattened_data(flat.data(), cs, CopySectionFlags::kPadSectionBuffer | CopySectionFlags::kPadTargetBuffer), "CodeHolder::copy_flattened_data");
      for (Section* s : code.sections()) {
        if (memcmp(img.data() + s->offset(), s->data(), s->buffer_size()) != 0) { r.sem = "JitRuntime::add: installed bytes differ from the CodeHolder's relocated section buffer"; return; }
      }
      for (RelocEntry* re : code.reloc_entries()) {
        if (re->reloc_type() != RelocType::kRelToAbs || re->format().value_size() != 8) continue;
        size_t pos = size_t(code.section_by_id(re->source_section_id())->offset() + re->source_offset()) + re->format().value_offset();
        if (pos + 8 > cs) continue;
        uint64_t v; memcpy(&v, &img[pos], 8); v -= uint64_t(uintptr_t(fn)); memcpy(&img[pos], &v, 8);
      }
      put_u64(r.bytes, cs);
      r.bytes += img;
      if ((d.p[2] >> f) & 1) { TRY(T, rt->release(fn), "JitRuntime::release"); fns.back() = nullptr; }
    }
    r.full = r.bytes;
  }

  // ---- variant 3: JitRuntime::add() of multi-feature programs; ONLY the requests made inside add() are fault points ----
  // cfg p0 allocator option bits (w4_options)   p1 bits 0-1: functions - 2 (2..5), p1 / 4 + function index: section layout (0 text only,
  // 1 text+.data, 2 text+.data+.rodata, 3 text+.empty+.rodata(64)+.data)   p2 bit f: function f is released right after it was verified
  // p3 bit 0: const pool in the text section   bit 1: a failed add() is repeated with a holder rebuilt from the same program (else: the
  // SAME holder is added again)   bit 2: granularity 128   bit 3+f: function f ends with a tail `jmp <absolute>` instead of `ret`
  // Program of one function (steps op[0] mod 16 -> kAddKinds): rdi = argument, rax = accumulator
  //   0 add rax, imm32            1 mov rdi, rax; call <absolute 64-bit address of a helper> (address table entry; rax = helper(rax))
  //   2 xor rax, [const]          7 lea rdx, [const]; add rax, [rdx]     (const lives in the data section: cross-section reference)
  //   3 jump table: jmp [table + (rax & 3) * 8], table = 4 x embed_label(case, 8) in the data section (kRelToAbs relocations)
  //   4 delta dispatch: target = base + delta[(rax & 1)], delta table = embed_label_delta(case, base, 4 | 8); emitted into .rodata BEFORE
  //     the labels are bound (kExpression relocations) when the layout has one, else after the code (immediate values)
  //   5 add rax, [pool + off]: 8-byte constants of a ConstPool embedded with embed_const_pool     6 data blob of 16..70000 bytes
  //   9 jmp over 1..200 bytes of padding
  // Every function is CALLED (arguments 0..3 and two large ones) and compared with the model evaluated by the harness.
  struct MOp { int kind; unsigned h; uint64_t k[4]; };
  struct AddFn {
    std::vector<MOp> model;
    bool tail = false; unsigned tail_h = 0;
    unsigned layout = 0, abs_calls = 0, abs_targets = 0, xrefs = 0, tables = 0, deltas = 0, delta_relocs = 0, pool_consts = 0, blobs = 0, fwd_jumps = 0;
    uint64_t eval(uint64_t x) const {
      uint64_t acc = x;
      for (const MOp& m : model) {
        switch (m.kind) {
          case 0: case 5: case 7: acc += m.k[0]; break;
          case 1: acc = c15_w4_helper_model(m.h, acc); break;
          case 2: acc ^= m.k[0]; break;
          case 3: acc += m.k[acc & 3]; break;
          case 4: acc += m.k[acc & 1]; break;
          default: break;
        }
      }
      if (tail) acc = c15_w4_helper_model(tail_h, acc);
      return acc;
    }
  };

  void emit_add_function(Tracker& T, unsigned fidx, size_t first, size_t count, AddFn& F) {
    static const int kAddKinds[16] = {0, 1, 1, 1, 2, 3, 4, 5, 6, 9, 1, 2, 3, 4, 5, 7};
    x86::Assembler& a = xa;
    F.layout = unsigned(umod(d.p[1] / 4 + int64_t(fidx), 4));
    F.tail = ((d.p[3] >> (3 + fidx)) & 1) != 0;
    F.tail_h = unsigned(umod(d.p[2] + int64_t(fidx), 4));
    Section* text = code.text_section();
    Section* A = nullptr; Section* B = nullptr;
    if (F.layout >= 1) TRY(T, code.new_section(Out(A), ".data", SIZE_MAX, SectionFlags::kNone, 16, F.layout == 3 ? 3 : 1), "CodeHolder::new_section");
    if (F.layout >= 2) TRY(T, code.new_section(Out(B), ".rodata", SIZE_MAX, SectionFlags::kReadOnly, F.layout == 3 ? 64 : 8, 2), "CodeHolder::new_section");
    if (F.layout == 3) { Section* E = nullptr; TRY(T, code.new_section(Out(E), ".empty", SIZE_MAX, SectionFlags::kNone, 32, 1), "CodeHolder::new_section"); }

    struct Item { int kind = 0; int64_t x = 0, y = 0, z = 0; Label l[6]; uint64_t k[4] = {0, 0, 0, 0}; size_t off = 0; unsigned w = 8; };
    std::vector<Item> items;
    Arena pool_arena(1024);
    ConstPool pool(pool_arena);
    Label Lpool;
    bool lbl_ok = true;
    auto NL = [&](Label& l) { l = a.new_label(); if (!l.is_valid()) lbl_ok = false; };
    std::set<unsigned> targets;
    size_t blob_total = 0;
    // ---- pass 1: items, labels, pool constants ----
    for (size_t i = first; i < first + count && i < d.steps.size() && items.size() < 48; i++) {
      const vh::Op& op = d.steps[i];
      Item it;
      it.kind = kAddKinds[umod(argof(op, 0), 16)];
      it.x = argof(op, 1); it.y = argof(op, 2); it.z = argof(op, 3);
      uint64_t hv = (uint64_t(it.x) + 1) * 0x9E3779B97F4A7C15ull + uint64_t(it.y) * 0xD1B54A32D192ED03ull;
      switch (it.kind) {
        case 0: it.k[0] = uint64_t(hv >> 34); break;                 // < 2^30: a positive imm32
        case 1: targets.insert(unsigned(umod(it.x, 4))); F.abs_calls++; break;
        case 2: case 7: NL(it.l[0]); it.k[0] = hv; F.xrefs++; break;
        case 3: for (int j = 0; j < 6; j++) NL(it.l[j]); for (int j = 0; j < 4; j++) it.k[j] = ((hv >> (j * 8)) & 0xFFFF) + 1 + uint64_t(j); F.tables++; break;
        case 4: for (int j = 0; j < 5; j++) NL(it.l[j]); it.k[0] = (hv & 0xFFF) + 1; it.k[1] = ((hv >> 12) & 0xFFF) + 2; it.w = (it.z & 1) ? 4 : 8; F.deltas++; break;
        case 5: {
          it.k[0] = hv ^ 0x5555AAAA5555AAAAull;
          if (!Lpool.is_valid()) NL(Lpool);
          TRY(T, pool.add(&it.k[0], 8, Out(it.off)), "ConstPool::add");
          F.pool_consts++;
          break;
        }
        case 6: {
          static const size_t bl[] = {16, 300, 5000, 30000, 70000};
          it.off = bl[umod(it.y, (it.z & 8) ? NELEM(bl) : NELEM(bl) - 1)];
          if (blob_total + it.off > 150000) it.off = 16;
          blob_total += it.off;
          F.blobs++;
          break;
        }
        default: NL(it.l[0]); F.fwd_jumps++; break;
      }
      items.push_back(it);
    }
    if (F.tail) targets.insert(F.tail_h);
    F.abs_targets = unsigned(targets.size());
    if (T.bad(lbl_ok ? Error::kOk : Error::kOutOfMemory, "new_label")) return;
    auto embed_deltas = [&](Item& it) -> Error {
      Error e = a.align(AlignMode::kData, it.w);
      if (e == Error::kOk) e = a.bind(it.l[0]);
      if (e == Error::kOk) e = a.embed_label_delta(it.l[2], it.l[1], it.w);
      if (e == Error::kOk) e = a.embed_label_delta(it.l[3], it.l[1], it.w);
      return e;
    };
    // ---- pass 2: delta tables that reference labels which are not bound yet (expression relocations) ----
    if (B) {
      TRY(T, a.section(B), "section");
      for (Item& it : items) if (it.kind == 4) { TRY(T, embed_deltas(it), "embed_label_delta(unbound labels)"); F.delta_relocs++; }
      TRY(T, a.section(text), "section");
    }
    // ---- pass 3: the code ----
    TRY(T, a.push(x86::rbx), "emit");
    TRY(T, a.mov(x86::rax, x86::rdi), "emit");
    for (Item& it : items) {
      MOp m; m.kind = it.kind; m.h = 0; for (int j = 0; j < 4; j++) m.k[j] = it.k[j];
      switch (it.kind) {
        case 0: TRY(T, a.add(x86::rax, imm(int32_t(it.k[0]))), "emit"); break;
        case 1:
          m.h = unsigned(umod(it.x, 4));
          TRY(T, a.mov(x86::rdi, x86::rax), "emit");
          TRY(T, a.call(imm(uint64_t(uintptr_t(kW4Helpers[m.h])))), "emit(absolute call)");
          break;
        case 2: TRY(T, a.xor_(x86::rax, x86::qword_ptr(it.l[0])), "emit(rip-relative)"); break;
        case 7: TRY(T, a.lea(x86::rdx, x86::ptr(it.l[0])), "emit(lea label)"); TRY(T, a.add(x86::rax, x86::qword_ptr(x86::rdx)), "emit"); break;
        case 3:
          TRY(T, a.mov(x86::ecx, x86::eax), "emit"); TRY(T, a.and_(x86::ecx, imm(3)), "emit");
          TRY(T, a.lea(x86::rdx, x86::ptr(it.l[0])), "emit(lea label)");
          TRY(T, a.jmp(x86::qword_ptr(x86::rdx, x86::rcx, 3)), "emit(jmp table)");
          for (int j = 0; j < 4; j++) {
            TRY(T, a.bind(it.l[1 + j]), "bind");
            TRY(T, a.add(x86::rax, imm(int32_t(it.k[j]))), "emit");
            if (j < 3) TRY(T, a.jmp(it.l[5]), "emit(jump)");
          }
          TRY(T, a.bind(it.l[5]), "bind");
          break;
        case 4:
          TRY(T, a.mov(x86::ecx, x86::eax), "emit"); TRY(T, a.and_(x86::ecx, imm(1)), "emit");
          TRY(T, a.lea(x86::rdx, x86::ptr(it.l[0])), "emit(lea label)");
          if (it.w == 4) TRY(T, a.movsxd(x86::rcx, x86::dword_ptr(x86::rdx, x86::rcx, 2)), "emit");
          else TRY(T, a.mov(x86::rcx, x86::qword_ptr(x86::rdx, x86::rcx, 3)), "emit");
          TRY(T, a.lea(x86::rdx, x86::ptr(it.l[1])), "emit(lea label)");
          TRY(T, a.add(x86::rdx, x86::rcx), "emit");
          TRY(T, a.jmp(x86::rdx), "emit");
          TRY(T, a.bind(it.l[1]), "bind");
          TRY(T, a.bind(it.l[2]), "bind");
          TRY(T, a.add(x86::rax, imm(int32_t(it.k[0]))), "emit");
          TRY(T, a.jmp(it.l[4]), "emit(jump)");
          TRY(T, a.bind(it.l[3]), "bind");
          TRY(T, a.add(x86::rax, imm(int32_t(it.k[1]))), "emit");
          TRY(T, a.bind(it.l[4]), "bind");
          break;
        case 5: TRY(T, a.add(x86::rax, x86::qword_ptr(Lpool, int32_t(it.off))), "emit(rip-relative)"); break;
        case 6: break;
        default: {
          std::string pad(1 + umod(it.y, 200), char(0xCC));
          TRY(T, a.jmp(it.l[0]), "emit(jump)");
          TRY(T, a.embed(pad.data(), pad.size()), "embed");
          TRY(T, a.bind(it.l[0]), "bind");
          break;
        }
      }
      if (it.kind != 6 && it.kind != 9) F.model.push_back(m);
    }
    if (F.tail) {
      TRY(T, a.mov(x86::rdi, x86::rax), "emit");
      TRY(T, a.pop(x86::rbx), "emit");
      TRY(T, a.jmp(imm(uint64_t(uintptr_t(kW4Helpers[F.tail_h])))), "emit(absolute jmp)");
    } else {
      TRY(T, a.pop(x86::rbx), "emit");
      TRY(T, a.ret(), "emit");
    }
    // ---- pass 4: data (constants, jump tables, delta tables of bound labels, const pool, blobs) ----
    bool pool_in_text = (d.p[3] & 1) != 0 || !A;
    if (Lpool.is_valid() && pool_in_text) TRY(T, a.embed_const_pool(Lpool, pool), "embed_const_pool");
    if (A) TRY(T, a.section(A), "section");
    for (Item& it : items) {
      switch (it.kind) {
        case 2: case 7:
          TRY(T, a.align(AlignMode::kData, 8), "align"); TRY(T, a.bind(it.l[0]), "bind"); TRY(T, a.embed(&it.k[0], 8), "embed");
          break;
        case 3:
          TRY(T, a.align(AlignMode::kData, 8), "align"); TRY(T, a.bind(it.l[0]), "bind");
          for (int j = 0; j < 4; j++) TRY(T, a.embed_label(it.l[1 + j], 8), "embed_label");
          break;
        case 4: if (!B) TRY(T, embed_deltas(it), "embed_label_delta(bound labels)"); break;
        case 6: { std::string blob(it.off, char(it.x)); TRY(T, a.embed(blob.data(), blob.size()), "embed"); break; }
        default: break;
      }
    }
    if (Lpool.is_valid() && !pool_in_text) TRY(T, a.embed_const_pool(Lpool, pool), "embed_const_pool");
  }

  static std::string stats_text(const JitAllocator::Statistics& s) {
    char b[200];
    snprintf(b, sizeof b, "{blocks %zu, allocations %zu, used %zu, reserved %zu, overhead %zu}", s.block_count(), s.allocation_count(), s.used_size(), s.reserved_size(), s.overhead_size());
    return b;
  }
  static __attribute__((no_sanitize("undefined"))) uint64_t call_jit(void* fn, uint64_t x) { return reinterpret_cast<uint64_t (*)(uint64_t)>(fn)(x); }

  void build_add_holder(Tracker& T, unsigned f, size_t first, size_t per, AddFn& F) {
    code.reset(d.hard ? ResetPolicy::kHard : ResetPolicy::kSoft);
    TRY(T, code.init(rt->environment(), rt->cpu_features()), "CodeHolder::init");
    TRY(T, code.attach(&xa), "CodeHolder::attach");
    F = AddFn();
    emit_add_function(T, f, first, per, F);
  }

  void run_add(Res& r, Tracker& T) {
    fi::Pause outside;                           // nothing but JitRuntime::add() is inside the fault window
    auto fail = [&](const char* key, const std::string& msg) { if (r.sem.empty()) { r.sem = msg; r.sem_key = key; } };
    JitAllocatorOptions jopt = w4_options(d.p[0]);
    uint32_t gran = (d.p[3] & 4) ? 128 : 64;
    if (!rt) {
      JitAllocator::CreateParams params;
      params.options = jopt;
      params.granularity = gran;
      rt.reset(new JitRuntime(&params));
    }
    const bool dual = Support::test(jopt, JitAllocatorOptions::kUseDualMapping), immediate = Support::test(jopt, JitAllocatorOptions::kImmediateRelease),
               padding = !Support::test(jopt, JitAllocatorOptions::kDisableInitialPadding);
    const unsigned pools = Support::test(jopt, JitAllocatorOptions::kUseMultiplePools) ? 3 : 1;
    unsigned nfun = 2 + unsigned(umod(d.p[1], 4));
    size_t per = d.steps.size() / nfun + 1;
    std::vector<void*> fns;
    struct Release { JitRuntime* rt; std::vector<void*>& v; ~Release() { for (void* p : v) if (p) (void)rt->release(p); } } rel{rt.get(), fns};
    r.counts["add.cases"]++;
    if (dual) r.counts["add.dual_mapping"]++;
    if (pools > 1) r.counts["add.multiple_pools"]++;
    if (Support::test(jopt, JitAllocatorOptions::kFillUnusedMemory)) r.counts["add.fill_unused_memory"]++;
    if (immediate) r.counts["add.immediate_release"]++;
    if (!padding) r.counts["add.no_initial_padding"]++;
    for (unsigned f = 0; f < nfun; f++) {
      AddFn F;
      build_add_holder(T, f, size_t(f) * per, per, F);
      if (T.failed()) return;
      const bool addrtab = code.has_address_table_section();
      r.counts["add.functions"]++;
      r.counts[std::string("add.layout_") + std::to_string(F.layout)]++;
      if (addrtab) r.counts["add.address_table"]++;
      if (addrtab && dual) r.counts["add.address_table_on_dual_mapping"]++;
      if (F.abs_targets > 1) r.counts["add.address_table_2plus_entries"]++;
      if (F.tail) r.counts["add.tail_jmp_absolute"]++;
      if (F.abs_calls) r.counts["add.call_absolute"] += F.abs_calls;
      if (code.section_count() >= 3) r.counts["add.3plus_sections"]++;
      if (F.xrefs && F.layout) r.counts["add.cross_section_reference"] += F.xrefs;
      if (F.tables) r.counts["add.embed_label_table"] += F.tables;
      if (F.deltas) r.counts["add.embed_label_delta_table"] += F.deltas;
      if (F.delta_relocs) r.counts["add.embed_label_delta_expression_reloc"] += F.delta_relocs;
      if (F.pool_consts) r.counts["add.const_pool"]++;
      if (F.blobs) r.counts["add.blob"]++;
      if (code.has_unresolved_fixups()) r.counts["add.unresolved_fixups_before_add"]++;

      void* fn = nullptr;
      for (int attempt = 0;; attempt++) {
        JitAllocator::Statistics s0 = rt->allocator().statistics();
        uint64_t h0 = fi::total_hits();
        fn = reinterpret_cast<void*>(uintptr_t(0x10));           // must be overwritten in every case
        Error err;
        if (attempt == 0) { fi::Unpause window; err = rt->add(&fn, &code); }
        else err = rt->add(&fn, &code);
        JitAllocator::Statistics s1 = rt->allocator().statistics();
        char ctxt[300];
        snprintf(ctxt, sizeof ctxt, "function #%u (code size %zu, %u sections%s, options 0x%X)", f, code.code_size(), unsigned(code.section_count()), addrtab ? ", address table" : "", unsigned(jopt));
        if (err == Error::kOk) {
          if (!fn || fn == reinterpret_cast<void*>(uintptr_t(0x10))) { fail("add-ok-without-pointer", std::string("JitRuntime::add returned kOk without a function pointer: ") + ctxt); return; }
          if (s1.allocation_count() != s0.allocation_count() + 1) { fail("add-statistics", std::string("JitRuntime::add returned kOk but allocation_count went ") + stats_text(s0) + " -> " + stats_text(s1) + ": " + ctxt); return; }
          if (attempt) r.counts["add.retry_succeeded"]++;
          break;
        }
        // ---- add() failed ----
        r.counts["add.failed_adds"]++;
        r.counts[std::string("add.failed_add_error_") + std::to_string(unsigned(err))]++;
        if (addrtab) r.counts["add.failed_add_with_address_table"]++;
        if (attempt > 0) {
          char m[500]; snprintf(m, sizeof m, "JitRuntime::add failed (an injected fault), memory is available again, but the repeated add() of %s returns %u %s: %s",
                                (d.p[3] & 2) ? "a holder rebuilt from the same program" : "the same CodeHolder", unsigned(err), DebugUtils::error_as_string(err), ctxt);
          fail((d.p[3] & 2) ? "add-after-failed-add-fails" : "add-same-holder-after-failed-add-fails", m); return;
        }
        if (fi::total_hits() == h0) { fail("add-fails-without-fault", std::string("JitRuntime::add returned ") + DebugUtils::error_as_string(err) + " although no request was failed during the call: " + ctxt); return; }
        if (fn != nullptr) { fail("failed-add-returns-pointer", std::string("JitRuntime::add returned ") + DebugUtils::error_as_string(err) + " and a non-null function pointer: " + ctxt); return; }
        // nothing may stay allocated: the statistics are those before the call. The only legitimate difference: the block that was created for
        // the request stays as the pool's (single) empty block - JitAllocator::release() keeps one per pool unless kImmediateRelease
        bool same = s1.allocation_count() == s0.allocation_count();
        if (s1.block_count() == s0.block_count()) same = same && s1.used_size() == s0.used_size() && s1.reserved_size() == s0.reserved_size() && s1.overhead_size() == s0.overhead_size();
        else {
          size_t du = s1.used_size() - s0.used_size();
          bool pad_ok = !padding ? du == 0 : false;
          if (padding) for (unsigned pid = 0; pid < pools; pid++) if (du == (size_t(gran) << pid)) pad_ok = true;
          same = same && s1.block_count() == s0.block_count() + 1 && !immediate && s1.reserved_size() > s0.reserved_size() && s1.overhead_size() > s0.overhead_size() && pad_ok;
          r.counts["add.failed_add_kept_empty_block"]++;
        }
        r.counts["add.failed_add_statistics_checked"]++;
        if (dual) r.counts["add.failed_add_statistics_checked_dual_mapping"]++;
        if (!same) {
          fail("failed-add-changes-allocator-statistics", std::string("JitRuntime::add returned ") + DebugUtils::error_as_string(err) + " (request failed: " + fi::S.last_fail +
               ") but the runtime's allocator does not return to its state before the call: " + stats_text(s0) + " -> " + stats_text(s1) + " - the memory stays allocated for the lifetime of the runtime: " + ctxt);
          return;
        }
        if (d.p[3] & 2) { r.counts["add.retry_with_rebuilt_holder"]++; build_add_holder(T, f, size_t(f) * per, per, F); if (T.failed()) return; }
        else r.counts["add.retry_with_same_holder"]++;
      }
      fns.push_back(fn);
      // ---- the installed image: equal to the holder's relocated sections; normalised (position independent) form -> output ----
      size_t cs = code.code_size();
      std::string img(static_cast<const char*>(fn), cs);
      for (Section* s : code.sections()) {
        if (s->offset() + s->buffer_size() > cs || memcmp(img.data() + s->offset(), s->data(), s->buffer_size()) != 0) { fail("add-image-differs-from-sections", "JitRuntime::add: installed bytes differ from the CodeHolder's relocated section buffer"); return; }
      }
      for (RelocEntry* re : code.reloc_entries()) {
        Section* ss = code.section_by_id(re->source_section_id());
        if (!ss) continue;
        size_t pos = size_t(ss->offset() + re->source_offset()) + re->format().value_offset(), vs = re->format().value_size();
        if (pos + vs > cs) continue;
        if (re->reloc_type() == RelocType::kX64AddressEntry && pos >= 2 && vs == 4) {
          // the absolute call / jmp reaches its target: directly (rel32) or through a slot of the address table that holds the target
          uint8_t b0 = uint8_t(img[pos - 2]), b1 = uint8_t(img[pos - 1]);
          int32_t disp; memcpy(&disp, &img[pos], 4);
          uint64_t next = uint64_t(pos) + 4, target = 0;
          bool decoded = true;
          if (b0 == 0xFF && (b1 == 0x15 || b1 == 0x25)) {
            uint64_t slot = next + uint64_t(int64_t(disp));
            Section* at = code.address_table_section();
            if (at && slot >= at->offset() && slot + 8 <= at->offset() + at->buffer_size() && slot + 8 <= cs) { memcpy(&target, &img[size_t(slot)], 8); r.counts["add.address_table_slot_checked"]++; }
            else decoded = false;
          } else if (b1 == 0xE8 || b1 == 0xE9) { target = uint64_t(uintptr_t(fn)) + next + uint64_t(int64_t(disp)); r.counts["add.absolute_target_by_rel32"]++; }
          else decoded = false;
          if (!decoded || target != re->payload()) {
            char m[300]; snprintf(m, sizeof m, "JitRuntime::add: the absolute call/jmp at image offset %zu (bytes %02X %02X, displacement %d) does not reach its target 0x%llx (%s 0x%llx): function #%u",
                                  pos - 1, b0, b1, disp, (unsigned long long)re->payload(), decoded ? "it reaches" : "not decodable, slot outside the address table;", (unsigned long long)target, f);
            fail("add-absolute-target-not-reached", m); return;
          }
        }
        if (re->reloc_type() == RelocType::kRelToAbs && vs == 8) { uint64_t v; memcpy(&v, &img[pos], 8); v -= uint64_t(uintptr_t(fn)); memcpy(&img[pos], &v, 8); }
        else if (re->reloc_type() == RelocType::kX64AddressEntry && pos >= 2) memset(&img[pos - 2], 0, vs + 2);     // rel32 or address-table form: depends on the distance
        else if (re->reloc_type() == RelocType::kAbsToRel) memset(&img[pos], 0, vs);
      }
      size_t keep = cs;
      if (Section* at = code.address_table_section()) keep = std::min(keep, size_t(at->offset()));                // the table holds absolute addresses; judged by execution
      put_u64(r.bytes, keep);
      r.bytes.append(img.data(), keep);
      // ---- the function behaves like the model ----
      static const uint64_t kArgs[] = {0, 1, 2, 3, 0x9E3779B97F4A7C15ull, 0xFFFFFFFFFFFFFFF0ull};
      for (uint64_t x0 : kArgs) {
        uint64_t x = x0 + f, got = call_jit(fn, x), want = F.eval(x);
        if (got != want) {
          char m[300]; snprintf(m, sizeof m, "the function installed by JitRuntime::add computes f(0x%llx) = 0x%llx, the program's model says 0x%llx: function #%u", (unsigned long long)x, (unsigned long long)got, (unsigned long long)want, f);
          fail("add-function-wrong-result", m); return;
        }
        put_u64(r.bytes, got);
        r.counts["add.function_calls_checked"]++;
      }
      if ((d.p[2] >> f) & 1) {
        JitAllocator::Statistics s0 = rt->allocator().statistics();
        TRY(T, rt->release(fn), "JitRuntime::release");
        fns.back() = nullptr;
        if (rt->allocator().statistics().allocation_count() + 1 != s0.allocation_count()) { fail("release-statistics", "JitRuntime::release returned kOk but allocation_count did not drop by one"); return; }
        r.counts["add.released_between_adds"]++;
      }
    }
    // ---- everything released: the allocator is empty ----
    for (void*& p : fns) if (p) { TRY(T, rt->release(p), "JitRuntime::release"); p = nullptr; }
    JitAllocator::Statistics se = rt->allocator().statistics();
    if (se.allocation_count() != 0 || se.used_size() > se.block_count() * (size_t(gran) << (pools - 1)) || (immediate && se.block_count() != 0)) {
      fail("allocator-not-empty-after-release-all", std::string("every function was released but the runtime's allocator still reports ") + stats_text(se));
      return;
    }
    r.counts["add.empty_after_release_all_checked"]++;
    r.full = r.bytes;
  }

  // ---- variant 1 ----
  void run_allocator(Res& r, Tracker& T) {
    if (!ja) {
      JitAllocator::CreateParams params;
      params.options = w4_options(d.p[0]);
      if (d.p[1] & 1) params.granularity = 128;
      ja.reset(new JitAllocator(&params));
    }
    struct Live { JitAllocator::Span span; std::string model; };
    std::vector<Live> live;
    struct Release { JitAllocator* ja; std::vector<Live>& v; ~Release() { for (Live& l : v) (void)ja->release(l.span.rx()); } } rel{ja.get(), live};
    static const size_t sizes[] = {1, 64, 100, 1000, 4096, 10000, 70000, 200000};
    size_t total = 0;
    int sidx = 0;
    for (const vh::Op& op : d.steps) {
      T.step = sidx++;
      int64_t x = argof(op, 1), y = argof(op, 2), z = argof(op, 3);
      switch (umod(argof(op, 0), 7)) {
        case 0: case 1: {
          size_t n = sizes[umod(y, (z & 8) ? NELEM(sizes) : NELEM(sizes) - 2)];
          if (live.size() >= 12 || total + n > 600000) break;
          JitAllocator::Span span;
          Error err = ja->alloc(Out(span), n);
          if (err == Error::kNotInitialized) unusable = true;
          TRY(T, err, "JitAllocator::alloc");
          if (!span.rx() || span.size() < n) { r.sem = "JitAllocator::alloc returned kOk with a null / too small span"; return; }
          Live l; l.span = span; l.model.assign(span.size(), char(0));
          for (size_t i = 0; i < l.model.size(); i++) l.model[i] = char(uint8_t(x) + uint8_t(i * 7));
          live.push_back(l);
          total += span.size();
          TRY(T, ja->write(live.back().span, 0, live.back().model.data(), live.back().model.size()), "JitAllocator::write");
          put_u64(r.bytes, span.size());
          break;
        }
        case 2: {
          if (live.empty()) break;
          size_t i = umod(x, live.size());
          TRY(T, ja->release(live[i].span.rx()), "JitAllocator::release");
          total -= live[i].span.size();
          live.erase(live.begin() + long(i));
          break;
        }
        case 3: {
          if (live.empty()) break;
          Live& l = live[umod(x, live.size())];
          size_t ns = 1 + umod(y * 131, l.span.size());
          size_t before = l.span.size();
          TRY(T, ja->shrink(l.span, ns), "JitAllocator::shrink");
          if (l.span.size() < ns || l.span.size() > before) { r.sem = "JitAllocator::shrink produced an invalid span size"; return; }
          total -= before - l.span.size();
          l.model.resize(l.span.size());
          put_u64(r.bytes, l.span.size());
          break;
        }
        case 4: {
          if (live.empty()) break;
          Live& l = live[umod(x, live.size())];
          size_t off = umod(y * 37, l.span.size()), n = 1 + umod(z * 991 + x, l.span.size() - off);
          std::string src(n, char(0x80 | (x & 0x7F)));
          TRY(T, ja->write(l.span, off, src.data(), n), "JitAllocator::write");
          l.model.replace(off, n, src);
          break;
        }
        case 5: {
          if (live.empty()) break;
          Live& l = live[umod(x, live.size())];
          JitAllocator::Span q;
          TRY(T, ja->query(Out(q), l.span.rx()), "JitAllocator::query");
          if (q.rx() != l.span.rx() || q.size() != l.span.size()) { r.sem = "JitAllocator::query disagrees with the span handed out by alloc/shrink"; return; }
          break;
        }
        default: {
          if (live.empty()) break;
          Live& l = live[umod(x, live.size())];
          size_t keep = 1 + umod(y * 17, l.span.size());
          size_t before = l.span.size();
          Error err = ja->write(l.span, [&](JitAllocator::Span& s) noexcept -> Error {
            memset(s.rw(), 0x3C, keep);
            s.shrink(keep);
            return Error::kOk;
          });
          TRY(T, err, "JitAllocator::write(fn)");
          total -= before - l.span.size();
          l.model.replace(0, keep, std::string(keep, char(0x3C)));
          l.model.resize(l.span.size());
          put_u64(r.bytes, l.span.size());
          break;
        }
      }
    }
    T.step = sidx;
    for (Live& l : live) {
      if (memcmp(l.span.rx(), l.model.data(), l.model.size()) != 0) { r.sem = "JIT memory read back through the rx mapping differs from what was written"; return; }
      r.bytes += l.model;
    }
    // allocator statistics are not part of the output: they depend on the block-retention history (and on recorded C09 findings:
    // reset() keeps allocation_count / empty_block_count)
    (void)ja->statistics();
    r.full = r.bytes;
  }

  // ---- variant 2 ----
  void run_virtmem(Res& r, Tracker& T) {
    struct Plain { void* p; size_t n; };
    struct Dual { VirtMem::DualMapping dm; size_t n; };
    std::vector<Plain> plain;
    std::vector<Dual> dual;
    struct Release { std::vector<Plain>& a; std::vector<Dual>& b; ~Release() { for (Plain& x : a) (void)VirtMem::release(x.p, x.n); for (Dual& x : b) (void)VirtMem::release_dual_mapping(x.dm, x.n); } } rel{plain, dual};
    size_t page = VirtMem::info().page_size;
    int sidx = 0;
    for (const vh::Op& op : d.steps) {
      T.step = sidx++;
      int64_t x = argof(op, 1), y = argof(op, 2);
      switch (umod(argof(op, 0), 6)) {
        case 0: {
          if (plain.size() >= 6) break;
          void* p = nullptr; size_t n = page * (1 + umod(y, 4));
          TRY(T, VirtMem::alloc(&p, n, VirtMem::MemoryFlags::kAccessReadWrite), "VirtMem::alloc");
          if (!p) { r.sem = "VirtMem::alloc returned kOk and a null pointer"; return; }
          memset(p, int(x & 0xFF), n);
          plain.push_back(Plain{p, n});
          break;
        }
        case 1: {
          if (plain.empty()) break;
          Plain& m = plain[umod(x, plain.size())];
          TRY(T, VirtMem::protect(m.p, m.n, (y & 1) ? VirtMem::MemoryFlags::kAccessRX : VirtMem::MemoryFlags::kAccessRead), "VirtMem::protect");
          r.bytes += static_cast<const char*>(m.p)[m.n - 1];
          TRY(T, VirtMem::protect(m.p, m.n, VirtMem::MemoryFlags::kAccessReadWrite), "VirtMem::protect");
          break;
        }
        case 2: {
          if (plain.empty()) break;
          size_t i = umod(x, plain.size());
          TRY(T, VirtMem::release(plain[i].p, plain[i].n), "VirtMem::release");
          plain.erase(plain.begin() + long(i));
          break;
        }
        case 3: {
          if (dual.size() >= 4) break;
          VirtMem::DualMapping dm{};
          size_t n = page * (1 + umod(y, 4));
          TRY(T, VirtMem::alloc_dual_mapping(Out(dm), n, VirtMem::MemoryFlags::kAccessRWX), "VirtMem::alloc_dual_mapping");
          if (!dm.rx || !dm.rw) { r.sem = "VirtMem::alloc_dual_mapping returned kOk with a null mapping"; return; }
          dual.push_back(Dual{dm, n});
          break;
        }
        case 4: {
          if (dual.empty()) break;
          Dual& m = dual[umod(x, dual.size())];
          memset(m.dm.rw, int(y & 0xFF), m.n);
          if (static_cast<uint8_t*>(m.dm.rx)[m.n / 2] != uint8_t(y & 0xFF)) { r.sem = "dual mapping: the rx view does not show what was written through rw"; return; }
          r.bytes += char(y & 0xFF);
          break;
        }
        default: {
          if (dual.empty()) break;
          size_t i = umod(x, dual.size());
          TRY(T, VirtMem::release_dual_mapping(dual[i].dm, dual[i].n), "VirtMem::release_dual_mapping");
          dual.erase(dual.begin() + long(i));
          break;
        }
      }
    }
    put_u64(r.bytes, plain.size()); put_u64(r.bytes, dual.size());
    r.full = r.bytes;
  }
};

// Process-wide caches of virtmem.cpp (hardened-runtime probe, anonymous-memory strategy, memfd availability) are filled before
// any fault can hit their one-time probes: a failed probe would change the behaviour of every later case of the process.
static void warm_up_process_caches() {
  (void)VirtMem::info();
  (void)VirtMem::hardened_runtime_info();
  (void)CpuInfo::host();
  for (int dualm = 0; dualm < 2; dualm++) {
    JitAllocator::CreateParams params;
    if (dualm) params.options = JitAllocatorOptions::kUseDualMapping;
    JitAllocator a(&params);
    JitAllocator::Span s;
    if (a.alloc(Out(s), 128) == Error::kOk) (void)a.release(s.rx());
  }
  VirtMem::DualMapping dm{};
  if (VirtMem::alloc_dual_mapping(Out(dm), VirtMem::info().page_size, VirtMem::MemoryFlags::kAccessRWX) == Error::kOk)
    (void)VirtMem::release_dual_mapping(dm, VirtMem::info().page_size);
}
} // namespace

//@@WORKLOADS-END@@
// =============================================================================================
// decode / factory
// =============================================================================================
static bool g_enable[6] = {false, true, true, true, true, true};

static Decoded decode(const vh::Case& c) {
  Decoded d;
  auto cfg = [&](size_t i) -> int64_t { return i < c.cfg.size() ? c.cfg[i] : 0; };
  d.W = 1 + int(umod(cfg(0) - 1, 5));
  d.variant = int(umod(cfg(1), d.W == 4 ? 4 : 2));
  for (int i = 0; i < 4; i++) d.p[i] = cfg(2 + size_t(i));
  d.hard = (cfg(6) & 1) != 0;
  // continue-after-every-error mode only where every later call validates what it gets: the Assembler (W1) and the containers (W5). After a failed
  // Builder::section()/bind() the harness's model of section order would no longer match the node list (W2 excluded).
  d.cont = (cfg(7) & 1) != 0 && (d.W == 1 || d.W == 5);
  d.hist = d.W == 4 ? 0 : int(umod(cfg(8), 64));      // W4 re-uses its holder after reset(kSoft) for every function anyway
  // continue window (W1-W3, single generation): an instruction call of the window that returns kOutOfMemory is survived - the caller goes on
  // with the next step. Exactly modelled: the final output must be the output of the program without those calls. Every other call
  // (sections, labels, binds, embeds, ...) still stops the workload at its first error.
  d.stream = (cfg(7) & 2) != 0 && d.W >= 1 && d.W <= 3 && d.hist == 0;
  size_t nsteps = 0;
  for (const vh::Op& op : c.ops) {
    if (op.empty()) continue;
    if (op[0] == 90) {
      if (d.plan.size() < 8) d.plan.push_back(fi::Entry{int(umod(argof(op, 1), 3)), uint64_t(argof(op, 2)) & 0xFFFFFFFull, argof(op, 3) != 0, uint64_t(argof(op, 4)) & 0xFFFFFFFFull, 0, uint64_t(argof(op, 5)) & 0x3FFFFFFFull,
                                                        uint64_t(argof(op, 6)) & 0xFFFFull, uint64_t(argof(op, 7)) & 0xFFFFFFFull});
    } else if (nsteps < 160) { d.steps.push_back(op); nsteps++; }
  }
  vh::Case k; k.cfg = {d.W, d.variant, d.p[0], d.p[1], d.p[2], d.p[3], d.hist}; k.ops = d.steps;
  d.key = k.to_text();
  return d;
}

static std::unique_ptr<Workload> make_workload(const Decoded& d) {
  switch (d.W) {
#ifdef C15_HAVE_W1
    case 1: return std::unique_ptr<Workload>(new W1(d, false));
    case 2: return std::unique_ptr<Workload>(new W1(d, true));
#endif
#ifdef C15_HAVE_W3
    case 3: return std::unique_ptr<Workload>(new W3(d));
#endif
#ifdef C15_HAVE_W4
    case 4: return std::unique_ptr<Workload>(new W4(d));
#endif
    default: return std::unique_ptr<Workload>(new W5(d));
  }
}

// =============================================================================================
// reference run (never faulted; counts the requests of each kind) — cached for the last instantiation
// =============================================================================================
struct RefInfo { std::string key; Res res; uint64_t n[fi::kKinds] = {0, 0, 0}; bool marked = false; uint64_t mark[fi::kKinds] = {0, 0, 0}; bool valid = false;
                 bool window = false; uint64_t win_lo[fi::kKinds] = {0, 0, 0}, win_hi[fi::kKinds] = {0, 0, 0}; };

static void run_reference(const Decoded& d, RefInfo& R) {
  R = RefInfo();
  R.key = d.key;
  fi::S.phase = 0;
  {
    fi::arm({});
    std::unique_ptr<Workload> w = make_workload(d);
    w->run(R.res);
    fi::disarm();
    for (int k = 0; k < fi::kKinds; k++) { R.n[k] = fi::S.count[k]; R.mark[k] = fi::S.mark[k]; }
    R.marked = fi::S.marked;
    R.window = fi::S.win_open;
    for (int k = 0; k < fi::kKinds; k++) { R.win_lo[k] = fi::S.win_lo[k]; R.win_hi[k] = fi::S.win_hi[k]; }
  }
  R.valid = true;
}

static const RefInfo& get_reference(const Decoded& d) {
  static RefInfo cache;
  if (!cache.valid || cache.key != d.key) run_reference(d, cache);
  return cache;
}

// =============================================================================================
// the property
// =============================================================================================
static std::string diff_text(const std::string& a, const std::string& b) {
  size_t n = std::min(a.size(), b.size()), i = 0;
  while (i < n && a[i] == b[i]) i++;
  char m[160];
  if (i == n && a.size() == b.size()) return "equal";
  snprintf(m, sizeof m, "first difference at byte %zu of %zu/%zu: 0x%02x vs 0x%02x", i, a.size(), b.size(), i < a.size() ? uint8_t(a[i]) : 0u, i < b.size() ? uint8_t(b[i]) : 0u);
  return m;
}
static std::string plan_text(const Decoded& d) {
  std::string s;
  for (const fi::Entry& e : d.plan) { char b[96]; if (e.site) snprintf(b, sizeof b, "%s%s[site %llu]#%llu%s", s.empty() ? "" : ",", fi::kKindName[e.kind], (unsigned long long)e.site, (unsigned long long)e.k, e.from ? "+" : "");
    else if (e.size) snprintf(b, sizeof b, "%s%s[size %llu]#%llu%s", s.empty() ? "" : ",", fi::kKindName[e.kind], (unsigned long long)e.size, (unsigned long long)e.k, e.from ? "+" : "");
    else if (e.period) snprintf(b, sizeof b, "%s%s#%llu+every %llu%s%llu", s.empty() ? "" : ",", fi::kKindName[e.kind], (unsigned long long)e.k, (unsigned long long)e.period, e.until ? " below #" : "", (unsigned long long)e.until);
    else snprintf(b, sizeof b, "%s%s#%llu%s", s.empty() ? "" : ",", fi::kKindName[e.kind], (unsigned long long)e.k, e.from ? "+" : ""); s += b; }
  return s.empty() ? "none" : s;
}

static uint64_t g_lsan_every = 1;
static uint64_t g_plans = 0;

void vh_run(const vh::Case& c, vh::Ctx& ctx) {
  Decoded d = decode(c);
  if (!g_enable[d.W]) { ctx.cls("skipped_disabled_workload"); return; }
  const std::string W = wname(d.W);
  std::string kind = d.plan.empty() ? "none" : fi::kKindName[d.plan[0].kind];
  for (const fi::Entry& e : d.plan) if (fi::kKindName[e.kind] != kind) kind = "multi";
  const std::string pfx = W + "-" + kind + "-";
  bool multi = d.plan.size() > 1 || (d.plan.size() == 1 && (d.plan[0].from || d.plan[0].period));
  std::string ptxt = plan_text(d);

  fi::S.live->clear(); fi::S.maps->clear(); fi::S.fds->clear(); fi::S.munmap_unknown = 0;
  fi::S.tracking = true;
  struct Untrack { ~Untrack() { fi::disarm(); fi::S.tracking = false; } } untrack;

  const RefInfo& R = get_reference(d);
  ctx.cls(W + ".plans");
  if (R.res.err != Error::kOk || !R.res.sem.empty()) {
    // W4 variant 3 judges what JitRuntime::add() installed (image, allocator statistics, the results of the called functions): when such a
    // check fails without any fault the runtime is broken before a fault plan can be judged - reported, never skipped silently
    if (d.W == 4 && d.variant == 3 && !R.res.sem.empty())
      ctx.fail_unless_known(W + "-faultfree-" + (R.res.sem_key.empty() ? std::string("wrong-content") : R.res.sem_key), R.res.sem + " (fault-free reference run; plan " + ptxt + " not judged)");
    // the fault-free run itself reports an error: generator problem (not a violation); counted and skipped
    ctx.cls(W + ".reference_failed");
    if (ctx.opts && ctx.opts->geti("showref", 0)) fprintf(stderr, "reference failed: %s step %d err %u %s\n%s", R.res.call, R.res.step, unsigned(R.res.err), R.res.sem.c_str(), c.to_text().c_str());
    return;
  }

  // positions are interpreted modulo (requests of that kind in the clean run + 1): every generated plan lands inside the run or
  // exactly one past its end (the "never reached" control); enumerated plans are unchanged by this
  // (continue window: three of four generated positions are folded into the window, where a failure is survived)
  for (fi::Entry& e : d.plan) if (!e.site && !e.size) {
    uint64_t lo = R.win_lo[e.kind], hi = R.win_hi[e.kind];
    if (d.stream && R.window && hi > lo && !e.period && !e.from && e.k > R.n[e.kind] && e.k % 4 != 0) e.k = lo + (e.k / 4) % (hi - lo);
    else e.k %= (R.n[e.kind] + 1);
  }
  ptxt = plan_text(d);

  // ---- faulty run on fresh objects ----
  Res f;
  std::unique_ptr<Workload> w;
  uint64_t hits[fi::kKinds], hit_total, hits_after_reset;
  std::string failed_request_s; const char* failed_request;
  if (d.hist) ctx.cls(W + ".hist.plans");
  if (R.marked) { ctx.cls(W + ".hist.plans_with_soft_reset_in_fault_window"); for (const std::string& sh : R.res.shapes) ctx.cls(W + ".hist." + sh); }
  {
    fi::S.phase = 1;
    fi::arm(d.plan);
    w = make_workload(d);
    w->run(f);
    fi::disarm();
    for (int k = 0; k < fi::kKinds; k++) hits[k] = fi::S.hits[k];
    hit_total = fi::total_hits();
    hits_after_reset = fi::S.hits_after_mark;
    failed_request_s = fi::g_site[0] ? fi::g_site : fi::S.last_fail; failed_request = failed_request_s.c_str();
    if (g_excluded_delta) { ctx.known_excluded(kKeyDeltaReloc); g_excluded_delta = 0; }
    if (fi::S.suppressed) { ctx.known_excluded(kKeyConstPoolShared); ctx.cls(W + ".fault_suppressed_known_crash_site"); }
  }
  g_plans++;
  char where[512];
  snprintf(where, sizeof where, "plan [%s] first failed request: %s (requests in a clean run: arena %llu heap %llu vm %llu); first error %u from %s at step %d",
           ptxt.c_str(), failed_request, (unsigned long long)R.n[0], (unsigned long long)R.n[1], (unsigned long long)R.n[2], unsigned(f.err), f.call[0] ? f.call : "-", f.step);

  // the arenas of the (possibly failed) objects reference only memory they own - checked before anything is reset or reused
  auto check_arenas = [&](const char* when) {
    std::string why;
    if (w->arenas_ok(why)) return;
    // the object is not destroyed (its destructor would release the stale block a second time): the failure is reported instead
    __lsan_ignore_object(w.get());
    (void)w.release();
    ctx.fail(pfx + "arena-references-released-block", why + " " + when + "; " + where);
  };
  check_arenas("after the faulted run");
  if (hits_after_reset) { ctx.cls(W + "." + kind + ".fault_hit_after_soft_reset"); if (f.err != Error::kOk) ctx.cls(W + "." + kind + ".error_reported_after_soft_reset"); }
  for (auto& kv : f.counts) ctx.cls(W + "." + kv.first, kv.second);
  const bool add_variant = d.W == 4 && d.variant == 3;
  const uint64_t failed_adds = f.counts.count("add.failed_adds") ? f.counts["add.failed_adds"] : 0;
  if (add_variant && hit_total) {
    ctx.cls(W + ".add.plans_with_fault_inside_add");
    if (d.plan.size() == 1 && !d.plan[0].from && !d.plan[0].period && !d.plan[0].site && !d.plan[0].size) ctx.cls(W + ".add.fault_points_" + kind);
    if (failed_adds > 1) ctx.cls(W + ".add.plans_with_2plus_failed_adds");
  }
  VH_CHECK(ctx, f.sem.empty(), (pfx + (f.sem_key.empty() ? std::string("wrong-content") : f.sem_key)).c_str(), "%s; %s", f.sem.c_str(), where);
  // ---- continue window ----
  // (a) right after every window call - above all after a FAILED one - the emitter holds no one-shot state
  if (f.win_calls) {
    const std::string C = W + (d.stream ? ".continue." : ".window.");
    ctx.cls(C + "plans");
    ctx.cls(C + "calls", f.win_calls);
    ctx.cls(C + "calls_with_oneshot_state", f.win_decorated);
    if (f.win_state_checks_after_failure) ctx.cls(C + "state_checked_after_failed_call", f.win_state_checks_after_failure);
    VH_CHECK(ctx, f.state_leak.empty(), (pfx + "oneshot-state-survives-failed-call").c_str(), "%s; %s", f.state_leak.c_str(), where);
  }
  // (b) the model: the same program on fresh objects, never faulted, WITHOUT the window calls that reported kOutOfMemory (and without
  //     the inline comment of the calls whose comment copy could not be allocated: a lost annotation is not an error of the call)
  bool modelled = false;
  if (!f.failed_calls.empty() || !f.dropped_comments.empty()) {
    const std::string C = W + ".continue.";
    if (!f.failed_calls.empty()) {
      ctx.cls(C + "cases");
      ctx.cls(C + "failed_calls", f.failed_calls.size());
      ctx.cls(C + "failed_calls_with_oneshot_state", f.win_failed_decorated);
      ctx.cls(C + "failed_calls_with_options", f.win_failed_opt);
      ctx.cls(C + "failed_calls_with_extra_reg", f.win_failed_xreg);
      ctx.cls(C + "failed_calls_with_comment", f.win_failed_comment);
      ctx.cls(C + "failed_calls." + kind, f.failed_calls.size());
      if (f.failed_calls.size() > 1) ctx.cls(C + "cases_with_2plus_failed_calls");
      ctx.nontrivial();
    }
    if (!f.dropped_comments.empty()) {
      ctx.cls(W + ".window.comment_copy_failed_call_succeeded", f.dropped_comments.size());
      // --strictcomment=1 (triage): a call that returns kOk without the requested annotation is reported
      if (ctx.opts && ctx.opts->geti("strictcomment", 0)) ctx.fail_unless_known(W + "-inline-comment-dropped-on-oom", std::string("window call #") + std::to_string(f.dropped_comments[0]) + " returned kOk but its node has no inline comment (the copy of the text could not be allocated); " + where);
    }
    Res m;
    {
      fi::S.phase = 3;
      std::unique_ptr<Workload> wm = make_workload(d);
      wm->sc.skip.insert(f.failed_calls.begin(), f.failed_calls.end());
      wm->sc.drop.insert(f.dropped_comments.begin(), f.dropped_comments.end());
      wm->run(m);
    }
    if (m.err != Error::kOk || !m.sem.empty()) {
      ctx.cls(C + "model_run_failed");      // the program without the failed calls is not a valid program (generator problem, not a violation)
      if (getenv("C15_DEBUG")) fprintf(stderr, "model run failed: %s -> %u at step %d\n%s", m.call, unsigned(m.err), m.step, c.to_text().c_str());
    } else if (f.err == Error::kOk) {
      modelled = true;
      std::string detail;
      if (f.nodes != m.nodes) {
        // first differing node line
        size_t i = 0, n = std::min(f.nodes.size(), m.nodes.size());
        while (i < n && f.nodes[i] == m.nodes[i]) i++;
        size_t b0 = f.nodes.rfind('\n', i ? i - 1 : 0); b0 = b0 == std::string::npos ? 0 : b0 + 1;
        auto line = [&](const std::string& t) { size_t e0 = t.find('\n', b0); return b0 <= t.size() ? t.substr(b0, e0 == std::string::npos ? std::string::npos : e0 - b0) : std::string(); };
        detail = "; first differing node: got [" + line(f.nodes) + "] expected [" + line(m.nodes) + "]";
      }
      VH_CHECK(ctx, f.bytes == m.bytes, (pfx + "continue-output-differs-from-program-minus-failed-calls").c_str(),
               "%zu window call(s) returned kOutOfMemory and were survived (first: #%u), every other call returned kOk, but the output is not the output of the "
               "program without those calls (%s)%s; %s", f.failed_calls.size(), f.failed_calls.empty() ? 0u : f.failed_calls[0], diff_text(f.bytes, m.bytes).c_str(), detail.c_str(), where);
      if (!f.failed_calls.empty()) {
        ctx.cls(C + "output_equals_program_minus_failed_calls");
        ctx.cls(C + "next_instruction_checked", f.win_next_checked);
        ctx.cls(C + "next_instruction_with_oneshot_state_checked", f.win_next_decorated);
      }
    } else if (!f.failed_calls.empty()) {
      // a later call stopped the workload. Without a new fault between the last survived failure and that error, the error can only
      // come from what the failed call left behind (the model run, which never made the failed calls, reports no error).
      ctx.cls(C + "stopped_by_later_error");
      VH_CHECK(ctx, f.survived_before_error == 0 || f.hits_at_first_error > f.survived_hits_before_error, (pfx + "continue-later-call-fails-without-new-fault").c_str(),
               "window call #%u returned kOutOfMemory and was survived; later %s returned %u at step %d although no further request was failed and the "
               "program without the failed call(s) reports no error; %s", f.failed_calls[f.survived_before_error ? f.survived_before_error - 1 : 0], f.call, unsigned(f.err), f.step, where);
    }
  }
  if (hit_total == 0) {
    ctx.cls(W + "." + kind + ".fault_not_reached");
    VH_CHECK(ctx, f.err == Error::kOk && f.bytes == R.res.bytes && f.full == R.res.full, (W + "-unfaulted-run-differs").c_str(),
             "no fault was injected but the run differs from the reference (harness determinism); %s", where);
  } else {
    ctx.cls(W + "." + kind + ".fault_hit");
    if (multi) ctx.cls(W + ".multi_failure_plan");
    if (f.err != Error::kOk) {
      ctx.cls(W + "." + kind + ".error_reported");
      ctx.cls(std::string("error_code_") + std::to_string(unsigned(f.err)));
      if (f.later_errors) ctx.cls(W + ".continued_after_error");
      ctx.nontrivial();
      if (ctx.want_sample()) ctx.sample(W + " variant " + std::to_string(d.variant) + " " + ptxt + " -> " + f.call + " returned " + std::to_string(unsigned(f.err)) + " (failed request: " + failed_request + ")");
    } else if (modelled) {
      ctx.cls(W + "." + kind + ".continued_and_completed");
      if (ctx.want_sample() && !f.failed_calls.empty()) ctx.sample(W + " variant " + std::to_string(d.variant) + " " + ptxt + " -> " + std::to_string(f.failed_calls.size()) + " window call(s) returned kOutOfMemory, the caller continued; output = program minus those calls");
    } else if (!f.failed_calls.empty() || !f.dropped_comments.empty()) {
      ctx.cls(W + "." + kind + ".continued_unmodelled");
    } else if (failed_adds) {
      // W4 variant 3: every failed JitRuntime::add() was judged (null pointer, allocator statistics) and repeated without faults
      ctx.cls(W + "." + kind + ".add_failed_and_repeated");
      ctx.nontrivial();
      if (ctx.want_sample()) ctx.sample(W + " variant 3 (allocator options " + std::to_string(d.p[0] & 31) + ") " + ptxt + " -> " + std::to_string(failed_adds) + " JitRuntime::add call(s) failed (" + failed_request +
                                        "): null pointer, allocator statistics unchanged, repeated add() succeeded, functions called");
      VH_CHECK(ctx, f.bytes == R.res.bytes, (pfx + "add-output-differs-after-failed-add").c_str(),
               "%llu JitRuntime::add call(s) failed and were repeated, but the installed code / the results of the functions differ from the fault-free run (%s); %s",
               (unsigned long long)failed_adds, diff_text(f.bytes, R.res.bytes).c_str(), where);
    } else {
      ctx.cls(W + "." + kind + ".completed_despite_fault");
      if (getenv("C15_DEBUG") && f.bytes != R.res.bytes) { fprintf(stderr, "DIFF %s %s\n", ptxt.c_str(), failed_request); static int n = 0; char fn[64]; snprintf(fn, sizeof fn, "/tmp/c15_diff_%d.case", n++); vh::write_file(fn, c.to_text() + "end\n"); }
      VH_CHECK(ctx, f.bytes == R.res.bytes, (pfx + "success-but-different-bytes").c_str(),
               "every API call returned kOk although request %s failed, but the output differs from the fault-free run (%s); %s",
               failed_request, diff_text(f.bytes, R.res.bytes).c_str(), where);
    }
  }

  // ---- reset, re-run on the same objects without faults ----
  {
    fi::S.phase = 2;
    w->reset(d.hard);
    Res r2;
    w->run(r2);
    VH_CHECK(ctx, r2.err == Error::kOk, (pfx + "rerun-error").c_str(), "after reset(%s) the fault-free re-run on the same objects fails: %s returned %u at step %d; %s",
             d.hard ? "hard" : "soft", r2.call, unsigned(r2.err), r2.step, where);
    VH_CHECK(ctx, r2.sem.empty(), (pfx + "rerun-" + (r2.sem_key.empty() ? std::string("wrong-content") : r2.sem_key)).c_str(), "%s; %s", r2.sem.c_str(), where);
    if (getenv("C15_DEBUG") && r2.full != R.res.full) fprintf(stderr, "---- reference tail ----\n%.600s\n---- rerun tail ----\n%.600s\n", R.res.full.c_str() + std::min(R.res.bytes.size(), R.res.full.size()), r2.full.c_str() + std::min(r2.bytes.size(), r2.full.size()));
    VH_CHECK(ctx, r2.bytes == R.res.bytes && r2.full == R.res.full, (pfx + "rerun-differs").c_str(),
             "after reset(%s) the fault-free re-run on the same objects produces different output (output: %s; with layout/log: %s); %s", d.hard ? "hard" : "soft",
             diff_text(r2.bytes, R.res.bytes).c_str(), diff_text(r2.full, R.res.full).c_str(), where);
    if (hit_total) ctx.cls(W + "." + kind + ".rerun_identical");
    check_arenas("after the fault-free re-run");
  }
  w.reset();

  // ---- leaks ----
  if (!fi::S.live->empty()) {
    const auto& b = *fi::S.live->begin();
    char m[400];
    snprintf(m, sizeof m, "%zu heap block(s) allocated by AsmJit are still live after every object was destroyed (first: %zu bytes, heap request #%llu of the case, phase %s); %s",
             fi::S.live->size(), b.second.size, (unsigned long long)b.second.seq, b.second.phase == 0 ? "reference" : b.second.phase == 1 ? "faulty run" : b.second.phase == 3 ? "model run" : "re-run", where);
    for (auto& kv : *fi::S.live) __real_free(kv.first);   // keep LeakSanitizer quiet for the following cases
    fi::S.live->clear();
    ctx.fail_unless_known(W + "-leak", m);
  }
  if (!fi::S.maps->empty() || fi::S.munmap_unknown) {
    char m[400];
    snprintf(m, sizeof m, "%zu mapping(s) created by AsmJit were never unmapped (first: %zu bytes), %llu munmap call(s) of unknown ranges; %s",
             fi::S.maps->size(), fi::S.maps->empty() ? size_t(0) : fi::S.maps->begin()->second, (unsigned long long)fi::S.munmap_unknown, where);
    for (auto& kv : *fi::S.maps) __real_munmap(kv.first, kv.second);
    fi::S.maps->clear();
    ctx.fail_unless_known(W + "-vm-mmap-unbalanced", m);
  }
  if (!fi::S.fds->empty()) {
    char m[300];
    snprintf(m, sizeof m, "%zu anonymous-memory descriptor(s) were never closed; %s", fi::S.fds->size(), where);
    for (int fd : *fi::S.fds) __real_close(fd);
    fi::S.fds->clear();
    ctx.fail_unless_known(W + "-vm-fd-leak", m);
  }
  fi::S.tracking = false;
  if (g_lsan_every && g_plans % g_lsan_every == 0) {
    ctx.cls("lsan_checks");
    if (__lsan_do_recoverable_leak_check() != 0) ctx.fail(W + "-lsan-leak", std::string("LeakSanitizer reports a leak after the plan (see stderr); ") + where);
  }
}

// =============================================================================================
// generators
// =============================================================================================
static vh::Op fault_op(int kind, int64_t k, int from) { return vh::Op{90, kind, k, from}; }

rc::Gen<vh::Case> vh_gen(const vh::Opts&) {
  using namespace rc;
  auto stepGen = gen::exec([]() -> vh::Op {
    // one step in eight is an arena-history step (soft reset / large request / growth burst; interpreted by W5)
    int code = *vh::irange<int>(0, 7) == 0 ? *vh::irange<int>(50, 89) : *vh::irange<int>(0, 49);
    return vh::Op{code, *vh::irange<int>(0, 1000), *vh::irange<int>(0, 255), *vh::irange<int>(0, 15)};
  });
  auto planGen = gen::exec([]() -> std::vector<vh::Op> {
    std::vector<vh::Op> ops;
    int sel = *vh::irange<int>(0, 99);
    // k distribution: mostly small (every workload has few heap / vm requests), sometimes large (arena)
    auto kgen = [](int) -> int64_t { return *vh::irange<int>(0, 100000); };
    auto kindgen = []() -> int { int s = *vh::irange<int>(0, 99); return s < 50 ? 0 : s < 80 ? 1 : 2; };
    if (sel < 35) { int kd = kindgen(); ops.push_back(fault_op(kd, kgen(kd), 0)); }
    else if (sel < 55) { int kd = kindgen(); ops.push_back(fault_op(kd, kgen(kd), 1)); }
    else {
      int n = *vh::irange<int>(2, 5);
      bool same = *vh::irange<int>(0, 1) == 0;
      int kd0 = kindgen();
      for (int i = 0; i < n; i++) { int kd = same ? kd0 : kindgen(); ops.push_back(fault_op(kd, kgen(kd), 0)); }
      if (*vh::irange<int>(0, 4) == 0) { int kd = kindgen(); ops.push_back(fault_op(kd, kgen(kd) + 20, 1)); }
    }
    return ops;
  });
  auto cfgGen = gen::exec([]() -> std::vector<int64_t> {
    int W = *vh::irange<int>(1, 5);
    // a third of the instantiations are histories (soft reset + larger program inside the fault window)
    int hist = *vh::irange<int>(0, 2) == 0 ? *vh::irange<int>(1, 63) : 0;
    // mode: bit 0 continue after every error (W1/W5), bit 1 continue window (W1-W3: a failed instruction of the window is survived)
    static const int modes[] = {1, 1, 2, 2, 3, 0, 0, 0};
    int mode = modes[*vh::irange<int>(0, 7)];
    // W4: half of the instantiations are variant 3 (JitRuntime::add of multi-feature programs, fault window = add())
    static const int w4var[] = {0, 1, 2, 3, 3, 3};
    int var = W == 4 ? w4var[*vh::irange<int>(0, 5)] : *vh::irange<int>(0, 2);
    return {W, var, *vh::irange<int>(0, 63), *vh::irange<int>(0, 63), *vh::irange<int>(0, 63), *vh::irange<int>(0, 63),
            *vh::irange<int>(0, 1), mode, hist};
  });
  return gen::apply([](std::vector<int64_t> cfg, std::vector<vh::Op> steps, std::vector<vh::Op> plan) {
      vh::Case c; c.cfg = std::move(cfg); c.ops = std::move(steps);
      if (c.ops.size() > 90) c.ops.resize(90);
      // virtual-memory faults only exist in W4 (there they replace half of the arena entries); positions are folded into the
      // request count of the instantiation's clean run by vh_run (k mod (count + 1))
      int W = int(c.cfg[0]);
      // W1-W3: with a continue window two thirds of the steps become window instructions (one-shot state per their arguments), a few
      // become "burn" steps (the next instruction meets an exhausted arena block / code buffer); without one, one step in eight
      if (W >= 1 && W <= 3) {
        bool win = (c.cfg[7] & 2) != 0 && c.cfg[8] == 0;
        for (auto& op : c.ops) {
          if (op.size() < 4 || op[0] >= 50) continue;
          if (win ? op[1] % 3 != 0 : op[1] % 8 == 5) op[0] = op[2] % 16 == 0 ? 140 + op[1] % 5 : 100 + (op[1] / 3 + op[2]) % 40;
        }
      }
      for (auto& p : plan) {
        if (W != 4 && p[1] == 2) p[1] = 0;
        else if (W == 4 && p[1] == 0 && (p[2] & 1)) p[1] = 2;
        c.ops.push_back(p);
      }
      return c; },
    cfgGen, gen::container<std::vector<vh::Op>>(stepGen), planGen);
}

// =============================================================================================
// deterministic enumeration: fixed instantiations x every k of every fault kind
// =============================================================================================
static uint64_t sm64(uint64_t& s) { uint64_t z = (s += 0x9E3779B97F4A7C15ull); z = (z ^ (z >> 30)) * 0xBF58476D1CE4E5B9ull; z = (z ^ (z >> 27)) * 0x94D049BB133111EBull; return z ^ (z >> 31); }

static vh::Case fixed_instance(int W, int variant, uint64_t seed, size_t nsteps) {
  vh::Case c;
  uint64_t s = seed * 1000003ull + uint64_t(W) * 101 + uint64_t(variant);
  c.cfg = {W, variant, int64_t(sm64(s) % 64), int64_t(sm64(s) % 64), int64_t(sm64(s) % 64), int64_t(sm64(s) % 64), int64_t(seed & 1), 0};
  for (size_t i = 0; i < nsteps; i++) {
    // the first steps walk through every step kind once so that each call site is part of every fixed instantiation
    int64_t code = i < 16 ? int64_t((i * 7 + seed) % 16) : int64_t(sm64(s) % 50);
    c.ops.push_back(vh::Op{code, int64_t(sm64(s) % 1001), int64_t(sm64(s) % 256), int64_t(sm64(s) % 16)});
  }
  return c;
}

// W5 instantiation whose steps ARE an arena history: growth, soft reset, requests that exceed the kept blocks, growth again.
static vh::Case w5_history_instance(uint64_t seed) {
  vh::Case c;
  uint64_t s = seed * 7777777ull + 5;
  c.cfg = {5, 0, int64_t(seed & 1), 0, 0, 0, int64_t(seed & 1), 0, 0};     // arena block size 1024 / 4096
  auto plain = [&](size_t n) { for (size_t i = 0; i < n; i++) c.ops.push_back(vh::Op{int64_t(sm64(s) % 12), int64_t(sm64(s) % 1001), int64_t(sm64(s) % 256), int64_t(sm64(s) % 16)}); };
  auto ext = [&](int kind, int64_t a, int64_t b, int64_t cc) { c.ops.push_back(vh::Op{50 + kind, a, b, cc}); };
  plain(6);
  ext(1, 1, int64_t(2 + seed % 3), 0);        // 3000..6000 bytes: a block of its own
  ext(4, 3, 1, 0);                            // vector growth: reusable slots, then dynamic blocks
  ext(3, 5, 12, 1);                           // constant pool burst
  plain(4);
  ext(0, 0, 0, 0);                            // ---- soft reset: >= 3 kept blocks ----
  plain(3);
  ext(1, 2, 5, 1);                            // 9000+: larger than every kept block after the current one
  ext(2, 7, 4, 0);                            // dup of 5000 characters
  ext(5, 9, 1, 0);                            // hash growth
  plain(3);
  ext(0, 0, 0, 0);                            // ---- second soft reset ----
  ext(3, 11, 30, 2);
  ext(2, 13, 5, 1);                           // ArenaString of 9000 characters
  ext(1, 4, 6, 3);                            // zeroed, at least twice the largest so far
  ext(4, 6, 3, 0);
  plain(3);
  ext(1, 8, 8, 1);                            // 70000+
  return c;
}

// Continue-window instantiation: a few ordinary steps, then a stream of window instructions (most of them armed with one-shot
// state; two "burn" steps put a block / buffer boundary into the stream), then the usual epilogue. cfg[7] = 2.
static vh::Case window_instance(int W, int variant, uint64_t seed, size_t nwin) {
  vh::Case c;
  uint64_t s = seed * 7654321ull + uint64_t(W) * 131 + uint64_t(variant) * 17 + 99;
  c.cfg = {W, variant, int64_t(sm64(s) % 64), int64_t(sm64(s) % 64), int64_t(sm64(s) % 64), int64_t(sm64(s) % 64) & ~int64_t(16 | 8), int64_t(seed & 1), 2, 0};
  static const int64_t pre[] = {0, 8, 12, 0};                      // plain instruction, align, data array (W3: alu, load, store ... by its own table)
  for (size_t i = 0; i < 3; i++) c.ops.push_back(vh::Op{W == 3 ? int64_t(i) : pre[i], int64_t(sm64(s) % 1001), int64_t(sm64(s) % 256), int64_t(sm64(s) % 16)});
  for (size_t i = 0; i < nwin; i++) {
    if (i == nwin / 4 || i == (nwin * 2) / 3) c.ops.push_back(vh::Op{140, 0, int64_t((seed + i) % 3), 0});
    // the first instructions walk through every kind once; three in four carry one-shot state
    int64_t kind = i < 9 ? int64_t((i + seed) % 9) : int64_t(sm64(s) % 9);
    int64_t a = int64_t(sm64(s) % 1001);
    if (i % 4 == 3) a &= ~int64_t(7);                              // nothing armed
    else if ((a & 7) == 0) a |= int64_t(1 + sm64(s) % 7);
    c.ops.push_back(vh::Op{100 + kind + 9 * int64_t(sm64(s) % 4), a, int64_t(sm64(s) % 256), int64_t(sm64(s) % 16)});
  }
  return c;
}

static std::vector<vh::Case>* g_enum = nullptr;
static uint64_t g_enum_total = 0;
static std::map<std::string, uint64_t> g_enum_points;
static std::set<std::string> g_enum_sites;

static void build_window_enumeration(const vh::Opts& o, const std::function<void(const vh::Case&)>& enum_add);
static void build_add_enumeration(const vh::Opts& o, const std::function<void(const vh::Case&)>& enum_add);
static void build_enumeration(const vh::Opts& o) {
  g_enum = new std::vector<vh::Case>();
  // only this worker's share is stored (the cases stay live for the whole run and every LeakSanitizer check walks the live heap)
  const uint64_t nworkers = uint64_t(std::max(1, o.workers)), me = uint64_t(o.worker) % nworkers;
  auto enum_add = [&](const vh::Case& c) { if (g_enum_total++ % nworkers == me) g_enum->push_back(c); };
  size_t ninst0 = o.is_thorough() ? size_t(o.geti("instances", 10)) : size_t(o.geti("instances", 1));
  for (int W = 1; W <= 5; W++) {
    if (!g_enable[W]) continue;
    int nvar = W == 4 ? 3 : W == 5 ? 1 : 2;
    for (int v = 0; v < nvar; v++) {
      size_t ninst = W == 4 ? std::max<size_t>(ninst0, 4) : ninst0;   // W4: allocator option sets (plain, dual mapping, fill+pools, immediate release)
      for (size_t inst = 0; inst < ninst; inst++) {
        size_t nsteps = W == 3 ? 22 + 6 * (inst % 4) : W == 4 ? 14 + 4 * (inst % 4) : 30 + 8 * (inst % 5);
        vh::Case base = fixed_instance(W, v, inst + 1, nsteps);
        if (W == 4) { static const int64_t opt[] = {0, 1, 1 | 2 | 4, 8 | 16}; base.cfg[2] = inst < 4 ? opt[inst] : base.cfg[2] % 32; }
        Decoded d = decode(base);
        RefInfo R;
        fi::S.tracking = false;
        std::map<uint64_t, std::pair<uint64_t, std::string>> sites[fi::kKinds];
        fi::S.sites = sites; fi::S.record_sites = true;
        run_reference(d, R);
        fi::S.record_sites = false; fi::S.sites = nullptr;
        if (R.res.err != Error::kOk) { fprintf(stderr, "C15: fixed instantiation W%d variant %d #%zu fails without faults (%s -> %u at step %d)\n", W, v, inst, R.res.call, unsigned(R.res.err), R.res.step); continue; }
        for (int kind = 0; kind < fi::kKinds; kind++) {
          g_enum_points[std::string(wname(W)) + "." + fi::kKindName[kind]] += R.n[kind];
          for (uint64_t k = 0; k <= R.n[kind]; k++) {
            if (R.n[kind] == 0) break;
            vh::Case c = base;
            c.ops.push_back(fault_op(kind, int64_t(k), 0));
            enum_add(c);
            // continue-after-error variant for the emitter / container workloads (every 3rd fault point)
            if ((W == 1 || W == 5) && k % 3 == 0 && k < R.n[kind]) { vh::Case c2 = c; c2.cfg[7] = 1; enum_add(c2); }
          }
          // "every request issued by one function fails" (persistent failure of one allocation site), from its first and from its middle request
          for (auto& kv : sites[kind]) {
            g_enum_sites.insert(std::string(fi::kKindName[kind]) + ":" + kv.second.second);
            for (int half = 0; half < 2; half++) {
              if (half && kv.second.first < 2) continue;
              vh::Case c = base;
              c.ops.push_back(vh::Op{90, kind, int64_t(half ? kv.second.first / 2 : 0), 1, 0, int64_t(kv.first)});
              enum_add(c);
            }
          }
          // "every request from k on fails" at a few positions
          for (uint64_t q = 0; q < 4 && R.n[kind] > 0; q++) {
            vh::Case c = base;
            c.ops.push_back(fault_op(kind, int64_t(R.n[kind] * q / 4), 1));
            enum_add(c);
          }
        }
      }
    }
  }
  // ---- histories: generation A -> soft reset / reinit -> larger generation B, all inside the fault window ----
  // EVERY heap position of the whole history, every arena position of the post-reset phase (the positions before it are those of an
  // ordinary instantiation), "every request after the soft reset fails", and persistent failure of each heap-requesting function.
  size_t nhist = o.is_thorough() ? std::max<size_t>(4, ninst0 / 2) : size_t(o.geti("histories", 2));
  static const int64_t kHistFlavour[] = {1 | 4, 1 | 2 | 4 | 16, 1 | 4 | 8 | 32, 1 | 2 | 48, 1 | 8 | 16, 1 | 2 | 4 | 8};
  for (int W = 1; W <= 5; W++) {
    if (!g_enable[W] || W == 4) continue;
    int nvar = W == 5 ? 1 : 2;
    for (int v = 0; v < nvar; v++) {
      for (size_t hi = 0; hi < nhist + (W == 5 ? nhist : 0); hi++) {
        vh::Case base;
        if (W == 5 && hi >= nhist) base = w5_history_instance(hi - nhist + 1);
        else {
          base = fixed_instance(W, v, 100 + hi + 1, W == 3 ? 10 + 4 * (hi % 3) : W == 5 ? 26 + 6 * (hi % 3) : 16 + 6 * (hi % 3));
          base.cfg.push_back(kHistFlavour[hi % NELEM(kHistFlavour)]);
          if (W == 3) base.cfg[2] = 6 + int64_t(hi * 5 % 12);           // 9..20 virtual registers in the last generation
          if (W == 5) base.cfg[2] = int64_t(hi & 1);                    // arena block size 1024 / 4096
        }
        Decoded d = decode(base);
        RefInfo R;
        fi::S.tracking = false;
        std::map<uint64_t, std::pair<uint64_t, std::string>> sites[fi::kKinds];
        fi::S.sites = sites; fi::S.record_sites = true;
        run_reference(d, R);
        fi::S.record_sites = false; fi::S.sites = nullptr;
        if (R.res.err != Error::kOk || !R.marked) { fprintf(stderr, "C15: history instantiation W%d variant %d #%zu %s (%s -> %u at step %d)\n", W, v, hi, R.marked ? "fails without faults" : "never reaches its soft reset", R.res.call, unsigned(R.res.err), R.res.step); continue; }
        for (int kind = 0; kind < 2; kind++) {
          if (R.n[kind] == 0) continue;
          uint64_t first = kind == fi::kHeap ? 0 : R.mark[kind];
          g_enum_points[std::string(wname(W)) + ".hist." + fi::kKindName[kind]] += R.n[kind] - first;
          g_enum_points[std::string(wname(W)) + ".hist." + fi::kKindName[kind] + "_after_soft_reset"] += R.n[kind] - R.mark[kind];
          for (uint64_t k = first; k <= R.n[kind]; k++) {
            vh::Case c = base;
            c.ops.push_back(fault_op(kind, int64_t(k), 0));
            enum_add(c);
            if ((W == 1 || W == 5) && kind == fi::kHeap && k % 2 == 0 && k < R.n[kind]) { vh::Case c2 = c; c2.cfg[7] = 1; enum_add(c2); }
          }
          // every request from the soft reset on fails / from the middle of the post-reset phase on
          for (int half = 0; half < 2; half++) {
            vh::Case c = base;
            c.ops.push_back(fault_op(kind, int64_t(R.mark[kind] + (half ? (R.n[kind] - R.mark[kind]) / 2 : 0)), 1));
            enum_add(c);
          }
          if (kind == fi::kHeap) for (auto& kv : sites[kind]) {
            g_enum_sites.insert(std::string(fi::kKindName[kind]) + ":" + kv.second.second);
            for (int half = 0; half < 2; half++) {
              if (half && kv.second.first < 2) continue;
              vh::Case c = base;
              c.ops.push_back(vh::Op{90, kind, int64_t(half ? kv.second.first / 2 : 0), 1, 0, int64_t(kv.first)});
              enum_add(c);
            }
          }
        }
      }
    }
  }
  build_window_enumeration(o, enum_add);
  build_add_enumeration(o, enum_add);
}

// ---- W4 variant 3: JitRuntime::add() of multi-feature programs on runtimes of every allocator option set. The fault window is the
// add() calls: EVERY heap and EVERY virtual-memory request made inside add() fails once, plus persistent failure of each requesting
// function, 'every request from k on', periodic plans, and every PAIR of heap positions / heap x vm positions (two add() calls of one
// runtime fail) ----
static void build_add_enumeration(const vh::Opts& o, const std::function<void(const vh::Case&)>& enum_add) {
  if (!g_enable[4]) return;
  // 1 dual mapping  2 multiple pools  4 fill unused memory  8 immediate release  16 no initial padding
  static const int64_t kOpt[] = {0, 1, 2, 4, 8, 1 | 2 | 4, 1 | 8, 16, 1 | 2 | 4 | 8 | 16, 2 | 8};
  size_t nprog = size_t(o.geti("addprogs", o.is_thorough() ? 6 : 2));
  for (size_t oi = 0; oi < NELEM(kOpt); oi++) {
    for (size_t pi = 0; pi < nprog; pi++) {
      vh::Case base;
      Decoded d;
      RefInfo R;
      std::map<uint64_t, std::pair<uint64_t, std::string>> sites[fi::kKinds];
      bool ok = false;
      // an instantiation must contain what the class needs: a function with an address table and an add() that creates a block
      for (uint64_t attempt = 0; attempt < 8 && !ok; attempt++) {
        base = fixed_instance(4, 3, 300 + oi * 64 + pi * 8 + attempt, 24 + 8 * (pi % 3));
        base.cfg[2] = kOpt[oi];
        base.cfg[5] = (base.cfg[5] & ~int64_t(2)) | int64_t((pi & 1) << 1);     // repeated add(): same holder / rebuilt holder
        d = decode(base);
        vh::write_current(base.to_text());          // the reference run CALLS the installed functions: a crash here is replayable
        fi::S.tracking = false;
        for (auto& m : sites) m.clear();
        fi::S.sites = sites; fi::S.record_sites = true;
        run_reference(d, R);
        fi::S.record_sites = false; fi::S.sites = nullptr;
        ok = R.res.err == Error::kOk && R.res.sem.empty() && R.res.counts.count("add.address_table") && R.n[fi::kHeap] >= 2 && R.n[fi::kVm] >= 1;
      }
      if (!ok && !R.res.sem.empty()) enum_add(base);      // vh_run reports the failed fault-free check
      if (!ok) { fprintf(stderr, "C15: add instantiation (options %lld, program %zu) unusable: %s -> %u at step %d %s\n", (long long)kOpt[oi], pi, R.res.call, unsigned(R.res.err), R.res.step, R.res.sem.c_str()); continue; }
      g_enum_points["w4.add.instantiations"]++;
      for (int kind = fi::kHeap; kind <= fi::kVm; kind++) {
        const uint64_t n = R.n[kind];
        g_enum_points[std::string("w4.add.") + fi::kKindName[kind]] += n;
        for (uint64_t k = 0; k <= n; k++) { vh::Case c = base; c.ops.push_back(fault_op(kind, int64_t(k), 0)); enum_add(c); }
        for (auto& kv : sites[kind]) {
          g_enum_sites.insert(std::string(fi::kKindName[kind]) + ":" + kv.second.second);
          for (int half = 0; half < 2; half++) {
            if (half && kv.second.first < 2) continue;
            vh::Case c = base;
            c.ops.push_back(vh::Op{90, kind, int64_t(half ? kv.second.first / 2 : 0), 1, 0, int64_t(kv.first)});
            enum_add(c);
          }
        }
        for (uint64_t q = 0; q < 4 && n > 0; q++) { vh::Case c = base; c.ops.push_back(fault_op(kind, int64_t(n * q / 4), 1)); enum_add(c); }
        for (int64_t p = 2; p <= 3; p++) for (int64_t i = 0; i < p; i++) { vh::Case c = base; c.ops.push_back(vh::Op{90, kind, i, 0, 0, 0, p, 0}); enum_add(c); }
      }
      // two failures in one run: every pair of heap positions, every heap position with every 2nd vm position
      const uint64_t nh = std::min<uint64_t>(R.n[fi::kHeap], 24), nv = std::min<uint64_t>(R.n[fi::kVm], 48);
      for (uint64_t i = 0; i < nh; i++) for (uint64_t j = i + 1; j < nh; j++) {
        vh::Case c = base; c.ops.push_back(fault_op(fi::kHeap, int64_t(i), 0)); c.ops.push_back(fault_op(fi::kHeap, int64_t(j), 0)); enum_add(c);
        g_enum_points["w4.add.heap_pairs"]++;
      }
      for (uint64_t i = 0; i < nh; i++) for (uint64_t j = (i & 1); j < nv; j += 2) {
        vh::Case c = base; c.ops.push_back(fault_op(fi::kHeap, int64_t(i), 0)); c.ops.push_back(fault_op(fi::kVm, int64_t(j), 0)); enum_add(c);
        g_enum_points["w4.add.heap_vm_pairs"]++;
      }
    }
  }
}

// ---- continue windows (W1-W3): EVERY arena / heap position inside the window fails once, and periodic plans (requests lo+i,
// lo+i+p, lo+i+2p, ... of the window fail, p = 2, 3, 4, 5, 7, every i < p): many failed calls per run, each followed by calls that succeed ----
static void build_window_enumeration(const vh::Opts& o, const std::function<void(const vh::Case&)>& enum_add) {
  size_t nwin = o.is_thorough() ? size_t(o.geti("windows", 12)) : size_t(o.geti("windows", 4));
  for (int W = 1; W <= 3; W++) {
    if (!g_enable[W]) continue;
    for (int v = 0; v < 2; v++) {
      size_t ninst = (W == 1 || v == 1) ? std::max<size_t>(1, nwin - 1) : nwin;
      for (size_t inst = 0; inst < ninst; inst++) {
        vh::Case base = window_instance(W, v, inst + 1, 36 + 6 * (inst % 3));
        Decoded d = decode(base);
        RefInfo R;
        fi::S.tracking = false;
        run_reference(d, R);
        if (R.res.err != Error::kOk || !R.window) { fprintf(stderr, "C15: continue-window instantiation W%d variant %d #%zu %s (%s -> %u at step %d)\n", W, v, inst, R.window ? "fails without faults" : "has no window", R.res.call, unsigned(R.res.err), R.res.step); continue; }
        for (int kind = 0; kind < 2; kind++) {
          uint64_t lo = R.win_lo[kind], hi = R.win_hi[kind];
          if (hi <= lo) continue;
          g_enum_points[std::string(wname(W)) + ".window." + fi::kKindName[kind]] += hi - lo;
          for (uint64_t k = lo; k < hi; k++) { vh::Case c = base; c.ops.push_back(fault_op(kind, int64_t(k), 0)); enum_add(c); }
          static const int64_t periods[] = {2, 3, 4, 5, 7};
          if (kind == fi::kArena) for (int64_t p : periods) for (int64_t i = 0; i < p; i++) { vh::Case c = base; c.ops.push_back(vh::Op{90, kind, int64_t(lo) + i, 0, 0, 0, p, int64_t(hi)}); enum_add(c); }
          else { vh::Case c = base; c.ops.push_back(vh::Op{90, kind, int64_t(lo), 0, 0, 0, 1, int64_t(hi)}); enum_add(c); }     // every heap request of the window fails
        }
      }
    }
  }
}

bool vh_enum(const vh::Opts& o, uint64_t k, vh::Case& out) {
  if (o.geti("noenum", 0)) return false;
  if (!g_enum) build_enumeration(o);
  if (k >= g_enum->size()) return false;
  out = (*g_enum)[k];
  return true;
}

// Learns the return addresses that identify the shared sub-constant allocation inside ConstPool::add.
static void calibrate_call_sites(vh::Ctx& ctx) {
  std::vector<fi::Site> calib;
  fi::g_calib = &calib;
  {
    Arena a(4096);
    ConstPool p(a);
    uint64_t c = 0x1122334455667788ull;
    size_t off = 0;
    fi::g_calibrating = true;
    (void)p.add(&c, 8, Out(off));     // requests: main node, shared low half, shared high half
    fi::g_calibrating = false;
  }
  fi::g_calib = nullptr;
  if (getenv("C15_DEBUG")) for (auto& x : calib) fprintf(stderr, "calib %p %p %p %p\n", x.r[0], x.r[1], x.r[2], x.r[3]);
  if (calib.size() == 3 && calib[1].same(calib[2], 3)) {
    for (int lv = 0; lv < 4; lv++) if (!calib[0].same(calib[1], lv)) { fi::g_constpool_level = lv; fi::g_constpool_shared = calib[1]; break; }
  }
  if (fi::g_constpool_level < 0) ctx.notes.push_back("call-site calibration for ConstPool::add failed: the known crash class cannot be excluded by construction");
}

void vh_init(const vh::Opts& o, vh::Ctx& ctx) {
  setvbuf(stdout, nullptr, _IONBF, 0);   // LeakSanitizer's exit path does not flush stdio
  { void* tmp[4]; (void)backtrace(tmp, 4); }   // loads the unwinder outside of any fault window
  { Arena probe(1024); g_zero_block = probe._first_block; }    // the shared zero block every empty Arena points to
  calibrate_call_sites(ctx);
  fi::g_exclude_constpool_shared = ctx.is_known(kKeyConstPoolShared);
  g_excl_delta = ctx.is_known(kKeyDeltaReloc);
  fi::S.live = new std::unordered_map<void*, fi::Blk>();
  fi::S.maps = new std::unordered_map<void*, size_t>();
  fi::S.fds = new std::set<int>();
  long only = o.geti("only", 0);
  if (only) for (int w = 1; w <= 5; w++) g_enable[w] = (only == w);
  g_lsan_every = uint64_t(o.geti("lsan", 1));
  g_arena_check = o.geti("arenacheck", 1) != 0;
  g_state_check = o.geti("statecheck", 1) != 0;
  fi::g_trace_fail = o.geti("trace", 0) != 0;
#ifdef C15_HAVE_W4
  warm_up_process_caches();
#endif
}

void vh_fini(const vh::Opts& o, vh::Ctx& ctx) {
  if (g_enum && !o.geti("noenum", 0)) {
    ctx.exhaustive = true;
    if (o.worker == 0) {
      std::string s = "fault points enumerated (requests of the fixed instantiations, every k from 0 to the count):";
      for (auto& kv : g_enum_points) s += " " + kv.first + "=" + std::to_string(kv.second);
      s += "; distinct requesting functions (site-targeted persistent-failure plans): " + std::to_string(g_enum_sites.size());
      s += "; enumerated plans in total: " + std::to_string(g_enum_total);
      ctx.notes.push_back(s);
    }
  }
}
