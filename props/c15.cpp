// C15 — Allocation failure yields an error — never a crash, leak or wrong code.
//
// One Case = (workload, instantiation, fault plan).
//   cfg = [W, variant, p0, p1, p2, p3, reset_hard, mode]
//     W        1 assemble  2 build+serialize  3 compile  4 JIT runtime / allocator / virtmem  5 containers
//     variant  W1-3: 0 x86-64, 1 AArch64      W4: 0 JitRuntime::add/release, 1 JitAllocator ops, 2 VirtMem ops
//     mode     bit0: continue after the first error (W1/W2/W5 only; every later error is tolerated, no crash allowed)
//   ops: [code<50, a, b, c]   program step of the workload (decoded robustly)
//        [90, kind, k, from]  fault entry: kind 0 arena (H1 hook) 1 heap (malloc/realloc/calloc) 2 virtual memory
//                             (mmap/mprotect/ftruncate/shm_open/memfd_create); fail request #k (from!=0: every request >= k)
// Oracle: see vh_run.
#define VH_MAIN
#include "vh.h"

#include <asmjit/core.h>
#include <asmjit/x86.h>
#include <asmjit/a64.h>
#include <asmjit/support/arenabitset_p.h>
#include <asmjit/support/arenahash.h>
#include <asmjit/support/arenastring.h>
#include <asmjit/support/arenavector.h>

#include <errno.h>
#include <sys/mman.h>
#include <sys/syscall.h>

#include <memory>
#include <unordered_map>

using namespace asmjit;

const char* vh_property() { return "C15"; }

extern "C" int __lsan_do_recoverable_leak_check();
extern "C" void __lsan_ignore_object(const void* p);

// =============================================================================================
// fault engine
// =============================================================================================
namespace fi {
enum Kind : int { kArena = 0, kHeap = 1, kVm = 2, kKinds = 3 };
static const char* const kKindName[] = {"arena", "heap", "vm"};
struct Entry { int kind; uint64_t k; bool from; };
struct Blk { size_t size; uint64_t seq; int phase; };
struct State {
  bool armed = false;      // requests are counted and failed according to the plan
  bool tracking = false;   // live heap blocks / mappings / memfd descriptors are recorded
  int phase = 0;           // 0 reference 1 faulty 2 rerun
  uint64_t count[kKinds] = {0, 0, 0};
  uint64_t hits[kKinds] = {0, 0, 0};
  Entry plan[8];
  int nplan = 0;
  uint64_t heap_seq = 0;
  uint64_t munmap_unknown = 0;
  uint64_t suppressed = 0;   // faults not injected because their call site is a listed known crash
  const char* last_fail = "";
  std::unordered_map<void*, Blk>* live = nullptr;
  std::unordered_map<void*, size_t>* maps = nullptr;
  std::set<int>* fds = nullptr;
};
static State S;

// `excluded_site`: the request comes from a call site whose failure is a listed known crash; the fault is suppressed and counted.
static inline bool should_fail(int kind, const char* what, bool excluded_site = false) {
  if (!S.armed) return false;
  uint64_t idx = S.count[kind]++;
  for (int i = 0; i < S.nplan; i++) {
    const Entry& e = S.plan[i];
    if (e.kind == kind && (e.from ? idx >= e.k : idx == e.k)) {
      if (excluded_site) { S.suppressed++; return false; }
      S.hits[kind]++; S.last_fail = what; return true;
    }
  }
  return false;
}
static void arm(const std::vector<Entry>& plan) {
  S.nplan = 0;
  for (const Entry& e : plan) if (S.nplan < 8) S.plan[S.nplan++] = e;
  for (int k = 0; k < kKinds; k++) { S.count[k] = 0; S.hits[k] = 0; }
  S.last_fail = "";
  S.suppressed = 0;
  S.armed = true;
}
static void disarm() { S.armed = false; }
static uint64_t total_hits() { return S.hits[0] + S.hits[1] + S.hits[2]; }
} // namespace fi

// Call-site identification for the arena hook (return addresses learned by calibration in vh_init).
namespace fi {
struct Site { void* r[4]; bool same(const Site& o, int upto) const { for (int i = 0; i <= upto; i++) if (r[i] != o.r[i]) return false; return true; } };
static bool g_calibrating = false;
static std::vector<Site>* g_calib = nullptr;
static Site g_constpool_shared = {{nullptr, nullptr, nullptr, nullptr}};   // ConstPool::add, shared sub-constant node allocation
static int g_constpool_level = -1;                     // which return-address level distinguishes it (-1: unknown)
static bool g_exclude_constpool_shared = false;
}
extern "C" __attribute__((noinline)) int asmjit_verif_fail_alloc(size_t) noexcept {
  bool excl = false;
  if (fi::g_calibrating || (fi::g_exclude_constpool_shared && fi::g_constpool_level >= 0 && fi::S.armed)) {
    fi::Site s = {{__builtin_return_address(0), __builtin_return_address(1), __builtin_return_address(2), __builtin_return_address(3)}};
    if (fi::g_calibrating && fi::g_calib) fi::g_calib->push_back(s);
    else excl = s.same(fi::g_constpool_shared, fi::g_constpool_level);
  }
  return fi::should_fail(fi::kArena, "arena", excl) ? 1 : 0;
}

extern "C" {
void* __real_malloc(size_t);
void* __real_realloc(void*, size_t);
void* __real_calloc(size_t, size_t);
void __real_free(void*);
void* __real_mmap(void*, size_t, int, int, int, off_t);
int __real_munmap(void*, size_t);
int __real_mprotect(void*, size_t, int);
int __real_ftruncate(int, off_t);
int __real_ftruncate64(int, off_t);
int __real_shm_open(const char*, int, mode_t);
long __real_syscall(long, long, long, long, long, long, long);
int __real_close(int);

static void track_add(void* p, size_t n) { if (fi::S.live) (*fi::S.live)[p] = fi::Blk{n, fi::S.heap_seq, fi::S.phase}; }
static void track_del(void* p) { if (fi::S.live) fi::S.live->erase(p); }

void* __wrap_malloc(size_t n) {
  if (fi::should_fail(fi::kHeap, "malloc")) { errno = ENOMEM; return nullptr; }
  void* p = __real_malloc(n);
  if (fi::S.tracking && p) { fi::S.heap_seq++; track_add(p, n); }
  return p;
}
void* __wrap_calloc(size_t a, size_t b) {
  if (fi::should_fail(fi::kHeap, "calloc")) { errno = ENOMEM; return nullptr; }
  void* p = __real_calloc(a, b);
  if (fi::S.tracking && p) { fi::S.heap_seq++; track_add(p, a * b); }
  return p;
}
void* __wrap_realloc(void* old, size_t n) {
  if (fi::should_fail(fi::kHeap, "realloc")) { errno = ENOMEM; return nullptr; }
  void* p = __real_realloc(old, n);
  if (fi::S.tracking && p) { fi::S.heap_seq++; if (old) track_del(old); track_add(p, n); }
  return p;
}
void __wrap_free(void* p) {
  if (p && fi::S.tracking) track_del(p);
  __real_free(p);
}
void* __wrap_mmap(void* a, size_t len, int prot, int flags, int fd, off_t off) {
  if (fi::should_fail(fi::kVm, "mmap")) { errno = ENOMEM; return MAP_FAILED; }
  void* p = __real_mmap(a, len, prot, flags, fd, off);
  if (fi::S.tracking && p != MAP_FAILED && fi::S.maps) (*fi::S.maps)[p] = len;
  return p;
}
int __wrap_munmap(void* a, size_t len) {
  int r = __real_munmap(a, len);
  if (fi::S.tracking && r == 0 && fi::S.maps) {
    auto it = fi::S.maps->find(a);
    if (it != fi::S.maps->end() && it->second == len) fi::S.maps->erase(it); else fi::S.munmap_unknown++;
  }
  return r;
}
int __wrap_mprotect(void* a, size_t len, int prot) {
  if (fi::should_fail(fi::kVm, "mprotect")) { errno = ENOMEM; return -1; }
  return __real_mprotect(a, len, prot);
}
int __wrap_ftruncate(int fd, off_t n) {
  if (fi::should_fail(fi::kVm, "ftruncate")) { errno = ENOSPC; return -1; }
  return __real_ftruncate(fd, n);
}
int __wrap_ftruncate64(int fd, off_t n) {
  if (fi::should_fail(fi::kVm, "ftruncate")) { errno = ENOSPC; return -1; }
  return __real_ftruncate64(fd, n);
}
int __wrap_shm_open(const char* name, int fl, mode_t m) {
  if (fi::should_fail(fi::kVm, "shm_open")) { errno = ENOMEM; return -1; }
  int fd = __real_shm_open(name, fl, m);
  if (fi::S.tracking && fd >= 0 && fi::S.fds) fi::S.fds->insert(fd);
  return fd;
}
long __wrap_syscall(long n, long a, long b, long c, long d, long e, long f) {
#if defined(__NR_memfd_create)
  if (n == __NR_memfd_create) {
    if (fi::should_fail(fi::kVm, "memfd_create")) { errno = ENOMEM; return -1; }   // not ENOSYS: that would disable memfd for the process
    long fd = __real_syscall(n, a, b, c, d, e, f);
    if (fi::S.tracking && fd >= 0 && fi::S.fds) fi::S.fds->insert(int(fd));
    return fd;
  }
#endif
  return __real_syscall(n, a, b, c, d, e, f);
}
int __wrap_close(int fd) {
  if (fi::S.tracking && fi::S.fds) fi::S.fds->erase(fd);
  return __real_close(fd);
}
} // extern "C"

// =============================================================================================
// common helpers
// =============================================================================================
static size_t umod(int64_t v, size_t n) { return n ? size_t(uint64_t(v) % uint64_t(n)) : 0; }
static int64_t argof(const vh::Op& op, size_t i) { return i < op.size() ? op[i] : 0; }
#define NELEM(a) (sizeof(a) / sizeof((a)[0]))

struct Res {
  Error err = Error::kOk;
  const char* call = "";      // API call that returned the first error
  int step = -1;              // program step of the first error
  unsigned later_errors = 0;  // continue mode: errors after the first one
  std::string bytes;          // output compared between the reference and a faulted-but-successful run
  std::string full;           // superset compared between the reference and the re-run (layouts that may legitimately vary under faults)
  std::string sem;            // non-empty: the workload itself observed wrong content (semantic check), with description
};

// Records the first error; returns true when the workload has to stop.
struct Tracker {
  Res& r;
  bool cont;
  int step = -1;
  Tracker(Res& r_, bool cont_) : r(r_), cont(cont_) {}
  bool bad(Error e, const char* call) {
    if (e == Error::kOk) return false;
    if (r.err == Error::kOk) { r.err = e; r.call = call; r.step = step; }
    else r.later_errors++;
    return !cont;
  }
  bool failed() const { return r.err != Error::kOk; }
};
#define TRY(T, expr, name) do { if ((T).bad((expr), name)) return; } while (0)

static void put_u64(std::string& s, uint64_t v) { s.append(reinterpret_cast<const char*>(&v), 8); }

class ErrH : public ErrorHandler {
public:
  unsigned n = 0;
  Error last = Error::kOk;
  void handle_error(Error err, const char*, BaseEmitter*) override { n++; last = err; }
};

class Workload {
public:
  virtual ~Workload() {}
  virtual void run(Res& r) = 0;        // performs the complete work on this object's AsmJit objects
  virtual void reset(bool hard) = 0;   // resets / re-initialises every AsmJit object (faults disarmed)
};

struct Decoded {
  int W = 5, variant = 0;
  int64_t p[4] = {0, 0, 0, 0};
  bool hard = false, cont = false;
  std::vector<vh::Op> steps;
  std::vector<fi::Entry> plan;
  std::string key;     // text of the instantiation (without the plan): reference cache key
};

static const char kKeyConstPoolShared[] = "constpool-shared-node-null-deref";

static const char* wname(int W) { static const char* n[] = {"w0", "w1", "w2", "w3", "w4", "w5"}; return n[W >= 1 && W <= 5 ? W : 0]; }

// =============================================================================================
// W5 — containers, strings and constant pool sharing one Arena
// =============================================================================================
namespace {
struct Rec24 { uint32_t a, b, c, d, e, f; };
struct HNode : public ArenaHashNode {
  HNode(uint32_t h, uint32_t k, uint32_t v) : ArenaHashNode(h), key(k), val(v) {}
  uint32_t key, val;
};
struct HKey {
  uint32_t k;
  uint32_t hash_code() const { return k * 2654435761u; }
  bool matches(const HNode* n) const { return n->key == k; }
};

static const size_t kArenaBlk[] = {1024, 4096, 16384, 65536};

class W5 : public Workload {
public:
  const Decoded& d;
  Arena arena;
  ArenaVector<uint32_t> v32;
  ArenaVector<Rec24> v24;
  ArenaHash<HNode> hash;
  ArenaString<16> astr[2];
  String str;
  StringTmp<40> tstr;
  ConstPool pool;
  ArenaBitSet bits;

  explicit W5(const Decoded& d_) : d(d_), arena(kArenaBlk[umod(d_.p[0], NELEM(kArenaBlk))]), pool(arena) {}

  void reset(bool hard) override {
    v32.reset(); v24.reset(); hash.reset(); astr[0].reset(); astr[1].reset();
    (void)str.reset(); (void)tstr.reset(); pool.reset(); bits.reset();
    arena.reset(hard ? ResetPolicy::kHard : ResetPolicy::kSoft);
  }

  static void make_text(std::string& s, uint64_t seed, size_t n) {
    s.clear();
    for (size_t i = 0; i < n; i++) { seed = seed * 6364136223846793005ull + 1442695040888963407ull; s += char('a' + (seed >> 33) % 26); }
  }

  void run(Res& r) override {
    Tracker T(r, d.cont);
    struct PoolRec { size_t off, size; std::string data; };
    std::vector<PoolRec> precs;
    std::vector<uint32_t> hkeys;
    std::string text;
    // The first arena request creates the first managed block (a dynamic block without any managed block would never be
    // released by ~Arena: recorded under C18 as arena-hard-reset-leaks-dynamic, avoided here by construction).
    { void* p0 = arena.alloc_oneshot(8); TRY(T, p0 ? Error::kOk : Error::kOutOfMemory, "Arena::alloc_oneshot"); }
    int sidx = 0;
    for (const vh::Op& op : d.steps) {
      T.step = sidx++;
      int64_t a = argof(op, 1), b = argof(op, 2), c = argof(op, 3);
      switch (umod(argof(op, 0), 12)) {
        case 0: { size_t n = 1 + umod(b, 40); for (size_t i = 0; i < n; i++) TRY(T, v32.append(arena, uint32_t(a + int64_t(i))), "ArenaVector::append"); break; }
        case 1: { size_t n = 1 + umod(b, 12); for (size_t i = 0; i < n; i++) { uint32_t x = uint32_t(a) + uint32_t(i); TRY(T, v24.append(arena, Rec24{x, x + 1, x + 2, x + 3, x + 4, x + 5}), "ArenaVector<24>::append"); } break; }
        case 2: {
          static const size_t ns[] = {1, 7, 33, 130, 700, 3000};
          size_t n = ns[umod(b, NELEM(ns))];
          switch (umod(c, 4)) {
            case 0: TRY(T, v32.reserve_grow(arena, v32.size() + n), "ArenaVector::reserve_grow"); break;
            case 1: TRY(T, v32.reserve_fit(arena, v32.size() + n), "ArenaVector::reserve_fit"); break;
            case 2: TRY(T, v32.resize_grow(arena, std::min<size_t>(v32.size() + n, 6000)), "ArenaVector::resize_grow"); break;
            default: TRY(T, v24.reserve_additional(arena, n % 200 + 1), "ArenaVector<24>::reserve_additional"); break;
          }
          break;
        }
        case 3: {
          if (c & 1) TRY(T, v32.prepend(arena, uint32_t(a)), "ArenaVector::prepend");
          else TRY(T, v32.insert(arena, umod(b, v32.size() + 1), uint32_t(a)), "ArenaVector::insert");
          break;
        }
        case 4: {
          size_t n = 1 + umod(b, 24);
          for (size_t i = 0; i < n; i++) {
            uint32_t k = uint32_t(a) * 31u + uint32_t(i);
            if (hash.get(HKey{k})) continue;
            HNode* node = arena.new_oneshot<HNode>(HKey{k}.hash_code(), k, k ^ 0x5A5Au);
            if (T.bad(node ? Error::kOk : Error::kOutOfMemory, "Arena::new_oneshot")) return;
            if (!node) continue;
            hash.insert(arena, node);
            hkeys.push_back(k);
          }
          break;
        }
        case 5: { make_text(text, uint64_t(a), umod(b, 48)); TRY(T, astr[c & 1].set_data(arena, text.data(), text.size()), "ArenaString::set_data"); break; }
        case 6: {
          static const size_t ls[] = {0, 1, 5, 30, 100, 127, 128, 129, 400, 2000};
          size_t n = ls[umod(b, NELEM(ls))];
          make_text(text, uint64_t(a) + 7, n);
          switch (umod(c, 5)) {
            case 0: TRY(T, str.append(text.data(), text.size()), "String::append"); break;
            case 1: TRY(T, str.append_format("%s:%d;", text.c_str(), int(a)), "String::append_format"); break;
            case 2: TRY(T, str.append_chars(char('A' + umod(a, 26)), n), "String::append_chars"); break;
            case 3: TRY(T, str.assign(text.data(), text.size()), "String::assign"); break;
            default: TRY(T, str.append_uint(uint64_t(a) * 1000003u, 10, n % 30), "String::append_uint"); break;
          }
          break;
        }
        case 7: {
          size_t size = size_t(1) << umod(b, 7);
          uint8_t data[64];
          uint32_t alpha = 1 + uint32_t(umod(c, 3));
          uint64_t x = uint64_t(a);
          for (size_t i = 0; i < 64; i += 4) { x = x * 6364136223846793005ull + 1442695040888963407ull; uint32_t w = uint32_t((x >> 40) % (alpha * 2)) * 0x01010101u; memcpy(data + i, &w, 4); }
          if (size < 4) data[0] = uint8_t(a);
          size_t off = size_t(0) - 1;
          TRY(T, pool.add(data, size, Out(off)), "ConstPool::add");
          if (off != size_t(0) - 1) precs.push_back(PoolRec{off, size, std::string(reinterpret_cast<char*>(data), size)});
          break;
        }
        case 8: {
          static const size_t ns[] = {0, 1, 63, 64, 65, 200, 1000, 5000, 40000};
          if (c & 4) { size_t n = 1 + umod(b, 70); for (size_t i = 0; i < n; i++) TRY(T, bits.append(arena, ((a >> (i & 31)) & 1) != 0), "ArenaBitSet::append"); }
          else TRY(T, bits.resize(arena, ns[umod(b, NELEM(ns))], (c & 1) != 0), "ArenaBitSet::resize");
          break;
        }
        case 9: {
          switch (umod(c, 4)) {
            case 0: { make_text(text, uint64_t(a) + 3, 1 + umod(b, 300)); void* p = arena.dup(text.data(), text.size(), true); TRY(T, p ? Error::kOk : Error::kOutOfMemory, "Arena::dup"); if (p) r.bytes.append(static_cast<char*>(p), text.size()); break; }
            case 1: { char* p = arena.sformat("%d-%u", int(a), unsigned(b)); TRY(T, p ? Error::kOk : Error::kOutOfMemory, "Arena::sformat"); if (p) r.bytes += p; break; }
            default: {
              static const size_t zs[] = {16, 100, 512, 2048, 2049, 5000, 70000};
              size_t n = zs[umod(b, NELEM(zs))];
              size_t got = 0;
              void* p = arena.alloc_reusable(n, Out(got));
              TRY(T, p ? Error::kOk : Error::kOutOfMemory, "Arena::alloc_reusable");
              if (p) { memset(p, 0x5C, n); if (got < n) { r.sem = "alloc_reusable returned allocated_size < size"; } arena.free_reusable(p, got); }
              break;
            }
          }
          break;
        }
        case 10: { size_t n = 1 + umod(b, 60); TRY(T, v24.resize_grow(arena, std::min<size_t>(v24.size() + n, 900)), "ArenaVector<24>::resize_grow"); break; }
        default: { TRY(T, tstr.append_format("%08X|", unsigned(a)), "StringTmp::append_format"); break; }
      }
    }
    T.step = sidx;
    // ---- serialise the final state ----
    std::string& o = r.bytes;
    put_u64(o, v32.size()); for (uint32_t x : v32) o.append(reinterpret_cast<const char*>(&x), 4);
    put_u64(o, v24.size()); for (const Rec24& x : v24) o.append(reinterpret_cast<const char*>(&x), sizeof x);
    put_u64(o, hash.size());
    for (uint32_t k : hkeys) { HNode* n = hash.get(HKey{k}); if (!n || n->val != (k ^ 0x5A5Au)) r.sem = "ArenaHash lost a node that insert() accepted"; }
    if (hash.size() != hkeys.size()) r.sem = "ArenaHash::size() differs from the number of inserted nodes";
    for (int i = 0; i < 2; i++) { put_u64(o, astr[i].size()); o.append(astr[i].data(), astr[i].size()); }
    put_u64(o, str.size()); o.append(str.data(), str.size());
    put_u64(o, tstr.size()); o.append(tstr.data(), tstr.size());
    put_u64(o, bits.size()); for (size_t i = 0; i < bits.size(); i++) o += char('0' + (bits.bit_at(i) ? 1 : 0));
    // constant pool: semantic check always; exact layout only in `full` (a failed gap record legitimately changes the layout)
    {
      size_t n = pool.size();
      std::vector<uint8_t> img(n + 1, 0xEE);
      pool.fill(img.data());
      if (img[n] != 0xEE) r.sem = "ConstPool::fill wrote past size()";
      for (const PoolRec& pr : precs) {
        if (pr.off % pr.size != 0 || pr.off + pr.size > n || memcmp(img.data() + pr.off, pr.data.data(), pr.size) != 0) {
          char m[160]; snprintf(m, sizeof m, "ConstPool: constant of %zu bytes reported at offset %zu is misaligned, out of range (size %zu) or has wrong content", pr.size, pr.off, n);
          r.sem = m;
        }
      }
      put_u64(o, precs.size());
      r.full = o;
      put_u64(r.full, n); put_u64(r.full, pool.alignment());
      r.full.append(reinterpret_cast<char*>(img.data()), n);
      for (const PoolRec& pr : precs) put_u64(r.full, pr.off);
    }
  }
};
} // namespace

// =============================================================================================
// W1 / W2 — Assembler (W1) or Builder + finalize (W2): labels, sections, relocations, address table, flatten, relocate, copy
// =============================================================================================
#define C15_HAVE_W1
namespace {
static const uint64_t kW1Bases[] = {0x10000ull, 0x400000ull, 0x7FFF0000ull, 0x100000000ull, 0x7F0000000000ull};
static const size_t kEmbedLens[] = {1, 3, 8, 17, 64, 300, 9000};

class W1 : public Workload {
public:
  const Decoded& d;
  bool builder;
  int arch;
  CodeHolder code;
  x86::Assembler xa; a64::Assembler aa;
  x86::Builder xb; a64::Builder ab;
  Arena pool_arena;
  ConstPool pool;
  StringLogger logger;
  ErrH eh;
  bool reinit_done = false;

  W1(const Decoded& d_, bool builder_) : d(d_), builder(builder_), arch(d_.variant & 1), pool_arena(1024), pool(pool_arena) {}

  BaseEmitter* emitter() {
    if (arch == 0) return builder ? static_cast<BaseEmitter*>(&xb) : static_cast<BaseEmitter*>(&xa);
    return builder ? static_cast<BaseEmitter*>(&ab) : static_cast<BaseEmitter*>(&aa);
  }

  void reset(bool hard) override {
    ResetPolicy rp = hard ? ResetPolicy::kHard : ResetPolicy::kSoft;
    reinit_done = false;
    BaseEmitter* e = emitter();
    if ((d.p[3] & 8) && code.is_initialized() && e->code() == &code) {
      reinit_done = code.reinit() == Error::kOk;
    }
    if (!reinit_done) code.reset(rp);
    pool.reset();
    pool_arena.reset(rp);
    logger.clear();
    eh = ErrH();
  }

  Error inst_plain(BaseEmitter* e, int64_t a, int64_t b) {
    if (arch == 0) {
      x86::Emitter* x = e->as<x86::Emitter>();
      switch (umod(a, 6)) {
        case 0: return x->nop();
        case 1: return x->add(x86::eax, x86::ecx);
        case 2: return x->mov(x86::rdx, imm(uint64_t(b) * 0x0101010101010101ull));
        case 3: return x->lea(x86::rax, x86::ptr(x86::rbx, x86::rcx, 2, int32_t(b)));
        case 4: return x->movups(x86::xmm0, x86::ptr(x86::rsi, int32_t(b) * 4));
        default: return x->vaddps(x86::ymm1, x86::ymm2, x86::ymm3);
      }
    } else {
      a64::Emitter* x = e->as<a64::Emitter>();
      switch (umod(a, 6)) {
        case 0: return x->nop();
        case 1: return x->add(a64::x0, a64::x1, a64::x2);
        case 2: return x->mov(a64::w3, imm(uint32_t(b) & 0xFFFF));
        case 3: return x->ldr(a64::x4, a64::ptr(a64::x5, int32_t(b & 31) * 8));
        case 4: return x->fadd(a64::d0, a64::d1, a64::d2);
        default: return x->add(a64::v0.b16(), a64::v1.b16(), a64::v2.b16());
      }
    }
  }
  Error inst_jump(BaseEmitter* e, int64_t a, const Label& L) {
    if (arch == 0) {
      x86::Emitter* x = e->as<x86::Emitter>();
      switch (umod(a, 4)) { case 0: return x->jmp(L); case 1: return x->jz(L); case 2: return x->jne(L); default: return x->call(L); }
    } else {
      a64::Emitter* x = e->as<a64::Emitter>();
      switch (umod(a, 4)) { case 0: return x->b(L); case 1: return x->b_eq(L); case 2: return x->cbz(a64::x1, L); default: return x->bl(L); }
    }
  }
  Error inst_addr_of(BaseEmitter* e, int64_t a, const Label& L) {
    if (arch == 0) {
      x86::Emitter* x = e->as<x86::Emitter>();
      return (a & 1) ? x->mov(x86::eax, x86::dword_ptr(L, 4)) : x->lea(x86::rax, x86::ptr(L));
    } else {
      a64::Emitter* x = e->as<a64::Emitter>();
      return (a & 1) ? x->ldr(a64::x1, a64::ptr(L)) : x->adr(a64::x0, L);
    }
  }

  void run(Res& r) override {
    Tracker T(r, d.cont);
    BaseEmitter* e = emitter();
    uint64_t base = kW1Bases[umod(d.p[2], NELEM(kW1Bases))];
    if (!code.is_initialized()) {
      Environment env(arch == 0 ? Arch::kX64 : Arch::kAArch64);
      if (T.bad(code.init(env), "CodeHolder::init")) return;
      if (T.failed()) return;                       // nothing can be done with an uninitialised CodeHolder
      if (d.p[3] & 1) { logger.set_flags(FormatFlags::kMachineCode | FormatFlags::kHexImms); code.set_logger(&logger); }
      if (d.p[3] & 2) code.set_error_handler(&eh);
    }
    if (e->code() != &code) {
      if (T.bad(code.attach(e), "CodeHolder::attach")) return;
      if (e->code() != &code) return;               // not attached: every emitter call would just report kNotInitialized
    }
    // sections
    Section* secs[3] = {code.text_section(), nullptr, nullptr};
    size_t nsec = 1;
    size_t extra = umod(d.p[0], 3);
    for (size_t i = 0; i < extra; i++) {
      Section* s = nullptr;
      char name[16]; snprintf(name, sizeof name, ".sec%zu", i);
      Error err = code.new_section(Out(s), name, SIZE_MAX, i ? SectionFlags::kNone : SectionFlags::kReadOnly, uint32_t(1) << umod(d.p[0] / 3 + int64_t(i) * 2, 7), int32_t(i));
      if (T.bad(err, "CodeHolder::new_section")) return;
      if (s) secs[nsec++] = s;
    }
    // labels
    size_t nl = 2 + umod(d.p[1], 10);
    std::vector<Label> L(nl);
    std::vector<char> bound(nl, 0);
    for (size_t i = 0; i < nl; i++) {
      L[i] = e->new_label();
      if (T.bad(L[i].is_valid() ? Error::kOk : Error::kOutOfMemory, "new_label")) return;
    }
    size_t cur = 0;
    unsigned named = 0;
    int sidx = 0;
    for (const vh::Op& op : d.steps) {
      T.step = sidx++;
      int64_t a = argof(op, 1), b = argof(op, 2), c = argof(op, 3);
      switch (umod(argof(op, 0), 13)) {
        case 0: TRY(T, inst_plain(e, a, b), "emit(plain)"); break;
        case 1: TRY(T, inst_jump(e, c, L[umod(a, nl)]), "emit(jump to label)"); break;
        case 2: {
          for (size_t i = 0; i < nl; i++) { size_t j = (umod(a, nl) + i) % nl; if (!bound[j]) { if (L[j].is_valid()) { TRY(T, e->bind(L[j]), "bind"); } bound[j] = 1; break; } }
          break;
        }
        case 3: { cur = umod(a, nsec); TRY(T, e->section(secs[cur]), "section"); break; }
        case 4: {
          size_t len = kEmbedLens[umod(b, (c & 8) ? NELEM(kEmbedLens) : NELEM(kEmbedLens) - 1)];
          std::string data(len, 0);
          uint32_t x = uint32_t(a) * 2654435761u + 1;
          for (size_t i = 0; i < len; i++) { x = x * 1664525u + 1013904223u; data[i] = char(x >> 24); }
          TRY(T, e->embed(data.data(), len), "embed");
          break;
        }
        case 5: TRY(T, e->embed_label(L[umod(a, nl)], 8), "embed_label"); break;
        case 6: TRY(T, e->embed_label_delta(L[umod(a, nl)], L[umod(b, nl)], (c & 1) ? 4 : 8), "embed_label_delta"); break;
        case 7: {
          if (arch == 0) {
            uint64_t addr = (c & 2) ? 0x7F1234561000ull + uint64_t(umod(a, 4)) * 0x1000 : base + 0x2000 + uint64_t(umod(a, 4)) * 0x100;
            x86::Emitter* x = e->as<x86::Emitter>();
            TRY(T, (c & 1) ? x->jmp(imm(addr)) : x->call(imm(addr)), "emit(absolute call/jmp)");
          } else TRY(T, inst_addr_of(e, 1, L[umod(a, nl)]), "emit(ldr literal)");
          break;
        }
        case 8: TRY(T, e->align(AlignMode(umod(c, 3)), uint32_t(1) << umod(b, 6)), "align"); break;
        case 9: TRY(T, inst_addr_of(e, c, L[umod(a, nl)]), "emit(address of label)"); break;
        case 10: {
          pool.reset();
          uint8_t data[16];
          for (size_t i = 0; i < 16; i++) data[i] = uint8_t((uint64_t(a) * 0x9E3779B97F4A7C15ull) >> (i * 4));
          size_t off;
          TRY(T, pool.add(data, 16, Out(off)), "ConstPool::add");       // descending sizes: the layout never has gaps
          TRY(T, pool.add(data + 4, 8, Out(off)), "ConstPool::add");
          TRY(T, pool.add(data + 1, 4, Out(off)), "ConstPool::add");
          Label pl = e->new_label();
          if (T.bad(pl.is_valid() ? Error::kOk : Error::kOutOfMemory, "new_label")) return;
          if (pl.is_valid()) TRY(T, e->embed_const_pool(pl, pool), "embed_const_pool");
          break;
        }
        case 11: {
          char name[24]; snprintf(name, sizeof name, "named_%u", named++);
          Label nlb = e->new_named_label(name, SIZE_MAX, LabelType::kGlobal);
          if (T.bad(nlb.is_valid() ? Error::kOk : Error::kOutOfMemory, "new_named_label")) return;
          if (nlb.is_valid()) TRY(T, e->bind(nlb), "bind");
          break;
        }
        default: {
          uint32_t vals[4] = {uint32_t(a), uint32_t(b), uint32_t(c), 0xDEADBEEFu};
          TRY(T, e->embed_data_array(TypeId::kUInt32, vals, 4, 1 + umod(b, 3)), "embed_data_array");
          break;
        }
      }
    }
    T.step = sidx;
    for (size_t i = 0; i < nl; i++) {
      if (bound[i]) continue;
      if (nsec > 1) { cur = i % nsec; TRY(T, e->section(secs[cur]), "section"); }
      if (L[i].is_valid()) TRY(T, e->bind(L[i]), "bind");
    }
    if (builder) TRY(T, e->finalize(), "Builder::finalize");
    TRY(T, code.flatten(), "CodeHolder::flatten");
    TRY(T, code.resolve_cross_section_fixups(), "CodeHolder::resolve_cross_section_fixups");
    TRY(T, code.relocate_to_base(base), "CodeHolder::relocate_to_base");
    size_t cs = code.code_size();
    if (cs > (1u << 24)) return;
    std::vector<uint8_t> img(cs + 1, 0xA5);
    TRY(T, code.copy_flattened_data(img.data(), cs, CopySectionFlags::kPadSectionBuffer | CopySectionFlags::kPadTargetBuffer), "CodeHolder::copy_flattened_data");
    if (T.failed()) return;   // continue mode: the image of a failed build is not an output
    put_u64(r.bytes, cs);
    put_u64(r.bytes, code.unresolved_fixup_count());
    for (Section* s : code.sections()) { put_u64(r.bytes, s->offset()); put_u64(r.bytes, s->buffer_size()); }
    r.bytes.append(reinterpret_cast<char*>(img.data()), cs);
    r.full = r.bytes;
    r.full.append(logger.data(), logger.data_size());
  }
};
} // namespace

//@@WORKLOADS-END@@
// =============================================================================================
// decode / factory
// =============================================================================================
static bool g_enable[6] = {false, true, true, true, true, true};

static Decoded decode(const vh::Case& c) {
  Decoded d;
  auto cfg = [&](size_t i) -> int64_t { return i < c.cfg.size() ? c.cfg[i] : 0; };
  d.W = 1 + int(umod(cfg(0) - 1, 5));
  d.variant = int(umod(cfg(1), d.W == 4 ? 3 : 2));
  for (int i = 0; i < 4; i++) d.p[i] = cfg(2 + size_t(i));
  d.hard = (cfg(6) & 1) != 0;
  d.cont = (cfg(7) & 1) != 0 && (d.W == 1 || d.W == 2 || d.W == 5);
  size_t nsteps = 0;
  for (const vh::Op& op : c.ops) {
    if (op.empty()) continue;
    if (op[0] == 90) {
      if (d.plan.size() < 8) d.plan.push_back(fi::Entry{int(umod(argof(op, 1), 3)), uint64_t(argof(op, 2)) & 0xFFFFFFFull, argof(op, 3) != 0});
    } else if (nsteps < 160) { d.steps.push_back(op); nsteps++; }
  }
  vh::Case k; k.cfg = {d.W, d.variant, d.p[0], d.p[1], d.p[2], d.p[3]}; k.ops = d.steps;
  d.key = k.to_text();
  return d;
}

static std::unique_ptr<Workload> make_workload(const Decoded& d) {
  switch (d.W) {
#ifdef C15_HAVE_W1
    case 1: return std::unique_ptr<Workload>(new W1(d, false));
    case 2: return std::unique_ptr<Workload>(new W1(d, true));
#endif
#ifdef C15_HAVE_W3
    case 3: return std::unique_ptr<Workload>(new W3(d));
#endif
#ifdef C15_HAVE_W4
    case 4: return std::unique_ptr<Workload>(new W4(d));
#endif
    default: return std::unique_ptr<Workload>(new W5(d));
  }
}

// =============================================================================================
// reference run (never faulted; counts the requests of each kind) — cached for the last instantiation
// =============================================================================================
struct RefInfo { std::string key; Res res; uint64_t n[fi::kKinds] = {0, 0, 0}; bool valid = false; };

static void run_reference(const Decoded& d, RefInfo& R) {
  R = RefInfo();
  R.key = d.key;
  fi::S.phase = 0;
  {
    fi::arm({});
    std::unique_ptr<Workload> w = make_workload(d);
    w->run(R.res);
    fi::disarm();
    for (int k = 0; k < fi::kKinds; k++) R.n[k] = fi::S.count[k];
  }
  R.valid = true;
}

static const RefInfo& get_reference(const Decoded& d) {
  static RefInfo cache;
  if (!cache.valid || cache.key != d.key) run_reference(d, cache);
  return cache;
}

// =============================================================================================
// the property
// =============================================================================================
static std::string plan_text(const Decoded& d) {
  std::string s;
  for (const fi::Entry& e : d.plan) { char b[64]; snprintf(b, sizeof b, "%s%s#%llu%s", s.empty() ? "" : ",", fi::kKindName[e.kind], (unsigned long long)e.k, e.from ? "+" : ""); s += b; }
  return s.empty() ? "none" : s;
}

static uint64_t g_lsan_every = 1;
static uint64_t g_plans = 0;

void vh_run(const vh::Case& c, vh::Ctx& ctx) {
  Decoded d = decode(c);
  if (!g_enable[d.W]) { ctx.cls("skipped_disabled_workload"); return; }
  const std::string W = wname(d.W);
  std::string kind = d.plan.empty() ? "none" : fi::kKindName[d.plan[0].kind];
  for (const fi::Entry& e : d.plan) if (fi::kKindName[e.kind] != kind) kind = "multi";
  const std::string pfx = W + "-" + kind + "-";
  bool multi = d.plan.size() > 1 || (d.plan.size() == 1 && d.plan[0].from);
  std::string ptxt = plan_text(d);

  fi::S.live->clear(); fi::S.maps->clear(); fi::S.fds->clear(); fi::S.munmap_unknown = 0;
  fi::S.tracking = true;
  struct Untrack { ~Untrack() { fi::disarm(); fi::S.tracking = false; } } untrack;

  const RefInfo& R = get_reference(d);
  ctx.cls(W + ".plans");
  if (R.res.err != Error::kOk || !R.res.sem.empty()) {
    // the fault-free run itself reports an error: generator problem (not a violation); counted and skipped
    ctx.cls(W + ".reference_failed");
    if (ctx.opts && ctx.opts->geti("showref", 0)) fprintf(stderr, "reference failed: %s step %d err %u %s\n%s", R.res.call, R.res.step, unsigned(R.res.err), R.res.sem.c_str(), c.to_text().c_str());
    return;
  }

  // ---- known crash classes excluded by construction ----
  // (filled in by the sections below through g_exclusions)

  // ---- faulty run on fresh objects ----
  Res f;
  std::unique_ptr<Workload> w;
  uint64_t hits[fi::kKinds], hit_total;
  const char* failed_request;
  {
    fi::S.phase = 1;
    fi::arm(d.plan);
    w = make_workload(d);
    w->run(f);
    fi::disarm();
    for (int k = 0; k < fi::kKinds; k++) hits[k] = fi::S.hits[k];
    hit_total = fi::total_hits();
    failed_request = fi::S.last_fail;
    if (fi::S.suppressed) { ctx.known_excluded(kKeyConstPoolShared); ctx.cls(W + ".fault_suppressed_known_crash_site"); }
  }
  g_plans++;
  char where[256];
  snprintf(where, sizeof where, "plan [%s] (requests in a clean run: arena %llu heap %llu vm %llu); first error %u from %s at step %d",
           ptxt.c_str(), (unsigned long long)R.n[0], (unsigned long long)R.n[1], (unsigned long long)R.n[2], unsigned(f.err), f.call[0] ? f.call : "-", f.step);

  VH_CHECK(ctx, f.sem.empty(), (pfx + "wrong-content").c_str(), "%s; %s", f.sem.c_str(), where);
  if (hit_total == 0) {
    ctx.cls(W + "." + kind + ".fault_not_reached");
    VH_CHECK(ctx, f.err == Error::kOk && f.bytes == R.res.bytes && f.full == R.res.full, (W + "-unfaulted-run-differs").c_str(),
             "no fault was injected but the run differs from the reference (harness determinism); %s", where);
  } else {
    ctx.cls(W + "." + kind + ".fault_hit");
    if (multi) ctx.cls(W + ".multi_failure_plan");
    if (f.err != Error::kOk) {
      ctx.cls(W + "." + kind + ".error_reported");
      ctx.cls(std::string("error_code_") + std::to_string(unsigned(f.err)));
      if (f.later_errors) ctx.cls(W + ".continued_after_error");
      ctx.nontrivial();
      if (ctx.want_sample()) ctx.sample(W + " variant " + std::to_string(d.variant) + " " + ptxt + " -> " + f.call + " returned " + std::to_string(unsigned(f.err)) + " (failed request: " + failed_request + ")");
    } else {
      ctx.cls(W + "." + kind + ".completed_despite_fault");
      VH_CHECK(ctx, f.bytes == R.res.bytes, (pfx + "success-but-different-bytes").c_str(),
               "every API call returned kOk although request %s failed, but the output differs from the fault-free run (%zu vs %zu bytes); %s",
               failed_request, f.bytes.size(), R.res.bytes.size(), where);
    }
  }

  // ---- reset, re-run on the same objects without faults ----
  {
    fi::S.phase = 2;
    w->reset(d.hard);
    Res r2;
    w->run(r2);
    VH_CHECK(ctx, r2.err == Error::kOk, (pfx + "rerun-error").c_str(), "after reset(%s) the fault-free re-run on the same objects fails: %s returned %u at step %d; %s",
             d.hard ? "hard" : "soft", r2.call, unsigned(r2.err), r2.step, where);
    VH_CHECK(ctx, r2.sem.empty(), (pfx + "rerun-wrong-content").c_str(), "%s; %s", r2.sem.c_str(), where);
    VH_CHECK(ctx, r2.bytes == R.res.bytes && r2.full == R.res.full, (pfx + "rerun-differs").c_str(),
             "after reset(%s) the fault-free re-run on the same objects produces different output (%zu vs %zu bytes); %s", d.hard ? "hard" : "soft", r2.bytes.size(), R.res.bytes.size(), where);
    if (hit_total) ctx.cls(W + "." + kind + ".rerun_identical");
  }
  w.reset();

  // ---- leaks ----
  if (!fi::S.live->empty()) {
    const auto& b = *fi::S.live->begin();
    char m[400];
    snprintf(m, sizeof m, "%zu heap block(s) allocated by AsmJit are still live after every object was destroyed (first: %zu bytes, heap request #%llu of the case, phase %s); %s",
             fi::S.live->size(), b.second.size, (unsigned long long)b.second.seq, b.second.phase == 0 ? "reference" : b.second.phase == 1 ? "faulty run" : "re-run", where);
    for (auto& kv : *fi::S.live) __real_free(kv.first);   // keep LeakSanitizer quiet for the following cases
    fi::S.live->clear();
    ctx.fail_unless_known(W + "-leak", m);
  }
  if (!fi::S.maps->empty() || fi::S.munmap_unknown) {
    char m[400];
    snprintf(m, sizeof m, "%zu mapping(s) created by AsmJit were never unmapped (first: %zu bytes), %llu munmap call(s) of unknown ranges; %s",
             fi::S.maps->size(), fi::S.maps->empty() ? size_t(0) : fi::S.maps->begin()->second, (unsigned long long)fi::S.munmap_unknown, where);
    for (auto& kv : *fi::S.maps) __real_munmap(kv.first, kv.second);
    fi::S.maps->clear();
    ctx.fail_unless_known(W + "-vm-mmap-unbalanced", m);
  }
  if (!fi::S.fds->empty()) {
    char m[300];
    snprintf(m, sizeof m, "%zu anonymous-memory descriptor(s) were never closed; %s", fi::S.fds->size(), where);
    for (int fd : *fi::S.fds) __real_close(fd);
    fi::S.fds->clear();
    ctx.fail_unless_known(W + "-vm-fd-leak", m);
  }
  fi::S.tracking = false;
  if (g_lsan_every && g_plans % g_lsan_every == 0) {
    ctx.cls("lsan_checks");
    if (__lsan_do_recoverable_leak_check() != 0) ctx.fail(W + "-lsan-leak", std::string("LeakSanitizer reports a leak after the plan (see stderr); ") + where);
  }
}

// =============================================================================================
// generators
// =============================================================================================
static vh::Op fault_op(int kind, int64_t k, int from) { return vh::Op{90, kind, k, from}; }

rc::Gen<vh::Case> vh_gen(const vh::Opts&) {
  using namespace rc;
  auto stepGen = gen::exec([]() -> vh::Op {
    return vh::Op{*vh::irange<int>(0, 49), *vh::irange<int>(0, 1000), *vh::irange<int>(0, 255), *vh::irange<int>(0, 15)};
  });
  auto planGen = gen::exec([]() -> std::vector<vh::Op> {
    std::vector<vh::Op> ops;
    int sel = *vh::irange<int>(0, 99);
    // k distribution: mostly small (every workload has few heap / vm requests), sometimes large (arena)
    auto kgen = [](int kind) -> int64_t {
      int s = *vh::irange<int>(0, 99);
      int hi = kind == 0 ? (s < 50 ? 60 : s < 85 ? 400 : 3000) : kind == 1 ? (s < 70 ? 8 : 40) : (s < 80 ? 6 : 30);
      return *vh::irange<int>(0, hi);
    };
    auto kindgen = []() -> int { int s = *vh::irange<int>(0, 99); return s < 50 ? 0 : s < 80 ? 1 : 2; };
    if (sel < 35) { int kd = kindgen(); ops.push_back(fault_op(kd, kgen(kd), 0)); }
    else if (sel < 55) { int kd = kindgen(); ops.push_back(fault_op(kd, kgen(kd), 1)); }
    else {
      int n = *vh::irange<int>(2, 5);
      bool same = *vh::irange<int>(0, 1) == 0;
      int kd0 = kindgen();
      for (int i = 0; i < n; i++) { int kd = same ? kd0 : kindgen(); ops.push_back(fault_op(kd, kgen(kd), 0)); }
      if (*vh::irange<int>(0, 4) == 0) { int kd = kindgen(); ops.push_back(fault_op(kd, kgen(kd) + 20, 1)); }
    }
    return ops;
  });
  auto cfgGen = gen::exec([]() -> std::vector<int64_t> {
    int W = *vh::irange<int>(1, 5);
    return {W, *vh::irange<int>(0, 2), *vh::irange<int>(0, 63), *vh::irange<int>(0, 63), *vh::irange<int>(0, 63), *vh::irange<int>(0, 63),
            *vh::irange<int>(0, 1), *vh::irange<int>(0, 3) == 0 ? 1 : 0};
  });
  return gen::apply([](std::vector<int64_t> cfg, std::vector<vh::Op> steps, std::vector<vh::Op> plan) {
      vh::Case c; c.cfg = std::move(cfg); c.ops = std::move(steps);
      if (c.ops.size() > 90) c.ops.resize(90);
      for (auto& p : plan) c.ops.push_back(p);
      return c; },
    cfgGen, gen::container<std::vector<vh::Op>>(stepGen), planGen);
}

// =============================================================================================
// deterministic enumeration: fixed instantiations x every k of every fault kind
// =============================================================================================
static uint64_t sm64(uint64_t& s) { uint64_t z = (s += 0x9E3779B97F4A7C15ull); z = (z ^ (z >> 30)) * 0xBF58476D1CE4E5B9ull; z = (z ^ (z >> 27)) * 0x94D049BB133111EBull; return z ^ (z >> 31); }

static vh::Case fixed_instance(int W, int variant, uint64_t seed, size_t nsteps) {
  vh::Case c;
  uint64_t s = seed * 1000003ull + uint64_t(W) * 101 + uint64_t(variant);
  c.cfg = {W, variant, int64_t(sm64(s) % 64), int64_t(sm64(s) % 64), int64_t(sm64(s) % 64), int64_t(sm64(s) % 64), int64_t(seed & 1), 0};
  for (size_t i = 0; i < nsteps; i++) {
    // the first steps walk through every step kind once so that each call site is part of every fixed instantiation
    int64_t code = i < 16 ? int64_t((i * 7 + seed) % 16) : int64_t(sm64(s) % 50);
    c.ops.push_back(vh::Op{code, int64_t(sm64(s) % 1001), int64_t(sm64(s) % 256), int64_t(sm64(s) % 16)});
  }
  return c;
}

static std::vector<vh::Case>* g_enum = nullptr;
static std::map<std::string, uint64_t> g_enum_points;

static void build_enumeration(const vh::Opts& o) {
  g_enum = new std::vector<vh::Case>();
  size_t ninst = o.is_thorough() ? size_t(o.geti("instances", 10)) : size_t(o.geti("instances", 1));
  for (int W = 1; W <= 5; W++) {
    if (!g_enable[W]) continue;
    int nvar = W == 4 ? 3 : W == 5 ? 1 : 2;
    for (int v = 0; v < nvar; v++) {
      for (size_t inst = 0; inst < ninst; inst++) {
        size_t nsteps = W == 3 ? 22 + 6 * (inst % 4) : W == 4 ? 14 + 4 * (inst % 4) : 30 + 8 * (inst % 5);
        vh::Case base = fixed_instance(W, v, inst + 1, nsteps);
        Decoded d = decode(base);
        RefInfo R;
        fi::S.tracking = false;
        run_reference(d, R);
        if (R.res.err != Error::kOk) { fprintf(stderr, "C15: fixed instantiation W%d variant %d #%zu fails without faults (%s -> %u at step %d)\n", W, v, inst, R.res.call, unsigned(R.res.err), R.res.step); continue; }
        for (int kind = 0; kind < fi::kKinds; kind++) {
          g_enum_points[std::string(wname(W)) + "." + fi::kKindName[kind]] += R.n[kind];
          for (uint64_t k = 0; k <= R.n[kind]; k++) {
            if (R.n[kind] == 0) break;
            vh::Case c = base;
            c.ops.push_back(fault_op(kind, int64_t(k), 0));
            g_enum->push_back(c);
            // continue-after-error variant for the emitter / container workloads (every 3rd fault point)
            if ((W == 1 || W == 2 || W == 5) && k % 3 == 0 && k < R.n[kind]) { vh::Case c2 = c; c2.cfg[7] = 1; g_enum->push_back(c2); }
          }
          // "every request from k on fails" at a few positions
          for (uint64_t q = 0; q < 4 && R.n[kind] > 0; q++) {
            vh::Case c = base;
            c.ops.push_back(fault_op(kind, int64_t(R.n[kind] * q / 4), 1));
            g_enum->push_back(c);
          }
        }
      }
    }
  }
}

bool vh_enum(const vh::Opts& o, uint64_t k, vh::Case& out) {
  if (o.geti("noenum", 0)) return false;
  if (!g_enum) build_enumeration(o);
  uint64_t idx = k * uint64_t(std::max(1, o.workers)) + uint64_t(o.worker);
  if (idx >= g_enum->size()) return false;
  out = (*g_enum)[idx];
  return true;
}

// Learns the return addresses that identify the shared sub-constant allocation inside ConstPool::add.
static void calibrate_call_sites(vh::Ctx& ctx) {
  std::vector<fi::Site> calib;
  fi::g_calib = &calib;
  {
    Arena a(4096);
    ConstPool p(a);
    uint64_t c = 0x1122334455667788ull;
    size_t off = 0;
    fi::g_calibrating = true;
    (void)p.add(&c, 8, Out(off));     // requests: main node, shared low half, shared high half
    fi::g_calibrating = false;
  }
  fi::g_calib = nullptr;
  if (getenv("C15_DEBUG")) for (auto& x : calib) fprintf(stderr, "calib %p %p %p %p\n", x.r[0], x.r[1], x.r[2], x.r[3]);
  if (calib.size() == 3 && calib[1].same(calib[2], 3)) {
    for (int lv = 0; lv < 4; lv++) if (!calib[0].same(calib[1], lv)) { fi::g_constpool_level = lv; fi::g_constpool_shared = calib[1]; break; }
  }
  if (fi::g_constpool_level < 0) ctx.notes.push_back("call-site calibration for ConstPool::add failed: the known crash class cannot be excluded by construction");
}

void vh_init(const vh::Opts& o, vh::Ctx& ctx) {
  setvbuf(stdout, nullptr, _IONBF, 0);   // LeakSanitizer's exit path does not flush stdio
  calibrate_call_sites(ctx);
  fi::g_exclude_constpool_shared = ctx.is_known(kKeyConstPoolShared);
  fi::S.live = new std::unordered_map<void*, fi::Blk>();
  fi::S.maps = new std::unordered_map<void*, size_t>();
  fi::S.fds = new std::set<int>();
  long only = o.geti("only", 0);
  if (only) for (int w = 1; w <= 5; w++) g_enable[w] = (only == w);
  g_lsan_every = uint64_t(o.geti("lsan", 1));
#ifdef C15_HAVE_W4
  warm_up_process_caches();
#endif
}

void vh_fini(const vh::Opts& o, vh::Ctx& ctx) {
  if (g_enum && !o.geti("noenum", 0)) {
    ctx.exhaustive = true;
    if (o.worker == 0) {
      std::string s = "fault points enumerated (requests of the fixed instantiations, every k from 0 to the count):";
      for (auto& kv : g_enum_points) s += " " + kv.first + "=" + std::to_string(kv.second);
      s += "; enumerated plans in total: " + std::to_string(g_enum->size());
      ctx.notes.push_back(s);
    }
  }
}
