// C16 — Reset, reinit and reuse of holders and emitters leave no residue.
//
// Case: cfg = [arch(0 x64,1 x86,2 a64), kind(0 asm,1 builder,2 compiler), flags(1 L logger,2 V validation,4 H heap perturbation,
//              8 A static arena,16 RA debug logging), final_step(0 reset soft,1 reset hard,2 reinit), mix(0 both recycled,1 recycled
//              holder + fresh emitter,2 fresh holder + recycled emitter), static_sel, heap_seed, logfmt, post(0 none, 1..3 base sel),
//              encoding options(1 optimize for size, 2 optimized align)]
//       ops[0..n-2] = HISTORY applied to one long-lived object set; ops[n-1] = P_final (program items from index 4).
//   history op[0]: 0 INIT[arch,base,host cpu features] 1 ATTACH[kind] 2 GEN[kind,progflags,arch,items...] 3 ERR[variant,kind,a] 4 RESET[policy]
//                  5 REINIT 6 DETACH[kind] 7 REATTACH[kind] 8 DANGLE[kind,a] 9 LOGTOGGLE[on]
//   program item = 4 ints [type,a,b,c]; FUNC item = header + nbody body items (Compiler only).
// Oracle: state of the CodeHolder after P_final on recycled objects == state after P_final on FRESH objects with the same flags (F1),
//         and F1 == plain fresh run S0 (no logger / no validation / normal heap / dynamic arena).
#define VH_MAIN
#include "vh.h"
#include "gen/x86inst.h"

#include <asmjit/core.h>
#include <asmjit/x86.h>
#include <asmjit/a64.h>

#include <array>
#include <memory>
#include <unordered_map>

using namespace asmjit;

const char* vh_property() { return "C16"; }

// =====================================================================================================================
// Heap perturbation (link with -Wl,--wrap=malloc,--wrap=realloc,--wrap=free)
// =====================================================================================================================
extern "C" {
void* __real_malloc(size_t);
void* __real_realloc(void*, size_t);
void __real_free(void*);
}

namespace hp {
struct Rec { void* base; size_t size; };
static bool g_armed = false;
static uint64_t g_seed = 0, g_counter = 0, g_total = 0;
static std::unordered_map<void*, Rec>* g_live = nullptr;
static inline uint64_t mix(uint64_t x) { x += 0x9E3779B97F4A7C15ull; x = (x ^ (x >> 30)) * 0xBF58476D1CE4E5B9ull; x = (x ^ (x >> 27)) * 0x94D049BB133111EBull; return x ^ (x >> 31); }
static void arm(uint64_t seed) { if (!g_live) g_live = new std::unordered_map<void*, Rec>(); g_armed = true; g_seed = seed; g_counter = 0; }
static void disarm() { g_armed = false; }
static size_t live() { return g_live ? g_live->size() : 0; }
static void drop_all() { if (!g_live) return; for (auto& kv : *g_live) __real_free(kv.second.base); g_live->clear(); }
struct Guard {   // arms the wrapper for a scope; always disarms, also when a failure is thrown through the scope
  explicit Guard(bool on, uint64_t seed) { if (on) arm(seed); }
  ~Guard() { disarm(); }
};
static uint8_t fill_byte(uint64_t seed) { static const uint8_t t[] = {0xFF, 0x00, 0xA5, 0x5A, 0x01, 0x80, 0x7F, 0xCC}; return t[seed & 7]; }
}

extern "C" void* __wrap_malloc(size_t n) {
  if (!hp::g_armed) return __real_malloc(n);
  uint64_t h = hp::mix(hp::g_seed * 1315423911ull + hp::g_counter++);
  size_t pad = 16 * (1 + size_t(h % 12));
  uint8_t* base = static_cast<uint8_t*>(__real_malloc(n + pad));
  if (!base) return nullptr;
  memset(base, hp::fill_byte(hp::g_seed), n + pad);
  void* user = base + pad;
  (*hp::g_live)[user] = hp::Rec{base, n};
  hp::g_total++;
  return user;
}

extern "C" void __wrap_free(void* p) {
  if (!p) return;
  if (hp::g_live) {
    auto it = hp::g_live->find(p);
    if (it != hp::g_live->end()) { void* b = it->second.base; hp::g_live->erase(it); __real_free(b); return; }
  }
  __real_free(p);
}

extern "C" void* __wrap_realloc(void* p, size_t n) {
  if (!p) return __wrap_malloc(n);
  if (hp::g_live) {
    auto it = hp::g_live->find(p);
    if (it != hp::g_live->end()) {
      size_t old = it->second.size;
      void* q = __wrap_malloc(n);
      if (!q) return nullptr;
      memcpy(q, p, old < n ? old : n);
      __wrap_free(p);
      return q;
    }
  }
  return __real_realloc(p, n);
}

// =====================================================================================================================
// Small utilities
// =====================================================================================================================
static inline uint64_t mix64(uint64_t x) { return hp::mix(x); }

struct Cur {
  const vh::Op* v; size_t pos;
  Cur(const vh::Op& o, size_t start) : v(&o), pos(start) {}
  uint64_t next() { uint64_t x = pos < v->size() ? uint64_t((*v)[pos]) : 0; pos++; return x; }
  bool more() const { return pos < v->size(); }
};

static void sfmt(std::string& s, const char* fmt, ...) __attribute__((format(printf, 2, 3)));
static void sfmt(std::string& s, const char* fmt, ...) {
  char b[512];
  va_list ap; va_start(ap, fmt); vsnprintf(b, sizeof b, fmt, ap); va_end(ap);
  s += b;
}
static void hexs(std::string& s, const uint8_t* p, size_t n) {
  static const char d[] = "0123456789abcdef";
  for (size_t i = 0; i < n; i++) { s += d[p[i] >> 4]; s += d[p[i] & 15]; }
}

static xdb::DB g_db;
static bool g_db_ok = false;
static std::vector<InstId> g_db_ids[2];   // [0]=x64, [1]=x86

void vh_init(const vh::Opts& o, vh::Ctx& ctx) {
  std::string path = "build/gen/x86_forms.txt";
  auto it = o.kv.find("forms");
  if (it != o.kv.end()) path = it->second;
  g_db_ok = g_db.load(path.c_str());
  if (!g_db_ok) ctx.notes.push_back("x86 ISA DB not loaded (" + path + "): DB-generated instructions replaced by the fixed table");
  else for (int m = 0; m < 2; m++) {
    g_db_ids[m].resize(g_db.forms.size());
    for (size_t i = 0; i < g_db.forms.size(); i++) {
      const xdb::Form& f = g_db.forms[i];
      g_db_ids[m][i] = InstAPI::string_to_inst_id(m == 0 ? Arch::kX64 : Arch::kX86, f.name.c_str(), f.name.size());
    }
  }
}

enum { kArchX64 = 0, kArchX86 = 1, kArchA64 = 2 };
enum { kAsm = 0, kBuilder = 1, kCompiler = 2 };
static const char* kKindName[] = {"asm", "builder", "compiler"};
static const char* kArchName[] = {"x64", "x86", "a64"};
static Arch arch_of(int a) { return a == kArchX64 ? Arch::kX64 : a == kArchX86 ? Arch::kX86 : Arch::kAArch64; }

struct Flags {
  bool L = false, V = false, H = false, A = false, RAdbg = false;
  int static_sel = 0, heap_seed = 0, logfmt = 0, enc = 0;
};
static const size_t kStaticSizes[] = {64, 256, 1024, 4096, 32768};
static const uint64_t kBases[] = {Globals::kNoBaseAddress, 0x10000000ull, 0x400000ull, 0x00007f0000000000ull};

struct Eh : public ErrorHandler {
  std::vector<std::string> msgs;
  void handle_error(Error err, const char* message, BaseEmitter*) override {
    msgs.push_back(std::to_string(uint32_t(err)) + ":" + (message ? message : ""));
  }
};

// One set of long-lived objects.
struct ObjSet {
  std::vector<uint64_t> sbuf;
  StringLogger logger;
  Eh eh;
  CodeHolder code;
  x86::Assembler xa; x86::Builder xb; x86::Compiler xc;
  a64::Assembler aa; a64::Builder ab; a64::Compiler ac;
  // model of documented state
  int arch = 0;
  uint64_t base = Globals::kNoBaseAddress;
  bool host_features = false;        // initialised with CpuInfo::host().features() (kept by reinit(), dropped by reset())
  bool logger_on = false;
  Flags fl;
  bool relocated = false;            // flatten()/relocate_to_base() "should never be called more than once" (per initialisation)
  std::set<BaseEmitter*> spent;      // Builder/Compiler already finalized: finalize() must not run twice without reset/reinit/detach
  Error finalize_once(BaseEmitter* e) { if (spent.count(e)) return Error::kOk; spent.insert(e); return e->finalize(); }

  static std::vector<uint64_t> make_sbuf(const Flags& f) {
    if (!f.A) return std::vector<uint64_t>();
    uint64_t pat = 0x0101010101010101ull * hp::fill_byte(uint64_t(f.heap_seed) + 3);
    return std::vector<uint64_t>(kStaticSizes[size_t(f.static_sel) % 5] / 8, pat);
  }
  explicit ObjSet(const Flags& f)
    : sbuf(make_sbuf(f)),
      code(f.A ? Span<uint8_t>(reinterpret_cast<uint8_t*>(sbuf.data()), sbuf.size() * 8) : Span<uint8_t>()),
      fl(f) {
    FormatFlags ff = FormatFlags::kNone;
    switch (f.logfmt & 3) {
      case 0: ff = FormatFlags::kMachineCode; break;
      case 1: ff = FormatFlags::kMachineCode | FormatFlags::kHexImms | FormatFlags::kHexOffsets | FormatFlags::kExplainImms; break;
      case 2: ff = FormatFlags::kRegCasts | FormatFlags::kPositions | FormatFlags::kRegType | FormatFlags::kMachineCode; break;
      default: ff = FormatFlags::kNone; break;
    }
    logger.set_flags(ff);
    BaseEmitter* all[] = {&xa, &xb, &xc, &aa, &ab, &ac};
    for (BaseEmitter* e : all) {
      if (f.enc & 1) e->add_encoding_options(EncodingOptions::kOptimizeForSize);
      if (f.enc & 2) e->add_encoding_options(EncodingOptions::kOptimizedAlign);
      if (f.V) e->add_diagnostic_options(DiagnosticOptions::kValidateAssembler | DiagnosticOptions::kValidateIntermediate);
      if (f.RAdbg && f.L) e->add_diagnostic_options(DiagnosticOptions::kRAAnnotate | DiagnosticOptions::kRADebugAll);
    }
  }
  BaseEmitter* em(int a, int kind) {
    if (a == kArchA64) return kind == kAsm ? static_cast<BaseEmitter*>(&aa) : kind == kBuilder ? static_cast<BaseEmitter*>(&ab) : static_cast<BaseEmitter*>(&ac);
    return kind == kAsm ? static_cast<BaseEmitter*>(&xa) : kind == kBuilder ? static_cast<BaseEmitter*>(&xb) : static_cast<BaseEmitter*>(&xc);
  }
  bool inited() const { return code.is_initialized(); }
  Error do_init(int a, uint64_t b, bool host_features = false) {
    Error e = host_features ? code.init(Environment(arch_of(a)), CpuInfo::host().features(), b) : code.init(Environment(arch_of(a)), b);
    if (e == Error::kOk) {
      arch = a; base = b; this->host_features = host_features;
      code.set_error_handler(&eh);
      if (fl.L) { code.set_logger(&logger); logger_on = true; } else logger_on = false;
    }
    return e;
  }
};

// =====================================================================================================================
// Snapshot of a CodeHolder
// =====================================================================================================================
static const char* kNamePool[] = {"alpha", "beta", "gamma", "delta", "L_entry", "loop", "x", "data_tbl", "fn_a", "fn_b",
                                  "a_rather_long_label_name_that_needs_more_than_one_arena_word_0123456789", ".local", "tmp", "Z9"};
static const int kNamePoolSize = int(sizeof(kNamePool) / sizeof(kNamePool[0]));
static const char* kSecNames[] = {".data", ".rodata", ".bss", ".text2", "s", ".a_section_name_with_35_characters__", ".init", ".x"};

struct Snap {
  std::string sectab, layout, labels, names, relocs, fixups, misc, trace, nodes, post, errs, log;
  std::vector<std::string> secbytes;
  size_t nerr = 0;
  bool nonempty = false;
  std::vector<uint64_t> func_offsets;
};

static void fmt_format(std::string& s, const OffsetFormat& f) {
  sfmt(s, "{t%u f%u r%u v%u o%u c%u s%u d%u}", unsigned(f.type()), f.flags(), f.region_size(), f.value_size(), f.value_offset(), f.imm_bit_count(), f.imm_bit_shift(), f.imm_discard_lsb());
}
static void fmt_fixups(std::string& s, const Fixup* f) {
  int guard = 0;
  for (; f && guard < 100000; f = f->next, guard++) {
    sfmt(s, "[s%u id%d @%zu rel%lld ", f->section_id, int(f->label_or_reloc_id), f->offset, (long long)f->rel);
    fmt_format(s, f->format);
    s += "]";
  }
}
static void fmt_expr(std::string& s, const Expression* e, int depth) {
  if (!e || depth > 8) { s += "?"; return; }
  sfmt(s, "(op%u ", unsigned(e->op_type));
  for (int i = 0; i < 2; i++) {
    switch (e->value_type[i]) {
      case ExpressionValueType::kNone: s += "none"; break;
      case ExpressionValueType::kConstant: sfmt(s, "c%llu", (unsigned long long)e->value[i].constant); break;
      case ExpressionValueType::kLabel: sfmt(s, "L%u", e->value[i].label_id); break;
      case ExpressionValueType::kExpression: fmt_expr(s, e->value[i].expression, depth + 1); break;
      default: s += "bad";
    }
    s += i == 0 ? " " : ")";
  }
}

static void snap_sections(const CodeHolder& code, Snap& sn, bool with_table) {
  sn.secbytes.clear();
  sn.layout.clear();
  if (with_table) sn.sectab.clear();
  Span<Section*> secs = code.sections();
  if (with_table) sfmt(sn.sectab, "n=%zu;", secs.size());
  for (size_t i = 0; i < secs.size(); i++) {
    const Section* sec = secs[i];
    if (with_table) {
      char nm[40]; size_t k = 0;
      for (; k < sizeof(sec->_name.str) && sec->_name.str[k]; k++) nm[k] = sec->_name.str[k];
      bool term = k < sizeof(sec->_name.str);
      nm[k] = 0;
      sfmt(sn.sectab, "#%zu id=%u name='%s'%s flags=%x align=%u order=%d;", i, sec->section_id(), nm, term ? "" : "(UNTERMINATED)", unsigned(sec->flags()), sec->alignment(), sec->order());
    }
    sfmt(sn.layout, "#%zu off=%llx vsize=%llu size=%zu real=%llu;", i, (unsigned long long)sec->offset(), (unsigned long long)sec->virtual_size(), sec->buffer_size(), (unsigned long long)sec->real_size());
    std::string b;
    if (sec->buffer_size() <= (1u << 16)) hexs(b, sec->data(), sec->buffer_size());
    else sfmt(b, "hash:%llx/%zu", (unsigned long long)vh::fnv1a(sec->data(), sec->buffer_size()), sec->buffer_size());
    sn.secbytes.push_back(b);
    if (sec->buffer_size()) sn.nonempty = true;
  }
  if (with_table) {
    sn.sectab += "order=[";
    for (Section* s2 : code.sections_by_order()) sfmt(sn.sectab, "%u,", s2->section_id());
    sn.sectab += "]";
    sfmt(sn.sectab, " addrtab=%d", code.has_address_table_section() ? int(code.address_table_section()->section_id()) : -1);
  }
}

static void take_snapshot(CodeHolder& code, Snap& sn) {
  snap_sections(code, sn, true);
  // labels
  Span<LabelEntry> les = code.label_entries();
  sfmt(sn.labels, "n=%zu;", les.size());
  if (les.size()) sn.nonempty = true;
  for (size_t i = 0; i < les.size(); i++) {
    const LabelEntry& le = les[i];
    sfmt(sn.labels, "L%zu t%u f%x", i, unsigned(le.label_type()), unsigned(le.label_flags()));
    if (le.has_name()) { sn.labels += " '"; sn.labels.append(le.name(), le.name_size()); sfmt(sn.labels, "'/%u%s", le.name_size(), le.name()[le.name_size()] == 0 ? "" : "(UNTERMINATED)"); }
    sfmt(sn.labels, " p%d", int(le.parent_id()));
    if (le.is_bound()) sfmt(sn.labels, " bound s%u @%llu;", le.section_id(), (unsigned long long)le.offset());
    else { sn.labels += " unbound "; fmt_fixups(sn.labels, le.unresolved_fixups()); sn.labels += ";"; }
  }
  // named label lookups
  for (int i = 0; i < kNamePoolSize; i++) {
    sfmt(sn.names, "%d:%d", i, int(code.label_id_by_name(kNamePool[i])));
    for (uint32_t p = 0; p < 3; p++) sfmt(sn.names, "/%d", int(code.label_id_by_name(kNamePool[i], SIZE_MAX, p)));
    sn.names += ";";
  }
  for (int i = 0; i < 6; i++) { char b[32]; snprintf(b, sizeof b, "bulk_%d", i * 37); sfmt(sn.names, "b%d:%d;", i, int(code.label_id_by_name(b))); }
  // relocations
  Span<RelocEntry*> res = code.reloc_entries();
  sfmt(sn.relocs, "n=%zu;", res.size());
  for (size_t i = 0; i < res.size(); i++) {
    const RelocEntry* re = res[i];
    sfmt(sn.relocs, "R%zu id%u t%u ", i, re->id(), unsigned(re->reloc_type()));
    fmt_format(sn.relocs, re->format());
    sfmt(sn.relocs, " src s%d@%llu tgt s%d ", int(re->source_section_id()), (unsigned long long)re->source_offset(), int(re->target_section_id()));
    if (re->reloc_type() == RelocType::kExpression) fmt_expr(sn.relocs, re->payload_as_expression(), 0);
    else sfmt(sn.relocs, "payload=%llx", (unsigned long long)re->payload());
    sn.relocs += ";";
  }
  // cross-section fixups
  sn.fixups = "global:";
  fmt_fixups(sn.fixups, code._fixups);
  sfmt(sn.misc, "code_size=%zu unresolved=%zu labels=%zu sections=%zu relocs=%zu base=%llx arch=%u", code.code_size(), code.unresolved_fixup_count(), code.label_count(),
       code.section_count(), res.size(), (unsigned long long)code.base_address(), unsigned(code.arch()));
  { CpuFeatures cf = code.cpu_features(); sfmt(sn.misc, " cpu=%llx", (unsigned long long)vh::fnv1a(&cf, sizeof cf)); }
}

// flatten + resolve + relocate + flattened image
static void post_steps(CodeHolder& code, uint64_t base, std::string& out, Snap* layout_into) {
  Error e1 = code.flatten();
  Error e2 = code.resolve_cross_section_fixups();
  CodeHolder::RelocationSummary sum; sum.code_size_reduction = 0;
  Error e3 = code.relocate_to_base(base, &sum);
  sfmt(out, "flatten=%u resolve=%u relocate=%u reduction=%zu code_size=%zu unresolved=%zu;", unsigned(e1), unsigned(e2), unsigned(e3), sum.code_size_reduction, code.code_size(), code.unresolved_fixup_count());
  Snap tmp;
  snap_sections(code, tmp, false);
  out += tmp.layout;
  for (auto& b : tmp.secbytes) { out += "|"; out += b; }
  size_t cs = code.code_size();
  if (cs <= (1u << 20)) {
    std::vector<uint8_t> img(cs + 16, 0xEE);
    Error e4 = code.copy_flattened_data(img.data(), cs, CopySectionFlags::kPadSectionBuffer | CopySectionFlags::kPadTargetBuffer);
    sfmt(out, " copy=%u img=%llx guard=%d", unsigned(e4), (unsigned long long)vh::fnv1a(img.data(), cs), int(img[cs] == 0xEE && img[cs + 15] == 0xEE));
  }
  (void)layout_into;
}

// =====================================================================================================================
// Program interpreter (raw items on any emitter)
// =====================================================================================================================
enum ItemType {
  T_INST = 0, T_DBINST, T_LABEL_NEW, T_LABEL_NAMED, T_BIND, T_JUMP, T_ALIGN, T_EMBED, T_EMBED_ARRAY, T_EMBED_LABEL, T_EMBED_DELTA,
  T_SECTION_NEW, T_SECTION_SWITCH, T_CONSTPOOL, T_MEMLABEL, T_ABSJMP, T_COMMENT, T_BULK, T_FUNC, T_COUNT
};

struct Prog {
  CodeHolder& code;
  BaseEmitter* e;
  int arch, kind;
  vh::Ctx* ctx;          // non-null: count classes
  std::string trace;
  size_t nerr = 0, ncalls = 0;
  std::vector<Label> labels;
  std::vector<uint8_t> bound;
  std::vector<int> lsec, maxref;     // section index where bound; highest section index that references the label by a fixup
  std::vector<Section*> secs;
  int cur_sec = 0;
  int named_ctr = 0;
  bool allow_annotations = true;
  bool force_local_consts = false;
  std::vector<uint32_t> func_labels;
  bool any_func = false, any_reloc = false, any_section = false, any_named = false, any_fwd = false, any_bwd = false, any_pool = false;

  Prog(CodeHolder& c, BaseEmitter* em, int a, int k, vh::Ctx* cx) : code(c), e(em), arch(a), kind(k), ctx(cx) {}
  void cls(const char* n) { if (ctx) ctx->cls(n); }
  Error tr(const char* tag, Error err) {
    ncalls++;
    if (err != Error::kOk) { nerr++; sfmt(trace, "%s!%u;", tag, unsigned(err)); } else { trace += tag; trace += ';'; }
    return err;
  }
  void trl(const char* tag, const Label& l) { ncalls++; sfmt(trace, "%s=%d;", tag, int(l.id())); if (!l.is_valid()) nerr++; }
  // label helpers
  size_t add_label(const Label& l) { labels.push_back(l); bound.push_back(0); lsec.push_back(-1); maxref.push_back(-1); return labels.size() - 1; }
  // A fixup-creating reference (jump, label memory operand) to a label that is already bound in ANOTHER section is outside the API
  // domain (ASMJIT_ASSERT in CodeHolder::new_fixup); Builder/Compiler serialise section by section, so a label must also not be
  // bound in a section that precedes a referencing section.
  int pick_ref(uint64_t sel) {
    size_t n = labels.size();
    for (size_t i = 0; i < n; i++) { size_t k = (size_t(sel) + i) % n; if (!bound[k] || lsec[k] == cur_sec) { if (cur_sec > maxref[k]) maxref[k] = cur_sec; return int(k); } }
    return -1;
  }
  void switch_section(size_t idx) { if (tr("sw", e->section(secs[idx])) == Error::kOk) cur_sec = int(idx); }
  size_t need_label() {
    if (labels.empty()) { Label l = e->new_label(); trl("nl", l); if (l.is_valid()) add_label(l); }
    return labels.size();
  }
  int pick_unbound(uint64_t sel) {
    size_t n = labels.size();
    for (size_t i = 0; i < n; i++) { size_t k = (size_t(sel) + i) % n; if (!bound[k] && cur_sec >= maxref[k]) return int(k); }
    return -1;
  }
  Error do_bind(size_t k) {
    Error err = tr("bind", e->bind(labels[k]));
    bound[k] = 1;   // Builder: the node is now active whatever happened; never bind again
    lsec[k] = cur_sec;
    return err;
  }
  void bind_all() {
    bool any = false;
    for (size_t k = 0; k < labels.size(); k++) if (!bound[k]) any = true;
    if (!any) return;
    if (secs.size() > 1 && cur_sec != int(secs.size()) - 1) switch_section(secs.size() - 1);
    for (size_t k = 0; k < labels.size(); k++) if (!bound[k] && cur_sec >= maxref[k]) do_bind(k);
  }
};

// ---- fixed instruction tables ---------------------------------------------------------------------------------------
static Error x86_simple(Prog& p, uint64_t a, uint64_t b, uint64_t c) {
  using namespace x86;
  BaseEmitter* e = p.e;
  bool is64 = p.arch == kArchX64;
  uint32_t r0 = uint32_t(a % 8), r1 = uint32_t((a >> 3) % 8), r2 = uint32_t((a >> 6) % 8);
  if (r2 == 4) r2 = 5;
  int32_t disp = int32_t(int8_t(b)) * (((b >> 8) & 1) ? 64 : 1);
  auto Z = [&](uint32_t id) -> Gp { return is64 ? gpq(id) : gpd(id); };
  Operand_ o[4]; size_t n = 0;
  InstId id = Inst::kIdNop;
  auto P = [&](const Operand_& op) { o[n++] = op; };
  switch (c % 25) {
    case 0: id = Inst::kIdMov; P(gpd(r0)); P(gpd(r1)); break;
    case 1: id = Inst::kIdMov; P(gpd(r0)); P(Imm(int32_t(b * 2654435761u))); break;
    case 2: id = Inst::kIdAdd; P(gpd(r0)); P(gpd(r1)); break;
    case 3: id = Inst::kIdSub; P(gpd(r0)); P(Imm(int8_t(b))); break;
    case 4: id = Inst::kIdLea; P(Z(r0)); P(ptr(Z(r1), Z(r2), 2, disp)); break;
    case 5: id = Inst::kIdMov; P(gpd(r0)); P(dword_ptr(Z(r1), disp)); break;
    case 6: id = Inst::kIdMov; P(dword_ptr(Z(r1), disp)); P(gpd(r0)); break;
    case 7: id = Inst::kIdXor; P(gpd(r0)); P(gpd(r0)); break;
    case 8: id = Inst::kIdImul; P(gpd(r0)); P(gpd(r1)); P(Imm(int32_t(b % 1000))); break;
    case 9: id = (b & 1) ? Inst::kIdPush : Inst::kIdPop; P(Z(r0)); break;
    case 10: id = Inst::kIdMovaps; P(xmm(r0)); P(xmm(r1)); break;
    case 11: id = Inst::kIdAddps; P(xmm(r0)); P(xmmword_ptr(Z(r1), disp)); break;
    case 12: id = Inst::kIdVaddps; P(ymm(r0)); P(ymm(r1)); P(ymm(r2)); break;
    case 13: id = Inst::kIdCmp; P(gpd(r0)); P(Imm(int32_t(b))); break;
    case 14: id = Inst::kIdTest; P(gpd(r0)); P(gpd(r1)); break;
    case 15: id = Inst::kIdNop; break;
    case 16: id = Inst::kIdRet; break;
    case 17: id = Inst::kIdMovzx; P(gpd(r0)); P(gpb_lo(r1 % 4)); break;
    case 18: id = Inst::kIdShl; P(gpd(r0)); P(Imm(b % 32)); break;
    case 19: id = Inst::kIdCvtsi2sd; P(xmm(r0)); P(gpd(r1)); break;
    case 20: id = Inst::kIdVpaddd; P(zmm(r0)); P(zmm(r1)); P(zmm(r2)); e->set_extra_reg(KReg(1 + uint32_t(b % 7))); if (b & 8) e->add_inst_options(InstOptions::kX86_ZMask); break;
    case 21: id = Inst::kIdAdd; P(dword_ptr(Z(r1), disp)); P(gpd(r0)); e->add_inst_options(InstOptions::kX86_Lock); break;
    case 22: id = Inst::kIdMovs; P(byte_ptr(Z(7))); P(byte_ptr(Z(6))); e->add_inst_options(InstOptions::kX86_Rep); break;
    case 23: id = Inst::kIdMov; P(Z(r0)); P(Imm(is64 ? int64_t(0x1122334455667788ll + int64_t(b)) : int64_t(int32_t(b)))); break;
    default: id = Inst::kIdMov; P(gpd(r0)); P(gpd(r1)); e->set_inline_comment("c16 inline comment"); break;
  }
  return e->emit_op_array(id, o, n);
}

static Error a64_simple(Prog& p, uint64_t a, uint64_t b, uint64_t c) {
  using namespace a64;
  BaseEmitter* e = p.e;
  uint32_t r0 = uint32_t(a % 29), r1 = uint32_t((a >> 5) % 29), r2 = uint32_t((a >> 10) % 29);
  Operand_ o[4]; size_t n = 0;
  InstId id = Inst::kIdNop;
  auto P = [&](const Operand_& op) { o[n++] = op; };
  switch (c % 20) {
    case 0: id = Inst::kIdAdd; P(x(r0)); P(x(r1)); P(x(r2)); break;
    case 1: id = Inst::kIdAdd; P(w(r0)); P(w(r1)); P(Imm(b % 4096)); break;
    case 2: id = Inst::kIdSub; P(x(r0)); P(x(r1)); P(Imm(b % 4096)); break;
    case 3: id = Inst::kIdMul; P(w(r0)); P(w(r1)); P(w(r2)); break;
    case 4: id = Inst::kIdMov; P(x(r0)); P(Imm(b % 65536)); break;
    case 5: id = Inst::kIdMov; P(x(r0)); P(x(r1)); break;
    case 6: id = Inst::kIdLdr; P(x(r0)); P(ptr(x(r1), int32_t(b % 64) * 8)); break;
    case 7: id = Inst::kIdStr; P(w(r0)); P(ptr(x(r1), int32_t(b % 64) * 4)); break;
    case 8: id = Inst::kIdLdp; P(x(r0)); P(x(r2)); P(ptr(x(r1), 16)); break;
    case 9: id = Inst::kIdAnd; P(x(r0)); P(x(r1)); P(Imm(0xFF)); break;
    case 10: id = Inst::kIdLsl; P(x(r0)); P(x(r1)); P(Imm(b % 64)); break;
    case 11: id = Inst::kIdCmp; P(x(r0)); P(x(r1)); break;
    case 12: id = Inst::kIdFadd_v; P(d(r0)); P(d(r1)); P(d(r2)); break;
    case 13: id = Inst::kIdAdd_v; P(v(r0).s4()); P(v(r1).s4()); P(v(r2).s4()); break;
    case 14: id = Inst::kIdNop; break;
    case 15: id = Inst::kIdRet; P(x(30)); break;
    case 16: id = Inst::kIdBrk; P(Imm(b % 65536)); break;
    case 17: id = Inst::kIdMadd; P(x(r0)); P(x(r1)); P(x(r2)); P(x(r0)); break;
    case 18: id = Inst::kIdEor; P(w(r0)); P(w(r1)); P(w(r2)); break;
    default: id = Inst::kIdMov; P(w(r0)); P(w(r1)); e->set_inline_comment("c16 inline comment"); break;
  }
  return e->emit_op_array(id, o, n);
}

static Error simple_inst(Prog& p, uint64_t a, uint64_t b, uint64_t c) {
  return p.arch == kArchA64 ? a64_simple(p, a, b, c) : x86_simple(p, a, b, c);
}

static Error db_inst(Prog& p, uint64_t a, uint64_t b, uint64_t c) {
  if (!g_db_ok || p.arch == kArchA64) return simple_inst(p, a, b, c);
  int mode = p.arch == kArchX64 ? 64 : 32;
  size_t fi = size_t(mix64(a * 7919 + c) % g_db.forms.size());
  const xdb::Form& f = g_db.forms[fi];
  InstId id = g_db_ids[p.arch == kArchX64 ? 0 : 1][fi];
  if (!f.mode_ok(mode) || f.is_apx() || id == 0) return simple_inst(p, a, b, c);
  std::vector<int64_t> ch(40);
  uint64_t s = mix64(b * 1000003ull + a);
  for (size_t i = 0; i < ch.size(); i++) { s = mix64(s + i); ch[i] = int64_t(s >> 33); }
  xi::Choices cc(ch, 0);
  xi::XInst x = xi::instantiate(f, mode, cc);
  if (!x.valid) return simple_inst(p, a, b, c);
  p.cls("item_dbinst_used");
  return xi::emit(*p.e, id, x);
}

static Error jump_inst(Prog& p, const Label& L, uint64_t b, uint64_t c) {
  BaseEmitter* e = p.e;
  Operand_ o[3]; size_t n = 0;
  InstId id;
  if (p.arch == kArchA64) {
    using namespace a64;
    uint32_t r = uint32_t(b % 29);
    switch (c % 8) {
      case 0: id = Inst::kIdB; o[n++] = L; break;
      case 1: id = BaseInst::compose_arm_inst_id(Inst::kIdB, CondCode(2 + (b % 14))); o[n++] = L; break;
      case 2: id = Inst::kIdBl; o[n++] = L; break;
      case 3: id = Inst::kIdCbz; o[n++] = x(r); o[n++] = L; break;
      case 4: id = Inst::kIdCbnz; o[n++] = w(r); o[n++] = L; break;
      case 5: id = Inst::kIdTbz; o[n++] = x(r); o[n++] = Imm(b % 64); o[n++] = L; break;
      case 6: id = Inst::kIdAdr; o[n++] = x(r); o[n++] = L; break;
      default: id = Inst::kIdLdr; o[n++] = x(r); o[n++] = ptr(L); break;
    }
  }
  else {
    using namespace x86;
    static const InstId jcc[] = {Inst::kIdJz, Inst::kIdJnz, Inst::kIdJl, Inst::kIdJge, Inst::kIdJa, Inst::kIdJbe, Inst::kIdJs, Inst::kIdJo};
    switch (c % 8) {
      case 0: case 1: id = Inst::kIdJmp; break;
      case 2: case 3: case 4: id = jcc[b % 8]; break;
      case 5: id = Inst::kIdCall; break;
      case 6: id = Inst::kIdJmp; if ((b & 15) == 0) e->add_inst_options(InstOptions::kShortForm); else e->add_inst_options(InstOptions::kLongForm); break;
      default: id = jcc[b % 8]; e->add_inst_options(InstOptions::kLongForm); break;
    }
    o[n++] = L;
  }
  return e->emit_op_array(id, o, n);
}

static Error memlabel_inst(Prog& p, const Label& L, uint64_t b, uint64_t c) {
  Operand_ o[3]; size_t n = 0;
  InstId id;
  if (p.arch == kArchA64) {
    using namespace a64;
    uint32_t r = uint32_t(b % 29);
    if (c & 1) { id = Inst::kIdLdr; o[n++] = w(r); o[n++] = ptr(L); } else { id = Inst::kIdAdr; o[n++] = x(r); o[n++] = L; }
  }
  else {
    using namespace x86;
    bool is64 = p.arch == kArchX64;
    uint32_t r = uint32_t(b % 8);
    int32_t disp = int32_t((b >> 3) % 5) * 4;
    switch (c % 4) {
      case 0: id = Inst::kIdMov; o[n++] = gpd(r); o[n++] = dword_ptr(L, disp); break;
      case 1: id = Inst::kIdLea; o[n++] = is64 ? gpq(r) : gpd(r); o[n++] = ptr(L, disp); break;
      case 2: id = Inst::kIdAddss; o[n++] = xmm(r); o[n++] = dword_ptr(L, disp); break;
      default: id = Inst::kIdMov; o[n++] = dword_ptr(L, disp); o[n++] = gpd(r); break;
    }
  }
  return p.e->emit_op_array(id, o, n);
}

template<class CC> static void run_func(Prog& p, CC& cc, Cur& c, uint64_t sig, int nbody);

// Runs raw items until the cursor is exhausted (max `max_items`).
static void run_raw(Prog& p, Cur& c, int max_items) {
  BaseEmitter* e = p.e;
  CodeHolder& code = p.code;
  if (p.secs.empty()) { p.secs.push_back(code.text_section()); p.switch_section(0); }   // the emitter may have been left in another section
  for (int it = 0; it < max_items && c.more(); it++) {
    uint64_t type = c.next() % T_COUNT, a = c.next(), b = c.next(), cc = c.next();
    switch (type) {
      case T_INST: p.tr("i", simple_inst(p, a, b, cc)); p.cls("item_inst"); break;
      case T_DBINST: p.tr("d", db_inst(p, a, b, cc)); p.cls("item_dbinst"); break;
      case T_LABEL_NEW: { Label l = e->new_label(); p.trl("nl", l); if (l.is_valid()) p.add_label(l); p.cls("item_label_anon"); break; }
      case T_LABEL_NAMED: {
        char nm[96];
        const char* base = kNamePool[a % uint64_t(kNamePoolSize)];
        if (b & 1) snprintf(nm, sizeof nm, "%s", base); else snprintf(nm, sizeof nm, "%s_%d", base, p.named_ctr++);
        LabelType lt; uint32_t parent = Globals::kInvalidId;
        switch (cc % 5) {
          case 0: case 1: lt = LabelType::kGlobal; break;
          case 2: lt = LabelType::kAnonymous; break;
          case 3: lt = LabelType::kExternal; break;
          default: lt = LabelType::kLocal; if (p.labels.empty()) lt = LabelType::kGlobal; else parent = p.labels[size_t(b >> 1) % p.labels.size()].id(); break;
        }
        Label l = e->new_named_label(nm, SIZE_MAX, lt, parent);
        p.trl("nn", l);
        if (l.is_valid()) { p.add_label(l); p.any_named = true; }
        p.cls(lt == LabelType::kLocal ? "item_label_local" : lt == LabelType::kAnonymous ? "item_label_named_anon" : "item_label_named");
        break;
      }
      case T_BIND: {
        int k = p.pick_unbound(a);
        if (k < 0) { Label l = e->new_label(); p.trl("nl", l); if (!l.is_valid()) break; k = int(p.add_label(l)); }
        p.do_bind(size_t(k));
        p.cls("item_bind");
        break;
      }
      case T_JUMP: {
        if (!p.need_label()) break;
        int kk = p.pick_ref(a);
        if (kk < 0) { Label l = e->new_label(); p.trl("nl", l); if (!l.is_valid()) break; p.add_label(l); kk = p.pick_ref(p.labels.size() - 1); if (kk < 0) break; }
        size_t k = size_t(kk);
        if (p.bound[k]) { p.any_bwd = true; p.cls("item_jump_bound"); } else { p.any_fwd = true; p.cls("item_jump_unbound"); }
        p.tr("j", jump_inst(p, p.labels[k], b, cc));
        break;
      }
      case T_ALIGN: {
        static const AlignMode modes[] = {AlignMode::kCode, AlignMode::kData, AlignMode::kZero};
        p.tr("al", e->align(modes[a % 3], 1u << (b % 7)));
        if (cc & 8) { Section* sec = p.secs[size_t(p.cur_sec)]; sec->set_alignment(std::max<uint32_t>(sec->alignment(), 1u << (b % 7))); p.cls("item_section_set_alignment"); }
        p.cls("item_align");
        break;
      }
      case T_EMBED: {
        uint8_t data[64];
        size_t n = size_t(a % 48) + (p.arch == kArchA64 ? 0 : 0);
        for (size_t i = 0; i < n; i++) data[i] = uint8_t(b * 31 + i * 7 + cc);
        p.tr("em", e->embed(data, n));
        p.cls("item_embed");
        break;
      }
      case T_EMBED_ARRAY: {
        static const TypeId tids[] = {TypeId::kUInt8, TypeId::kInt16, TypeId::kUInt32, TypeId::kInt64, TypeId::kFloat64, TypeId::kIntPtr};
        uint64_t vals[4] = {b, cc, b ^ cc, b + cc};
        p.tr("ea", e->embed_data_array(tids[a % 6], vals, 1 + size_t(b % 4), 1 + size_t(cc % 3)));
        p.cls("item_embed_array");
        break;
      }
      case T_EMBED_LABEL: {
        if (!p.need_label()) break;
        size_t k = size_t(a) % p.labels.size();
        static const size_t sz[] = {0, 4, 8, 0};
        size_t ds = sz[b % 4];
        if (p.arch == kArchX86 && ds == 8) ds = 4;
        p.tr("el", e->embed_label(p.labels[k], ds));
        p.any_reloc = true;
        p.cls("item_embed_label");
        break;
      }
      case T_EMBED_DELTA: {
        if (!p.need_label()) break;
        size_t k = size_t(a) % p.labels.size(), k2 = size_t(b) % p.labels.size();
        static const size_t sz[] = {0, 4, 8, 2};
        p.tr("ed", e->embed_label_delta(p.labels[k], p.labels[k2], sz[cc % 4]));
        p.any_reloc = true;
        p.cls("item_embed_delta");
        break;
      }
      case T_SECTION_NEW: {
        if (p.secs.size() >= 6) { p.switch_section(a % p.secs.size()); break; }
        Section* sec = nullptr;
        static const SectionFlags sf[] = {SectionFlags::kNone, SectionFlags::kReadOnly, SectionFlags::kExecutable | SectionFlags::kReadOnly, SectionFlags::kZeroInitialized};
        static const int32_t orders[] = {0, 0, -5, 7, 100};
        Error err = p.tr("ns", code.new_section(Out(sec), kSecNames[a % 8], SIZE_MAX, sf[b % 4], 1u << (cc % 6), orders[(b >> 2) % 5]));
        if (err == Error::kOk && sec) { p.secs.push_back(sec); p.switch_section(p.secs.size() - 1); p.any_section = true; }
        p.cls("item_section_new");
        break;
      }
      case T_SECTION_SWITCH: p.switch_section(a % p.secs.size()); p.cls("item_section_switch"); break;
      case T_CONSTPOOL: {
        Arena arena(1024);
        ConstPool pool(arena);
        size_t nconst = 1 + size_t(a % 5);
        for (size_t i = 0; i < nconst; i++) {
          uint64_t v[2] = {mix64(b + i) & ((i & 1) ? 0xFFull : ~0ull), cc + i};
          static const size_t cs[] = {4, 8, 16, 2, 1};
          size_t off;
          (void)pool.add(v, cs[(b + i) % 5], Out(off));
        }
        Label l = e->new_label();
        p.trl("nl", l);
        if (!l.is_valid()) break;
        size_t k = p.add_label(l);
        p.tr("cp", e->embed_const_pool(l, pool));
        p.bound[k] = 1; p.lsec[k] = p.cur_sec;
        p.any_pool = true;
        p.cls("item_constpool");
        break;
      }
      case T_MEMLABEL: {
        if (!p.need_label()) break;
        int kk = p.pick_ref(a);
        if (kk < 0) break;
        size_t k = size_t(kk);
        p.tr("ml", memlabel_inst(p, p.labels[k], b, cc));
        if (p.arch == kArchX86) p.any_reloc = true;
        p.cls("item_memlabel");
        break;
      }
      case T_ABSJMP: {
        if (p.arch == kArchA64) { p.tr("i", simple_inst(p, a, b, cc)); break; }
        static const uint64_t tg[] = {0x1000, 0x7fff12345678ull, 0x10000040, 0x7fff12345678ull, 0xfffffffffff0ull};
        Operand_ o[1] = {Imm(int64_t(p.arch == kArchX86 ? (tg[a % 5] & 0xffffffffu) : tg[a % 5]))};
        p.tr("aj", e->emit_op_array((b & 1) ? x86::Inst::kIdCall : x86::Inst::kIdJmp, o, 1));
        p.any_reloc = true;
        p.cls("item_absjmp");
        break;
      }
      case T_COMMENT: {
        char buf[48]; snprintf(buf, sizeof buf, "note %u", unsigned(a % 1000));
        p.tr("cm", e->comment(buf));
        p.cls("item_comment");
        break;
      }
      case T_BULK: {
        int n = 8 + int(a % 250);
        if (b & 1) {
          for (int i = 0; i < n; i++) {
            char nm[160]; snprintf(nm, sizeof nm, "bulk_%d%s", i, (cc & 1) ? "_padding_padding_padding_padding_padding_padding_padding_padding_padding_padding" : "");
            Label l = e->new_named_label(nm, SIZE_MAX, LabelType::kGlobal);
            if (!l.is_valid()) { p.trl("nn", l); break; }
            if (i < 4) p.add_label(l);
          }
          p.any_named = true;
          sfmt(p.trace, "bulkn%d;", n);
          p.cls("item_bulk_named_labels");
        }
        else {
          if (!p.need_label()) break;
          size_t k = size_t(cc) % p.labels.size();
          for (int i = 0; i < n; i++) if (e->embed_label(p.labels[k], 4) != Error::kOk) { p.nerr++; p.trace += "bulkr!;"; break; }
          p.any_reloc = true;
          sfmt(p.trace, "bulkr%d;", n);
          p.cls("item_bulk_relocs");
        }
        break;
      }
      case T_FUNC: {
        int nbody = int(b % 20);
        if (p.kind != kCompiler) { p.tr("i", simple_inst(p, a, b, cc)); break; }
        if (p.arch == kArchA64) run_func(p, *static_cast<a64::Compiler*>(e), c, a, nbody);
        else run_func(p, *static_cast<x86::Compiler*>(e), c, a, nbody);
        break;
      }
    }
  }
}

// =====================================================================================================================
// Compiler functions over virtual registers
// =====================================================================================================================
struct X86T {
  using CC = x86::Compiler; using Gp = x86::Gp; using Vec = x86::Vec; using Mem = x86::Mem;
  static bool has64(int arch) { return arch == kArchX64; }
  static Gp gp32(CC& cc, const char* n, int i) { return cc.new_gp32(n, i); }
  static Gp gpz(CC& cc, const char* n, int i) { return cc.new_gpz(n, i); }
  static Vec vec(CC& cc, const char* n, int i) { return cc.new_xmm_sd(n, i); }
  static Error mov_imm(CC& cc, const Gp& r, int64_t v) { return cc.emit(x86::Inst::kIdMov, r, Imm(v)); }
  static Error vec_init(CC& cc, const Vec& v, const Gp&) { return cc.emit(x86::Inst::kIdXorps, v, v); }
  static Error binop(CC& cc, unsigned k, const Gp& d, const Gp& s) {
    static const InstId ids[] = {x86::Inst::kIdAdd, x86::Inst::kIdSub, x86::Inst::kIdAnd, x86::Inst::kIdOr, x86::Inst::kIdXor, x86::Inst::kIdImul};
    return cc.emit(ids[k % 6], d, s);
  }
  static Error binop_imm(CC& cc, unsigned k, const Gp& d, int32_t v) {
    static const InstId ids[] = {x86::Inst::kIdAdd, x86::Inst::kIdSub, x86::Inst::kIdAnd, x86::Inst::kIdOr, x86::Inst::kIdXor};
    return cc.emit(ids[k % 5], d, Imm(v));
  }
  static Error vecop(CC& cc, unsigned k, const Vec& d, const Vec& s) { return cc.emit((k & 1) ? x86::Inst::kIdAddsd : x86::Inst::kIdMulsd, d, s); }
  static Error store(CC& cc, const Mem& m, const Gp& r) { return cc.emit(x86::Inst::kIdMov, m, r); }
  static Error load(CC& cc, const Gp& r, const Mem& m) { return cc.emit(x86::Inst::kIdMov, r, m); }
  static Error dec_and_loop(CC& cc, const Gp& cnt, const Label& L) { Error e = cc.emit(x86::Inst::kIdDec, cnt); if (e != Error::kOk) return e; return cc.emit(x86::Inst::kIdJnz, L); }
  static Error skip_if_zero(CC& cc, const Gp& r, const Label& L) { Error e = cc.emit(x86::Inst::kIdTest, r, r); if (e != Error::kOk) return e; return cc.emit(x86::Inst::kIdJz, L); }
  static Error jump(CC& cc, const Label& L) { return cc.emit(x86::Inst::kIdJmp, L); }
  static Mem sized4(const Mem& m) { Mem r = m; r.set_size(4); return r; }
  static Error invoke(CC& cc, Out<InvokeNode*> out, int64_t target, const FuncSignature& fs, int&) { return cc.invoke(out, Imm(target), fs); }
  static Error load_label_address(CC& cc, const Gp& r, const Label& L) { return cc.emit(x86::Inst::kIdLea, r, x86::ptr(L)); }
  static Error indirect_jump(CC& cc, const Gp& r, JumpAnnotation* ann) { return cc.jmp(r, ann); }
};

struct A64T {
  using CC = a64::Compiler; using Gp = a64::Gp; using Vec = a64::Vec; using Mem = a64::Mem;
  static bool has64(int) { return true; }
  static Gp gp32(CC& cc, const char* n, int i) { return cc.new_gp32(n, i); }
  static Gp gpz(CC& cc, const char* n, int i) { return cc.new_gpz(n, i); }
  static Vec vec(CC& cc, const char* n, int i) { return cc.new_vec_d(n, i); }
  static Error mov_imm(CC& cc, const Gp& r, int64_t v) { return cc.emit(a64::Inst::kIdMov, r, Imm(v & 0xFFFF)); }
  static Error vec_init(CC& cc, const Vec& v, const Gp& g) { return cc.emit(a64::Inst::kIdScvtf_v, v, g); }
  static Error binop(CC& cc, unsigned k, const Gp& d, const Gp& s) {
    static const InstId ids[] = {a64::Inst::kIdAdd, a64::Inst::kIdSub, a64::Inst::kIdAnd, a64::Inst::kIdOrr, a64::Inst::kIdEor, a64::Inst::kIdMul};
    return cc.emit(ids[k % 6], d, d, s);
  }
  static Error binop_imm(CC& cc, unsigned k, const Gp& d, int32_t v) { return cc.emit((k & 1) ? a64::Inst::kIdAdd : a64::Inst::kIdSub, d, d, Imm(uint32_t(v) % 4096)); }
  static Error vecop(CC& cc, unsigned k, const Vec& d, const Vec& s) { return cc.emit((k & 1) ? a64::Inst::kIdFadd_v : a64::Inst::kIdFmul_v, d, d, s); }
  static Error store(CC& cc, const Mem& m, const Gp& r) { return cc.emit(a64::Inst::kIdStr, r, m); }
  static Error load(CC& cc, const Gp& r, const Mem& m) { return cc.emit(a64::Inst::kIdLdr, r, m); }
  static Error dec_and_loop(CC& cc, const Gp& cnt, const Label& L) { Error e = cc.emit(a64::Inst::kIdSubs, cnt, cnt, Imm(1)); if (e != Error::kOk) return e; return cc.emit(BaseInst::compose_arm_inst_id(a64::Inst::kIdB, a64::CondCode::kNE), L); }
  static Error skip_if_zero(CC& cc, const Gp& r, const Label& L) { return cc.emit(a64::Inst::kIdCbz, r, L); }
  static Error jump(CC& cc, const Label& L) { return cc.emit(a64::Inst::kIdB, L); }
  static Mem sized4(const Mem& m) { return m; }
  static Error invoke(CC& cc, Out<InvokeNode*> out, int64_t target, const FuncSignature& fs, int& ctr) {
    Gp t = cc.new_gpz("tgt%d", ctr++);
    cc.emit(a64::Inst::kIdMov, t, Imm(target & 0xFFFF));
    return cc.invoke(out, t, fs);
  }
  static Error load_label_address(CC& cc, const Gp& r, const Label& L) { return cc.emit(a64::Inst::kIdAdr, r, L); }
  static Error indirect_jump(CC& cc, const Gp& r, JumpAnnotation* ann) { return cc.br(r, ann); }
};

template<class T> struct TraitsOf;
template<> struct TraitsOf<x86::Compiler> { using type = X86T; };
template<> struct TraitsOf<a64::Compiler> { using type = A64T; };

template<class CC>
static void run_func(Prog& p, CC& cc, Cur& c, uint64_t sig, int nbody) {
  using T = typename TraitsOf<CC>::type;
  using Gp = typename T::Gp; using Vec = typename T::Vec; using Mem = typename T::Mem;
  p.any_func = true;
  p.cls("item_func");
  FuncSignature fs;
  int ret = int(sig % 4);               // 0 void 1 i32 2 intptr 3 f64
  int nargs = int((sig >> 2) % 6);
  fs.set_ret(ret == 0 ? TypeId::kVoid : ret == 1 ? TypeId::kInt32 : ret == 2 ? TypeId::kIntPtr : TypeId::kFloat64);
  int at[6];
  for (int i = 0; i < nargs; i++) { at[i] = int((sig >> (5 + 2 * i)) % 3); fs.add_arg(at[i] == 0 ? TypeId::kInt32 : at[i] == 1 ? TypeId::kIntPtr : TypeId::kFloat64); }
  FuncNode* fn = cc.add_func(fs);
  if (!fn) { p.nerr++; p.trace += "func!;"; // consume the body items anyway
    for (int i = 0; i < nbody && c.more(); i++) { c.next(); c.next(); c.next(); c.next(); } return; }
  sfmt(p.trace, "func=%d;", int(fn->label().id()));
  p.func_labels.push_back(fn->label().id());
  if ((sig >> 20) & 1) fn->frame().set_preserved_fp();
  std::vector<Gp> g32, gz; std::vector<Vec> vs;
  int ctr = 0;
  for (int i = 0; i < nargs; i++) {
    if (at[i] == 0) { Gp r = T::gp32(cc, "a%d", i); g32.push_back(r); fn->set_arg(size_t(i), r); }
    else if (at[i] == 1) { Gp r = T::gpz(cc, "p%d", i); gz.push_back(r); fn->set_arg(size_t(i), r); }
    else { Vec r = T::vec(cc, "f%d", i); vs.push_back(r); fn->set_arg(size_t(i), r); }
  }
  auto need32 = [&]() { if (g32.empty()) { Gp r = T::gp32(cc, "t%d", ctr++); p.tr("mi", T::mov_imm(cc, r, 7)); g32.push_back(r); } };
  auto needv = [&]() { if (vs.empty()) { need32(); Vec v = T::vec(cc, "v%d", ctr++); p.tr("vi", T::vec_init(cc, v, g32[0])); vs.push_back(v); } };
  for (int i = 0; i < nbody && c.more(); i++) {
    uint64_t bt = c.next(), a = c.next(), b = c.next(), d = c.next();
    bt = (bt + d) % 13;
    switch (bt) {
      case 0: { Gp r = T::gp32(cc, "t%d", ctr++); p.tr("mi", T::mov_imm(cc, r, int64_t(a % 100000))); g32.push_back(r); p.cls("func_new_gp32"); break; }
      case 1: { Gp r = T::gpz(cc, "z%d", ctr++); p.tr("mi", T::mov_imm(cc, r, int64_t(a % 1000))); gz.push_back(r); p.cls("func_new_gpz"); break; }
      case 2: { need32(); Vec v = T::vec(cc, "v%d", ctr++); p.tr("vi", T::vec_init(cc, v, g32[a % g32.size()])); vs.push_back(v); p.cls("func_new_vec"); break; }
      case 3: { need32(); p.tr("op", T::binop(cc, unsigned(d), g32[a % g32.size()], g32[b % g32.size()])); p.cls("func_binop"); break; }
      case 4: { need32(); p.tr("oi", T::binop_imm(cc, unsigned(d), g32[a % g32.size()], int32_t(b % 2000))); break; }
      case 5: { needv(); p.tr("vo", T::vecop(cc, unsigned(d), vs[a % vs.size()], vs[b % vs.size()])); p.cls("func_vecop"); break; }
      case 6: {
        need32();
        Mem m = cc.new_stack(uint32_t(4 << (a % 4)), uint32_t(4 << (b % 3)), (d & 1) ? "stk" : nullptr);
        Mem m4 = T::sized4(m);
        p.tr("st", T::store(cc, m4, g32[a % g32.size()]));
        p.tr("ld", T::load(cc, g32[b % g32.size()], m4));
        p.cls("func_stack");
        break;
      }
      case 7: {
        need32();
        int32_t v = int32_t(b % 5) * 1111;
        if (p.force_local_consts) d &= ~uint64_t(1);
        Mem m = cc.new_const((d & 1) ? ConstPoolScope::kGlobal : ConstPoolScope::kLocal, &v, 4);
        p.tr("cl", T::load(cc, g32[a % g32.size()], m));
        p.any_pool = true;
        p.cls((d & 1) ? "func_const_global" : "func_const_local");
        break;
      }
      case 8: {
        need32();
        Gp cnt = T::gp32(cc, "cnt%d", ctr++);
        p.tr("mi", T::mov_imm(cc, cnt, int64_t(1 + a % 9)));
        Label L = cc.new_label();
        p.trl("nl", L);
        if (!L.is_valid()) break;
        p.tr("bind", cc.bind(L));
        p.tr("op", T::binop(cc, unsigned(d), g32[a % g32.size()], g32[b % g32.size()]));
        if (d & 8) { needv(); p.tr("vo", T::vecop(cc, unsigned(d), vs[a % vs.size()], vs[b % vs.size()])); }
        p.tr("lp", T::dec_and_loop(cc, cnt, L));
        p.any_bwd = true;
        p.cls("func_loop");
        break;
      }
      case 9: {
        need32();
        Label L = cc.new_label();
        p.trl("nl", L);
        if (!L.is_valid()) break;
        p.tr("sk", T::skip_if_zero(cc, g32[a % g32.size()], L));
        p.tr("oi", T::binop_imm(cc, unsigned(d), g32[b % g32.size()], int32_t(d % 100)));
        if (d & 16) { Gp r = T::gp32(cc, "c%d", ctr++); p.tr("mi", T::mov_imm(cc, r, 3)); p.tr("op", T::binop(cc, 0, g32[b % g32.size()], r)); }
        p.tr("bind", cc.bind(L));
        p.any_fwd = true;
        p.cls("func_fwd_branch");
        break;
      }
      case 10: {
        need32();
        InvokeNode* inv = nullptr;
        FuncSignature cs; cs.set_ret(TypeId::kInt32); cs.add_arg(TypeId::kInt32); cs.add_arg(TypeId::kInt32);
        Error err = p.tr("inv", T::invoke(cc, Out(inv), int64_t(0x12340000 + (a % 16) * 64), cs, ctr));
        if (err == Error::kOk && inv) {
          inv->set_arg(0, g32[a % g32.size()]);
          inv->set_arg(1, g32[b % g32.size()]);
          Gp r = T::gp32(cc, "r%d", ctr++);
          inv->set_ret(0, r);
          g32.push_back(r);
        }
        p.cls("func_invoke");
        break;
      }
      case 11: {
        // indirect jump with a JumpAnnotation listing the possible targets
        if (!p.allow_annotations) { p.tr("cm", cc.comment("no annotation")); break; }
        Label L0 = cc.new_label(), L1 = cc.new_label(), Le = cc.new_label();
        p.trl("nl", L0); p.trl("nl", L1); p.trl("nl", Le);
        if (!L0.is_valid() || !L1.is_valid() || !Le.is_valid()) break;
        need32();
        Gp tgt = T::gpz(cc, "jt%d", ctr++);
        p.tr("la", T::load_label_address(cc, tgt, (a & 1) ? L1 : L0));
        JumpAnnotation* ann = cc.new_jump_annotation();
        if (!ann) { p.nerr++; p.trace += "ann!;"; break; }
        sfmt(p.trace, "ann=%u;", ann->annotation_id());
        p.tr("al0", ann->add_label(L0));
        p.tr("al1", ann->add_label(L1));
        p.tr("ij", T::indirect_jump(cc, tgt, ann));
        p.tr("bind", cc.bind(L0));
        p.tr("oi", T::binop_imm(cc, 0, g32[a % g32.size()], 11));
        p.tr("jmp", T::jump(cc, Le));
        p.tr("bind", cc.bind(L1));
        p.tr("oi", T::binop_imm(cc, 1, g32[b % g32.size()], 22));
        p.tr("bind", cc.bind(Le));
        p.cls("func_jump_annotation");
        break;
      }
      default: {
        char buf[40]; snprintf(buf, sizeof buf, "body note %u", unsigned(a % 100));
        p.tr("cm", cc.comment(buf));
        if (!g32.empty() && (d & 1)) cc.rename(g32[a % g32.size()], "ren%d", int(b % 50));
        break;
      }
    }
  }
  if (ret == 0) p.tr("ret", cc.ret());
  else if (ret == 1) { need32(); p.tr("ret", cc.ret(g32[sig % g32.size()])); }
  else if (ret == 2) { if (gz.empty()) { Gp r = T::gpz(cc, "z%d", ctr++); p.tr("mi", T::mov_imm(cc, r, 1)); gz.push_back(r); } p.tr("ret", cc.ret(gz[sig % gz.size()])); }
  else { needv(); p.tr("ret", cc.ret(vs[sig % vs.size()])); }
  p.tr("endf", cc.end_func());
}

// =====================================================================================================================
// Running P_final and the history
// =====================================================================================================================
static void run_final(ObjSet& hs, BaseEmitter* e, int arch, int kind, const vh::Op& prog, int post, vh::Ctx* cx, Snap& sn, Prog** info_out = nullptr, bool slice_mode = false) {
  CodeHolder& code = hs.code;
  size_t eh_mark = hs.eh.msgs.size();
  hs.logger.clear();
  static thread_local std::unique_ptr<Prog> keep;
  keep.reset(new Prog(code, e, arch, kind, cx));
  Prog& p = *keep;
  p.force_local_consts = slice_mode;
  Cur c(prog, 4);
  int pf = prog.size() > 2 ? int(prog[2]) : 0;
  run_raw(p, c, 64);
  if (pf & 4) p.bind_all();
  if (kind != kAsm) {
    BaseBuilder* bb = static_cast<BaseBuilder*>(e);
    String sb;
    FormatOptions fo;
    fo.set_flags(FormatFlags::kRegCasts | FormatFlags::kRegType | FormatFlags::kHexImms);
    Formatter::format_node_list(sb, fo, bb);
    sn.nodes.assign(sb.data(), sb.size());
    if (kind == kCompiler) sfmt(sn.nodes, "\n#vregs=%zu", static_cast<BaseCompiler*>(e)->virt_regs().size());
    p.tr("fin", e->finalize());
  }
  take_snapshot(code, sn);
  for (uint32_t id : p.func_labels) sn.func_offsets.push_back(code.is_label_bound(id) ? code.label_offset(id) : ~uint64_t(0));
  if (post) post_steps(code, kBases[1 + (post - 1) % 3], sn.post, nullptr);
  sn.trace = p.trace;
  sn.nerr = p.nerr;
  for (size_t i = eh_mark; i < hs.eh.msgs.size(); i++) { sn.errs += hs.eh.msgs[i]; sn.errs += '\n'; }
  sn.log.assign(hs.logger.data(), hs.logger.data_size());
  if (info_out) *info_out = &p;
}

struct Hist {
  bool gen_nonempty = false;      // some generation left a non-empty holder / emitter
  bool reset_after_gen = false;   // a reset/reinit/detach+attach happened after it
  int n_gen = 0, n_err = 0, n_reset = 0;
  std::string text;
};

static void hist_ensure(ObjSet& o, int arch_if_new, int kind, BaseEmitter*& e) {
  if (!o.inited()) o.do_init(arch_if_new % 3, Globals::kNoBaseAddress);
  e = o.em(o.arch, kind);
  if (!e->code()) o.code.attach(e);
}

static void inject_error(ObjSet& o, const vh::Op& op, vh::Ctx& ctx, Hist& h) {
  int variant = int(uint64_t(op.size() > 1 ? op[1] : 0) % 15);
  int kind = int(uint64_t(op.size() > 2 ? op[2] : 0) % 3);
  uint64_t a = op.size() > 3 ? uint64_t(op[3]) : 0;
  char cname[32]; snprintf(cname, sizeof cname, "err_v%d", variant);
  CodeHolder& code = o.code;
  BaseEmitter* e = nullptr;
  bool did = false;
  auto attached = [&](int k) -> BaseEmitter* { if (!o.inited()) return nullptr; BaseEmitter* x = o.em(o.arch, k); return x->code() == &code ? x : nullptr; };
  switch (variant) {
    case 0: {   // bad operand combination
      hist_ensure(o, int(a), kind, e);
      Operand_ ops[2] = {Imm(1), Imm(2)};
      if (o.arch == kArchA64) { ops[0] = a64::x(0); ops[1] = Imm(1); }
      e->set_inline_comment("failing");
      did = e->emit_op_array(o.arch == kArchA64 ? InstId(a64::Inst::kIdAdd) : InstId(x86::Inst::kIdAdd), ops, 2) != Error::kOk;
      break;
    }
    case 1: hist_ensure(o, int(a), kind, e); did = e->bind(Label(uint32_t(code.label_count() + 1000))) != Error::kOk; break;
    case 2: {
      hist_ensure(o, int(a), kind == kCompiler ? kBuilder : kind, e);
      Operand_ ops[1] = {Label(uint32_t(code.label_count() + 77))};
      did = e->emit_op_array(o.arch == kArchA64 ? InstId(a64::Inst::kIdB) : InstId(x86::Inst::kIdJmp), ops, 1) != Error::kOk;
      if (e->is_builder() && !o.spent.count(e)) did = o.finalize_once(e) != Error::kOk;
      break;
    }
    case 3: { hist_ensure(o, int(a), kAsm, e); Label l = e->new_label(); e->bind(l); did = e->bind(l) != Error::kOk; break; }
    case 4: { hist_ensure(o, int(a), kind, e); Label l1 = e->new_named_label("dup_name"); Label l2 = e->new_named_label("dup_name"); did = !l2.is_valid(); (void)l1; break; }
    case 5: if (o.inited()) did = code.init(Environment(arch_of(int(a % 3)))) != Error::kOk; break;
    case 6: if (o.inited()) { BaseEmitter* w = o.em(o.arch == kArchA64 ? kArchX64 : kArchA64, kind); if (!w->code()) did = code.attach(w) != Error::kOk; } break;
    case 7: if (o.inited()) { Section* s = nullptr; did = code.new_section(Out(s), (a & 1) ? "bad" : "a_name_that_is_way_too_long_for_a_section_name_xx", SIZE_MAX, SectionFlags::kNone, (a & 1) ? 3u : 1u) != Error::kOk; } break;
    case 8: { hist_ensure(o, int(a), kind == kCompiler ? kBuilder : kind, e); did = e->embed_label(Label(uint32_t(code.label_count() + 5)), 4) != Error::kOk; Label l = e->new_label(); did |= e->embed_label(l, 3) != Error::kOk; break; }
    case 9: {   // emit on a detached emitter: documented to fail with kNotInitialized
      BaseEmitter* x = o.em(int(a % 3), kind);
      if (!x->code()) {
        Operand_ none[1];
        size_t before = o.eh.msgs.size();
        did = x->emit_op_array(1, none, 0) != Error::kOk;
        if (o.eh.msgs.size() != before) ctx.fail_unless_known("detached-emitter-uses-old-error-handler", "a detached emitter reported an error to the error handler of its former holder");
      }
      break;
    }
    case 10: if (!o.inited()) did = code.reinit() != Error::kOk; else did = code.init(Environment(arch_of(o.arch))) != Error::kOk; break;
    case 11: { hist_ensure(o, int(a), kCompiler, e); BaseCompiler* cc = static_cast<BaseCompiler*>(e); if (!cc->func()) did = cc->end_func() != Error::kOk; break; }
    case 12: {  // function that jumps to a label that is never bound -> finalize fails inside the RA pass / serialization
      hist_ensure(o, int(a), kCompiler, e);
      BaseCompiler* cc = static_cast<BaseCompiler*>(e);
      if (cc->func() || o.spent.count(e)) break;
      FuncSignature fs; fs.set_ret(TypeId::kInt32); fs.add_arg(TypeId::kInt32);
      FuncNode* fn = nullptr;
      if (cc->add_func_node(Out(fn), fs) != Error::kOk || !fn) break;
      Label l = cc->new_label();
      if (o.arch == kArchA64) { a64::Compiler& c = o.ac; a64::Gp r = c.new_gp32("e"); fn->set_arg(0, r); c.add(r, r, 1); c.cbz(r, l); c.ret(r); }
      else { x86::Compiler& c = o.xc; x86::Gp r = c.new_gp32("e"); fn->set_arg(0, r); c.add(r, 1); c.jz(l); c.ret(r); }
      cc->end_func();
      did = o.finalize_once(e) != Error::kOk;
      break;
    }
    case 13: {  // unfinished function (no end_func) left in the compiler
      hist_ensure(o, int(a), kCompiler, e);
      BaseCompiler* cc = static_cast<BaseCompiler*>(e);
      if (cc->func() || o.spent.count(e)) break;
      FuncSignature fs; fs.set_ret(TypeId::kVoid);
      FuncNode* fn = nullptr;
      if (cc->add_func_node(Out(fn), fs) != Error::kOk || !fn) break;
      if (o.arch == kArchA64) { a64::Gp r = o.ac.new_gp32("u"); o.ac.mov(r, 1); (void)o.ac.new_const(ConstPoolScope::kLocal, "abcd", 4); }
      else { x86::Gp r = o.xc.new_gp32("u"); o.xc.mov(r, 1); (void)o.xc.new_const(ConstPoolScope::kGlobal, "abcd", 4); }
      did = true;
      break;
    }
    default: {  // x86 short jump out of range -> kInvalidDisplacement when the label is bound (fixup stays unresolved)
      if (o.inited() && o.arch == kArchA64) break;
      hist_ensure(o, int(a & 1), kAsm, e);
      if (o.arch == kArchA64) break;
      Label l = e->new_label();
      e->add_inst_options(InstOptions::kShortForm);
      Operand_ ops[1] = {l};
      e->emit_op_array(x86::Inst::kIdJmp, ops, 1);
      uint8_t z[200] = {0};
      e->embed(z, sizeof z);
      did = e->bind(l) != Error::kOk;
      break;
    }
  }
  (void)attached;
  if (did) { ctx.cls("hist_error_injected"); ctx.cls(cname); h.n_err++; }
  else ctx.cls("hist_error_not_applicable");
}

// A detached emitter (we never give emitters an own logger / error handler) must not keep anything of its former holder.
static void check_detached(vh::Ctx& ctx, ObjSet& o, const char* when) {
  for (int a = 0; a < 3; a += 2) for (int k = 0; k < 3; k++) {
    BaseEmitter* e = o.em(a, k);
    if (e->code()) continue;
    std::string why;
    if (e->logger()) why += "logger ";
    if (e->error_handler()) why += "error_handler ";
    if (e->inst_options() != InstOptions::kNone) why += "inst_options ";
    if (e->has_extra_reg()) why += "extra_reg ";
    if (e->inline_comment()) why += "inline_comment ";
    if (e->has_emitter_flag(EmitterFlags::kAttached)) why += "kAttached ";
    if (e->_attached_prev || e->_attached_next) why += "attached_links ";
    if (e->environment().is_initialized()) why += "environment ";
    if (k != kAsm) {
      BaseBuilder* bb = static_cast<BaseBuilder*>(e);
      if (bb->first_node()) why += "node_list ";
      if (!bb->_passes.is_empty()) why += "passes ";
      if (!bb->_label_nodes.is_empty()) why += "label_nodes ";
      if (!bb->_section_nodes.is_empty()) why += "section_nodes ";
      if (bb->cursor()) why += "cursor ";
    }
    if (k == kCompiler) {
      BaseCompiler* bc = static_cast<BaseCompiler*>(e);
      if (!bc->virt_regs().is_empty()) why += "virt_regs ";
      if (bc->func()) why += "func ";
      if (bc->_const_pools[0] || bc->_const_pools[1]) why += "const_pools ";
      if (!bc->jump_annotations().is_empty()) why += "jump_annotations ";
    }
    bool clean = why.empty();
    if (!clean) {
      // one key per stale member so that a known finding does not hide the others
      size_t p0 = 0;
      while (p0 < why.size()) {
        size_t p1 = why.find(' ', p0);
        std::string w = why.substr(p0, p1 - p0);
        ctx.fail_unless_known("residue-detached-emitter:" + w, std::string(when) + ": detached " + kKindName[k] + " emitter still has state of its former holder: " + why);
        p0 = p1 + 1;
      }
    }
  }
}

// The holder's list of attached emitters must contain exactly the emitters that say they are attached to it, with consistent links.
static void check_attached_list(vh::Ctx& ctx, ObjSet& o, const char* when) {
  std::set<const BaseEmitter*> model, seen;
  for (int a = 0; a < 3; a += 2) for (int k = 0; k < 3; k++) if (o.em(a, k)->code() == &o.code) model.insert(o.em(a, k));
  const BaseEmitter* prev = nullptr;
  bool ok = true;
  int guard = 0;
  for (const BaseEmitter* e = o.code.attached_first(); e && guard < 16; e = e->_attached_next, guard++) {
    if (e->_attached_prev != prev || !seen.insert(e).second) ok = false;
    prev = e;
  }
  if (o.code.attached_last() != prev || seen != model) ok = false;
  if (!ok) ctx.fail_unless_known("attached-emitter-list-corrupt", std::string(when) + ": CodeHolder's attached-emitter list has " + std::to_string(seen.size()) + " reachable entries, " + std::to_string(model.size()) + " emitters are attached, or links are inconsistent");
  if (model.size() >= 2) ctx.cls("hist_two_or_more_emitters_attached");
}

// After reset() a holder is uninitialised again: everything observable must look like a default-constructed holder.
static void check_uninitialized(vh::Ctx& ctx, CodeHolder& code, const char* when) {
  std::string why;
  if (code.is_initialized()) why += "initialized ";
  if (code.base_address() != Globals::kNoBaseAddress) why += "base_address ";
  if (code.logger()) why += "logger ";
  if (code.error_handler()) why += "error_handler ";
  if (code.attached_first() || code.attached_last()) why += "attached_emitters ";
  if (code.section_count() || !code.sections_by_order().is_empty()) why += "sections ";
  if (code.label_count()) why += "labels ";
  if (code.has_reloc_entries()) why += "relocs ";
  if (code.unresolved_fixup_count() || code._fixups) why += "fixups ";
  if (code.has_address_table_section() || !code._address_table_entries.is_empty()) why += "address_table ";
  if (code.code_size()) why += "code_size ";
  if (code._text_section.buffer_size()) why += "text_size ";
  { CpuFeatures cf = code.cpu_features(), def{}; if (memcmp(&cf, &def, sizeof cf) != 0) why += "cpu_features "; }
  if (code.label_id_by_name("alpha") != Globals::kInvalidId || code.label_id_by_name("dup_name") != Globals::kInvalidId) why += "named_labels ";
  size_t p0 = 0;
  while (p0 < why.size()) {
    size_t p1 = why.find(' ', p0);
    ctx.fail_unless_known("residue-uninitialized-holder:" + why.substr(p0, p1 - p0), std::string(when) + ": holder is not back in the default-constructed state: " + why);
    p0 = p1 + 1;
  }
}

static void apply_hist(ObjSet& o, const vh::Op& op, vh::Ctx& ctx, Hist& h) {
  if (op.empty()) return;
  int opc = int(uint64_t(op[0]) % 10);
  auto arg = [&](size_t i) -> uint64_t { return i < op.size() ? uint64_t(op[i]) : 0; };
  CodeHolder& code = o.code;
  switch (opc) {
    case 0: {
      if (!o.inited()) { o.do_init(int(arg(1) % 3), kBases[arg(2) % 4], arg(3) & 1); ctx.cls((arg(3) & 1) ? "hist_init_with_cpu_features" : "hist_init"); sfmt(h.text, "init(%s) ", kArchName[o.arch]); }
      break;
    }
    case 1: {
      if (o.inited()) { BaseEmitter* e = o.em(o.arch, int(arg(1) % 3)); if (!e->code()) { code.attach(e); ctx.cls("hist_attach"); sfmt(h.text, "attach(%s) ", kKindName[arg(1) % 3]); } }
      break;
    }
    case 2: {
      int kind = int(arg(1) % 3), pf = int(arg(2));
      BaseEmitter* e = nullptr;
      hist_ensure(o, int(arg(3)), kind, e);
      if (o.spent.count(e)) { ctx.cls("hist_gen_skipped_emitter_already_finalized"); break; }
      Prog p(code, e, o.arch, kind, nullptr);
      if (ctx.is_known("residue-detached-emitter:jump_annotations")) { p.allow_annotations = false; ctx.known_excluded("residue-detached-emitter:jump_annotations"); }
      Cur c(op, 4);
      run_raw(p, c, 64);
      if (pf & 4) p.bind_all();
      bool nodes = kind != kAsm && p.ncalls > 0;
      if (kind != kAsm && (pf & 1)) { o.finalize_once(e); ctx.cls("hist_gen_finalized"); } else if (kind != kAsm) ctx.cls("hist_gen_not_finalized");
      if ((pf & 2) && !o.relocated) { o.relocated = true; std::string tmp; uint64_t b = kBases[1 + (arg(3) >> 2) % 3]; post_steps(code, b, tmp, nullptr); o.base = b; ctx.cls("hist_gen_relocated"); }
      bool nonempty = code.code_size() > 0 || code.label_count() > 0 || nodes;
      h.n_gen++;
      if (nonempty) { h.gen_nonempty = true; h.reset_after_gen = false; ctx.cls("hist_gen_nonempty"); } else ctx.cls("hist_gen_empty");
      if (p.nerr) ctx.cls("hist_gen_with_errors");
      char b[64]; snprintf(b, sizeof b, "hist_gen_%s_%s", kArchName[o.arch], kKindName[kind]); ctx.cls(b);
      sfmt(h.text, "gen(%s,%s,%zu calls%s) ", kArchName[o.arch], kKindName[kind], p.ncalls, (pf & 1) ? ",fin" : "");
      break;
    }
    case 3: inject_error(o, op, ctx, h); h.text += "err "; break;
    case 4: {
      bool hard = arg(1) & 1;
      if (o.inited()) { code.reset(hard ? ResetPolicy::kHard : ResetPolicy::kSoft); o.spent.clear(); o.relocated = false; o.host_features = false; o.base = Globals::kNoBaseAddress; o.logger_on = false; h.n_reset++; if (h.gen_nonempty) h.reset_after_gen = true;
        ctx.cls(hard ? "hist_reset_hard" : "hist_reset_soft"); h.text += hard ? "reset(hard) " : "reset(soft) "; check_detached(ctx, o, "after reset()"); check_uninitialized(ctx, code, hard ? "after reset(hard)" : "after reset(soft)"); }
      break;
    }
    case 5: if (o.inited()) { code.reinit(); o.spent.clear(); o.relocated = false; h.n_reset++; if (h.gen_nonempty) h.reset_after_gen = true; ctx.cls("hist_reinit"); h.text += "reinit "; } break;
    case 6: if (o.inited()) { BaseEmitter* e = o.em(o.arch, int(arg(1) % 3)); if (e->code() == &code) { code.detach(e); o.spent.erase(e); ctx.cls("hist_detach"); sfmt(h.text, "detach(%s) ", kKindName[arg(1) % 3]); check_detached(ctx, o, "after detach()"); } } break;
    case 7: if (o.inited()) { BaseEmitter* e = o.em(o.arch, int(arg(1) % 3)); if (e->code() == &code) { code.detach(e); o.spent.erase(e); code.attach(e); if (h.gen_nonempty) h.reset_after_gen = true; ctx.cls("hist_detach_reattach"); sfmt(h.text, "reattach(%s) ", kKindName[arg(1) % 3]); } } break;
    case 8: {
      if (!o.inited()) break;
      BaseEmitter* e = o.em(o.arch, int(arg(1) % 3));
      if (e->code() != &code) break;
      e->add_inst_options(o.arch == kArchA64 ? InstOptions::kLongForm : ((arg(2) & 1) ? InstOptions::kX86_Rep | InstOptions::kX86_Lock : InstOptions::kShortForm | InstOptions::kX86_Evex));
      if (o.arch != kArchA64) e->set_extra_reg(x86::KReg(3));
      e->set_inline_comment("dangling comment");
      ctx.cls("hist_dangling_inst_state");
      h.text += "dangle ";
      break;
    }
    default: if (o.inited()) { bool on = arg(1) & 1; code.set_logger(on ? &o.logger : nullptr); o.logger_on = on; ctx.cls("hist_logger_toggle"); } break;
  }
  check_attached_list(ctx, o, "after a history op");
}

// =====================================================================================================================
// Comparison
// =====================================================================================================================
static std::string first_diff(const std::string& a, const std::string& b) {
  size_t i = 0, n = std::min(a.size(), b.size());
  while (i < n && a[i] == b[i]) i++;
  size_t from = i > 40 ? i - 40 : 0;
  std::string s = "at " + std::to_string(i) + ": expected[.." + a.substr(from, 120) + "] got[.." + b.substr(from, 120) + "]";
  for (char& c : s) if (c == '\n') c = '|';
  return s;
}

// Compares `got` against `ref`. mode 0: residue keys (specific per part); mode 1: a single key `flat_key`.
// Returns false if a (known) difference was found.
static bool compare_snaps(vh::Ctx& ctx, const Snap& ref, const Snap& got, int kind, const char* flat_key, const std::string& desc, bool with_log) {
  struct Part { const char* name; const std::string* a; const std::string* b; std::string key; };
  std::string k = kKindName[kind];
  std::vector<Part> parts = {
    {"section table", &ref.sectab, &got.sectab, "residue-section-table"},
    {"labels", &ref.labels, &got.labels, "residue-labels"},
    {"named-label lookup", &ref.names, &got.names, "residue-named-label-lookup"},
    {"relocations", &ref.relocs, &got.relocs, "residue-relocs"},
    {"cross-section fixups", &ref.fixups, &got.fixups, "residue-fixups"},
    {"counters", &ref.misc, &got.misc, "residue-counters"},
    {"section layout", &ref.layout, &got.layout, "residue-section-layout"},
  };
  bool ok = true;
  bool probe = flat_key && flat_key[0] == '?';   // probe mode: only tell whether there is a difference
  auto report = [&](const std::string& key, const char* part, const std::string& a, const std::string& b) {
    ok = false;
    if (probe) return;
    ctx.fail_unless_known(flat_key ? std::string(flat_key) : key, desc + ": " + part + " differ " + first_diff(a, b));
  };
  for (const Part& p : parts) if (*p.a != *p.b) { report(p.key, p.name, *p.a, *p.b); if (!ok) return false; }
  if (ref.secbytes.size() == got.secbytes.size())
    for (size_t i = 0; i < ref.secbytes.size(); i++)
      if (ref.secbytes[i] != got.secbytes[i]) { report("residue-section-bytes:" + k, ("bytes of section #" + std::to_string(i)).c_str(), ref.secbytes[i], got.secbytes[i]); return false; }
  if (ref.trace != got.trace) { report("residue-call-results:" + k, "results of the emitter calls", ref.trace, got.trace); return false; }
  if (ref.nodes != got.nodes) { report("residue-node-list:" + k, "node list before finalize()", ref.nodes, got.nodes); return false; }
  if (ref.post != got.post) { report("residue-flatten-relocate", "flatten/relocate results", ref.post, got.post); return false; }
  // error-message text legitimately carries more detail when a logger / RA annotation is active: only compared between equal flag sets
  if (!flat_key && ref.errs != got.errs) { report("residue-error-messages", "error handler messages", ref.errs, got.errs); return false; }
  if (with_log && ref.log != got.log) { ok = false; if (!probe) ctx.fail_unless_known(flat_key ? std::string(flat_key) : std::string("log-text-differs-after-reuse"), desc + ": logger text differs " + first_diff(ref.log, got.log)); }
  return ok;
}

// =====================================================================================================================
// The property
// =====================================================================================================================
struct Plan {
  int arch, kind, final_step, mix, post;
  Flags fl;
};

// Fresh objects generating only P_final.
static void run_fresh(const Plan& pl, const Flags& fl, uint64_t base, bool host_features, const vh::Op& prog, Snap& sn, vh::Ctx& ctx, const char* what) {
  {
    hp::Guard guard(fl.H, uint64_t(fl.heap_seed));
    ObjSet o(fl);
    o.do_init(pl.arch, base, host_features);
    BaseEmitter* e = o.em(pl.arch, pl.kind);
    o.code.attach(e);
    run_final(o, e, pl.arch, pl.kind, prog, pl.post, nullptr, sn);
  }
  if (fl.H) {
    size_t l = hp::live();
    if (l) { hp::drop_all(); ctx.fail_unless_known("leak-after-destroy", std::string(what) + ": " + std::to_string(l) + " malloc blocks still live after all objects were destroyed"); }
  }
}

static std::string desc_early(const Plan& pl, const Hist& h) { return std::string(kArchName[pl.arch]) + "/" + kKindName[pl.kind] + " history{" + h.text + "}"; }

void vh_run(const vh::Case& c, vh::Ctx& ctx) {
  auto cfg = [&](size_t i) -> uint64_t { return i < c.cfg.size() ? uint64_t(c.cfg[i]) : 0; };
  Plan pl;
  pl.arch = int(cfg(0) % 3);
  pl.kind = int(cfg(1) % 3);
  uint64_t fb = cfg(2);
  pl.fl.L = fb & 1; pl.fl.V = fb & 2; pl.fl.H = fb & 4; pl.fl.A = fb & 8; pl.fl.RAdbg = fb & 16;
  pl.final_step = int(cfg(3) % 3);
  pl.mix = int(cfg(4) % 3);
  pl.fl.static_sel = int(cfg(5) % 5);
  pl.fl.heap_seed = int(cfg(6) % 256);
  pl.fl.logfmt = int(cfg(7) % 4);
  pl.post = int(cfg(8) % 4);
  pl.fl.enc = int(cfg(9) % 4);
  static const vh::Op empty_prog;
  const vh::Op& prog = c.ops.empty() ? empty_prog : c.ops.back();
  size_t nhist = c.ops.empty() ? 0 : c.ops.size() - 1;

  // ---- recycled run (S1) ----
  Snap s1;
  Hist h;
  uint64_t final_base = Globals::kNoBaseAddress;
  bool final_features = false;
  bool used_reinit = false, extra_attached = false;
  Prog* info = nullptr;
  bool any_func = false, any_reloc = false, any_section = false, any_named = false, any_fwd = false, any_pool = false;
  size_t ncalls = 0;
  hp::disarm();
  hp::drop_all();     // blocks of a case that failed while armed
  {
    hp::Guard guard(pl.fl.H, uint64_t(pl.fl.heap_seed));
    ObjSet o(pl.fl);
    std::unique_ptr<ObjSet> aux;
    for (size_t i = 0; i < nhist; i++) apply_hist(o, c.ops[i], ctx, h);
    // final step
    ObjSet* holder = &o;
    BaseEmitter* e = nullptr;
    if (pl.mix == 2) {
      // fresh holder + recycled emitter: the emitter must be detached from the old holder first
      if (o.inited()) { o.code.reset(pl.final_step == 1 ? ResetPolicy::kHard : ResetPolicy::kSoft); o.spent.clear(); o.relocated = false; o.host_features = false; o.base = Globals::kNoBaseAddress; }
      aux.reset(new ObjSet(pl.fl));
      holder = aux.get();
      holder->do_init(pl.arch, Globals::kNoBaseAddress);
      e = o.em(pl.arch, pl.kind);
      holder->code.attach(e);
      ctx.cls("final_fresh_holder_recycled_emitter");
    }
    else {
      if (pl.final_step == 2 && o.inited() && o.arch == pl.arch) { o.code.reinit(); o.spent.clear(); o.relocated = false; used_reinit = true; ctx.cls("final_reinit"); }
      else if (o.inited()) { bool hard = pl.final_step == 1; o.code.reset(hard ? ResetPolicy::kHard : ResetPolicy::kSoft); o.spent.clear(); o.relocated = false; o.host_features = false; o.base = Globals::kNoBaseAddress; ctx.cls(hard ? "final_reset_hard" : "final_reset_soft"); }
      else ctx.cls("final_holder_was_uninitialized");
      if (!o.inited()) o.do_init(pl.arch, Globals::kNoBaseAddress);
      // reinit() keeps the attached logger by design: put it into the state the final run asks for; after reset()+init() a logger is only
      // attached when asked for (reset() promises to drop the old one)
      if (used_reinit && o.logger_on != pl.fl.L) { o.code.set_logger(pl.fl.L ? &o.logger : nullptr); o.logger_on = pl.fl.L; }
      VH_CHECK(ctx, (o.code.logger() != nullptr) == pl.fl.L, "residue-logger-attached", "holder logger attached=%d, expected %d", int(o.code.logger() != nullptr), int(pl.fl.L));
      VH_CHECK(ctx, o.code.base_address() == o.base, "residue-base-address", "base address %llx, documented model says %llx", (unsigned long long)o.code.base_address(), (unsigned long long)o.base);
      if (pl.mix == 1) { aux.reset(new ObjSet(pl.fl)); e = aux->em(pl.arch, pl.kind); ctx.cls("final_recycled_holder_fresh_emitter"); }
      else { e = o.em(pl.arch, pl.kind); ctx.cls("final_both_recycled"); }
      if (!e->code()) o.code.attach(e);
      for (BaseEmitter* x = o.code.attached_first(); x; x = x->_attached_next) if (x != e) extra_attached = true;
    }
    if (pl.kind == kCompiler && !static_cast<BaseCompiler*>(e)->jump_annotations().is_empty())
      ctx.fail_unless_known("residue-detached-emitter:jump_annotations", desc_early(pl, h) + ": the re-initialised Compiler still lists " + std::to_string(static_cast<BaseCompiler*>(e)->jump_annotations().size()) + " jump annotations of its earlier use");
    if (e->has_own_error_handler() && ctx.is_known("residue-detached-emitter:error_handler")) {
      // known finding: run_passes() turns the holder's error handler into an emitter-owned one; drop it the documented way so the search continues
      e->set_error_handler(nullptr);
      ctx.known_excluded("residue-detached-emitter:error_handler");
    }
    if (h.gen_nonempty) h.reset_after_gen = true;
    final_base = holder->base;
    final_features = holder->host_features;
    VH_CHECK(ctx, e->code() == &holder->code, "attach-failed", "final emitter could not be attached");
    run_final(*holder, e, pl.arch, pl.kind, prog, pl.post, &ctx, s1, &info);
    any_func = info->any_func; any_reloc = info->any_reloc; any_section = info->any_section; any_named = info->any_named; any_fwd = info->any_fwd; any_pool = info->any_pool;
    ncalls = info->ncalls;
    // destruction order: aux (may hold the holder the recycled emitter is attached to, or the fresh emitter attached to o.code)
    aux.reset();
  }
  if (pl.fl.H) {
    size_t l = hp::live();
    if (l) { hp::drop_all(); ctx.fail_unless_known("leak-after-destroy", "recycled run: " + std::to_string(l) + " malloc blocks still live after all objects were destroyed"); }
  }

  std::string desc = std::string(kArchName[pl.arch]) + "/" + kKindName[pl.kind] + " history{" + h.text + "} final=" + (used_reinit ? "reinit" : pl.final_step == 1 ? "reset(hard)+init" : "reset(soft)+init") +
                     " mix=" + std::to_string(pl.mix) + " flags=" + (pl.fl.L ? "L" : "") + (pl.fl.V ? "V" : "") + (pl.fl.H ? "H" : "") + (pl.fl.A ? "A" : "");

  // ---- fresh with the same flags (F1) and plain fresh (S0) ----
  Snap f1;
  run_fresh(pl, pl.fl, final_base, final_features, prog, f1, ctx, "fresh run");
  bool flagged = pl.fl.L || pl.fl.V || pl.fl.H || pl.fl.A;
  if (flagged) {
    Snap s0;
    Flags none; none.logfmt = pl.fl.logfmt; none.enc = pl.fl.enc;
    run_fresh(pl, none, final_base, final_features, prog, s0, ctx, "plain fresh run");
    bool comparable = !pl.fl.V || s0.trace == f1.trace;   // validation legitimately rejects calls the bare encoder accepts or fails later
    if (!comparable) ctx.cls("validation_rejects_more_than_encoder");
    if (comparable && !compare_snaps(ctx, s0, f1, pl.kind, "?probe", desc, false)) {
      // attribute the difference to one flag
      struct FK { bool on; const char* key; int which; };
      FK fks[] = {{pl.fl.H, "heap-dependent-output", 0}, {pl.fl.L, "logger-changes-output", 1}, {pl.fl.V, "validation-changes-output", 2}, {pl.fl.A, "static-arena-changes-output", 3}};
      bool attributed = false;
      for (const FK& fk : fks) {
        if (!fk.on) continue;
        Flags one; one.enc = pl.fl.enc; one.logfmt = pl.fl.logfmt; one.heap_seed = pl.fl.heap_seed; one.static_sel = pl.fl.static_sel; one.RAdbg = pl.fl.RAdbg;
        if (fk.which == 0) one.H = true; else if (fk.which == 1) one.L = true; else if (fk.which == 2) one.V = true; else one.A = true;
        Snap sx;
        run_fresh(pl, one, final_base, final_features, prog, sx, ctx, "single-flag fresh run");
        if (fk.which == 2 && sx.trace != s0.trace) continue;
        if (!compare_snaps(ctx, s0, sx, pl.kind, fk.key, desc + " [fresh objects, only this flag]", false)) attributed = true;
      }
      if (!attributed) ctx.fail_unless_known("flag-combination-changes-output", desc + ": fresh objects with all flags differ from plain fresh objects, no single flag does");
    }
  }
  compare_snaps(ctx, f1, s1, pl.kind, nullptr, desc, true);

  // ---- a function compiled after another function by the same Compiler == the function compiled alone ----
  if (pl.kind == kCompiler) {
    std::vector<std::pair<size_t, size_t>> funcs;   // [begin, end) int ranges of FUNC items (header + body)
    for (size_t i = 4; i + 3 < prog.size();) {
      if (uint64_t(prog[i]) % T_COUNT == T_FUNC) {
        size_t nbody = size_t(uint64_t(prog[i + 2]) % 20), end = std::min(prog.size(), i + 4 + nbody * 4);
        funcs.push_back({i, end});
        i = end;
      } else i += 4;
    }
    if (funcs.size() >= 2) {
      const vh::Op align_item = {T_ALIGN, 0, 6, 0};
      vh::Op pb = {2, kCompiler, 0, 0}, pab = {2, kCompiler, 0, 0};
      auto add = [&](vh::Op& dst, std::pair<size_t, size_t> r) { dst.insert(dst.end(), align_item.begin(), align_item.end()); dst.insert(dst.end(), prog.begin() + long(r.first), prog.begin() + long(r.second)); };
      add(pab, funcs[0]); add(pab, funcs[1]);
      add(pb, funcs[1]);
      Plan sp = pl; sp.post = 0;
      Flags none; none.logfmt = pl.fl.logfmt; none.enc = pl.fl.enc;
      Snap sab, sb;
      { ObjSet o(none); o.do_init(pl.arch, Globals::kNoBaseAddress); BaseEmitter* e = o.em(pl.arch, kCompiler); o.code.attach(e); run_final(o, e, pl.arch, kCompiler, pab, 0, nullptr, sab, nullptr, true); }
      { ObjSet o(none); o.do_init(pl.arch, Globals::kNoBaseAddress); BaseEmitter* e = o.em(pl.arch, kCompiler); o.code.attach(e); run_final(o, e, pl.arch, kCompiler, pb, 0, nullptr, sb, nullptr, true); }
      if (sab.nerr == 0 && sb.nerr == 0 && sab.func_offsets.size() == 2 && sb.func_offsets.size() == 1 && sab.func_offsets[1] != ~uint64_t(0) && sb.func_offsets[0] != ~uint64_t(0) &&
          sab.secbytes.size() == sb.secbytes.size() && !sab.secbytes.empty()) {
        std::string tail_ab = sab.secbytes[0].substr(std::min(sab.secbytes[0].size(), size_t(sab.func_offsets[1]) * 2));
        std::string tail_b = sb.secbytes[0].substr(std::min(sb.secbytes[0].size(), size_t(sb.func_offsets[0]) * 2));
        ctx.cls("func_slice_compared");
        if (tail_ab != tail_b)
          ctx.fail_unless_known("residue-function-body:compiler", desc + ": the 2nd function of P_final compiled after the 1st one by the same Compiler differs from the same function compiled alone (both 64-byte aligned, local constant pools) " + first_diff(tail_b, tail_ab));
      } else ctx.cls("func_slice_not_comparable");
    }
  }

  // ---- classes ----
  ctx.cls(std::string("arch_") + kArchName[pl.arch]);
  ctx.cls(std::string("kind_") + kKindName[pl.kind]);
  if (pl.fl.L) ctx.cls("flag_logger"); if (pl.fl.V) ctx.cls("flag_validation"); if (pl.fl.H) ctx.cls("flag_heap_perturbed"); if (pl.fl.A) ctx.cls("flag_static_arena");
  if (pl.fl.L && pl.fl.RAdbg && pl.kind == kCompiler) ctx.cls("flag_ra_debug_logging");
  if (pl.post) ctx.cls("final_flatten_relocate");
  if (extra_attached) ctx.cls("final_extra_emitters_attached");
  if (final_base != Globals::kNoBaseAddress) ctx.cls("final_base_address_kept_by_reinit");
  if (any_func) ctx.cls("final_has_function"); if (any_reloc) ctx.cls("final_has_reloc"); if (any_section) ctx.cls("final_has_extra_section");
  if (any_named) ctx.cls("final_has_named_label"); if (any_fwd) ctx.cls("final_has_forward_ref"); if (any_pool) ctx.cls("final_has_const_pool");
  if (s1.nerr) ctx.cls("final_with_call_errors");
  if (!s1.log.empty()) ctx.cls("final_log_nonempty");
  if (h.n_err) ctx.cls("case_with_error_injection");
  ctx.cls("hist_len_" + std::to_string(std::min<size_t>(nhist, 9)));
  if (h.gen_nonempty && h.reset_after_gen && s1.nonempty && ncalls > 0) {
    ctx.nontrivial();
    if (ctx.want_sample()) ctx.sample(desc + " P_final: " + std::to_string(ncalls) + " calls, " + s1.misc);
  }
}

// =====================================================================================================================
// Generators
// =====================================================================================================================
static const int kRawWeights[T_COUNT] = {
  /*INST*/ 16, /*DBINST*/ 8, /*LABEL_NEW*/ 7, /*LABEL_NAMED*/ 6, /*BIND*/ 9, /*JUMP*/ 10, /*ALIGN*/ 4, /*EMBED*/ 4, /*EMBED_ARRAY*/ 3, /*EMBED_LABEL*/ 5,
  /*EMBED_DELTA*/ 3, /*SECTION_NEW*/ 4, /*SECTION_SWITCH*/ 3, /*CONSTPOOL*/ 3, /*MEMLABEL*/ 5, /*ABSJMP*/ 3, /*COMMENT*/ 2, /*BULK*/ 1, /*FUNC*/ 0};

static rc::Gen<std::vector<int64_t>> gen_items(int kind) {
  using namespace rc;
  auto item = gen::exec([kind]() -> std::array<int64_t, 4> {
    int total = 0;
    int w[T_COUNT];
    for (int i = 0; i < T_COUNT; i++) { w[i] = kRawWeights[i]; if (i == T_FUNC && kind == kCompiler) w[i] = 30; total += w[i]; }
    int r = *vh::irange<int>(0, total - 1), t = 0;
    while (r >= w[t]) { r -= w[t]; t++; }
    return {t, *vh::irange<int>(0, 4095), *vh::irange<int>(0, 4095), *vh::irange<int>(0, 255)};
  });
  return gen::map(gen::scale(0.5, gen::container<std::vector<std::array<int64_t, 4>>>(item)), [](const std::vector<std::array<int64_t, 4>>& v) {
    std::vector<int64_t> out;
    for (auto& a : v) for (int64_t x : a) out.push_back(x);
    return out;
  });
}

static rc::Gen<vh::Op> gen_gen_op(int farch) {
  using namespace rc;
  return gen::exec([farch]() -> vh::Op {
    int kind = *vh::irange<int>(0, 2);
    int pf = *gen::weightedElement<int>({{6, 1}, {2, 0}, {2, 5}, {2, 3}, {1, 7}, {1, 4}});
    int ar = *vh::irange<int>(0, 9) < 6 ? farch : *vh::irange<int>(0, 2);
    vh::Op op = {2, kind, pf, ar + 3 * *vh::irange<int>(0, 3)};
    std::vector<int64_t> items = *gen_items(kind);
    op.insert(op.end(), items.begin(), items.end());
    return op;
  });
}

static rc::Gen<vh::Op> gen_hist_op(int farch) {
  using namespace rc;
  return gen::exec([farch]() -> vh::Op {
    int sel = *vh::irange<int>(0, 99);
    if (sel < 34) return *gen_gen_op(farch);
    if (sel < 40) return vh::Op{0, *vh::irange<int>(0, 9) < 6 ? farch : *vh::irange<int>(0, 2), *vh::irange<int>(0, 3), *vh::irange<int>(0, 1)};
    if (sel < 46) return vh::Op{1, *vh::irange<int>(0, 2)};
    if (sel < 62) return vh::Op{3, *vh::irange<int>(0, 14), *vh::irange<int>(0, 2), *vh::irange<int>(0, 5)};
    if (sel < 74) return vh::Op{4, *vh::irange<int>(0, 1)};
    if (sel < 82) return vh::Op{5};
    if (sel < 86) return vh::Op{6, *vh::irange<int>(0, 2)};
    if (sel < 92) return vh::Op{7, *vh::irange<int>(0, 2)};
    if (sel < 97) return vh::Op{8, *vh::irange<int>(0, 2), *vh::irange<int>(0, 1)};
    return vh::Op{9, *vh::irange<int>(0, 1)};
  });
}

rc::Gen<vh::Case> vh_gen(const vh::Opts&) {
  using namespace rc;
  return gen::exec([]() -> vh::Case {
    vh::Case c;
    int arch = *vh::irange<int>(0, 2), kind = *vh::irange<int>(0, 2);
    int flags = *gen::weightedElement<int>({{5, 0}, {2, 1}, {2, 2}, {3, 4}, {2, 8}, {1, 3}, {1, 5}, {1, 12}, {1, 17}, {1, 21}, {1, 15}, {1, 31}, {1, 6}, {1, 9}});
    int fstep = *vh::irange<int>(0, 2);
    int mix = *gen::weightedElement<int>({{7, 0}, {2, 1}, {2, 2}});
    c.cfg = {arch, kind, flags, fstep, mix, *vh::irange<int>(0, 4), *vh::irange<int>(0, 255), *vh::irange<int>(0, 3), *gen::weightedElement<int>({{5, 0}, {2, 1}, {1, 2}, {1, 3}}), *gen::weightedElement<int>({{5, 0}, {1, 1}, {1, 2}, {1, 3}})};
    c.ops = *gen::scale(0.25, gen::container<std::vector<vh::Op>>(gen_hist_op(arch)));
    if (*vh::irange<int>(0, 9) < 8) c.ops.insert(c.ops.begin(), *gen_gen_op(arch));   // most histories start with a generation
    // the final program: same emitter kind as cfg
    vh::Op fin = {2, kind, *gen::weightedElement<int>({{3, 0}, {2, 4}}), 0};
    std::vector<int64_t> items = *gen_items(kind);
    fin.insert(fin.end(), items.begin(), items.end());
    c.ops.push_back(fin);
    return c;
  });
}

// Deterministic sweep: every (arch, kind, final step, mix, flag set) with one generation + one error before the final step.
bool vh_enum(const vh::Opts& o, uint64_t k, vh::Case& out) {
  static const int flagsets[] = {0, 1, 2, 4, 8, 31};
  const uint64_t total = 3 * 3 * 3 * 3 * 6;
  uint64_t g = k * uint64_t(o.workers) + uint64_t(o.worker);
  if (g >= total) return false;
  uint64_t r = g;
  int arch = int(r % 3); r /= 3;
  int kind = int(r % 3); r /= 3;
  int fstep = int(r % 3); r /= 3;
  int mix = int(r % 3); r /= 3;
  int flags = flagsets[r % 6];
  uint64_t s = mix64(o.seed * 7777 + g);
  auto rnd = [&](uint64_t n) -> int64_t { s = mix64(s + 1); return int64_t((s >> 20) % n); };
  auto prog = [&](int pk, int pf, int n) {
    vh::Op op = {2, pk, pf, rnd(12)};
    for (int i = 0; i < n; i++) {
      int t = int(rnd(T_COUNT));
      if (pk == kCompiler && rnd(3) == 0) t = T_FUNC;
      op.push_back(t); op.push_back(rnd(4096)); op.push_back(rnd(4096)); op.push_back(rnd(256));
    }
    return op;
  };
  out = vh::Case();
  out.cfg = {arch, kind, flags, fstep, mix, rnd(5), rnd(256), rnd(4), rnd(4), rnd(4)};
  out.ops.push_back(vh::Op{0, arch, 0});
  out.ops.push_back(prog(int(rnd(3)), 1 | (rnd(2) ? 4 : 0), 24));
  out.ops.push_back(vh::Op{3, rnd(15), rnd(3), rnd(6)});
  if (rnd(2)) out.ops.push_back(vh::Op{8, kind, rnd(2)});
  out.ops.push_back(prog(kind, rnd(2) ? 4 : 0, 28));
  return true;
}
