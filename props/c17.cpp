// C17 — Displacement and immediate field codecs are exact for every value.
//
// Case layout (plain integers):
//   cfg = [family, p1, p2, p3, p4]      ops = explicit items of that family (may be empty)
//   family 0  offset codecs   cfg = [0, format, start_unit, n_units, mode]   op = [kind, a, b]
//   family 1  logical imm     cfg = [1, sel, imms, enable]                    op = [sel, kind, a, b, c]
//   family 2  fp8 imm         cfg = [2, prec, mode, enable]                   op = [prec, kind, a, b]
//   family 3  move wide       cfg = [3, variant, p, enable]                   op = [is64, rd, kind, a, b]
//   family 4  add/sub imm     cfg = [4, inst, region, enable]                 op = [inst, sf, imm, shiftmode]
//   family 5  bitfield        cfg = [5, inst, sf, enable]                     op = [inst, sf, lsb, width]
// A "sweep" (cfg[3] > 0) walks a whole block of consecutive values inside vh_run; the list of all sweep
// items is enumerated deterministically and split over the workers (item i -> worker i mod workers), after
// the share is exhausted the generator produces random explicit cases.
//
// Oracles are written from the Arm ARM (DDI 0487 / DDI 0406) bit layouts and pseudo-code; no AsmJit code is
// used for decoding.
#define VH_MAIN
#include "vh.h"

#include <asmjit/core.h>
#include <asmjit/a64.h>
#include <asmjit/core/codewriter_p.h>
#include <asmjit/arm/armutils.h>

using namespace asmjit;

const char* vh_property() { return "C17"; }

typedef __int128 i128;

static inline uint64_t mix64(uint64_t x) {
  x += 0x9E3779B97F4A7C15ull;
  x = (x ^ (x >> 30)) * 0xBF58476D1CE4E5B9ull;
  x = (x ^ (x >> 27)) * 0x94D049BB133111EBull;
  return x ^ (x >> 31);
}
static inline uint64_t mask_n(unsigned n) { return n >= 64 ? ~0ull : ((1ull << n) - 1); }
static inline int64_t sext(uint64_t v, unsigned bits) {
  if (bits >= 64) return (int64_t)v;
  uint64_t m = 1ull << (bits - 1);
  v &= mask_n(bits);
  return (int64_t)((v ^ m) - m);
}
static inline uint32_t ror32(uint32_t v, unsigned n) { n &= 31; return n ? (v >> n) | (v << (32 - n)) : v; }
static inline int64_t cfg_at(const vh::Case& c, size_t i, int64_t d = 0) { return i < c.cfg.size() ? c.cfg[i] : d; }
static inline int64_t op_at(const vh::Op& o, size_t i, int64_t d = 0) { return i < o.size() ? o[i] : d; }
static inline uint64_t umod(int64_t v, uint64_t m) { return m ? uint64_t(v) % m : 0; }

// =================================================================================================
// (a) Offset formats
// =================================================================================================

enum Kind { K_SIGNED, K_UNSIGNED, K_A64_ADR, K_A64_ADRP, K_T32_ADR, K_T32_BLX, K_T32_B, K_T32_BCOND,
            K_A32_ADR, K_A32_U23, K_A32_U23_SPLIT8, K_A32_BLX };

struct Fmt {
  const char* name;
  Kind kind;
  OffsetType type;
  int vsize, shift, count, discard, lead, trail;
  int backend;   // 1: constructed by a back end of this tree, 0: declared in fixup.h only
};

// Formats constructed by the back ends (same reset_to_* calls) + the Thumb/A32 formats of fixup.h with the
// parameters their documentation gives (payload bits / multiplier).
static const Fmt kFmts[] = {
  // x86 (x86assembler.cpp): rel8 / rel32 fixups, relocations with leading opcode bytes and a trailing immediate
  {"x86-rel8",        K_SIGNED,   OffsetType::kSignedOffset,   1, 0,  8, 0, 0, 0, 1},
  {"x86-rel32",       K_SIGNED,   OffsetType::kSignedOffset,   4, 0, 32, 0, 0, 0, 1},
  {"x86-rel8-l1",     K_SIGNED,   OffsetType::kSignedOffset,   1, 0,  8, 0, 1, 0, 1},
  {"x86-rel32-l1",    K_SIGNED,   OffsetType::kSignedOffset,   4, 0, 32, 0, 1, 0, 1},
  {"x86-rel32-l3t1",  K_SIGNED,   OffsetType::kSignedOffset,   4, 0, 32, 0, 3, 1, 1},
  {"x86-rel32-l7t4",  K_SIGNED,   OffsetType::kSignedOffset,   4, 0, 32, 0, 7, 4, 1},
  {"x86-abs32-l2",    K_UNSIGNED, OffsetType::kUnsignedOffset, 4, 0, 32, 0, 2, 0, 1},
  {"x86-abs32-l3t4",  K_UNSIGNED, OffsetType::kUnsignedOffset, 4, 0, 32, 0, 3, 4, 1},
  // core (assembler.cpp): embed_label (unsigned) / embed_label_delta (signed), sizes 1/2/4/8
  {"data-u8",         K_UNSIGNED, OffsetType::kUnsignedOffset, 1, 0,  8, 0, 0, 0, 1},
  {"data-u16",        K_UNSIGNED, OffsetType::kUnsignedOffset, 2, 0, 16, 0, 0, 0, 1},
  {"data-u32",        K_UNSIGNED, OffsetType::kUnsignedOffset, 4, 0, 32, 0, 0, 0, 1},
  {"data-u64",        K_UNSIGNED, OffsetType::kUnsignedOffset, 8, 0, 64, 0, 0, 0, 1},
  {"data-s8",         K_SIGNED,   OffsetType::kSignedOffset,   1, 0,  8, 0, 0, 0, 1},
  {"data-s16",        K_SIGNED,   OffsetType::kSignedOffset,   2, 0, 16, 0, 0, 0, 1},
  {"data-s32",        K_SIGNED,   OffsetType::kSignedOffset,   4, 0, 32, 0, 0, 0, 1},
  {"data-s64",        K_SIGNED,   OffsetType::kSignedOffset,   8, 0, 64, 0, 0, 0, 1},
  // AArch64 (a64assembler.cpp)
  {"a64-imm26",       K_SIGNED,   OffsetType::kSignedOffset,   4, 0, 26, 2, 0, 0, 1},   // b / bl
  {"a64-imm19",       K_SIGNED,   OffsetType::kSignedOffset,   4, 5, 19, 2, 0, 0, 1},   // b.cond / cbz / ldr literal
  {"a64-imm14",       K_SIGNED,   OffsetType::kSignedOffset,   4, 5, 14, 2, 0, 0, 1},   // tbz / tbnz
  {"a64-adr",         K_A64_ADR,  OffsetType::kAArch64_ADR,    4, 5, 21, 0, 0, 0, 1},
  {"a64-adrp",        K_A64_ADRP, OffsetType::kAArch64_ADRP,   4, 5, 21, 12, 0, 0, 1},
  // Thumb / A32 formats of fixup.h (not constructed by a back end in this tree)
  {"thumb32-adr",     K_T32_ADR,  OffsetType::kThumb32_ADR,    4, 0, 12, 0, 0, 0, 0},
  {"thumb32-blx",     K_T32_BLX,  OffsetType::kThumb32_BLX,    4, 0, 23, 2, 0, 0, 0},
  {"thumb32-b",       K_T32_B,    OffsetType::kThumb32_B,      4, 0, 24, 1, 0, 0, 0},
  {"thumb32-bcond",   K_T32_BCOND,OffsetType::kThumb32_BCond,  4, 0, 20, 1, 0, 0, 0},
  {"a32-adr",         K_A32_ADR,  OffsetType::kAArch32_ADR,    4, 0, 32, 0, 0, 0, 0},
  {"a32-ldr-lit",     K_A32_U23,  OffsetType::kAArch32_U23_SignedOffset, 4, 0, 12, 0, 0, 0, 0},   // LDR (literal): U, imm12
  {"a32-vldr-lit",    K_A32_U23,  OffsetType::kAArch32_U23_SignedOffset, 4, 0,  8, 2, 0, 0, 0},   // VLDR (literal): U, imm8*4
  {"a32-ldrh-lit",    K_A32_U23_SPLIT8, OffsetType::kAArch32_U23_0To3At0_4To7At8, 4, 0, 8, 0, 0, 0, 0},
  {"a32-blx",         K_A32_BLX,  OffsetType::kAArch32_1To24At0_0At24, 4, 0, 25, 1, 0, 0, 0},    // BLX (imm) A2: imm24:H:'0'
  {"a32-b",           K_SIGNED,   OffsetType::kSignedOffset,   4, 0, 24, 2, 0, 0, 0},             // B / BL A1
  // T16 formats through the generic types (value size 2, unsigned with discarded bits)
  {"thumb16-b",       K_SIGNED,   OffsetType::kSignedOffset,   2, 0, 11, 1, 0, 0, 0},
  {"thumb16-bcond",   K_SIGNED,   OffsetType::kSignedOffset,   2, 0,  8, 1, 0, 0, 0},
  {"thumb16-ldr-lit", K_UNSIGNED, OffsetType::kUnsignedOffset, 2, 0,  8, 2, 0, 0, 0},
};
static const int kNumFmts = int(sizeof(kFmts) / sizeof(kFmts[0]));

static OffsetFormat make_format(const Fmt& f) {
  OffsetFormat of;
  if (f.kind == K_A64_ADRP) {
    // exactly what the a64 assembler does for adrp
    of.reset_to_imm_value(f.type, 4, 5, 21, 0);
    of._imm_discard_lsb = 12;
  } else if (f.count == f.vsize * 8 && f.shift == 0 && f.discard == 0) {
    of.reset_to_simple_value(f.type, size_t(f.vsize));
  } else {
    of.reset_to_imm_value(f.type, size_t(f.vsize), uint32_t(f.shift), uint32_t(f.count), uint32_t(f.discard));
  }
  if (f.lead || f.trail) of.set_leading_and_trailing_size(size_t(f.lead), size_t(f.trail));
  return of;
}

static bool a32_modimm_encodable(uint32_t v) {
  for (unsigned r = 0; r < 16; r++) {
    uint32_t x = (v << (2 * r)) | (r ? (v >> (32 - 2 * r)) : 0);   // ROL(v, 2r)
    if (x <= 0xFF) return true;
  }
  return false;
}

// bits of the value word that belong to the offset field (everything else must stay untouched)
static uint64_t field_mask(const Fmt& f) {
  switch (f.kind) {
    case K_SIGNED: case K_UNSIGNED: return mask_n(unsigned(f.count)) << f.shift;
    case K_A64_ADR: case K_A64_ADRP: return (3ull << 29) | (0x7FFFFull << 5);
    case K_T32_ADR: return 0xFFull | 0x7000ull | (1ull << 26) | (1ull << 21) | (1ull << 23);
    case K_T32_B: return (1ull << 26) | (0x3FFull << 16) | (1ull << 13) | (1ull << 11) | 0x7FFull;
    case K_T32_BLX: return (1ull << 26) | (0x3FFull << 16) | (1ull << 13) | (1ull << 11) | 0x7FEull;
    case K_T32_BCOND: return (1ull << 26) | (0x3Full << 16) | (1ull << 13) | (1ull << 11) | 0x7FFull;
    case K_A32_ADR: return 0xFFFull | (1ull << 22) | (1ull << 23);
    case K_A32_U23: return (mask_n(unsigned(f.count)) << f.shift) | (1ull << 23);
    case K_A32_U23_SPLIT8: return 0xFull | 0xF00ull | (1ull << 23);
    case K_A32_BLX: return 0x01FFFFFFull;
  }
  return 0;
}

// Architecture decode of the field. Returns false when the field is in a state the architecture does not define
// for this instruction (e.g. inconsistent add/sub selector bits).
static bool decode_field(const Fmt& f, uint64_t w, i128& out) {
  switch (f.kind) {
    case K_SIGNED: {
      uint64_t raw = (w >> f.shift) & mask_n(unsigned(f.count));
      out = i128(sext(raw, unsigned(f.count))) * (i128(1) << f.discard);
      return true;
    }
    case K_UNSIGNED: {
      uint64_t raw = (w >> f.shift) & mask_n(unsigned(f.count));
      out = i128(raw) * (i128(1) << f.discard);
      if (f.count == 64) out = i128(int64_t(uint64_t(out)));   // a 64-bit address carried in an int64_t
      return true;
    }
    case K_A64_ADR: case K_A64_ADRP: {
      // ADR/ADRP: imm = SignExtend(immhi:immlo [:Zeros(12)]), immlo = bits 30:29, immhi = bits 23:5
      uint64_t immlo = (w >> 29) & 3, immhi = (w >> 5) & 0x7FFFF;
      int64_t v = sext((immhi << 2) | immlo, 21);
      out = f.kind == K_A64_ADRP ? i128(v) * 4096 : i128(v);
      return true;
    }
    case K_T32_ADR: {
      // ADR T3 (add, hw1 = 11110 i 10000 0 1111) / T2 (sub, hw1 = 11110 i 10101 0 1111); hw2 = 0 imm3 Rd imm8
      uint64_t i = (w >> 26) & 1, imm3 = (w >> 12) & 7, imm8 = w & 0xFF;
      uint64_t b21 = (w >> 21) & 1, b23 = (w >> 23) & 1;
      if (b21 != b23) return false;
      i128 imm = i128((i << 11) | (imm3 << 8) | imm8);
      out = b21 ? -imm : imm;
      return true;
    }
    case K_T32_B: case K_T32_BLX: {
      // B T4 / BL T1 / BLX T2: hw1 = 11110 S imm10, hw2 = 1x J1 x J2 imm11; I1 = NOT(J1 EOR S), I2 = NOT(J2 EOR S)
      uint64_t S = (w >> 26) & 1, imm10 = (w >> 16) & 0x3FF, J1 = (w >> 13) & 1, J2 = (w >> 11) & 1;
      uint64_t I1 = (~(J1 ^ S)) & 1, I2 = (~(J2 ^ S)) & 1;
      if (f.kind == K_T32_B) {
        uint64_t imm11 = w & 0x7FF;
        uint64_t v = (S << 23) | (I1 << 22) | (I2 << 21) | (imm10 << 11) | imm11;
        out = i128(sext(v, 24)) * 2;
      } else {
        uint64_t imm10l = (w >> 1) & 0x3FF;
        uint64_t v = (S << 22) | (I1 << 21) | (I2 << 20) | (imm10 << 10) | imm10l;
        out = i128(sext(v, 23)) * 4;
      }
      return true;
    }
    case K_T32_BCOND: {
      // B T3: hw1 = 11110 S cond imm6, hw2 = 10 J1 0 J2 imm11; imm32 = SignExtend(S:J2:J1:imm6:imm11:'0')
      uint64_t S = (w >> 26) & 1, imm6 = (w >> 16) & 0x3F, J1 = (w >> 13) & 1, J2 = (w >> 11) & 1, imm11 = w & 0x7FF;
      uint64_t v = (S << 19) | (J2 << 18) | (J1 << 17) | (imm6 << 11) | imm11;
      out = i128(sext(v, 20)) * 2;
      return true;
    }
    case K_A32_ADR: {
      // ADR A1 (ADD Rd, PC, #const: opcode bits 24:21 = 0100) / A2 (SUB: 0010); const = ROR(imm8, 2*rot)
      uint32_t imm12 = uint32_t(w & 0xFFF);
      uint32_t val = ror32(imm12 & 0xFF, 2 * (imm12 >> 8));
      uint64_t add = (w >> 23) & 1, sub = (w >> 22) & 1;
      if (add == sub) return false;
      out = add ? i128(val) : -i128(val);
      return true;
    }
    case K_A32_U23: {
      uint64_t U = (w >> 23) & 1, imm = (w >> f.shift) & mask_n(unsigned(f.count));
      i128 mag = i128(imm) * (i128(1) << f.discard);
      out = U ? mag : -mag;
      return true;
    }
    case K_A32_U23_SPLIT8: {
      uint64_t U = (w >> 23) & 1, imm = (((w >> 8) & 0xF) << 4) | (w & 0xF);
      out = U ? i128(imm) : -i128(imm);
      return true;
    }
    case K_A32_BLX: {
      uint64_t imm24 = w & 0xFFFFFF, H = (w >> 24) & 1;
      out = i128(sext((imm24 << 1) | H, 25)) * 2;
      return true;
    }
  }
  return false;
}

static bool is_sign_magnitude(Kind k) { return k == K_T32_ADR || k == K_A32_ADR || k == K_A32_U23 || k == K_A32_U23_SPLIT8; }

// inclusive range of encodable units (offset >> discard)
static void unit_range(const Fmt& f, i128& lo, i128& hi) {
  i128 one = 1;
  if (f.kind == K_UNSIGNED) { lo = 0; hi = (one << f.count) - 1; }
  else if (is_sign_magnitude(f.kind)) { hi = (one << f.count) - 1; lo = -hi; }
  else { lo = -(one << (f.count - 1)); hi = (one << (f.count - 1)) - 1; }
}

// 0 = representable, 1 = low discarded bits non-zero, 2 = out of range, 3 = no modified-immediate encoding
static int classify(const Fmt& f, int64_t off) {
  const uint64_t dm = mask_n(unsigned(f.discard));
  if (f.kind == K_UNSIGNED) {
    if (f.count == 64) return (uint64_t(off) & dm) ? 1 : 0;     // a 64-bit address carried in an int64_t
    if (uint64_t(off) & dm) return 1;
    if (off < 0) return 2;
    return (uint64_t(off) >> f.discard) <= mask_n(unsigned(f.count)) ? 0 : 2;
  }
  if (is_sign_magnitude(f.kind)) {
    uint64_t a = off < 0 ? uint64_t(0) - uint64_t(off) : uint64_t(off);
    if (a & dm) return 1;
    if ((a >> f.discard) > mask_n(unsigned(f.count))) return 2;
    if (f.kind == K_A32_ADR && !a32_modimm_encodable(uint32_t(a))) return 3;
    return 0;
  }
  // two's complement: a multiple of 2^discard has its low bits zero for negative values too
  if (uint64_t(off) & dm) return 1;
  if (f.count >= 64) return 0;
  int64_t q = off >> f.discard;      // arithmetic shift of an exact multiple
  int64_t lim = int64_t(1) << (f.count - 1);
  return (q >= -lim && q <= lim - 1) ? 0 : 2;
}

struct FmtKeys { std::string wrong, accepts, rejects, clobber, modfail, encmis; };
static const FmtKeys& keys_of(int fi) {
  static std::vector<FmtKeys> ks;
  if (ks.empty()) {
    for (int i = 0; i < kNumFmts; i++) {
      std::string b = std::string("offset-") + kFmts[i].name;
      ks.push_back({b + "-wrong-field", b + "-accepts-unrepresentable", b + "-rejects-representable",
                    b + "-clobbers-other-bits", b + "-modifies-on-failure", b + "-encode-mismatch"});
    }
  }
  return ks[size_t(fi)];
}

struct OffStats {
  uint64_t accepted = 0, rej_lowbits = 0, rej_range = 0, rej_noenc = 0, neg = 0;
  std::map<std::string, uint64_t> known;
};

static std::string fmt_desc(const Fmt& f) {
  char b[200];
  snprintf(b, sizeof b, "%s{type=%u vsize=%d shift=%d bits=%d discard=%d lead=%d trail=%d}", f.name, unsigned(f.type), f.vsize, f.shift, f.count, f.discard, f.lead, f.trail);
  return b;
}

// Reports through ctx.fail unless the key is a known finding; returns true when the caller should skip the value.
static bool off_fail(vh::Ctx& ctx, OffStats& st, const std::string& key, const Fmt& f, int fi, int64_t off, const char* what, uint64_t oldw, uint64_t neww) {
  if (ctx.is_known(key)) { st.known[key]++; return true; }
  char b[600];
  snprintf(b, sizeof b, "%s offset=%" PRId64 " (0x%" PRIx64 "): %s; word before=0x%" PRIx64 " after=0x%" PRIx64 " field-mask=0x%" PRIx64 "  [explicit replay: cfg 0 %d 0 0 0 / op 0 %" PRId64 " 0]",
           fmt_desc(f).c_str(), off, uint64_t(off), what, oldw, neww, field_mask(f), fi, off);
  ctx.fail(key, b);
}

static const size_t kBufSize = 48, kRegionAt = 12;

static inline uint64_t load_word(const uint8_t* p, int vsize) {
  switch (vsize) {
    case 1: return *p;
    case 2: { uint16_t v; __builtin_memcpy(&v, p, 2); return v; }
    case 4: { uint32_t v; __builtin_memcpy(&v, p, 4); return v; }
    default: { uint64_t v; __builtin_memcpy(&v, p, 8); return v; }
  }
}
static inline void store_word(uint8_t* p, int vsize, uint64_t w) {
  switch (vsize) {
    case 1: *p = uint8_t(w); break;
    case 2: { uint16_t v = uint16_t(w); __builtin_memcpy(p, &v, 2); break; }
    case 4: { uint32_t v = uint32_t(w); __builtin_memcpy(p, &v, 4); break; }
    default: __builtin_memcpy(p, &w, 8); break;
  }
}
static inline bool same48(const uint64_t* a, const uint64_t* b) {
  return ((a[0] ^ b[0]) | (a[1] ^ b[1]) | (a[2] ^ b[2]) | (a[3] ^ b[3]) | (a[4] ^ b[4]) | (a[5] ^ b[5])) == 0;
}

static void check_offset(vh::Ctx& ctx, const Fmt& f, int fi, const OffsetFormat& of, int64_t off, OffStats& st) {
  const FmtKeys& K = keys_of(fi);
  // 48-byte buffer: [0,8) and [40,48) fixed guard pattern, [8,40) pseudo-random bits derived from (offset, format);
  // the patched region starts at byte 12 (leading bytes, value word, trailing bytes: at most 19 bytes).
  uint64_t buf64[6], orig64[6];
  uint8_t* buf = reinterpret_cast<uint8_t*>(buf64);
  uint64_t h = mix64(uint64_t(off) * 0x2545F4914F6CDD1Dull + uint64_t(fi));
  buf64[0] = buf64[5] = 0xA5C3E1F00F1E3C5Aull;
  for (int i = 1; i < 5; i++) { buf64[i] = h; h = mix64(h); }
  uint8_t* wp = buf + kRegionAt + f.lead;
  const uint64_t fm = field_mask(f);
  const uint64_t wm = mask_n(unsigned(f.vsize) * 8);
  uint64_t oldw = load_word(wp, f.vsize) & ~fm;   // the emitters leave the field zero before patching
  store_word(wp, f.vsize, oldw);
  for (int i = 0; i < 6; i++) orig64[i] = buf64[i];

  bool ok = CodeWriterUtils::write_offset(buf + kRegionAt, off, of);
  uint64_t neww = load_word(wp, f.vsize);
  int cls = classify(f, off);
  if (off < 0) st.neg++;

  if (!ok) {
    if (!same48(buf64, orig64)) { if (off_fail(ctx, st, K.modfail, f, fi, off, "write_offset returned false but modified the buffer", oldw, neww)) return; }
    if (cls == 0) { if (off_fail(ctx, st, K.rejects, f, fi, off, "write_offset refused an offset the format can hold", oldw, neww)) return; }
    if (cls == 1) st.rej_lowbits++; else if (cls == 2) st.rej_range++; else st.rej_noenc++;
  } else {
    if (cls != 0) {
      if (off_fail(ctx, st, K.accepts, f, fi, off, cls == 1 ? "accepted although discarded low bits are non-zero" : cls == 2 ? "accepted although out of range" : "accepted although not a modified immediate", oldw, neww)) return;
    }
    i128 dec = 0;
    bool dv = decode_field(f, neww, dec);
    if (!dv || dec != i128(off)) {
      char w[160];
      if (dv) snprintf(w, sizeof w, "field decodes to %" PRId64 " instead", int64_t(dec));
      else snprintf(w, sizeof w, "field is in an architecturally undefined state");
      if (off_fail(ctx, st, K.wrong, f, fi, off, w, oldw, neww)) return;
    }
    // everything outside the field is untouched: other bits of the word + all other bytes
    bool other_ok = ((neww ^ oldw) & ~fm & wm) == 0;
    if (other_ok) {
      store_word(wp, f.vsize, oldw);
      other_ok = same48(buf64, orig64);
      store_word(wp, f.vsize, neww);
    }
    if (!other_ok) { if (off_fail(ctx, st, K.clobber, f, fi, off, "bits outside the offset field changed", oldw, neww)) return; }
    st.accepted++;
  }

  // encode_offset32/64 directly: same verdict, and mask OR-ed into the old word gives the new word
  if (f.vsize <= 4) {
    uint32_t m = 0xA5A5A5A5u;
    bool ok2 = CodeWriterUtils::encode_offset32(&m, off, of);
    if (ok2 != ok || (ok && ((uint64_t(m) | oldw) & wm) != neww))
      off_fail(ctx, st, K.encmis, f, fi, off, "encode_offset32 disagrees with write_offset", oldw, ok2 ? uint64_t(m) : neww);
  } else {
    uint64_t m = 0xA5A5A5A5A5A5A5A5ull;
    bool ok2 = CodeWriterUtils::encode_offset64(&m, off, of);
    if (ok2 != ok || (ok && (m | oldw) != neww))
      off_fail(ctx, st, K.encmis, f, fi, off, "encode_offset64 disagrees with write_offset", oldw, ok2 ? m : neww);
  }
}

static inline int lowbit_variants(unsigned d, int64_t u, uint64_t out[5]) {
  if (d == 0) { out[0] = 0; return 1; }
  if (d <= 2) { int n = 1 << d; for (int k = 0; k < n; k++) out[k] = uint64_t(k); return n; }
  uint64_t m = (1ull << d) - 1;
  out[0] = 0; out[1] = 1; out[2] = m; out[3] = 1ull << (d - 1); out[4] = mix64(uint64_t(u)) & m;
  return 5;
}

// arm::Utils::encode_aarch32_imm() evaluates Support::ror(v, 0) -> `v << 32` (undefined shift, UBSan halts) for values above
// 0xFF that have bits in the low byte and in bits 16/17. When that finding is listed as known the values are excluded (and
// counted); otherwise they are generated and the sanitizer report is the violation.
static const char* kA32RorKey = "offset-a32-adr-ror-by-zero-ub";
static bool a32_adr_hits_ror_ub(int64_t off) {
  uint64_t a = off < 0 ? uint64_t(0) - uint64_t(off) : uint64_t(off);
  if (a > 0xFFFFFFFFull || a <= 0xFF) return false;
  return (a & 0xFF0000FFull) != 0 && (a & 0x30000ull) != 0;
}

static bool off_allowed(const Fmt& f, int64_t off) {
  // -INT64_MIN is computed by encode_offset32 for sign+magnitude formats: outside of what a 64-bit section layout can produce
  return !(is_sign_magnitude(f.kind) && off == INT64_MIN);
}

static void flush_off_stats(vh::Ctx& ctx, const Fmt& f, OffStats& st) {
  std::string b = std::string("off/") + f.name;
  if (st.accepted) ctx.cls(b + "/accepted", st.accepted);
  if (st.rej_lowbits) ctx.cls(b + "/rej-lowbits", st.rej_lowbits);
  if (st.rej_range) ctx.cls(b + "/rej-range", st.rej_range);
  if (st.rej_noenc) ctx.cls(b + "/rej-noenc", st.rej_noenc);
  if (st.accepted) ctx.cls("off-accepted-total", st.accepted);
  ctx.cls("off-values-total", st.accepted + st.rej_lowbits + st.rej_range + st.rej_noenc);
  if (st.neg) ctx.cls("off-negative-total", st.neg);
  for (auto& kv : st.known) ctx.known_hits[kv.first] += kv.second;
}

static void run_offsets(const vh::Case& c, vh::Ctx& ctx) {
  int fi = int(umod(cfg_at(c, 1), uint64_t(kNumFmts)));
  const Fmt& f = kFmts[fi];
  OffsetFormat of = make_format(f);
  OffStats st;
  i128 ulo, uhi;
  unit_range(f, ulo, uhi);
  int64_t n = cfg_at(c, 3);
  if (n < 0) n = 0;
  if (n > (1 << 20)) n = 1 << 20;
  int64_t mode = cfg_at(c, 4);
  const bool a32ub = f.kind == K_A32_ADR && ctx.is_known(kA32RorKey);

  if (n > 0 && mode == 1 && f.kind == K_A32_ADR) {
    // enumerate modified-immediate encodings imm12 = start .. start+n-1: value, its negation and every value one bit away
    int64_t start = int64_t(umod(cfg_at(c, 2), 4096));
    for (int64_t e = start; e < start + n && e < 4096; e++) {
      uint32_t v = ror32(uint32_t(e & 0xFF), 2 * unsigned(e >> 8));
      check_offset(ctx, f, fi, of, int64_t(v), st);
      check_offset(ctx, f, fi, of, -int64_t(v), st);
      for (int b = 0; b < 33; b++) {
        int64_t nv = int64_t(uint64_t(v) ^ (1ull << b));
        if (a32ub && a32_adr_hits_ror_ub(nv)) { st.known[kA32RorKey] += 2; continue; }
        check_offset(ctx, f, fi, of, nv, st);
        check_offset(ctx, f, fi, of, -nv, st);
      }
    }
    ctx.cls("off-sweep-items");
  } else if (n > 0) {
    int64_t start = cfg_at(c, 2);
    uint64_t lb[5];
    for (int64_t i = 0; i < n; i++) {
      i128 u = i128(start) + i;
      int nv = lowbit_variants(unsigned(f.discard), int64_t(u), lb);
      for (int k = 0; k < nv; k++) {
        i128 o = u * (i128(1) << f.discard) + i128(lb[k]);
        if (o < i128(INT64_MIN) || o > i128(INT64_MAX)) continue;
        if (!off_allowed(f, int64_t(o))) continue;
        if (a32ub && a32_adr_hits_ror_ub(int64_t(o))) { st.known[kA32RorKey]++; continue; }
        check_offset(ctx, f, fi, of, int64_t(o), st);
      }
    }
    ctx.cls("off-sweep-items");
  }

  // explicit items: op = [kind, a, b]
  for (const vh::Op& op : c.ops) {
    int kind = int(umod(op_at(op, 0), 6));
    int64_t a = op_at(op, 1), b = op_at(op, 2);
    i128 unit = i128(1) << f.discard;
    i128 o;
    switch (kind) {
      default:
      case 0: o = a; break;                                   // literal
      case 1: o = (uhi + a) * unit + (b & int64_t(mask_n(unsigned(f.discard)))); break;   // around the top of the range
      case 2: o = (ulo + a) * unit + (b & int64_t(mask_n(unsigned(f.discard)))); break;   // around the bottom
      case 3: o = i128(a) * unit; break;                      // aligned literal
      case 4: o = (i128(1) << umod(a, 64)) + b; break;        // power of two + delta
      case 5: o = -(i128(1) << umod(a, 64)) + b; break;
    }
    if (o < i128(INT64_MIN) || o > i128(INT64_MAX)) o = i128(int64_t(uint64_t(o)));
    if (!off_allowed(f, int64_t(o))) continue;
    if (a32ub && a32_adr_hits_ror_ub(int64_t(o))) { st.known[kA32RorKey]++; continue; }
    check_offset(ctx, f, fi, of, int64_t(o), st);
    ctx.cls("off-explicit-values");
  }

  if (st.accepted) {
    ctx.nontrivial();
    if (ctx.want_sample()) {
      char b[256];
      snprintf(b, sizeof b, "%s start=%" PRId64 " n=%" PRId64 " ops=%zu: accepted=%" PRIu64 " rej-lowbits=%" PRIu64 " rej-range=%" PRIu64, fmt_desc(f).c_str(),
               cfg_at(c, 2), n, c.ops.size(), st.accepted, st.rej_lowbits, st.rej_range);
      ctx.sample(b);
    }
  }
  flush_off_stats(ctx, f, st);
}

//@@IMM-SECTION@@

// =================================================================================================
// Enumeration of sweep items and the generator
// =================================================================================================

struct Item { int64_t fam, a, b, c, d; };
static std::vector<Item> g_items;
static int g_worker = 0, g_workers = 1;
static std::vector<std::string> g_exh_formats, g_win_formats;

static void add_unit_range(std::vector<Item>& items, int fi, i128 lo, i128 hi, int64_t chunk) {
  const Fmt& f = kFmts[fi];
  // keep unit * 2^discard inside int64
  i128 lim_lo = i128(INT64_MIN) >> f.discard, lim_hi = i128(INT64_MAX) >> f.discard;
  if (lo < lim_lo) lo = lim_lo;
  if (hi > lim_hi) hi = lim_hi;
  for (i128 s = lo; s <= hi; s += chunk) {
    i128 n = hi - s + 1;
    if (n > chunk) n = chunk;
    items.push_back({0, fi, int64_t(s), int64_t(n), 0});
  }
}

static std::vector<Item> build_items(const vh::Opts& o) {
  std::vector<Item> items;
  int exh_bits = int(o.geti("exh", o.is_thorough() ? 32 : 26));
  const int64_t band = 1024;
  g_exh_formats.clear(); g_win_formats.clear();
  for (int fi = 0; fi < kNumFmts; fi++) {
    const Fmt& f = kFmts[fi];
    i128 lo, hi;
    unit_range(f, lo, hi);
    bool exhaustive = f.count <= exh_bits && !(f.count > 26 && f.lead + f.trail > 0 && f.lead != 3) && f.kind != K_A32_ADR;
    if (exhaustive) {
      int64_t chunk = f.count > 26 ? (1 << 20) : f.count > 21 ? (1 << 16) : (1 << 14);
      add_unit_range(items, fi, lo - band, hi + band, chunk);
      g_exh_formats.push_back(f.name);
    } else {
      // windows: both ends of the range with the outside band, zero, and every power of two
      add_unit_range(items, fi, lo - band, lo + band, 1 << 14);
      add_unit_range(items, fi, hi - band, hi + band, 1 << 14);
      if (lo < -band) add_unit_range(items, fi, -band, band, 1 << 14);
      for (int k = 1; k < 64; k++) {
        i128 p = i128(1) << k;
        add_unit_range(items, fi, p - 3, p + 3, 16);
        add_unit_range(items, fi, -p - 3, -p + 3, 16);
      }
      if (f.kind == K_A32_ADR) {
        add_unit_range(items, fi, -70000, 70000, 1 << 14);
        for (int s = 0; s < 4096; s += 256) items.push_back({0, fi, s, 256, 1});
      }
      g_win_formats.push_back(f.name);
    }
  }
  //@@IMM-ITEMS@@
  return items;
}

static vh::Case case_of(const Item& it) {
  vh::Case c;
  c.cfg = {it.fam, it.a, it.b, it.c, it.d};
  return c;
}

static int64_t rnd64() {
  uint64_t hi = uint64_t(*vh::irange<int64_t>(0, 0xFFFFFFFFll)), lo = uint64_t(*vh::irange<int64_t>(0, 0xFFFFFFFFll));
  return int64_t((hi << 32) | lo);
}

static vh::Case random_case() {
  vh::Case c;
  int fam = 0;
  //@@IMM-RANDOM-PICK@@
  if (fam == 0) {
    int fi = *vh::irange<int>(0, kNumFmts - 1);
    const Fmt& f = kFmts[fi];
    int sel = *vh::irange<int>(0, 9);
    if (sel < 3) {
      // a random block of the full range
      i128 lo, hi;
      unit_range(f, lo, hi);
      i128 lim_lo = i128(INT64_MIN) >> f.discard, lim_hi = i128(INT64_MAX) >> f.discard;
      if (lo < lim_lo) lo = lim_lo;
      if (hi > lim_hi) hi = lim_hi;
      uint64_t span = uint64_t(hi - lo);
      uint64_t r = uint64_t(rnd64());
      int64_t start = int64_t(lo + i128(span ? r % span : 0));
      c.cfg = {0, fi, start, 2048, 0};
    } else {
      c.cfg = {0, fi, 0, 0, 0};
      int n = *vh::irange<int>(1, 24);
      for (int i = 0; i < n; i++) {
        int kind = *vh::irange<int>(0, 5);
        int64_t a, b;
        if (kind == 0) { int w = *vh::irange<int>(0, 3); a = rnd64(); if (w < 3) a >>= (8 + 12 * w + *vh::irange<int>(0, 11)); b = 0; }
        else if (kind == 3) { a = rnd64() >> *vh::irange<int>(0, 63); b = 0; }
        else if (kind == 4 || kind == 5) { a = *vh::irange<int>(0, 63); b = *vh::irange<int>(-4, 4); }
        else { a = *vh::irange<int>(-1100, 1100); b = *vh::irange<int>(0, 4095); }
        c.ops.push_back({kind, a, b});
      }
    }
  }
  //@@IMM-RANDOM@@
  return c;
}

// Deterministic enumeration hook: the k-th case of this worker is sweep item k*workers + worker.
static bool g_enum_done = false;
bool vh_enum(const vh::Opts& o, uint64_t k, vh::Case& out) {
  if (k == 0) {
    g_items = build_items(o);
    g_worker = o.worker;
    g_workers = o.workers > 0 ? o.workers : 1;
    if (o.geti("list", 0))
      fprintf(stderr, "C17: %zu sweep items, %zu per worker (%d workers)\n", g_items.size(), (g_items.size() + size_t(g_workers) - 1) / size_t(g_workers), g_workers);
  }
  uint64_t idx = k * uint64_t(g_workers) + uint64_t(g_worker);
  if (idx >= g_items.size()) { g_enum_done = true; return false; }
  out = case_of(g_items[size_t(idx)]);
  return true;
}

rc::Gen<vh::Case> vh_gen(const vh::Opts&) {
  return rc::gen::exec([]() -> vh::Case { return random_case(); });
}

void vh_fini(const vh::Opts& o, vh::Ctx& ctx) {
  if (!o.replay.empty()) return;
  ctx.exhaustive = g_enum_done;
  char b[256];
  snprintf(b, sizeof b, "sweep items total=%zu (enumerated before the generated cases, item i -> worker i mod workers)", g_items.size());
  ctx.notes.push_back(b);
  std::string e = "offset formats swept exhaustively (all units in range + 1024 outside each end, all low-bit patterns up to 2 discarded bits):";
  for (auto& s : g_exh_formats) e += " " + s;
  ctx.notes.push_back(e);
  std::string w = "offset formats covered by boundary windows (range ends +-1024, zero, every +-2^k +-3) + random blocks/values:";
  for (auto& s : g_win_formats) w += " " + s;
  ctx.notes.push_back(w);
}

void vh_run(const vh::Case& c, vh::Ctx& ctx) {
  int fam = int(umod(cfg_at(c, 0), 6));
  switch (fam) {
    default:
    case 0: run_offsets(c, ctx); break;
    //@@IMM-DISPATCH@@
  }
}
