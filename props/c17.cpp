// C17 — Displacement and immediate field codecs are exact for every value.
//
// Case layout (plain integers):
//   cfg = [family, p1, p2, p3, p4]      ops = explicit items of that family (may be empty)
//   family 0  offset codecs   cfg = [0, format, start_unit, n_units, mode]   op = [kind, a, b]
//   family 1  logical imm     cfg = [1, sel, imms, enable]                    op = [sel, kind, a, b, c]
//   family 2  fp8 imm         cfg = [2, prec, mode, enable]                   op = [prec, kind, a, b]
//   family 3  move wide       cfg = [3, variant, p, enable]                   op = [is64, rd, kind, a, b]
//   family 4  add/sub imm     cfg = [4, inst, region, enable]                 op = [inst, sf, imm, shiftmode]
//   family 5  bitfield        cfg = [5, inst, sf, enable]                     op = [inst, sf, lsb, width]
//   family 6  a64 pc-relative cfg = [6, inst, path, enable]                   op = [inst, path, distance, mem_offset]
// A "sweep" (cfg[3] > 0) walks a whole block of consecutive values inside vh_run; the list of all sweep
// items is enumerated deterministically and split over the workers (item i -> worker i mod workers), after
// the share is exhausted the generator produces random explicit cases.
//
// Oracles are written from the Arm ARM (DDI 0487 / DDI 0406) bit layouts and pseudo-code; no AsmJit code is
// used for decoding.
#define VH_MAIN
#include "vh.h"

#include <cmath>
#include <cstdarg>

#include <asmjit/core.h>
#include <asmjit/a64.h>
#include <asmjit/core/codewriter_p.h>
#include <asmjit/arm/armutils.h>

using namespace asmjit;

const char* vh_property() { return "C17"; }

typedef __int128 i128;

static inline uint64_t mix64(uint64_t x) {
  x += 0x9E3779B97F4A7C15ull;
  x = (x ^ (x >> 30)) * 0xBF58476D1CE4E5B9ull;
  x = (x ^ (x >> 27)) * 0x94D049BB133111EBull;
  return x ^ (x >> 31);
}
static inline uint64_t mask_n(unsigned n) { return n >= 64 ? ~0ull : ((1ull << n) - 1); }
static inline int64_t sext(uint64_t v, unsigned bits) {
  if (bits >= 64) return (int64_t)v;
  uint64_t m = 1ull << (bits - 1);
  v &= mask_n(bits);
  return (int64_t)((v ^ m) - m);
}
static inline uint32_t ror32(uint32_t v, unsigned n) { n &= 31; return n ? (v >> n) | (v << (32 - n)) : v; }
static inline int64_t cfg_at(const vh::Case& c, size_t i, int64_t d = 0) { return i < c.cfg.size() ? c.cfg[i] : d; }
static inline int64_t op_at(const vh::Op& o, size_t i, int64_t d = 0) { return i < o.size() ? o[i] : d; }
static inline uint64_t umod(int64_t v, uint64_t m) { return m ? uint64_t(v) % m : 0; }

// =================================================================================================
// (a) Offset formats
// =================================================================================================

enum Kind { K_SIGNED, K_UNSIGNED, K_A64_ADR, K_A64_ADRP, K_T32_ADR, K_T32_BLX, K_T32_B, K_T32_BCOND,
            K_A32_ADR, K_A32_U23, K_A32_U23_SPLIT8, K_A32_BLX };

struct Fmt {
  const char* name;
  Kind kind;
  OffsetType type;
  int vsize, shift, count, discard, lead, trail;
  int backend;   // 1: constructed by a back end of this tree, 0: declared in fixup.h only
};

// Formats constructed by the back ends (same reset_to_* calls) + the Thumb/A32 formats of fixup.h with the
// parameters their documentation gives (payload bits / multiplier).
static const Fmt kFmts[] = {
  // x86 (x86assembler.cpp): rel8 / rel32 fixups, relocations with leading opcode bytes and a trailing immediate
  {"x86-rel8",        K_SIGNED,   OffsetType::kSignedOffset,   1, 0,  8, 0, 0, 0, 1},
  {"x86-rel32",       K_SIGNED,   OffsetType::kSignedOffset,   4, 0, 32, 0, 0, 0, 1},
  {"x86-rel8-l1",     K_SIGNED,   OffsetType::kSignedOffset,   1, 0,  8, 0, 1, 0, 1},
  {"x86-rel32-l1",    K_SIGNED,   OffsetType::kSignedOffset,   4, 0, 32, 0, 1, 0, 1},
  {"x86-rel32-l3t1",  K_SIGNED,   OffsetType::kSignedOffset,   4, 0, 32, 0, 3, 1, 1},
  {"x86-rel32-l7t4",  K_SIGNED,   OffsetType::kSignedOffset,   4, 0, 32, 0, 7, 4, 1},
  {"x86-abs32-l2",    K_UNSIGNED, OffsetType::kUnsignedOffset, 4, 0, 32, 0, 2, 0, 1},
  {"x86-abs32-l3t4",  K_UNSIGNED, OffsetType::kUnsignedOffset, 4, 0, 32, 0, 3, 4, 1},
  // core (assembler.cpp): embed_label (unsigned) / embed_label_delta (signed), sizes 1/2/4/8
  {"data-u8",         K_UNSIGNED, OffsetType::kUnsignedOffset, 1, 0,  8, 0, 0, 0, 1},
  {"data-u16",        K_UNSIGNED, OffsetType::kUnsignedOffset, 2, 0, 16, 0, 0, 0, 1},
  {"data-u32",        K_UNSIGNED, OffsetType::kUnsignedOffset, 4, 0, 32, 0, 0, 0, 1},
  {"data-u64",        K_UNSIGNED, OffsetType::kUnsignedOffset, 8, 0, 64, 0, 0, 0, 1},
  {"data-s8",         K_SIGNED,   OffsetType::kSignedOffset,   1, 0,  8, 0, 0, 0, 1},
  {"data-s16",        K_SIGNED,   OffsetType::kSignedOffset,   2, 0, 16, 0, 0, 0, 1},
  {"data-s32",        K_SIGNED,   OffsetType::kSignedOffset,   4, 0, 32, 0, 0, 0, 1},
  {"data-s64",        K_SIGNED,   OffsetType::kSignedOffset,   8, 0, 64, 0, 0, 0, 1},
  // AArch64 (a64assembler.cpp)
  {"a64-imm26",       K_SIGNED,   OffsetType::kSignedOffset,   4, 0, 26, 2, 0, 0, 1},   // b / bl
  {"a64-imm19",       K_SIGNED,   OffsetType::kSignedOffset,   4, 5, 19, 2, 0, 0, 1},   // b.cond / cbz / ldr literal
  {"a64-imm14",       K_SIGNED,   OffsetType::kSignedOffset,   4, 5, 14, 2, 0, 0, 1},   // tbz / tbnz
  {"a64-adr",         K_A64_ADR,  OffsetType::kAArch64_ADR,    4, 5, 21, 0, 0, 0, 1},
  {"a64-adrp",        K_A64_ADRP, OffsetType::kAArch64_ADRP,   4, 5, 21, 12, 0, 0, 1},
  // Thumb / A32 formats of fixup.h (not constructed by a back end in this tree)
  {"thumb32-adr",     K_T32_ADR,  OffsetType::kThumb32_ADR,    4, 0, 12, 0, 0, 0, 0},
  {"thumb32-blx",     K_T32_BLX,  OffsetType::kThumb32_BLX,    4, 0, 23, 2, 0, 0, 0},
  {"thumb32-b",       K_T32_B,    OffsetType::kThumb32_B,      4, 0, 24, 1, 0, 0, 0},
  {"thumb32-bcond",   K_T32_BCOND,OffsetType::kThumb32_BCond,  4, 0, 20, 1, 0, 0, 0},
  {"a32-adr",         K_A32_ADR,  OffsetType::kAArch32_ADR,    4, 0, 32, 0, 0, 0, 0},
  {"a32-ldr-lit",     K_A32_U23,  OffsetType::kAArch32_U23_SignedOffset, 4, 0, 12, 0, 0, 0, 0},   // LDR (literal): U, imm12
  {"a32-vldr-lit",    K_A32_U23,  OffsetType::kAArch32_U23_SignedOffset, 4, 0,  8, 2, 0, 0, 0},   // VLDR (literal): U, imm8*4
  {"a32-ldrh-lit",    K_A32_U23_SPLIT8, OffsetType::kAArch32_U23_0To3At0_4To7At8, 4, 0, 8, 0, 0, 0, 0},
  {"a32-blx",         K_A32_BLX,  OffsetType::kAArch32_1To24At0_0At24, 4, 0, 25, 1, 0, 0, 0},    // BLX (imm) A2: imm24:H:'0'
  {"a32-b",           K_SIGNED,   OffsetType::kSignedOffset,   4, 0, 24, 2, 0, 0, 0},             // B / BL A1
  // T16 formats through the generic types (value size 2, unsigned with discarded bits)
  {"thumb16-b",       K_SIGNED,   OffsetType::kSignedOffset,   2, 0, 11, 1, 0, 0, 0},
  {"thumb16-bcond",   K_SIGNED,   OffsetType::kSignedOffset,   2, 0,  8, 1, 0, 0, 0},
  {"thumb16-ldr-lit", K_UNSIGNED, OffsetType::kUnsignedOffset, 2, 0,  8, 2, 0, 0, 0},
};
static const int kNumFmts = int(sizeof(kFmts) / sizeof(kFmts[0]));

static OffsetFormat make_format(const Fmt& f) {
  OffsetFormat of;
  if (f.kind == K_A64_ADRP) {
    // exactly what the a64 assembler does for adrp
    of.reset_to_imm_value(f.type, 4, 5, 21, 0);
    of._imm_discard_lsb = 12;
  } else if (f.count == f.vsize * 8 && f.shift == 0 && f.discard == 0) {
    of.reset_to_simple_value(f.type, size_t(f.vsize));
  } else {
    of.reset_to_imm_value(f.type, size_t(f.vsize), uint32_t(f.shift), uint32_t(f.count), uint32_t(f.discard));
  }
  if (f.lead || f.trail) of.set_leading_and_trailing_size(size_t(f.lead), size_t(f.trail));
  return of;
}

static bool a32_modimm_encodable(uint32_t v) {
  for (unsigned r = 0; r < 16; r++) {
    uint32_t x = (v << (2 * r)) | (r ? (v >> (32 - 2 * r)) : 0);   // ROL(v, 2r)
    if (x <= 0xFF) return true;
  }
  return false;
}

// bits of the value word that belong to the offset field (everything else must stay untouched)
static uint64_t field_mask(const Fmt& f) {
  switch (f.kind) {
    case K_SIGNED: case K_UNSIGNED: return mask_n(unsigned(f.count)) << f.shift;
    case K_A64_ADR: case K_A64_ADRP: return (3ull << 29) | (0x7FFFFull << 5);
    case K_T32_ADR: return 0xFFull | 0x7000ull | (1ull << 26) | (1ull << 21) | (1ull << 23);
    case K_T32_B: return (1ull << 26) | (0x3FFull << 16) | (1ull << 13) | (1ull << 11) | 0x7FFull;
    case K_T32_BLX: return (1ull << 26) | (0x3FFull << 16) | (1ull << 13) | (1ull << 11) | 0x7FEull;
    case K_T32_BCOND: return (1ull << 26) | (0x3Full << 16) | (1ull << 13) | (1ull << 11) | 0x7FFull;
    case K_A32_ADR: return 0xFFFull | (1ull << 22) | (1ull << 23);
    case K_A32_U23: return (mask_n(unsigned(f.count)) << f.shift) | (1ull << 23);
    case K_A32_U23_SPLIT8: return 0xFull | 0xF00ull | (1ull << 23);
    case K_A32_BLX: return 0x01FFFFFFull;
  }
  return 0;
}

// Architecture decode of the field. Returns false when the field is in a state the architecture does not define
// for this instruction (e.g. inconsistent add/sub selector bits).
static bool decode_field(const Fmt& f, uint64_t w, i128& out) {
  switch (f.kind) {
    case K_SIGNED: {
      uint64_t raw = (w >> f.shift) & mask_n(unsigned(f.count));
      out = i128(sext(raw, unsigned(f.count))) * (i128(1) << f.discard);
      return true;
    }
    case K_UNSIGNED: {
      uint64_t raw = (w >> f.shift) & mask_n(unsigned(f.count));
      out = i128(raw) * (i128(1) << f.discard);
      if (f.count == 64) out = i128(int64_t(uint64_t(out)));   // a 64-bit address carried in an int64_t
      return true;
    }
    case K_A64_ADR: case K_A64_ADRP: {
      // ADR/ADRP: imm = SignExtend(immhi:immlo [:Zeros(12)]), immlo = bits 30:29, immhi = bits 23:5
      uint64_t immlo = (w >> 29) & 3, immhi = (w >> 5) & 0x7FFFF;
      int64_t v = sext((immhi << 2) | immlo, 21);
      out = f.kind == K_A64_ADRP ? i128(v) * 4096 : i128(v);
      return true;
    }
    case K_T32_ADR: {
      // ADR T3 (add, hw1 = 11110 i 10000 0 1111) / T2 (sub, hw1 = 11110 i 10101 0 1111); hw2 = 0 imm3 Rd imm8
      uint64_t i = (w >> 26) & 1, imm3 = (w >> 12) & 7, imm8 = w & 0xFF;
      uint64_t b21 = (w >> 21) & 1, b23 = (w >> 23) & 1;
      if (b21 != b23) return false;
      i128 imm = i128((i << 11) | (imm3 << 8) | imm8);
      out = b21 ? -imm : imm;
      return true;
    }
    case K_T32_B: case K_T32_BLX: {
      // B T4 / BL T1 / BLX T2: hw1 = 11110 S imm10, hw2 = 1x J1 x J2 imm11; I1 = NOT(J1 EOR S), I2 = NOT(J2 EOR S)
      uint64_t S = (w >> 26) & 1, imm10 = (w >> 16) & 0x3FF, J1 = (w >> 13) & 1, J2 = (w >> 11) & 1;
      uint64_t I1 = (~(J1 ^ S)) & 1, I2 = (~(J2 ^ S)) & 1;
      if (f.kind == K_T32_B) {
        uint64_t imm11 = w & 0x7FF;
        uint64_t v = (S << 23) | (I1 << 22) | (I2 << 21) | (imm10 << 11) | imm11;
        out = i128(sext(v, 24)) * 2;
      } else {
        uint64_t imm10l = (w >> 1) & 0x3FF;
        uint64_t v = (S << 22) | (I1 << 21) | (I2 << 20) | (imm10 << 10) | imm10l;
        out = i128(sext(v, 23)) * 4;
      }
      return true;
    }
    case K_T32_BCOND: {
      // B T3: hw1 = 11110 S cond imm6, hw2 = 10 J1 0 J2 imm11; imm32 = SignExtend(S:J2:J1:imm6:imm11:'0')
      uint64_t S = (w >> 26) & 1, imm6 = (w >> 16) & 0x3F, J1 = (w >> 13) & 1, J2 = (w >> 11) & 1, imm11 = w & 0x7FF;
      uint64_t v = (S << 19) | (J2 << 18) | (J1 << 17) | (imm6 << 11) | imm11;
      out = i128(sext(v, 20)) * 2;
      return true;
    }
    case K_A32_ADR: {
      // ADR A1 (ADD Rd, PC, #const: opcode bits 24:21 = 0100) / A2 (SUB: 0010); const = ROR(imm8, 2*rot)
      uint32_t imm12 = uint32_t(w & 0xFFF);
      uint32_t val = ror32(imm12 & 0xFF, 2 * (imm12 >> 8));
      uint64_t add = (w >> 23) & 1, sub = (w >> 22) & 1;
      if (add == sub) return false;
      out = add ? i128(val) : -i128(val);
      return true;
    }
    case K_A32_U23: {
      uint64_t U = (w >> 23) & 1, imm = (w >> f.shift) & mask_n(unsigned(f.count));
      i128 mag = i128(imm) * (i128(1) << f.discard);
      out = U ? mag : -mag;
      return true;
    }
    case K_A32_U23_SPLIT8: {
      uint64_t U = (w >> 23) & 1, imm = (((w >> 8) & 0xF) << 4) | (w & 0xF);
      out = U ? i128(imm) : -i128(imm);
      return true;
    }
    case K_A32_BLX: {
      uint64_t imm24 = w & 0xFFFFFF, H = (w >> 24) & 1;
      out = i128(sext((imm24 << 1) | H, 25)) * 2;
      return true;
    }
  }
  return false;
}

static bool is_sign_magnitude(Kind k) { return k == K_T32_ADR || k == K_A32_ADR || k == K_A32_U23 || k == K_A32_U23_SPLIT8; }

// inclusive range of encodable units (offset >> discard)
static void unit_range(const Fmt& f, i128& lo, i128& hi) {
  i128 one = 1;
  if (f.kind == K_UNSIGNED) { lo = 0; hi = (one << f.count) - 1; }
  else if (is_sign_magnitude(f.kind)) { hi = (one << f.count) - 1; lo = -hi; }
  else { lo = -(one << (f.count - 1)); hi = (one << (f.count - 1)) - 1; }
}

// 0 = representable, 1 = low discarded bits non-zero, 2 = out of range, 3 = no modified-immediate encoding
static int classify(const Fmt& f, int64_t off) {
  const uint64_t dm = mask_n(unsigned(f.discard));
  if (f.kind == K_UNSIGNED) {
    if (f.count == 64) return (uint64_t(off) & dm) ? 1 : 0;     // a 64-bit address carried in an int64_t
    if (uint64_t(off) & dm) return 1;
    if (off < 0) return 2;
    return (uint64_t(off) >> f.discard) <= mask_n(unsigned(f.count)) ? 0 : 2;
  }
  if (is_sign_magnitude(f.kind)) {
    uint64_t a = off < 0 ? uint64_t(0) - uint64_t(off) : uint64_t(off);
    if (a & dm) return 1;
    if ((a >> f.discard) > mask_n(unsigned(f.count))) return 2;
    if (f.kind == K_A32_ADR && !a32_modimm_encodable(uint32_t(a))) return 3;
    return 0;
  }
  // two's complement: a multiple of 2^discard has its low bits zero for negative values too
  if (uint64_t(off) & dm) return 1;
  if (f.count >= 64) return 0;
  int64_t q = off >> f.discard;      // arithmetic shift of an exact multiple
  int64_t lim = int64_t(1) << (f.count - 1);
  return (q >= -lim && q <= lim - 1) ? 0 : 2;
}

struct FmtKeys { std::string wrong, accepts, rejects, clobber, modfail, encmis; };
static const FmtKeys& keys_of(int fi) {
  static std::vector<FmtKeys> ks;
  if (ks.empty()) {
    for (int i = 0; i < kNumFmts; i++) {
      std::string b = std::string("offset-") + kFmts[i].name;
      ks.push_back({b + "-wrong-field", b + "-accepts-unrepresentable", b + "-rejects-representable",
                    b + "-clobbers-other-bits", b + "-modifies-on-failure", b + "-encode-mismatch"});
    }
  }
  return ks[size_t(fi)];
}

struct OffStats {
  uint64_t accepted = 0, rej_lowbits = 0, rej_range = 0, rej_noenc = 0, neg = 0;
  std::map<std::string, uint64_t> known;
};

static std::string fmt_desc(const Fmt& f) {
  char b[200];
  snprintf(b, sizeof b, "%s{type=%u vsize=%d shift=%d bits=%d discard=%d lead=%d trail=%d}", f.name, unsigned(f.type), f.vsize, f.shift, f.count, f.discard, f.lead, f.trail);
  return b;
}

// Reports through ctx.fail unless the key is a known finding; returns true when the caller should skip the value.
static bool off_fail(vh::Ctx& ctx, OffStats& st, const std::string& key, const Fmt& f, int fi, int64_t off, const char* what, uint64_t oldw, uint64_t neww) {
  if (ctx.is_known(key)) { st.known[key]++; return true; }
  char b[600];
  snprintf(b, sizeof b, "%s offset=%" PRId64 " (0x%" PRIx64 "): %s; word before=0x%" PRIx64 " after=0x%" PRIx64 " field-mask=0x%" PRIx64 "  [explicit replay: cfg 0 %d 0 0 0 / op 0 %" PRId64 " 0]",
           fmt_desc(f).c_str(), off, uint64_t(off), what, oldw, neww, field_mask(f), fi, off);
  ctx.fail(key, b);
}

static const size_t kBufSize = 48, kRegionAt = 12;

static inline uint64_t load_word(const uint8_t* p, int vsize) {
  switch (vsize) {
    case 1: return *p;
    case 2: { uint16_t v; __builtin_memcpy(&v, p, 2); return v; }
    case 4: { uint32_t v; __builtin_memcpy(&v, p, 4); return v; }
    default: { uint64_t v; __builtin_memcpy(&v, p, 8); return v; }
  }
}
static inline void store_word(uint8_t* p, int vsize, uint64_t w) {
  switch (vsize) {
    case 1: *p = uint8_t(w); break;
    case 2: { uint16_t v = uint16_t(w); __builtin_memcpy(p, &v, 2); break; }
    case 4: { uint32_t v = uint32_t(w); __builtin_memcpy(p, &v, 4); break; }
    default: __builtin_memcpy(p, &w, 8); break;
  }
}
static inline bool same48(const uint64_t* a, const uint64_t* b) {
  return ((a[0] ^ b[0]) | (a[1] ^ b[1]) | (a[2] ^ b[2]) | (a[3] ^ b[3]) | (a[4] ^ b[4]) | (a[5] ^ b[5])) == 0;
}

static void check_offset(vh::Ctx& ctx, const Fmt& f, int fi, const OffsetFormat& of, int64_t off, OffStats& st) {
  const FmtKeys& K = keys_of(fi);
  // 48-byte buffer: [0,8) and [40,48) fixed guard pattern, [8,40) pseudo-random bits derived from (offset, format);
  // the patched region starts at byte 12 (leading bytes, value word, trailing bytes: at most 19 bytes).
  uint64_t buf64[6], orig64[6];
  uint8_t* buf = reinterpret_cast<uint8_t*>(buf64);
  uint64_t h = mix64(uint64_t(off) * 0x2545F4914F6CDD1Dull + uint64_t(fi));
  buf64[0] = buf64[5] = 0xA5C3E1F00F1E3C5Aull;
  for (int i = 1; i < 5; i++) { buf64[i] = h; h = mix64(h); }
  uint8_t* wp = buf + kRegionAt + f.lead;
  const uint64_t fm = field_mask(f);
  const uint64_t wm = mask_n(unsigned(f.vsize) * 8);
  uint64_t oldw = load_word(wp, f.vsize) & ~fm;   // the emitters leave the field zero before patching
  store_word(wp, f.vsize, oldw);
  for (int i = 0; i < 6; i++) orig64[i] = buf64[i];

  bool ok = CodeWriterUtils::write_offset(buf + kRegionAt, off, of);
  uint64_t neww = load_word(wp, f.vsize);
  int cls = classify(f, off);
  if (off < 0) st.neg++;

  if (!ok) {
    if (!same48(buf64, orig64)) { if (off_fail(ctx, st, K.modfail, f, fi, off, "write_offset returned false but modified the buffer", oldw, neww)) return; }
    if (cls == 0) { if (off_fail(ctx, st, K.rejects, f, fi, off, "write_offset refused an offset the format can hold", oldw, neww)) return; }
    if (cls == 1) st.rej_lowbits++; else if (cls == 2) st.rej_range++; else st.rej_noenc++;
  } else {
    if (cls != 0) {
      if (off_fail(ctx, st, K.accepts, f, fi, off, cls == 1 ? "accepted although discarded low bits are non-zero" : cls == 2 ? "accepted although out of range" : "accepted although not a modified immediate", oldw, neww)) return;
    }
    i128 dec = 0;
    bool dv = decode_field(f, neww, dec);
    if (!dv || dec != i128(off)) {
      char w[160];
      if (dv) snprintf(w, sizeof w, "field decodes to %" PRId64 " instead", int64_t(dec));
      else snprintf(w, sizeof w, "field is in an architecturally undefined state");
      if (off_fail(ctx, st, K.wrong, f, fi, off, w, oldw, neww)) return;
    }
    // everything outside the field is untouched: other bits of the word + all other bytes
    bool other_ok = ((neww ^ oldw) & ~fm & wm) == 0;
    if (other_ok) {
      store_word(wp, f.vsize, oldw);
      other_ok = same48(buf64, orig64);
      store_word(wp, f.vsize, neww);
    }
    if (!other_ok) { if (off_fail(ctx, st, K.clobber, f, fi, off, "bits outside the offset field changed", oldw, neww)) return; }
    st.accepted++;
  }

  // encode_offset32/64 directly: same verdict, and mask OR-ed into the old word gives the new word
  if (f.vsize <= 4) {
    uint32_t m = 0xA5A5A5A5u;
    bool ok2 = CodeWriterUtils::encode_offset32(&m, off, of);
    if (ok2 != ok || (ok && ((uint64_t(m) | oldw) & wm) != neww))
      off_fail(ctx, st, K.encmis, f, fi, off, "encode_offset32 disagrees with write_offset", oldw, ok2 ? uint64_t(m) : neww);
  } else {
    uint64_t m = 0xA5A5A5A5A5A5A5A5ull;
    bool ok2 = CodeWriterUtils::encode_offset64(&m, off, of);
    if (ok2 != ok || (ok && (m | oldw) != neww))
      off_fail(ctx, st, K.encmis, f, fi, off, "encode_offset64 disagrees with write_offset", oldw, ok2 ? m : neww);
  }
}

static inline int lowbit_variants(unsigned d, int64_t u, uint64_t out[5]) {
  if (d == 0) { out[0] = 0; return 1; }
  if (d <= 2) { int n = 1 << d; for (int k = 0; k < n; k++) out[k] = uint64_t(k); return n; }
  uint64_t m = (1ull << d) - 1;
  out[0] = 0; out[1] = 1; out[2] = m; out[3] = 1ull << (d - 1); out[4] = mix64(uint64_t(u)) & m;
  return 5;
}

// arm::Utils::encode_aarch32_imm() evaluates Support::ror(v, 0) -> `v << 32` (undefined shift, UBSan halts) for values above
// 0xFF that have bits in the low byte and in bits 16/17. When that finding is listed as known the values are excluded (and
// counted); otherwise they are generated and the sanitizer report is the violation.
static const char* kA32RorKey = "offset-a32-adr-ror-by-zero-ub";
static bool a32_adr_hits_ror_ub(int64_t off) {
  uint64_t a = off < 0 ? uint64_t(0) - uint64_t(off) : uint64_t(off);
  if (a > 0xFFFFFFFFull || a <= 0xFF) return false;
  return (a & 0xFF0000FFull) != 0 && (a & 0x30000ull) != 0;
}

static bool off_allowed(const Fmt& f, int64_t off) {
  // -INT64_MIN is computed by encode_offset32 for sign+magnitude formats: outside of what a 64-bit section layout can produce
  return !(is_sign_magnitude(f.kind) && off == INT64_MIN);
}

static void flush_off_stats(vh::Ctx& ctx, const Fmt& f, OffStats& st) {
  std::string b = std::string("off/") + f.name;
  if (st.accepted) ctx.cls(b + "/accepted", st.accepted);
  if (st.rej_lowbits) ctx.cls(b + "/rej-lowbits", st.rej_lowbits);
  if (st.rej_range) ctx.cls(b + "/rej-range", st.rej_range);
  if (st.rej_noenc) ctx.cls(b + "/rej-noenc", st.rej_noenc);
  if (st.accepted) ctx.cls("off-accepted-total", st.accepted);
  ctx.cls("off-values-total", st.accepted + st.rej_lowbits + st.rej_range + st.rej_noenc);
  if (st.neg) ctx.cls("off-negative-total", st.neg);
  for (auto& kv : st.known) ctx.known_hits[kv.first] += kv.second;
}

static void run_offsets(const vh::Case& c, vh::Ctx& ctx) {
  int fi = int(umod(cfg_at(c, 1), uint64_t(kNumFmts)));
  const Fmt& f = kFmts[fi];
  OffsetFormat of = make_format(f);
  OffStats st;
  i128 ulo, uhi;
  unit_range(f, ulo, uhi);
  int64_t n = cfg_at(c, 3);
  if (n < 0) n = 0;
  if (n > (1 << 20)) n = 1 << 20;
  int64_t mode = cfg_at(c, 4);
  const bool a32ub = f.kind == K_A32_ADR && ctx.is_known(kA32RorKey);

  if (n > 0 && mode == 1 && f.kind == K_A32_ADR) {
    // enumerate modified-immediate encodings imm12 = start .. start+n-1: value, its negation and every value one bit away
    int64_t start = int64_t(umod(cfg_at(c, 2), 4096));
    for (int64_t e = start; e < start + n && e < 4096; e++) {
      uint32_t v = ror32(uint32_t(e & 0xFF), 2 * unsigned(e >> 8));
      check_offset(ctx, f, fi, of, int64_t(v), st);
      check_offset(ctx, f, fi, of, -int64_t(v), st);
      for (int b = 0; b < 33; b++) {
        int64_t nv = int64_t(uint64_t(v) ^ (1ull << b));
        if (a32ub && a32_adr_hits_ror_ub(nv)) { st.known[kA32RorKey] += 2; continue; }
        check_offset(ctx, f, fi, of, nv, st);
        check_offset(ctx, f, fi, of, -nv, st);
      }
    }
    ctx.cls("off-sweep-items");
  } else if (n > 0) {
    int64_t start = cfg_at(c, 2);
    uint64_t lb[5];
    for (int64_t i = 0; i < n; i++) {
      i128 u = i128(start) + i;
      int nv = lowbit_variants(unsigned(f.discard), int64_t(u), lb);
      for (int k = 0; k < nv; k++) {
        i128 o = u * (i128(1) << f.discard) + i128(lb[k]);
        if (o < i128(INT64_MIN) || o > i128(INT64_MAX)) continue;
        if (!off_allowed(f, int64_t(o))) continue;
        if (a32ub && a32_adr_hits_ror_ub(int64_t(o))) { st.known[kA32RorKey]++; continue; }
        check_offset(ctx, f, fi, of, int64_t(o), st);
      }
    }
    ctx.cls("off-sweep-items");
  }

  // explicit items: op = [kind, a, b]
  for (const vh::Op& op : c.ops) {
    int kind = int(umod(op_at(op, 0), 6));
    int64_t a = op_at(op, 1), b = op_at(op, 2);
    i128 unit = i128(1) << f.discard;
    i128 o;
    switch (kind) {
      default:
      case 0: o = a; break;                                   // literal
      case 1: o = (uhi + a) * unit + (b & int64_t(mask_n(unsigned(f.discard)))); break;   // around the top of the range
      case 2: o = (ulo + a) * unit + (b & int64_t(mask_n(unsigned(f.discard)))); break;   // around the bottom
      case 3: o = i128(a) * unit; break;                      // aligned literal
      case 4: o = (i128(1) << umod(a, 64)) + b; break;        // power of two + delta
      case 5: o = -(i128(1) << umod(a, 64)) + b; break;
    }
    if (o < i128(INT64_MIN) || o > i128(INT64_MAX)) o = i128(int64_t(uint64_t(o)));
    if (!off_allowed(f, int64_t(o))) continue;
    if (a32ub && a32_adr_hits_ror_ub(int64_t(o))) { st.known[kA32RorKey]++; continue; }
    check_offset(ctx, f, fi, of, int64_t(o), st);
    ctx.cls("off-explicit-values");
  }

  if (st.accepted) {
    ctx.nontrivial();
    if (ctx.want_sample()) {
      char b[256];
      snprintf(b, sizeof b, "%s start=%" PRId64 " n=%" PRId64 " ops=%zu: accepted=%" PRIu64 " rej-lowbits=%" PRIu64 " rej-range=%" PRIu64, fmt_desc(f).c_str(),
               cfg_at(c, 2), n, c.ops.size(), st.accepted, st.rej_lowbits, st.rej_range);
      ctx.sample(b);
    }
  }
  flush_off_stats(ctx, f, st);
}

// =================================================================================================
// (b) AArch64 immediates
// =================================================================================================

// Reports unless the key is a known finding; returns (instead of throwing) when known.
static bool imm_fail(vh::Ctx& ctx, const std::string& key, const char* fmt, ...) __attribute__((format(printf, 3, 4)));
static bool imm_fail(vh::Ctx& ctx, const std::string& key, const char* fmt, ...) {
  if (ctx.is_known(key)) { ctx.known_hits[key]++; return true; }
  char b[700];
  va_list ap;
  va_start(ap, fmt);
  vsnprintf(b, sizeof b, fmt, ap);
  va_end(ap);
  ctx.fail(key, b);
}

// ---- DecodeBitMasks(immN, imms, immr, immediate, M) from the Arm ARM pseudo-code -----------------
struct BitMasks { bool valid; uint64_t wmask, tmask; unsigned esize; };

static uint64_t replicate(uint64_t elem, unsigned esize, unsigned M) {
  uint64_t r = 0;
  elem &= mask_n(esize);
  for (unsigned i = 0; i < M; i += esize) r |= elem << i;
  return r;
}

static BitMasks decode_bit_masks(unsigned N, unsigned imms, unsigned immr, bool immediate, unsigned M) {
  BitMasks bm{false, 0, 0, 0};
  unsigned v = ((N & 1) << 6) | (~imms & 0x3F);
  int len = -1;
  for (int i = 6; i >= 0; i--) if ((v >> i) & 1) { len = i; break; }      // HighestSetBit(immN:NOT(imms))
  if (len < 1) return bm;                                                    // UNDEFINED
  if (M < (1u << len)) return bm;                                            // sf == 0 && N == 1 is UNDEFINED
  unsigned levels = (1u << len) - 1;
  if (immediate && (imms & levels) == levels) return bm;                     // UNDEFINED
  unsigned S = imms & levels, R = immr & levels;
  unsigned esize = 1u << len;
  unsigned d = (S - R) & levels;
  uint64_t welem = mask_n(S + 1), telem = mask_n(d + 1);
  uint64_t em = mask_n(esize);
  uint64_t wr = R ? (((welem >> R) | (welem << (esize - R))) & em) : welem;  // ROR(welem, R) on esize bits
  bm.valid = true;
  bm.wmask = replicate(wr, esize, M);
  bm.tmask = replicate(telem, esize, M);
  bm.esize = esize;
  return bm;
}

struct LogicalRef { std::unordered_set<uint64_t> set64, set32; };
static const LogicalRef& logical_ref() {
  static LogicalRef r;
  if (r.set64.empty()) {
    for (unsigned N = 0; N < 2; N++)
      for (unsigned immr = 0; immr < 64; immr++)
        for (unsigned imms = 0; imms < 64; imms++) {
          BitMasks a = decode_bit_masks(N, imms, immr, true, 64);
          if (a.valid) r.set64.insert(a.wmask);
          BitMasks b = decode_bit_masks(N, imms, immr, true, 32);
          if (b.valid) r.set32.insert(b.wmask);
        }
  }
  return r;
}
static bool ref_is_logical(uint64_t v, unsigned width) {
  const LogicalRef& r = logical_ref();
  return width == 64 ? r.set64.count(v) != 0 : (v <= 0xFFFFFFFFull && r.set32.count(v) != 0);
}

// ---- a tiny interpreter for the integer data-processing (immediate) encodings used here ---------
struct Machine {
  uint64_t x[31];
  uint64_t sp;
  void init(uint64_t seed) { for (int i = 0; i < 31; i++) x[i] = mix64(seed + uint64_t(i) * 0x51ull); sp = mix64(seed ^ 0x5111ull); }
  uint64_t rz(unsigned r) const { return r == 31 ? 0 : x[r]; }          // register 31 = ZR
  void wz(unsigned r, uint64_t v, bool sf) { if (r != 31) x[r] = sf ? v : (v & 0xFFFFFFFFull); }
  void wsp(unsigned r, uint64_t v, bool sf) { v = sf ? v : (v & 0xFFFFFFFFull); if (r == 31) sp = v; else x[r] = v; }   // register 31 = SP
};

static inline uint64_t ror_n(uint64_t v, unsigned r, unsigned size) {
  v &= mask_n(size);
  r %= size;
  return r ? ((v >> r) | (v << (size - r))) & mask_n(size) : v;
}

// Executes one instruction word; returns false when the word is not one of the encodings modelled (or is UNDEFINED).
static bool machine_exec(Machine& m, uint32_t w) {
  bool sf = (w >> 31) & 1;
  unsigned size = sf ? 64 : 32;
  unsigned opc = (w >> 29) & 3, rd = w & 31, rn = (w >> 5) & 31;
  uint32_t cls = w & 0x1F800000u;
  if (cls == 0x12800000u) {
    // Move wide (immediate): sf opc 100101 hw imm16 Rd; opc 00 MOVN, 10 MOVZ, 11 MOVK
    unsigned hw = (w >> 21) & 3;
    uint64_t imm16 = (w >> 5) & 0xFFFF;
    if (opc == 1) return false;
    if (!sf && (hw & 2)) return false;
    unsigned pos = hw * 16;
    uint64_t r;
    if (opc == 3) r = (m.rz(rd) & ~(0xFFFFull << pos)) | (imm16 << pos);
    else { r = imm16 << pos; if (opc == 0) r = ~r; }
    m.wz(rd, r, sf);
    return true;
  }
  if (cls == 0x12000000u) {
    // Logical (immediate): sf opc 100100 N immr imms Rn Rd; opc 00 AND, 01 ORR, 10 EOR, 11 ANDS
    unsigned N = (w >> 22) & 1, immr = (w >> 16) & 63, imms = (w >> 10) & 63;
    if (!sf && N) return false;
    BitMasks bm = decode_bit_masks(N, imms, immr, true, size);
    if (!bm.valid) return false;
    uint64_t a = m.rz(rn), r;
    switch (opc) { case 0: r = a & bm.wmask; break; case 1: r = a | bm.wmask; break; case 2: r = a ^ bm.wmask; break; default: r = a & bm.wmask; break; }
    if (opc == 3) m.wz(rd, r, sf); else m.wsp(rd, r, sf);
    return true;
  }
  if (cls == 0x13000000u) {
    // Bitfield: sf opc 100110 N immr imms Rn Rd; opc 00 SBFM, 01 BFM, 10 UBFM
    unsigned N = (w >> 22) & 1, immr = (w >> 16) & 63, imms = (w >> 10) & 63;
    if (opc == 3) return false;
    if (sf && !N) return false;
    if (!sf && (N || (immr & 32) || (imms & 32))) return false;
    BitMasks bm = decode_bit_masks(N, imms, immr, false, size);
    if (!bm.valid) return false;
    bool inzero = opc != 1, extend = opc == 0;
    uint64_t sm = mask_n(size);
    uint64_t dst = inzero ? 0 : (m.rz(rd) & sm), src = m.rz(rn) & sm;
    uint64_t bot = (dst & ~bm.wmask) | (ror_n(src, immr, size) & bm.wmask);
    uint64_t top = extend ? (((src >> imms) & 1) ? sm : 0) : dst;
    uint64_t r = ((top & ~bm.tmask) | (bot & bm.tmask)) & sm;
    m.wz(rd, r, sf);
    return true;
  }
  if (cls == 0x13800000u) {
    // Extract: sf 00 100111 N 0 Rm imms Rn Rd
    unsigned N = (w >> 22) & 1, o0 = (w >> 21) & 1, rm = (w >> 16) & 31, imms = (w >> 10) & 63;
    if (opc != 0 || o0) return false;
    if (N != (sf ? 1u : 0u)) return false;
    if (!sf && (imms & 32)) return false;
    uint64_t sm = mask_n(size);
    uint64_t hi = m.rz(rn) & sm, lo = m.rz(rm) & sm;
    uint64_t r = imms ? ((lo >> imms) | (hi << (size - imms))) & sm : lo;
    m.wz(rd, r, sf);
    return true;
  }
  return false;
}

// ---- assembler wrapper ------------------------------------------------------------------------
struct A64 {
  CodeHolder code;
  a64::Assembler a;
  std::vector<uint32_t> words;      // words emitted by the last emit()
  A64() {
    Environment env(Arch::kAArch64);
    code.init(env);
    code.attach(&a);
  }
  size_t size() const { return code.text_section()->buffer().size(); }
  template<typename... Args>
  Error emit(InstId id, Args&&... args) {
    size_t before = size();
    Error e = a.emit(id, std::forward<Args>(args)...);
    size_t after = size();
    words.clear();
    const uint8_t* d = code.text_section()->buffer().data();
    for (size_t o = before; o + 4 <= after; o += 4) { uint32_t v; memcpy(&v, d + o, 4); words.push_back(v); }
    tail = (after - before) & 3;
    return e;
  }
  size_t tail = 0;
};

// Common post-conditions of one emit: an error emits nothing, success emits whole words.
static bool emit_shape_ok(vh::Ctx& ctx, A64& s, Error e, const char* family, const char* what) {
  if (e != Error::kOk && (!s.words.empty() || s.tail))
    return !imm_fail(ctx, std::string(family) + "-error-but-emitted", "%s: error %u returned but %zu words were emitted", what, unsigned(e), s.words.size());
  if (e == Error::kOk && (s.words.empty() || s.tail))
    return !imm_fail(ctx, std::string(family) + "-ok-but-nothing-emitted", "%s: kOk returned but %zu words (+%zu bytes) were emitted", what, s.words.size(), s.tail);
  return true;
}

static a64::Gp gp_reg(bool sf, unsigned id) { return sf ? a64::Gp::make_r64(id) : a64::Gp::make_r32(id); }

// ---- family 1: logical (bitmask) immediates --------------------------------------------------
static void check_logical_util(vh::Ctx& ctx, uint64_t v, unsigned width) {
  bool ref = ref_is_logical(v, width);
  arm::Utils::LogicalImm li{0xFFFFFFFFu, 0xFFFFFFFFu, 0xFFFFFFFFu};
  bool ok = arm::Utils::encode_logical_imm(v, width, Out(li));
  ctx.cls(ok ? "logical/util-accepted" : "logical/util-rejected");
  if (ok && !ref) { if (imm_fail(ctx, "logical-imm-accepts-unencodable", "encode_logical_imm(0x%" PRIx64 ", %u) succeeded (n=%u s=%u r=%u) but no (N,immr,imms) decodes to this value", v, width, li.n, li.s, li.r)) return; }
  if (!ok && ref) { if (imm_fail(ctx, "logical-imm-rejects-encodable", "encode_logical_imm(0x%" PRIx64 ", %u) failed but the value is a bitmask immediate", v, width)) return; }
  if (ok) {
    BitMasks bm{false, 0, 0, 0};
    bool fields_ok = li.n <= 1 && li.s <= 63 && li.r <= 63 && !(width == 32 && li.n);
    if (fields_ok) bm = decode_bit_masks(li.n, li.s, li.r, true, width);
    if (!fields_ok || !bm.valid || bm.wmask != v) {
      if (imm_fail(ctx, "logical-imm-wrong-fields", "encode_logical_imm(0x%" PRIx64 ", %u) -> n=%u s=%u r=%u decodes to 0x%" PRIx64 " (valid=%d)", v, width, li.n, li.s, li.r, bm.wmask, int(bm.valid))) return;
    }
    if (li.r >= bm.esize) ctx.cls("logical/util-noncanonical-immr");
  }
  if (arm::Utils::is_logical_imm(v, width) != ok)
    imm_fail(ctx, "logical-imm-is-mismatch", "is_logical_imm(0x%" PRIx64 ", %u) disagrees with encode_logical_imm (%d)", v, width, int(ok));
}

struct LogInst { InstId id; unsigned opc; bool negate; bool tst; const char* name; };
static const LogInst kLogInsts[] = {
  {a64::Inst::kIdAnd, 0, false, false, "and"}, {a64::Inst::kIdOrr, 1, false, false, "orr"}, {a64::Inst::kIdEor, 2, false, false, "eor"},
  {a64::Inst::kIdAnds, 3, false, false, "ands"}, {a64::Inst::kIdTst, 3, false, true, "tst"},
  {a64::Inst::kIdBic, 0, true, false, "bic"}, {a64::Inst::kIdOrn, 1, true, false, "orn"}, {a64::Inst::kIdEon, 2, true, false, "eon"}, {a64::Inst::kIdBics, 3, true, false, "bics"},
};
static const unsigned kNumLogInsts = unsigned(sizeof(kLogInsts) / sizeof(kLogInsts[0]));

// `v` is the mask the instruction must apply; negating forms are asked for ~v.
static void check_logical_asm(vh::Ctx& ctx, A64& s, uint64_t v, unsigned width, unsigned inst_sel) {
  const LogInst& li = kLogInsts[inst_sel % kNumLogInsts];
  bool sf = width == 64;
  uint64_t wm = mask_n(width);
  uint64_t req = li.negate ? (~v & wm) : v;
  unsigned rd = 2 + unsigned(v % 7), rn = 9 + unsigned((v >> 8) % 11);
  Error e = li.tst ? s.emit(li.id, gp_reg(sf, rn), Imm(int64_t(req))) : s.emit(li.id, gp_reg(sf, rd), gp_reg(sf, rn), Imm(int64_t(req)));
  if (!emit_shape_ok(ctx, s, e, "logical-imm-asm", li.name)) return;
  bool ref = ref_is_logical(v, width);
  ctx.cls(e == Error::kOk ? "logical/asm-accepted" : "logical/asm-rejected");
  if (e == Error::kOk && !ref) { if (imm_fail(ctx, "logical-imm-asm-accepts-unencodable", "%s %c, #0x%" PRIx64 " assembled to 0x%08x although 0x%" PRIx64 " is not a bitmask immediate", li.name, sf ? 'x' : 'w', req, s.words[0], v)) return; }
  if (e != Error::kOk && ref) { if (imm_fail(ctx, "logical-imm-asm-rejects-encodable", "%s %c, #0x%" PRIx64 " refused with error %u although 0x%" PRIx64 " is a bitmask immediate", li.name, sf ? 'x' : 'w', req, unsigned(e), v)) return; }
  if (e != Error::kOk) return;
  uint32_t w = s.words[0];
  bool shape = s.words.size() == 1 && (w & 0x1F800000u) == 0x12000000u && ((w >> 31) & 1) == (sf ? 1u : 0u) && ((w >> 29) & 3) == li.opc &&
               ((w >> 5) & 31) == rn && (w & 31) == (li.tst ? 31u : rd);
  if (!shape) { if (imm_fail(ctx, "logical-imm-asm-wrong-opcode", "%s %c%u, %c%u, #0x%" PRIx64 " assembled to 0x%08x (%zu words): not the expected logical (immediate) encoding", li.name, sf ? 'x' : 'w', rd, sf ? 'x' : 'w', rn, req, w, s.words.size())) return; }
  unsigned N = (w >> 22) & 1, immr = (w >> 16) & 63, imms = (w >> 10) & 63;
  BitMasks bm = (!sf && N) ? BitMasks{false, 0, 0, 0} : decode_bit_masks(N, imms, immr, true, width);
  if (!bm.valid || bm.wmask != v)
    imm_fail(ctx, "logical-imm-asm-wrong-fields", "%s %c, #0x%" PRIx64 " assembled to 0x%08x: N=%u immr=%u imms=%u decodes to 0x%" PRIx64 " (valid=%d), expected mask 0x%" PRIx64, li.name, sf ? 'x' : 'w', req, w, N, immr, imms, bm.wmask, int(bm.valid), v);
}

static uint64_t logical_pattern(int64_t a, int64_t b, int64_t c) {
  unsigned esize = 2u << umod(a, 6);
  unsigned ones = 1 + unsigned(umod(b, esize - 1));
  unsigned rot = unsigned(umod(c, esize));
  uint64_t e = ror_n(mask_n(ones), rot, esize);
  return replicate(e, esize, 64);
}

static void run_logical(const vh::Case& c, vh::Ctx& ctx) {
  logical_ref();
  if (logical_ref().set64.size() != 5334 || logical_ref().set32.size() != 1302)
    ctx.fail("harness-selfcheck", "reference DecodeBitMasks enumerates " + std::to_string(logical_ref().set64.size()) + "/" + std::to_string(logical_ref().set32.size()) + " values, expected 5334/1302");
  unsigned sel = unsigned(umod(cfg_at(c, 1), 4));
  unsigned width = (sel & 1) ? 32 : 64;
  bool via_asm = sel >= 2;
  uint64_t wm = mask_n(width);
  A64 s;
  uint64_t nvalid = 0;
  if (cfg_at(c, 3) > 0) {
    unsigned imms = unsigned(umod(cfg_at(c, 2), 64));
    for (unsigned N = 0; N < 2; N++)
      for (unsigned immr = 0; immr < 64; immr++) {
        BitMasks bm = decode_bit_masks(N, imms, immr, true, width);
        if (!bm.valid) { ctx.cls("logical/enc-undefined"); continue; }
        nvalid++;
        ctx.cls(width == 64 ? "logical/enc-valid-64" : "logical/enc-valid-32");
        uint64_t v = bm.wmask;
        unsigned k = N * 64 + immr;
        if (!via_asm) {
          check_logical_util(ctx, v, width);
          for (unsigned b = 0; b < width; b++) check_logical_util(ctx, v ^ (1ull << b), width);
          check_logical_util(ctx, (v + 1) & wm, width);
          check_logical_util(ctx, (v - 1) & wm, width);
        } else {
          for (unsigned i = 0; i < kNumLogInsts; i++) check_logical_asm(ctx, s, v, width, i);
          for (unsigned b = 0; b < width; b++) check_logical_asm(ctx, s, v ^ (1ull << b), width, k + b);
        }
      }
    if (!via_asm) { check_logical_util(ctx, 0, width); check_logical_util(ctx, wm, width); }
    else { for (unsigned i = 0; i < kNumLogInsts; i++) { check_logical_asm(ctx, s, 0, width, i); check_logical_asm(ctx, s, wm, width, i); } }
    ctx.cls("logical-sweep-items");
  }
  for (const vh::Op& op : c.ops) {
    unsigned osel = unsigned(umod(op_at(op, 0), 4));
    unsigned ow = (osel & 1) ? 32 : 64;
    int kind = int(umod(op_at(op, 1), 4));
    uint64_t v;
    switch (kind) {
      default:
      case 0: v = uint64_t(op_at(op, 2)); break;
      case 1: v = logical_pattern(op_at(op, 2), op_at(op, 3), op_at(op, 4)); break;
      case 2: v = logical_pattern(op_at(op, 2), op_at(op, 3), op_at(op, 4)) ^ (1ull << umod(op_at(op, 5), 64)); break;
      case 3: { unsigned e = 8u << umod(op_at(op, 3), 3); v = replicate(uint64_t(op_at(op, 2)), e, 64); break; }
    }
    v &= mask_n(ow);
    if (ref_is_logical(v, ow)) { nvalid++; ctx.cls("logical/explicit-encodable"); } else ctx.cls("logical/explicit-unencodable");
    if (osel < 2) check_logical_util(ctx, v, ow); else check_logical_asm(ctx, s, v, ow, unsigned(umod(op_at(op, 6), kNumLogInsts)));
  }
  if (nvalid) {
    ctx.nontrivial();
    if (ctx.want_sample()) {
      char b[160];
      snprintf(b, sizeof b, "logical-imm width=%u via=%s imms=%" PRId64 " ops=%zu: %" PRIu64 " encodable values + neighbours", width, via_asm ? "assembler" : "utils", cfg_at(c, 2), c.ops.size(), nvalid);
      ctx.sample(b);
    }
  }
}

// ---- family 2: 8-bit floating-point immediates ------------------------------------------------
// VFPExpandImm(imm8, N) from the Arm ARM: sign = imm8<7>; exp = NOT(imm8<6>):Replicate(imm8<6>, E-3):imm8<5:4>;
// frac = imm8<3:0>:Zeros(F-4) with (N,E) = (16,5), (32,8), (64,11).
static uint64_t vfp_expand_imm(unsigned imm8, unsigned N) {
  unsigned E = N == 16 ? 5 : N == 32 ? 8 : 11;
  unsigned F = N - E - 1;
  uint64_t sign = (imm8 >> 7) & 1, b6 = (imm8 >> 6) & 1;
  uint64_t exp = ((b6 ^ 1) << (E - 1)) | ((b6 ? mask_n(E - 3) : 0) << 2) | ((imm8 >> 4) & 3);
  uint64_t frac = uint64_t(imm8 & 15) << (F - 4);
  return (sign << (N - 1)) | (exp << F) | frac;
}
static const unsigned kPrecBits[3] = {16, 32, 64};
struct FpRef { std::unordered_set<uint64_t> set[3]; };
static const FpRef& fp_ref() {
  static FpRef r;
  if (r.set[0].empty())
    for (int p = 0; p < 3; p++) for (unsigned i = 0; i < 256; i++) r.set[p].insert(vfp_expand_imm(i, kPrecBits[p]));
  return r;
}
// exact value of an IEEE binary16/32/64 bit pattern that is a normal number
static double fp_bits_to_double(uint64_t bits, unsigned N) {
  unsigned E = N == 16 ? 5 : N == 32 ? 8 : 11, F = N - E - 1;
  int bias = (1 << (E - 1)) - 1;
  int e = int((bits >> F) & mask_n(E));
  uint64_t fr = bits & mask_n(F);
  double m = 1.0 + ldexp(double(fr), -int(F));
  double v = ldexp(m, e - bias);
  return ((bits >> (N - 1)) & 1) ? -v : v;
}
static double bits_to_double(uint64_t b) { double d; memcpy(&d, &b, 8); return d; }
static uint64_t double_to_bits(double d) { uint64_t b; memcpy(&b, &d, 8); return b; }

static void check_fp_util(vh::Ctx& ctx, int prec, uint64_t bits) {
  bits &= mask_n(kPrecBits[prec]);
  bool ref = fp_ref().set[prec].count(bits) != 0;
  bool acc = prec == 0 ? arm::Utils::is_fp16_imm8(uint32_t(bits)) : prec == 1 ? arm::Utils::is_fp32_imm8(uint32_t(bits)) : arm::Utils::is_fp64_imm8(bits);
  ctx.cls(acc ? "fp/util-accepted" : "fp/util-rejected");
  if (acc && !ref) { if (imm_fail(ctx, "fp-imm-accepts-unencodable", "is_fp%u_imm8(0x%" PRIx64 ") is true but no imm8 expands to this value", kPrecBits[prec], bits)) return; }
  if (!acc && ref) { if (imm_fail(ctx, "fp-imm-rejects-encodable", "is_fp%u_imm8(0x%" PRIx64 ") is false but VFPExpandImm produces this value", kPrecBits[prec], bits)) return; }
  if (prec == 2) {
    bool isnan = ((bits >> 52) & 0x7FF) == 0x7FF && (bits & mask_n(52));
    if (!isnan && arm::Utils::is_fp64_imm8(bits_to_double(bits)) != acc) { if (imm_fail(ctx, "fp-imm-overload-mismatch", "is_fp64_imm8(double) disagrees with is_fp64_imm8(uint64_t) for 0x%" PRIx64, bits)) return; }
    if (acc) {
      uint32_t imm8 = arm::Utils::encode_fp64_to_imm8(bits);
      if (imm8 > 255 || vfp_expand_imm(imm8, 64) != bits)
        imm_fail(ctx, "fp-imm-wrong-imm8", "encode_fp64_to_imm8(0x%" PRIx64 ") = 0x%x which expands to 0x%" PRIx64, bits, imm8, imm8 <= 255 ? vfp_expand_imm(imm8, 64) : 0);
    }
  } else if (prec == 1) {
    bool isnan = ((bits >> 23) & 0xFF) == 0xFF && (bits & mask_n(23));
    if (!isnan) {
      uint32_t b32 = uint32_t(bits); float f; memcpy(&f, &b32, 4);
      if (arm::Utils::is_fp32_imm8(f) != acc) imm_fail(ctx, "fp-imm-overload-mismatch", "is_fp32_imm8(float) disagrees with is_fp32_imm8(uint32_t) for 0x%x", b32);
    }
  }
}

// fmov <target>, #double : target 0..7 = d, s, h, v.2d, v.4s, v.2s, v.8h, v.4h
static void check_fp_asm(vh::Ctx& ctx, A64& s, unsigned target, uint64_t dbits, int as_int) {
  target %= 8;
  static const char* names[8] = {"d", "s", "h", "v.2d", "v.4s", "v.2s", "v.8h", "v.4h"};
  static const unsigned precs[8] = {64, 32, 16, 64, 32, 32, 16, 16};
  unsigned rd = unsigned(dbits % 32);
  a64::Vec v = a64::Vec::make_v128(rd);
  a64::Vec t = target == 0 ? v.d() : target == 1 ? v.s() : target == 2 ? v.h() : target == 3 ? v.d2() : target == 4 ? v.s4() : target == 5 ? v.s2() : target == 6 ? v.h8() : v.h4();
  double d = as_int ? double(int32_t(as_int)) : bits_to_double(dbits);
  if (as_int) dbits = double_to_bits(d);
  Error e = as_int ? s.emit(a64::Inst::kIdFmov_v, t, Imm(int32_t(as_int))) : s.emit(a64::Inst::kIdFmov_v, t, Imm(d));
  if (!emit_shape_ok(ctx, s, e, "fp-imm-asm", names[target])) return;
  bool ref = fp_ref().set[2].count(dbits) != 0;
  ctx.cls(e == Error::kOk ? "fp/asm-accepted" : "fp/asm-rejected");
  if (e == Error::kOk && !ref) { if (imm_fail(ctx, "fp-imm-asm-accepts-unencodable", "fmov %s, #%a (0x%" PRIx64 ") assembled to 0x%08x although the value is not an 8-bit fp immediate", names[target], d, dbits, s.words[0])) return; }
  if (e != Error::kOk && ref) { if (imm_fail(ctx, "fp-imm-asm-rejects-encodable", "fmov %s, #%a (0x%" PRIx64 ") refused with error %u", names[target], d, dbits, unsigned(e))) return; }
  if (e != Error::kOk) return;
  uint32_t w = s.words[0];
  unsigned imm8 = 0;
  bool shape = s.words.size() == 1 && (w & 31) == rd;
  if (target < 3) {
    // FMOV (scalar, immediate): 0 0 0 11110 ftype 1 imm8 100 00000 Rd; ftype 00 S, 01 D, 11 H
    unsigned ftype = (w >> 22) & 3;
    shape = shape && (w & 0xFF201FE0u) == 0x1E201000u && ftype == (target == 0 ? 1u : target == 1 ? 0u : 3u);
    imm8 = (w >> 13) & 0xFF;
  } else {
    // FMOV (vector, immediate): 0 Q op 0111100000 a b c 1111 o2 1 d e f g h Rd; (op,o2) 00 single, 10 double (Q=1), 01 half
    unsigned Q = (w >> 30) & 1, op = (w >> 29) & 1, o2 = (w >> 11) & 1;
    unsigned eop = target == 3 ? 1 : 0, eo2 = target >= 6 ? 1 : 0, eq = (target == 3 || target == 4 || target == 6) ? 1 : 0;
    shape = shape && (w & 0x9FF8F400u) == 0x0F00F400u && op == eop && o2 == eo2 && Q == eq;
    imm8 = (((w >> 16) & 7) << 5) | ((w >> 5) & 31);
  }
  if (!shape) { if (imm_fail(ctx, "fp-imm-asm-wrong-opcode", "fmov %s%u, #%a assembled to 0x%08x (%zu words): not the expected FMOV (immediate) encoding", names[target], rd, d, w, s.words.size())) return; }
  double got = fp_bits_to_double(vfp_expand_imm(imm8, precs[target]), precs[target]);
  if (double_to_bits(got) != dbits)
    imm_fail(ctx, "fp-imm-asm-wrong-imm8", "fmov %s, #%a assembled to 0x%08x: imm8=0x%02x expands to %a", names[target], d, w, imm8, got);
}

static void run_fp(const vh::Case& c, vh::Ctx& ctx) {
  if (fp_ref().set[0].size() != 256 || fp_ref().set[1].size() != 256 || fp_ref().set[2].size() != 256)
    ctx.fail("harness-selfcheck", "VFPExpandImm reference does not give 256 distinct values per precision");
  int prec = int(umod(cfg_at(c, 1), 3));
  int mode = int(umod(cfg_at(c, 2), 3));
  unsigned nb = kPrecBits[prec];
  A64 s;
  uint64_t judged = 0;
  if (cfg_at(c, 3) > 0) {
    if (mode == 0) {
      for (unsigned i = 0; i < 256; i++) {
        uint64_t v = vfp_expand_imm(i, nb);
        check_fp_util(ctx, prec, v);
        for (unsigned b = 0; b < nb; b++) check_fp_util(ctx, prec, v ^ (1ull << b));
        for (int dlt = -3; dlt <= 3; dlt++) check_fp_util(ctx, prec, v + uint64_t(int64_t(dlt)));
        for (unsigned b = 0; b + 1 < nb; b++) check_fp_util(ctx, prec, v ^ (3ull << b));
        judged += 2 * nb + 7;
      }
      const uint64_t special[] = {0, 1, mask_n(nb), 1ull << (nb - 1), mask_n(nb - 1)};
      for (uint64_t v : special) check_fp_util(ctx, prec, v);
    } else if (mode == 1) {
      // through the assembler: every imm8 for every register form, plus neighbours
      for (unsigned i = 0; i < 256; i++) {
        uint64_t v = vfp_expand_imm(i, 64);
        for (unsigned t = 0; t < 8; t++) check_fp_asm(ctx, s, t, v, 0);
        for (unsigned b = 0; b < 64; b++) check_fp_asm(ctx, s, (i + b) % 8, v ^ (1ull << b), 0);
        check_fp_asm(ctx, s, i % 8, v + 1, 0);
        check_fp_asm(ctx, s, (i + 1) % 8, v - 1, 0);
        judged += 74;
      }
      for (int k = -40; k <= 40; k++) if (k) { check_fp_asm(ctx, s, unsigned(k + 40) % 8, 0, k); judged++; }
      check_fp_asm(ctx, s, 0, 0, 0);                       // +0.0 has no encoding
      check_fp_asm(ctx, s, 1, 1ull << 63, 0);              // -0.0
    } else {
      // all 65536 half-precision bit patterns
      for (uint64_t v = 0; v < 65536; v++) check_fp_util(ctx, 0, v);
      judged += 65536;
    }
    ctx.cls("fp-sweep-items");
  }
  for (const vh::Op& op : c.ops) {
    int p = int(umod(op_at(op, 0), 3));
    int kind = int(umod(op_at(op, 1), 4));
    uint64_t a = uint64_t(op_at(op, 2));
    unsigned imm8 = unsigned(umod(op_at(op, 3), 256));
    switch (kind) {
      default:
      case 0: check_fp_util(ctx, p, a); break;
      case 1: check_fp_util(ctx, p, vfp_expand_imm(imm8, kPrecBits[p]) ^ (a & mask_n(kPrecBits[p] - 8))); break;   // right head, dirty low bits
      case 2: check_fp_asm(ctx, s, unsigned(umod(op_at(op, 4), 8)), a, 0); break;
      case 3: check_fp_asm(ctx, s, unsigned(umod(op_at(op, 4), 8)), vfp_expand_imm(imm8, 64) ^ (a & mask_n(56)), 0); break;   // right head, dirty low bits (a may be 0)
    }
    judged++;
  }
  if (judged) {
    ctx.nontrivial();
    if (ctx.want_sample()) { char b[120]; snprintf(b, sizeof b, "fp-imm prec=%u mode=%d ops=%zu: %" PRIu64 " values judged", nb, mode, c.ops.size(), judged); ctx.sample(b); }
  }
}

// ---- family 3: move-wide sequences (mov Rd, #imm) ---------------------------------------------
// rd 0..30: general register; rd 31: sp/wsp (only a bitmask immediate can be moved to SP)
static void check_mov(vh::Ctx& ctx, A64& s, bool sf, unsigned rd, uint64_t value) {
  rd %= 32;
  uint64_t expect = sf ? value : (value & 0xFFFFFFFFull);
  Error e = rd == 31 ? s.emit(a64::Inst::kIdMov, sf ? a64::sp : a64::wsp, Imm(int64_t(value))) : s.emit(a64::Inst::kIdMov, gp_reg(sf, rd), Imm(int64_t(value)));
  if (!emit_shape_ok(ctx, s, e, "movwide", "mov")) return;
  char rn[8];
  snprintf(rn, sizeof rn, rd == 31 ? (sf ? "sp" : "wsp") : (sf ? "x%u" : "w%u"), rd);
  if (rd == 31) {
    bool ref = ref_is_logical(expect, sf ? 64 : 32);
    ctx.cls(e == Error::kOk ? "mov/sp-accepted" : "mov/sp-rejected");
    if (e == Error::kOk && !ref) { if (imm_fail(ctx, "movwide-sp-accepts-unencodable", "mov %s, #0x%" PRIx64 " assembled (0x%08x) although only a bitmask immediate can be moved to SP", rn, value, s.words[0])) return; }
    if (e != Error::kOk && ref) { if (imm_fail(ctx, "movwide-sp-rejects-encodable", "mov %s, #0x%" PRIx64 " refused (error %u) although ORR %s, zr, #imm encodes it", rn, value, unsigned(e), rn)) return; }
    if (e != Error::kOk) return;
  } else if (e != Error::kOk) {
    imm_fail(ctx, "movwide-rejected", "mov %s, #0x%" PRIx64 " refused with error %u", rn, value, unsigned(e));
    return;
  }
  size_t nw = s.words.size();
  if (nw > (sf ? 4u : 2u)) { if (imm_fail(ctx, "movwide-too-many-words", "mov %s, #0x%" PRIx64 " produced %zu words", rn, value, nw)) return; }
  ctx.cls(nw == 1 ? "mov/1-word" : nw == 2 ? "mov/2-words" : nw == 3 ? "mov/3-words" : "mov/4-words");
  Machine m, m0;
  m.init(value * 31 + rd);
  m0 = m;
  for (size_t i = 0; i < nw; i++) {
    uint32_t w = s.words[i];
    uint32_t cls = w & 0x1F800000u;
    if (cls == 0x12800000u) ctx.cls(((w >> 29) & 3) == 0 ? "mov/op-movn" : ((w >> 29) & 3) == 2 ? "mov/op-movz" : "mov/op-movk");
    else if (cls == 0x12000000u) ctx.cls("mov/op-orr");
    bool known_op = (cls == 0x12800000u) || (cls == 0x12000000u && ((w >> 29) & 3) == 1);
    if (!known_op || !machine_exec(m, w)) {
      if (imm_fail(ctx, "movwide-unknown-instruction", "mov %s, #0x%" PRIx64 ": word %zu = 0x%08x is not MOVZ/MOVN/MOVK/ORR(immediate) or is UNDEFINED", rn, value, i, w)) return;
    }
  }
  uint64_t got = rd == 31 ? m.sp : m.x[rd];
  if (got != expect) { if (imm_fail(ctx, "movwide-wrong-value", "mov %s, #0x%" PRIx64 " -> %zu words [0x%08x 0x%08x 0x%08x 0x%08x] leave 0x%" PRIx64 " in the register, expected 0x%" PRIx64, rn, value, nw, nw > 0 ? s.words[0] : 0, nw > 1 ? s.words[1] : 0, nw > 2 ? s.words[2] : 0, nw > 3 ? s.words[3] : 0, got, expect)) return; }
  for (unsigned r = 0; r < 31; r++)
    if (r != rd && m.x[r] != m0.x[r]) { imm_fail(ctx, "movwide-clobbers-other-register", "mov %s, #0x%" PRIx64 " modified x%u", rn, value, r); return; }
  if (rd != 31 && m.sp != m0.sp) imm_fail(ctx, "movwide-clobbers-other-register", "mov %s, #0x%" PRIx64 " modified sp", rn, value);
}

static uint64_t lane_value(unsigned sel, uint64_t seed, unsigned lane) {
  switch (sel % 5) {
    case 0: return 0;
    case 1: return 0xFFFF;
    case 2: return 1;
    case 3: return 0x8000;
    default: { uint64_t r = mix64(seed * 4 + lane) & 0xFFFF; if (r == 0 || r == 0xFFFF) r = 0x1234; return r; }
  }
}
static uint64_t lanes_constant(unsigned combo, uint64_t seed) {
  uint64_t v = 0;
  for (unsigned l = 0; l < 4; l++) { v |= lane_value(combo % 5, seed, l) << (16 * l); combo /= 5; }
  return v;
}

static void run_movwide(const vh::Case& c, vh::Ctx& ctx) {
  int variant = int(umod(cfg_at(c, 1), 3));
  uint64_t p = uint64_t(cfg_at(c, 2));
  A64 s;
  uint64_t judged = 0;
  if (cfg_at(c, 3) > 0) {
    if (variant == 0) {
      for (unsigned combo = 0; combo < 625; combo++) {
        uint64_t v = lanes_constant(combo, p);
        check_mov(ctx, s, true, (combo + unsigned(p)) % 31, v);
        check_mov(ctx, s, false, (combo + unsigned(p) + 7) % 31, v);
        check_mov(ctx, s, true, (combo * 3 + unsigned(p)) % 31, ~v);
        judged += 3;
        if (combo % 25 == unsigned(p % 25)) { check_mov(ctx, s, true, 31, v); check_mov(ctx, s, false, 31, v); }
      }
    } else if (variant == 1) {
      unsigned imms = unsigned(p % 64);
      for (unsigned N = 0; N < 2; N++)
        for (unsigned immr = 0; immr < 64; immr++) {
          BitMasks bm = decode_bit_masks(N, imms, immr, true, 64);
          if (!bm.valid) continue;
          uint64_t v = bm.wmask;
          check_mov(ctx, s, true, (immr + N) % 31, v);
          check_mov(ctx, s, true, 31, v);
          check_mov(ctx, s, false, immr % 31, v);
          check_mov(ctx, s, false, 31, v);
          for (unsigned b = 0; b < 64; b++) { check_mov(ctx, s, true, (immr + b) % 32, v ^ (1ull << b)); check_mov(ctx, s, false, (immr + b + 5) % 32, v ^ (1ull << b)); }
          judged += 132;
        }
    } else {
      static const uint64_t imms16[] = {0, 1, 2, 0x7FFF, 0x8000, 0x8001, 0xFFFE, 0xFFFF, 0x00FF, 0xFF00, 0x5555, 0xAAAA};
      const unsigned n16 = unsigned(sizeof(imms16) / sizeof(imms16[0]));
      for (unsigned hw = 0; hw < 4; hw++)
        for (unsigned i = 0; i < n16; i++) {
          uint64_t one = imms16[i] << (16 * hw);
          check_mov(ctx, s, true, (hw + i) % 31, one);
          check_mov(ctx, s, true, (hw + i + 1) % 31, ~one);
          check_mov(ctx, s, false, (hw + i + 2) % 31, one);
          check_mov(ctx, s, false, (hw + i + 3) % 31, ~one);
          judged += 4;
          for (unsigned hw2 = 0; hw2 < 4; hw2++)
            for (unsigned j = 0; j < n16; j++) {
              uint64_t two = one | (imms16[j] << (16 * hw2));
              check_mov(ctx, s, true, (i + j) % 31, two);
              check_mov(ctx, s, true, (i + j + 9) % 31, ~two);
              check_mov(ctx, s, false, (i + j + 4) % 31, two);
              judged += 3;
            }
        }
      for (int k = -70000; k <= 70000; k += 1 + int(p % 3)) { check_mov(ctx, s, true, unsigned(k & 15), uint64_t(int64_t(k))); check_mov(ctx, s, false, unsigned(k & 15) + 3, uint64_t(int64_t(k))); judged += 2; }
    }
    ctx.cls("movwide-sweep-items");
  }
  for (const vh::Op& op : c.ops) {
    bool sf = umod(op_at(op, 0), 2) != 0;
    unsigned rd = unsigned(umod(op_at(op, 1), 32));
    int kind = int(umod(op_at(op, 2), 4));
    uint64_t a = uint64_t(op_at(op, 3)), b = uint64_t(op_at(op, 4));
    uint64_t v;
    switch (kind) {
      default:
      case 0: v = a; break;
      case 1: v = lanes_constant(unsigned(a % 625), b); break;
      case 2: v = ~lanes_constant(unsigned(a % 625), b); break;
      case 3: v = logical_pattern(int64_t(a), int64_t(b), int64_t(a >> 8)) ^ ((b >> 20) & 1 ? (1ull << ((b >> 8) & 63)) : 0); break;
    }
    check_mov(ctx, s, sf, rd, v);
    judged++;
  }
  if (judged) {
    ctx.nontrivial();
    if (ctx.want_sample()) { char b[120]; snprintf(b, sizeof b, "mov-wide variant=%d p=%" PRIu64 " ops=%zu: %" PRIu64 " constants evaluated", variant, p, c.ops.size(), judged); ctx.sample(b); }
  }
}

// ---- family 4: add/sub immediates ---------------------------------------------------------------
struct AddSubInst { InstId id; unsigned op, S; bool cmp; const char* name; };
static const AddSubInst kAddSub[] = {
  {a64::Inst::kIdAdd, 0, 0, false, "add"}, {a64::Inst::kIdAdds, 0, 1, false, "adds"}, {a64::Inst::kIdSub, 1, 0, false, "sub"},
  {a64::Inst::kIdSubs, 1, 1, false, "subs"}, {a64::Inst::kIdCmn, 0, 1, true, "cmn"}, {a64::Inst::kIdCmp, 1, 1, true, "cmp"},
};

static bool ref_add_sub_imm(uint64_t imm) { return imm <= 0xFFFull || ((imm & ~0xFFF000ull) == 0); }

// shiftmode 0: no shift operand; 1: lsl #0; 2: lsl #12; 3: a shift the instruction does not have (lsl #24 / lsr #12)
static void check_addsub(vh::Ctx& ctx, A64& s, unsigned inst, bool sf, uint64_t imm, unsigned shiftmode) {
  const AddSubInst& I = kAddSub[inst % 6];
  shiftmode %= 4;
  if (I.cmp) shiftmode = 0;
  unsigned rd = 1 + unsigned(imm % 13), rn = 14 + unsigned((imm >> 4) % 16);
  Error e;
  if (I.cmp) e = s.emit(I.id, gp_reg(sf, rn), Imm(int64_t(imm)));
  else if (shiftmode == 0) e = s.emit(I.id, gp_reg(sf, rd), gp_reg(sf, rn), Imm(int64_t(imm)));
  else if (shiftmode == 1) e = s.emit(I.id, gp_reg(sf, rd), gp_reg(sf, rn), Imm(int64_t(imm)), Imm(a64::lsl(0)));
  else if (shiftmode == 2) e = s.emit(I.id, gp_reg(sf, rd), gp_reg(sf, rn), Imm(int64_t(imm)), Imm(a64::lsl(12)));
  else e = (imm & 1) ? s.emit(I.id, gp_reg(sf, rd), gp_reg(sf, rn), Imm(int64_t(imm)), Imm(a64::lsl(24))) : s.emit(I.id, gp_reg(sf, rd), gp_reg(sf, rn), Imm(int64_t(imm)), Imm(a64::lsr(12)));
  if (!emit_shape_ok(ctx, s, e, "addsub-imm", I.name)) return;
  bool encodable;
  uint64_t want;       // the value the instruction must add/subtract
  if (shiftmode == 2) { encodable = imm <= 0xFFF; want = imm << 12; }
  else if (shiftmode == 3) { encodable = false; want = 0; }
  else { encodable = ref_add_sub_imm(imm); want = imm; }
  ctx.cls(e == Error::kOk ? "addsub/accepted" : "addsub/rejected");
  if (e == Error::kOk && !encodable) { if (imm_fail(ctx, "addsub-imm-accepts-unencodable", "%s %c, %c, #0x%" PRIx64 " (shift mode %u) assembled to 0x%08x although imm12/LSL #12 cannot hold it", I.name, sf ? 'x' : 'w', sf ? 'x' : 'w', imm, shiftmode, s.words[0])) return; }
  if (e != Error::kOk && encodable) { if (imm_fail(ctx, "addsub-imm-rejects-encodable", "%s %c, %c, #0x%" PRIx64 " (shift mode %u) refused with error %u", I.name, sf ? 'x' : 'w', sf ? 'x' : 'w', imm, shiftmode, unsigned(e))) return; }
  if (e != Error::kOk) return;
  uint32_t w = s.words[0];
  // Add/subtract (immediate): sf op S 100010 sh imm12 Rn Rd
  bool shape = s.words.size() == 1 && (w & 0x1F800000u) == 0x11000000u && ((w >> 31) & 1) == (sf ? 1u : 0u) && ((w >> 30) & 1) == I.op && ((w >> 29) & 1) == I.S &&
               ((w >> 5) & 31) == rn && (w & 31) == (I.cmp ? 31u : rd);
  if (!shape) { if (imm_fail(ctx, "addsub-imm-wrong-opcode", "%s #0x%" PRIx64 " assembled to 0x%08x (%zu words): not the expected add/sub (immediate) encoding", I.name, imm, w, s.words.size())) return; }
  uint64_t got = uint64_t((w >> 10) & 0xFFF) << (((w >> 22) & 1) ? 12 : 0);
  if (got != want) imm_fail(ctx, "addsub-imm-wrong-value", "%s %c, %c, #0x%" PRIx64 " (shift mode %u) assembled to 0x%08x which encodes #0x%" PRIx64 ", expected #0x%" PRIx64, I.name, sf ? 'x' : 'w', sf ? 'x' : 'w', imm, shiftmode, w, got, want);
}

static void check_addsub_all(vh::Ctx& ctx, A64& s, unsigned inst, uint64_t imm) {
  if (arm::Utils::is_add_sub_imm(imm) != ref_add_sub_imm(imm)) imm_fail(ctx, "addsub-imm-is-mismatch", "is_add_sub_imm(0x%" PRIx64 ") = %d", imm, int(arm::Utils::is_add_sub_imm(imm)));
  for (unsigned sf = 0; sf < 2; sf++)
    for (unsigned sm = 0; sm < 4; sm++) {
      if (kAddSub[inst % 6].cmp && sm) continue;
      check_addsub(ctx, s, inst, sf != 0, imm, sm);
    }
}

static void run_addsub(const vh::Case& c, vh::Ctx& ctx) {
  unsigned inst = unsigned(umod(cfg_at(c, 1), 6));
  int region = int(umod(cfg_at(c, 2), 4));
  A64 s;
  uint64_t judged = 0;
  if (cfg_at(c, 3) > 0) {
    if (region == 0) for (uint64_t i = 0; i <= 0x3000; i++) { check_addsub_all(ctx, s, inst, i); judged++; }
    else if (region == 1) for (uint64_t i = 0xFFE000; i <= 0x1002000; i++) { check_addsub_all(ctx, s, inst, i); judged++; }
    else if (region == 2) for (uint64_t k = 0; k <= 0x1001; k++) for (int d = -1; d <= 1; d++) { check_addsub_all(ctx, s, inst, k * 0x1000 + uint64_t(int64_t(d))); judged++; }
    else {
      for (unsigned k = 0; k < 64; k++) for (int d = -2; d <= 2; d++) { check_addsub_all(ctx, s, inst, (1ull << k) + uint64_t(int64_t(d))); judged++; }
      for (int64_t n = -1; n >= -0x1100; n--) { check_addsub_all(ctx, s, inst, uint64_t(n)); judged++; }
      for (uint64_t k = 0; k < 0x1000; k += 0x11) { check_addsub_all(ctx, s, inst, (k << 12) | k); check_addsub_all(ctx, s, inst, (k << 12) | 1); check_addsub_all(ctx, s, inst, (k << 24)); judged += 3; }
      check_addsub_all(ctx, s, inst, uint64_t(INT64_MIN)); check_addsub_all(ctx, s, inst, uint64_t(INT64_MAX));
    }
    ctx.cls("addsub-sweep-items");
  }
  for (const vh::Op& op : c.ops) {
    check_addsub(ctx, s, unsigned(umod(op_at(op, 0), 6)), umod(op_at(op, 1), 2) != 0, uint64_t(op_at(op, 2)), unsigned(umod(op_at(op, 3), 4)));
    judged++;
  }
  if (judged) {
    ctx.nontrivial();
    if (ctx.want_sample()) { char b[120]; snprintf(b, sizeof b, "add/sub-imm inst=%s region=%d ops=%zu: %" PRIu64 " immediates", kAddSub[inst].name, region, c.ops.size(), judged); ctx.sample(b); }
  }
}

// ---- family 5: bitfield positions -------------------------------------------------------------
enum { BF_UBFX, BF_SBFX, BF_BFXIL, BF_UBFIZ, BF_SBFIZ, BF_BFI, BF_BFC, BF_UBFM, BF_SBFM, BF_BFM, BF_LSL, BF_LSR, BF_ASR, BF_ROR, BF_EXTR, BF_COUNT };
struct BfInst { InstId id; const char* name; };
static const BfInst kBf[BF_COUNT] = {
  {a64::Inst::kIdUbfx, "ubfx"}, {a64::Inst::kIdSbfx, "sbfx"}, {a64::Inst::kIdBfxil, "bfxil"}, {a64::Inst::kIdUbfiz, "ubfiz"}, {a64::Inst::kIdSbfiz, "sbfiz"},
  {a64::Inst::kIdBfi, "bfi"}, {a64::Inst::kIdBfc, "bfc"}, {a64::Inst::kIdUbfm, "ubfm"}, {a64::Inst::kIdSbfm, "sbfm"}, {a64::Inst::kIdBfm, "bfm"},
  {a64::Inst::kIdLsl, "lsl"}, {a64::Inst::kIdLsr, "lsr"}, {a64::Inst::kIdAsr, "asr"}, {a64::Inst::kIdRor, "ror"}, {a64::Inst::kIdExtr, "extr"},
};

// p = lsb / immr / shift, q = width / imms (unused for shifts)
static void check_bitfield(vh::Ctx& ctx, A64& s, unsigned inst, bool sf, uint64_t p, uint64_t q) {
  inst %= BF_COUNT;
  const BfInst& I = kBf[inst];
  const unsigned size = sf ? 64 : 32;
  const uint64_t sm = mask_n(size);
  const unsigned rd = 2, rn = 3, rm = 4;
  bool valid;
  if (inst <= BF_BFC) valid = p < size && q >= 1 && q <= size - p;
  else if (inst <= BF_BFM) valid = p < size && q < size;
  else valid = p < size;
  Error e;
  if (inst == BF_BFC) e = s.emit(I.id, gp_reg(sf, rd), Imm(int64_t(p)), Imm(int64_t(q)));
  else if (inst <= BF_BFM) e = s.emit(I.id, gp_reg(sf, rd), gp_reg(sf, rn), Imm(int64_t(p)), Imm(int64_t(q)));
  else if (inst == BF_EXTR) e = s.emit(I.id, gp_reg(sf, rd), gp_reg(sf, rn), gp_reg(sf, rm), Imm(int64_t(p)));
  else e = s.emit(I.id, gp_reg(sf, rd), gp_reg(sf, rn), Imm(int64_t(p)));
  if (!emit_shape_ok(ctx, s, e, "bitfield", I.name)) return;
  std::string kb = std::string("bitfield-") + I.name;
  ctx.cls(e == Error::kOk ? "bitfield/accepted" : "bitfield/rejected");
  if (e == Error::kOk && !valid) { if (imm_fail(ctx, kb + "-accepts-out-of-range", "%s (%u-bit) #%" PRIu64 ", #%" PRIu64 " assembled to 0x%08x although the architecture has no such encoding (lsb < %u, 1 <= width <= %u - lsb)", I.name, size, p, q, s.words[0], size, size)) return; }
  if (e != Error::kOk && valid) { if (imm_fail(ctx, kb + "-rejects-valid", "%s (%u-bit) #%" PRIu64 ", #%" PRIu64 " refused with error %u", I.name, size, p, q, unsigned(e))) return; }
  if (e != Error::kOk) return;
  if (s.words.size() != 1) { if (imm_fail(ctx, kb + "-wrong-result", "%s produced %zu words", I.name, s.words.size())) return; }
  uint32_t w = s.words[0];
  if (inst >= BF_UBFM && inst <= BF_BFM) {
    unsigned opc = inst == BF_SBFM ? 0 : inst == BF_BFM ? 1 : 2;
    bool ok = (w & 0x1F800000u) == 0x13000000u && ((w >> 29) & 3) == opc && ((w >> 31) & 1) == (sf ? 1u : 0u) && ((w >> 22) & 1) == (sf ? 1u : 0u) &&
              ((w >> 16) & 63) == p && ((w >> 10) & 63) == q && ((w >> 5) & 31) == rn && (w & 31) == rd;
    if (!ok) imm_fail(ctx, kb + "-wrong-result", "%s (%u-bit) #%" PRIu64 ", #%" PRIu64 " assembled to 0x%08x: fields do not match", I.name, size, p, q, w);
    return;
  }
  for (unsigned t = 0; t < 3; t++) {
    Machine m, m0;
    m.init(mix64(p * 131 + q * 7 + t));
    if (t == 1) { m.x[rn] = ~0ull; m.x[rd] = 0; }
    if (t == 2) { m.x[rn] = 0x8000000180000001ull; m.x[rd] = ~0ull; }
    m0 = m;
    if (!machine_exec(m, w)) { if (imm_fail(ctx, kb + "-wrong-result", "%s (%u-bit) #%" PRIu64 ", #%" PRIu64 " assembled to 0x%08x which is not a defined bitfield/extract encoding", I.name, size, p, q, w)) return; break; }
    uint64_t src = m0.x[rn] & sm, dst = m0.x[rd] & sm, src2 = m0.x[rm] & sm;
    uint64_t wmsk = mask_n(unsigned(q)), expv = 0;
    unsigned lsb = unsigned(p), wd = unsigned(q);
    switch (inst) {
      case BF_UBFX: expv = (src >> lsb) & wmsk; break;
      case BF_SBFX: expv = uint64_t(sext((src >> lsb) & wmsk, wd)) & sm; break;
      case BF_BFXIL: expv = (dst & ~wmsk) | ((src >> lsb) & wmsk); break;
      case BF_UBFIZ: expv = ((src & wmsk) << lsb) & sm; break;
      case BF_SBFIZ: expv = (uint64_t(sext(src & wmsk, wd)) << lsb) & sm; break;
      case BF_BFI: expv = (dst & ~((wmsk << lsb) & sm)) | (((src & wmsk) << lsb) & sm); break;
      case BF_BFC: expv = dst & ~((wmsk << lsb) & sm); break;
      case BF_LSL: expv = (src << lsb) & sm; break;
      case BF_LSR: expv = src >> lsb; break;
      case BF_ASR: expv = uint64_t(sext(src, size) >> lsb) & sm; break;
      case BF_ROR: expv = ror_n(src, lsb, size); break;
      case BF_EXTR: expv = lsb ? ((src2 >> lsb) | (src << (size - lsb))) & sm : src2; break;
    }
    if (m.x[rd] != expv) { if (imm_fail(ctx, kb + "-wrong-result", "%s (%u-bit) #%" PRIu64 ", #%" PRIu64 " assembled to 0x%08x: with Rn=0x%" PRIx64 " Rd=0x%" PRIx64 " Rm=0x%" PRIx64 " the encoding computes 0x%" PRIx64 ", the alias means 0x%" PRIx64, I.name, size, p, q, w, src, dst, src2, m.x[rd], expv)) return; }
    for (unsigned r = 0; r < 31; r++) if (r != rd && m.x[r] != m0.x[r]) { imm_fail(ctx, kb + "-wrong-result", "%s modified x%u", I.name, r); return; }
  }
}

static void run_bitfield(const vh::Case& c, vh::Ctx& ctx) {
  unsigned inst = unsigned(umod(cfg_at(c, 1), BF_COUNT));
  bool sf = umod(cfg_at(c, 2), 2) != 0;
  A64 s;
  uint64_t judged = 0;
  if (cfg_at(c, 3) > 0) {
    static const uint64_t extra[] = {96, 127, 128, 255, 256, 0x10000, 0x100000000ull, 0x100000001ull, ~0ull, uint64_t(INT64_MIN)};
    std::vector<uint64_t> vals;
    for (uint64_t i = 0; i <= 70; i++) vals.push_back(i);
    for (uint64_t x : extra) vals.push_back(x);
    bool two = inst <= BF_BFM;
    for (uint64_t p : vals) {
      if (two) for (uint64_t q : vals) { check_bitfield(ctx, s, inst, sf, p, q); judged++; }
      else { check_bitfield(ctx, s, inst, sf, p, 0); judged++; }
    }
    ctx.cls("bitfield-sweep-items");
  }
  for (const vh::Op& op : c.ops) {
    check_bitfield(ctx, s, unsigned(umod(op_at(op, 0), BF_COUNT)), umod(op_at(op, 1), 2) != 0, uint64_t(op_at(op, 2)), uint64_t(op_at(op, 3)));
    judged++;
  }
  if (judged) {
    ctx.nontrivial();
    if (ctx.want_sample()) { char b[120]; snprintf(b, sizeof b, "bitfield inst=%s sf=%d ops=%zu: %" PRIu64 " (lsb,width) pairs", kBf[inst].name, int(sf), c.ops.size(), judged); ctx.sample(b); }
  }
}


// ---- family 6: the AArch64 pc-relative formats end to end (label -> fixup/displacement -> instruction word) ------
// Checks that the formats the assembler constructs (reset_to_imm_value arguments, adrp's discarded bits) and the
// bound-label path (EmitOp_DispImm) agree with the architecture, not only the codec called with a re-typed format.
enum { RI_B, RI_BL, RI_BCC, RI_CBZ, RI_CBNZ, RI_TBZ, RI_TBNZ, RI_ADR, RI_ADRP, RI_LDR_X, RI_LDR_W, RI_LDRSW, RI_LDR_S, RI_LDR_D, RI_LDR_Q, RI_COUNT };
struct RelInst { const char* name; const char* fmt; uint32_t fixed_mask, fixed_val; bool mem; };
static const RelInst kRel[RI_COUNT] = {
  {"b", "a64-imm26", 0xFC000000u, 0x14000000u, false}, {"bl", "a64-imm26", 0xFC000000u, 0x94000000u, false},
  {"b.cc", "a64-imm19", 0xFF000010u, 0x54000000u, false},
  {"cbz", "a64-imm19", 0xFF000000u, 0xB4000000u, false}, {"cbnz", "a64-imm19", 0xFF000000u, 0x35000000u, false},
  {"tbz", "a64-imm14", 0xFF000000u, 0xB6000000u, false}, {"tbnz", "a64-imm14", 0xFF000000u, 0x37000000u, false},
  {"adr", "a64-adr", 0x9F000000u, 0x10000000u, false}, {"adrp", "a64-adrp", 0x9F000000u, 0x90000000u, false},
  {"ldr-x", "a64-imm19", 0xFF000000u, 0x58000000u, true}, {"ldr-w", "a64-imm19", 0xFF000000u, 0x18000000u, true}, {"ldrsw", "a64-imm19", 0xFF000000u, 0x98000000u, true},
  {"ldr-s", "a64-imm19", 0xFF000000u, 0x1C000000u, true}, {"ldr-d", "a64-imm19", 0xFF000000u, 0x5C000000u, true}, {"ldr-q", "a64-imm19", 0xFF000000u, 0x9C000000u, true},
};
static int fmt_index(const char* name) { for (int i = 0; i < kNumFmts; i++) if (!strcmp(kFmts[i].name, name)) return i; return 0; }

static Error rel_fill(A64& s, uint64_t n) {
  Error e = Error::kOk;
  if (n / 8) e = s.a.embed_uint64(0, size_t(n / 8));
  if (e == Error::kOk && (n % 8)) e = s.a.embed_uint8(0, size_t(n % 8));
  return e;
}

static Error rel_emit(A64& s, unsigned inst, const Label& L, int32_t memoff, unsigned rt, unsigned aux) {
  using namespace a64;
  switch (inst) {
    case RI_B: return s.a.b(L);
    case RI_BL: return s.a.bl(L);
    case RI_BCC: return s.a.b(CondCode(uint8_t(CondCode::kEQ) + (aux % 14)), L);
    case RI_CBZ: return s.a.cbz(Gp::make_r64(rt), L);
    case RI_CBNZ: return s.a.cbnz(Gp::make_r32(rt), L);
    case RI_TBZ: return s.a.tbz(Gp::make_r64(rt), Imm(32 + aux % 32), L);
    case RI_TBNZ: return s.a.tbnz(Gp::make_r32(rt), Imm(aux % 32), L);
    case RI_ADR: return s.a.adr(Gp::make_r64(rt), L);
    case RI_ADRP: return s.a.adrp(Gp::make_r64(rt), L);
    case RI_LDR_X: return s.a.ldr(Gp::make_r64(rt), ptr(L, memoff));
    case RI_LDR_W: return s.a.ldr(Gp::make_r32(rt), ptr(L, memoff));
    case RI_LDRSW: return s.a.ldrsw(Gp::make_r64(rt), ptr(L, memoff));
    case RI_LDR_S: return s.a.ldr(Vec::make_v32(rt), ptr(L, memoff));
    case RI_LDR_D: return s.a.ldr(Vec::make_v64(rt), ptr(L, memoff));
    default: return s.a.ldr(Vec::make_v128(rt), ptr(L, memoff));
  }
}

// path 0: label bound earlier in the same section; 1: bound later in the same section; 2: bound in another section
static void check_rel(vh::Ctx& ctx, unsigned inst, unsigned path, int64_t dist, int64_t memoff_in) {
  inst %= RI_COUNT; path %= 3;
  const RelInst& R = kRel[inst];
  const int fi = fmt_index(R.fmt);
  const Fmt& f = kFmts[fi];
  int32_t memoff = R.mem ? int32_t(memoff_in % 4097) : 0;
  const int64_t kLocalMax = 1 << 17, kFarMax = int64_t(1) << 40;
  uint64_t h = mix64(uint64_t(dist) * 3 + inst);
  unsigned pre = unsigned(h % 4), rt = unsigned((h >> 8) % 31), aux = unsigned(h >> 16);
  A64 s;
  Label L = s.a.new_label();
  std::string kb = std::string("a64-rel-") + R.name;
  Error e = Error::kOk;
  for (unsigned i = 0; i < pre; i++) (void)s.a.nop();
  size_t inst_off = 0;
  int64_t disp;
  if (path == 0) {
    uint64_t m = uint64_t(dist < 0 ? -(dist % kLocalMax) : dist % kLocalMax);
    (void)s.a.bind(L);
    if (rel_fill(s, m) != Error::kOk) return;
    inst_off = s.size();
    e = rel_emit(s, inst, L, memoff, rt, aux);
    disp = -int64_t(m) + memoff;
    if (e != Error::kOk && s.size() != inst_off) { if (imm_fail(ctx, kb + "-modified-on-failure", "%s: error %u but the buffer grew", R.name, unsigned(e))) return; }
  } else if (path == 1) {
    uint64_t m = uint64_t(dist < 0 ? -(dist % kLocalMax) : dist % kLocalMax);
    if (m < 4) m = 4;
    inst_off = s.size();
    Error e0 = rel_emit(s, inst, L, memoff, rt, aux);
    if (e0 != Error::kOk || s.size() != inst_off + 4) { imm_fail(ctx, kb + "-rejects-representable", "%s to an unbound label failed with error %u", R.name, unsigned(e0)); return; }
    if (rel_fill(s, m - 4) != Error::kOk) return;
    e = s.a.bind(L);
    disp = int64_t(m) + memoff;
  } else {
    if (dist > kFarMax) dist = kFarMax;
    if (dist < -kFarMax) dist = -kFarMax;
    Section* far = nullptr;
    if (s.code.new_section(Out(far), "far") != Error::kOk) return;
    inst_off = s.size();
    Error e0 = rel_emit(s, inst, L, memoff, rt, aux);
    if (e0 != Error::kOk || s.size() != inst_off + 4) { imm_fail(ctx, kb + "-rejects-representable", "%s to an unbound label failed with error %u", R.name, unsigned(e0)); return; }
    (void)s.a.section(far);
    unsigned lpre = unsigned((h >> 40) % 3) * 4;
    if (lpre) (void)s.a.embed_uint8(0, lpre);
    (void)s.a.bind(L);
    (void)s.a.embed_uint64(0, 2);
    const uint64_t T = uint64_t(1) << 41;
    s.code.text_section()->set_offset(T);
    far->set_offset(uint64_t(int64_t(T) + int64_t(inst_off) + dist - int64_t(lpre)));
    e = s.code.resolve_cross_section_fixups();
    disp = dist + memoff;
  }
  bool refused = e != Error::kOk || (path != 0 && s.code.unresolved_fixup_count() != 0);
  int cls = classify(f, disp);
  ctx.cls(refused ? "rel/refused" : "rel/accepted");
  ctx.cls(path == 0 ? "rel/path-bound-backward" : path == 1 ? "rel/path-fixup-same-section" : "rel/path-fixup-cross-section");
  if (!refused && cls != 0) { if (imm_fail(ctx, kb + "-accepts-unrepresentable", "%s (path %u) displacement %" PRId64 " was accepted although %s cannot hold it", R.name, path, disp, f.name)) return; }
  if (refused && cls == 0) { if (imm_fail(ctx, kb + "-rejects-representable", "%s (path %u) displacement %" PRId64 " was refused (error %u, unresolved fixups %zu) although %s can hold it", R.name, path, disp, unsigned(e), s.code.unresolved_fixup_count(), f.name)) return; }
  if (refused && path == 0) return;
  uint32_t w;
  memcpy(&w, s.code.text_section()->buffer().data() + inst_off, 4);
  uint32_t fm = uint32_t(field_mask(f));
  bool shape = (w & R.fixed_mask & ~fm) == (R.fixed_val & ~fm);
  if (inst != RI_B && inst != RI_BL && inst != RI_BCC) shape = shape && (w & 31) == rt;
  if (inst == RI_BCC) shape = shape && (w & 15) == (aux % 14);
  if (inst == RI_TBZ) shape = shape && ((w >> 31) & 1) == 1 && ((w >> 19) & 31) == (aux % 32);
  if (inst == RI_TBNZ) shape = shape && ((w >> 31) & 1) == 0 && ((w >> 19) & 31) == (aux % 32);
  if (!shape) { if (imm_fail(ctx, kb + "-wrong-opcode", "%s assembled to 0x%08x: opcode/register bits are not the %s encoding", R.name, w, R.name)) return; }
  if (refused) {
    if (w & fm) imm_fail(ctx, kb + "-modified-on-failure", "%s (path %u) displacement %" PRId64 " was refused but the field was written: 0x%08x", R.name, path, disp, w);
    return;
  }
  i128 dec = 0;
  if (!decode_field(f, w, dec) || dec != i128(disp))
    imm_fail(ctx, kb + "-wrong-field", "%s (path %u) displacement %" PRId64 " assembled to 0x%08x which decodes to %" PRId64, R.name, path, disp, w, int64_t(dec));
}

static void run_rel(const vh::Case& c, vh::Ctx& ctx) {
  unsigned inst = unsigned(umod(cfg_at(c, 1), RI_COUNT));
  unsigned path = unsigned(umod(cfg_at(c, 2), 3));
  uint64_t judged = 0;
  if (cfg_at(c, 3) > 0) {
    const Fmt& f = kFmts[fmt_index(kRel[inst].fmt)];
    int64_t unit = int64_t(1) << f.discard;
    std::vector<int64_t> ds;
    if (path == 2) {
      i128 lo, hi;
      unit_range(f, lo, hi);
      for (int64_t d = -40; d <= 40; d++) ds.push_back(d);
      for (int k = 0; k <= f.count + f.discard + 2; k++)
        for (int sgn = -1; sgn <= 1; sgn += 2)
          for (int64_t d : {-unit, int64_t(-1), int64_t(0), int64_t(1), int64_t(2), unit, 2 * unit}) ds.push_back(sgn * (int64_t(1) << k) + d);
      for (int64_t u = -40; u <= 40; u++) { ds.push_back((int64_t(lo) + u) * unit); ds.push_back((int64_t(hi) + u) * unit); ds.push_back((int64_t(hi) + u) * unit + 1); }
    } else {
      for (int64_t d = 0; d <= 300; d++) ds.push_back(d);
      for (int k = 8; k <= 16; k++) for (int64_t d = -4; d <= 4; d++) ds.push_back((int64_t(1) << k) + d);
      ds.push_back(32764); ds.push_back(32768); ds.push_back(32772);
    }
    for (int64_t d : ds) {
      check_rel(ctx, inst, path, d, 0); judged++;
      if (kRel[inst].mem) { check_rel(ctx, inst, path, d, 4 * (d & 31)); check_rel(ctx, inst, path, d, 1 + (d & 7)); judged += 2; }
    }
    ctx.cls("rel-sweep-items");
  }
  for (const vh::Op& op : c.ops) { check_rel(ctx, unsigned(umod(op_at(op, 0), RI_COUNT)), unsigned(umod(op_at(op, 1), 3)), op_at(op, 2), op_at(op, 3)); judged++; }
  if (judged) {
    ctx.nontrivial();
    if (ctx.want_sample()) { char b[120]; snprintf(b, sizeof b, "a64-rel inst=%s path=%u ops=%zu: %" PRIu64 " displacements", kRel[inst].name, path, c.ops.size(), judged); ctx.sample(b); }
  }
}

// =================================================================================================
// Enumeration of sweep items and the generator
// =================================================================================================

struct Item { int64_t fam, a, b, c, d; };
static std::vector<Item> g_items;
static int g_worker = 0, g_workers = 1;
static std::vector<std::string> g_exh_formats, g_win_formats;

static void add_unit_range(std::vector<Item>& items, int fi, i128 lo, i128 hi, int64_t chunk) {
  const Fmt& f = kFmts[fi];
  // keep unit * 2^discard inside int64
  i128 lim_lo = i128(INT64_MIN) >> f.discard, lim_hi = i128(INT64_MAX) >> f.discard;
  if (lo < lim_lo) lo = lim_lo;
  if (hi > lim_hi) hi = lim_hi;
  for (i128 s = lo; s <= hi; s += chunk) {
    i128 n = hi - s + 1;
    if (n > chunk) n = chunk;
    items.push_back({0, fi, int64_t(s), int64_t(n), 0});
  }
}

static std::vector<Item> build_items(const vh::Opts& o) {
  std::vector<Item> items;
  int exh_bits = int(o.geti("exh", o.is_thorough() ? 32 : 26));
  const int64_t band = 1024;
  g_exh_formats.clear(); g_win_formats.clear();
  for (int fi = 0; fi < kNumFmts; fi++) {
    const Fmt& f = kFmts[fi];
    i128 lo, hi;
    unit_range(f, lo, hi);
    // 32-bit fields (thorough only): two of the leading/trailing variants stay on boundary windows to bound the cost
    bool exhaustive = f.count <= exh_bits && !(f.count > 26 && (f.lead == 1 || f.lead == 2)) && f.kind != K_A32_ADR;
    if (exhaustive) {
      int64_t chunk = f.count > 26 ? (1 << 20) : f.count > 21 ? (1 << 16) : (1 << 14);
      add_unit_range(items, fi, lo - band, hi + band, chunk);
      g_exh_formats.push_back(f.name);
    } else {
      // windows: both ends of the range with the outside band, zero, and every power of two
      add_unit_range(items, fi, lo - band, lo + band, 1 << 14);
      add_unit_range(items, fi, hi - band, hi + band, 1 << 14);
      if (lo < -band) add_unit_range(items, fi, -band, band, 1 << 14);
      for (int k = 1; k < 64; k++) {
        i128 p = i128(1) << k;
        add_unit_range(items, fi, p - 3, p + 3, 16);
        add_unit_range(items, fi, -p - 3, -p + 3, 16);
      }
      if (f.kind == K_A32_ADR) {
        add_unit_range(items, fi, -70000, 70000, 1 << 14);
        for (int s = 0; s < 4096; s += 256) items.push_back({0, fi, s, 256, 1});
      }
      g_win_formats.push_back(f.name);
    }
  }
  // (b) AArch64 immediates
  for (int sel = 0; sel < 4; sel++) for (int imms = 0; imms < 64; imms++) items.push_back({1, sel, imms, 1, 0});
  for (int prec = 0; prec < 3; prec++) items.push_back({2, prec, 0, 1, 0});
  items.push_back({2, 2, 1, 1, 0});
  items.push_back({2, 0, 2, 1, 0});
  int nlane = int(o.geti("lanes", o.is_thorough() ? 256 : 24));
  for (int p = 0; p < nlane; p++) items.push_back({3, 0, p, 1, 0});
  for (int p = 0; p < 64; p++) items.push_back({3, 1, p, 1, 0});
  for (int p = 0; p < 3; p++) items.push_back({3, 2, p, 1, 0});
  for (int inst = 0; inst < 6; inst++) for (int region = 0; region < 4; region++) items.push_back({4, inst, region, 1, 0});
  for (int inst = 0; inst < BF_COUNT; inst++) for (int sf = 0; sf < 2; sf++) items.push_back({5, inst, sf, 1, 0});
  for (int inst = 0; inst < RI_COUNT; inst++) for (int path = 0; path < 3; path++) items.push_back({6, inst, path, 1, 0});
  return items;
}

static vh::Case case_of(const Item& it) {
  vh::Case c;
  c.cfg = {it.fam, it.a, it.b, it.c, it.d};
  return c;
}

static int64_t rnd64() {
  uint64_t hi = uint64_t(*vh::irange<int64_t>(0, 0xFFFFFFFFll)), lo = uint64_t(*vh::irange<int64_t>(0, 0xFFFFFFFFll));
  return int64_t((hi << 32) | lo);
}

static vh::Case random_case() {
  vh::Case c;
  int fam = 0;
  {
    int r = *vh::irange<int>(0, 99);
    fam = r < 36 ? 0 : r < 50 ? 1 : r < 60 ? 2 : r < 78 ? 3 : r < 83 ? 4 : r < 91 ? 5 : 6;
  }
  if (fam == 0) {
    int fi = *vh::irange<int>(0, kNumFmts - 1);
    const Fmt& f = kFmts[fi];
    int sel = *vh::irange<int>(0, 9);
    if (sel < 3) {
      // a random block of the full range
      i128 lo, hi;
      unit_range(f, lo, hi);
      i128 lim_lo = i128(INT64_MIN) >> f.discard, lim_hi = i128(INT64_MAX) >> f.discard;
      if (lo < lim_lo) lo = lim_lo;
      if (hi > lim_hi) hi = lim_hi;
      uint64_t span = uint64_t(hi - lo);
      uint64_t r = uint64_t(rnd64());
      int64_t start = int64_t(lo + i128(span ? r % span : 0));
      c.cfg = {0, fi, start, 2048, 0};
    } else {
      c.cfg = {0, fi, 0, 0, 0};
      int n = *vh::irange<int>(1, 24);
      for (int i = 0; i < n; i++) {
        int kind = *vh::irange<int>(0, 5);
        int64_t a, b;
        if (kind == 0) { int w = *vh::irange<int>(0, 3); a = rnd64(); if (w < 3) a >>= (8 + 12 * w + *vh::irange<int>(0, 11)); b = 0; }
        else if (kind == 3) { a = rnd64() >> *vh::irange<int>(0, 63); b = 0; }
        else if (kind == 4 || kind == 5) { a = *vh::irange<int>(0, 63); b = *vh::irange<int>(-4, 4); }
        else { a = *vh::irange<int>(-1100, 1100); b = *vh::irange<int>(0, 4095); }
        c.ops.push_back({kind, a, b});
      }
    }
  }
  else if (fam == 1) {
    c.cfg = {1, 0, 0, 0, 0};
    int n = *vh::irange<int>(1, 40);
    for (int i = 0; i < n; i++) {
      int kind = *vh::irange<int>(0, 3);
      int64_t a = kind == 0 || kind == 3 ? rnd64() : *vh::irange<int>(0, 5);
      c.ops.push_back({*vh::irange<int>(0, 3), kind, a, *vh::irange<int>(0, 63), *vh::irange<int>(0, 63), *vh::irange<int>(0, 63), *vh::irange<int>(0, 8)});
    }
  } else if (fam == 2) {
    c.cfg = {2, 0, 0, 0, 0};
    int n = *vh::irange<int>(1, 40);
    for (int i = 0; i < n; i++) {
      int kind = *vh::irange<int>(0, 3);
      int64_t a = rnd64();
      if (kind == 1 || kind == 3) { int w = *vh::irange<int>(0, 2); if (w == 0) a = int64_t(1) << *vh::irange<int>(0, 55); else if (w == 1) a &= (int64_t(1) << *vh::irange<int>(1, 56)) - 1; }
      c.ops.push_back({*vh::irange<int>(0, 2), kind, a, *vh::irange<int>(0, 255), *vh::irange<int>(0, 7)});
    }
  } else if (fam == 3) {
    c.cfg = {3, 0, 0, 0, 0};
    int n = *vh::irange<int>(1, 40);
    for (int i = 0; i < n; i++) {
      int kind = *vh::irange<int>(0, 3);
      int64_t a = rnd64(), b = rnd64();
      if (kind == 0) { int w = *vh::irange<int>(0, 3); if (w == 0) a >>= *vh::irange<int>(0, 63); else if (w == 1) a = int64_t(uint64_t(a) & 0xFFFFFFFFull); }
      c.ops.push_back({*vh::irange<int>(0, 1), *vh::irange<int>(0, 31), kind, a, b});
    }
  } else if (fam == 4) {
    c.cfg = {4, 0, 0, 0, 0};
    int n = *vh::irange<int>(1, 40);
    for (int i = 0; i < n; i++) {
      int w = *vh::irange<int>(0, 4);
      int64_t imm = w == 0 ? *vh::irange<int>(0, 0x2000) : w == 1 ? int64_t(*vh::irange<int>(0, 0x1001)) << 12 : w == 2 ? (int64_t(*vh::irange<int>(0, 0xFFF)) << 12) + *vh::irange<int>(-2, 2) : w == 3 ? (rnd64() >> *vh::irange<int>(0, 63)) : rnd64();
      c.ops.push_back({*vh::irange<int>(0, 5), *vh::irange<int>(0, 1), imm, *vh::irange<int>(0, 3)});
    }
  } else if (fam == 5) {
    c.cfg = {5, 0, 0, 0, 0};
    int n = *vh::irange<int>(1, 40);
    for (int i = 0; i < n; i++) {
      int w = *vh::irange<int>(0, 9);
      int64_t p = w == 0 ? rnd64() : *vh::irange<int>(0, 70), q = w == 1 ? rnd64() : *vh::irange<int>(0, 70);
      c.ops.push_back({*vh::irange<int>(0, BF_COUNT - 1), *vh::irange<int>(0, 1), p, q});
    }
  } else if (fam == 6) {
    c.cfg = {6, 0, 0, 0, 0};
    int n = *vh::irange<int>(1, 12);
    for (int i = 0; i < n; i++) {
      int path = *vh::irange<int>(0, 2);
      int w = *vh::irange<int>(0, 3);
      int64_t d = w == 0 ? *vh::irange<int>(-5000, 5000) : w == 1 ? (rnd64() >> *vh::irange<int>(23, 50)) : w == 2 ? (int64_t(*vh::irange<int>(-1, 1)) << *vh::irange<int>(12, 34)) + *vh::irange<int>(-8, 8) : int64_t(*vh::irange<int>(-300000, 300000)) * 4;
      c.ops.push_back({*vh::irange<int>(0, RI_COUNT - 1), path, d, *vh::irange<int>(0, 64)});
    }
  }
  return c;
}

// Deterministic enumeration hook: the k-th case of this worker is sweep item k*workers + worker.
static bool g_enum_done = false;
bool vh_enum(const vh::Opts& o, uint64_t k, vh::Case& out) {
  if (k == 0) {
    g_items = build_items(o);
    g_worker = o.worker;
    g_workers = o.workers > 0 ? o.workers : 1;
    if (o.geti("list", 0))
      fprintf(stderr, "C17: %zu sweep items, %zu per worker (%d workers)\n", g_items.size(), (g_items.size() + size_t(g_workers) - 1) / size_t(g_workers), g_workers);
  }
  uint64_t idx = k * uint64_t(g_workers) + uint64_t(g_worker);
  if (idx >= g_items.size()) { g_enum_done = true; return false; }
  out = case_of(g_items[size_t(idx)]);
  return true;
}

rc::Gen<vh::Case> vh_gen(const vh::Opts&) {
  return rc::gen::exec([]() -> vh::Case { return random_case(); });
}

void vh_fini(const vh::Opts& o, vh::Ctx& ctx) {
  if (!o.replay.empty()) return;
  ctx.exhaustive = g_enum_done;
  char b[256];
  snprintf(b, sizeof b, "sweep items total=%zu (enumerated before the generated cases, item i -> worker i mod workers)", g_items.size());
  ctx.notes.push_back(b);
  std::string e = "offset formats swept exhaustively (all units in range + 1024 outside each end, all low-bit patterns up to 2 discarded bits):";
  for (auto& s : g_exh_formats) e += " " + s;
  ctx.notes.push_back(e);
  std::string w = "offset formats covered by boundary windows (range ends +-1024, zero, every +-2^k +-3) + random blocks/values:";
  for (auto& s : g_win_formats) w += " " + s;
  ctx.notes.push_back(w);
}

void vh_run(const vh::Case& c, vh::Ctx& ctx) {
  int fam = int(umod(cfg_at(c, 0), 7));
  switch (fam) {
    default:
    case 0: run_offsets(c, ctx); break;
    case 1: run_logical(c, ctx); break;
    case 2: run_fp(c, ctx); break;
    case 3: run_movwide(c, ctx); break;
    case 4: run_addsub(c, ctx); break;
    case 5: run_bitfield(c, ctx); break;
    case 6: run_rel(c, ctx); break;
  }
}
