// C18 — Arena-backed containers and strings behave like their abstract data types.
//
// Case: cfg = [arena_kind, block_sel, hash_mode, node_alloc_mode, bitvec_words]
//       ops = [kind, target, subop, a, b, c, d]   (every field decoded by modulo / clamping)
//   kind 0 RAW (alloc_oneshot/_zeroed, alloc_reusable/_zeroed, free_reusable, dup, new_oneshot, sformat, huge requests, statistics)
//        1 VEC (ArenaVector<u32>, <Rec12>, <Rec24>; two instances each)   2 HASH (ArenaHash x2)   3 TREE (ArenaTree x2)
//        4 LIST (ArenaList x2)   5 BITSET (ArenaBitSet x2)   6 BITVEC (Support::bit_vector_* / BitOps / iterators on raw words)
//        7 POOL (ArenaPool)      8 ASTR (ArenaString<16> x2)  9 STR (String x2 + StringTmp<40>)   10 ARESET (soft / hard reset)
// All arena-backed containers share ONE Arena (plain or ArenaTmp<N> static-buffer arena, chosen by cfg).
// Oracle: std:: models compared after every step + structural invariants + a registry of all live arena regions
// (aligned to 8, pairwise disjoint, raw blocks carry a byte pattern that is re-verified).
#define VH_MAIN
#include "vh.h"

#include <asmjit/core.h>
#include <asmjit/support/arena.h>
#include <asmjit/support/arenabitset_p.h>
#include <asmjit/support/arenahash.h>
#include <asmjit/support/arenalist.h>
#include <asmjit/support/arenapool.h>
#include <asmjit/support/arenastring.h>
#include <asmjit/support/arenatree.h>
#include <asmjit/support/arenavector.h>

#include <memory>

#if defined(__has_feature)
#  if __has_feature(address_sanitizer)
#    include <sanitizer/asan_interface.h>
#    define C18_ASAN 1
#  endif
#endif

using namespace asmjit;

// Huge requests must come back as errors: make malloc of absurd sizes fail instead of reserving address space.
extern "C" const char* __asan_default_options() { return "allocator_may_return_null=1:max_allocation_size_mb=64:quarantine_size_mb=32"; }

const char* vh_property() { return "C18"; }

// ASan prints a warning line for every rejected malloc; thousands of them fill the worker's stderr pipe. Requests that are
// expected to be rejected run with fd 2 pointed at /dev/null (a crash inside is still seen through the exit code).
struct MuteStderr {
  int saved = -1;
  explicit MuteStderr(bool on = true) {
    static int devnull = open("/dev/null", O_WRONLY);
    if (on && devnull >= 0) { saved = dup(2); if (saved >= 0) dup2(devnull, 2); }
  }
  ~MuteStderr() { if (saved >= 0) { dup2(saved, 2); close(saved); } }
  MuteStderr(const MuteStderr&) = delete;
  MuteStderr& operator=(const MuteStderr&) = delete;
};

namespace {

enum Kind : int { K_RAW, K_VEC, K_HASH, K_TREE, K_LIST, K_BITSET, K_BITVEC, K_POOL, K_ASTR, K_STR, K_ARESET, K_COUNT };
const char* const kKindName[K_COUNT] = {"raw", "vec", "hash", "tree", "list", "bitset", "bitvec", "pool", "astr", "str", "areset"};

inline int64_t arg(const vh::Op& op, size_t i) { return i < op.size() ? op[i] : 0; }
inline size_t umod(int64_t v, size_t n) { return n ? size_t(uint64_t(v) % n) : 0; }

const size_t kHugeCount[] = {0xFFFFFFFFull, 0x100000000ull, 0x80000000ull, 0xFFFFFFFEull, SIZE_MAX, SIZE_MAX - 1, SIZE_MAX / 2,
                             SIZE_MAX / 12, SIZE_MAX / 24 + 1, size_t(1) << 40, SIZE_MAX - 63, size_t(1) << 61};
const size_t kHugeStr[] = {SIZE_MAX, SIZE_MAX - 1, SIZE_MAX - (size_t(16) << 20), SIZE_MAX - (size_t(16) << 20) - 1, SIZE_MAX / 2,
                           size_t(1) << 40, size_t(1) << 33, SIZE_MAX - 31};
const size_t kHugeOneshot[] = {SIZE_MAX - 7, SIZE_MAX - 47, SIZE_MAX - 55, size_t(1) << 62, size_t(1) << 40, size_t(1) << 33};
const size_t kHugeReusable[] = {SIZE_MAX, SIZE_MAX - 1, SIZE_MAX - 24, SIZE_MAX - 25, SIZE_MAX - 33, size_t(1) << 62, size_t(1) << 40};
template<typename T, size_t N> constexpr size_t countof(const T (&)[N]) { return N; }

// adversarial count: sel 0 small, 1 around `cap`, 2 mid, 3 huge (reported through *huge)
inline size_t dec_count(int64_t sel, int64_t v, size_t cap, size_t small_max, size_t mid_max, bool* huge) {
  *huge = false;
  switch (umod(sel, 4)) {
    case 0: return umod(v, small_max + 1);
    case 1: { size_t d = umod(v, 3); return cap + d >= 1 ? cap + d - 1 : 0; }
    case 2: return umod(v, mid_max + 1);
    default: *huge = true; return kHugeCount[umod(v, countof(kHugeCount))];
  }
}

inline std::string gen_text(uint64_t seed, size_t len) {
  static const char al[] = "abcdefghijklmnopqrstuvwxyz0123456789_-+ABCDEFGHIJKLMNOPQRSTUVWXYZ";
  std::string s(len, 'x');
  uint64_t x = seed * 6364136223846793005ull + 1442695040888963407ull;
  for (size_t i = 0; i < len; i++) { x = x * 6364136223846793005ull + 1442695040888963407ull; s[i] = al[(x >> 33) % (sizeof(al) - 1)]; }
  return s;
}

struct Rec12 { uint32_t a, b, c;
  bool operator==(const Rec12& o) const { return a == o.a && b == o.b && c == o.c; }
  bool operator<(const Rec12& o) const { return a != o.a ? a < o.a : b != o.b ? b < o.b : c < o.c; }
  bool operator>(const Rec12& o) const { return o < *this; } };
struct Rec24 { uint64_t a, b, c;
  bool operator==(const Rec24& o) const { return a == o.a && b == o.b && c == o.c; }
  bool operator<(const Rec24& o) const { return a != o.a ? a < o.a : b != o.b ? b < o.b : c < o.c; }
  bool operator>(const Rec24& o) const { return o < *this; } };
static_assert(sizeof(Rec12) == 12 && sizeof(Rec24) == 24, "element sizes");
template<typename T> T make_val(int64_t x);
template<> uint32_t make_val<uint32_t>(int64_t x) { return uint32_t(x); }
template<> Rec12 make_val<Rec12>(int64_t x) { return Rec12{uint32_t(x), ~uint32_t(x), uint32_t(x) * 7u + 1u}; }
template<> Rec24 make_val<Rec24>(int64_t x) { return Rec24{uint64_t(x), ~uint64_t(x), uint64_t(x) * 0x9E3779B97F4A7C15ull}; }

struct HNode : public ArenaHashNode {
  HNode(uint32_t h, uint32_t k, uint32_t v) : ArenaHashNode(h), key(k), val(v) {}
  uint32_t key, val;
};
struct HKey { uint32_t h, key;
  uint32_t hash_code() const { return h; }
  bool matches(const HNode* n) const { return n->key == key; } };

struct TNode : public ArenaTreeNodeT<TNode> {
  explicit TNode(uint32_t k) : key(k), payload(k * 2654435761u + 17u) {}
  bool operator<(const TNode& o) const { return key < o.key; }
  bool operator>(const TNode& o) const { return key > o.key; }
  bool operator<(uint32_t k) const { return key < k; }
  bool operator>(uint32_t k) const { return key > k; }
  uint32_t key, payload;
};

struct LNode : public ArenaListNode<LNode> { explicit LNode(uint32_t v) : val(v) {} uint32_t val; };

struct PObj { uint64_t w[3]; };

struct Region { uintptr_t p; size_t n; const char* what; };

struct RawBlock { uint8_t* p; size_t req; size_t usable; uint32_t id; bool reusable; bool freed; };

struct ArenaHolder {
  std::unique_ptr<Arena> plain; std::unique_ptr<ArenaTmp<24>> t24; std::unique_ptr<ArenaTmp<200>> t200;
  std::unique_ptr<ArenaTmp<1024>> t1k; std::unique_ptr<ArenaTmp<8192>> t8k;
  Arena* a = nullptr; size_t static_size = 0;
  void init(size_t kind, size_t blk) {
    switch (kind % 5) {
      case 0: plain.reset(new Arena(blk)); a = plain.get(); break;
      case 1: t24.reset(new ArenaTmp<24>(blk)); a = t24.get(); static_size = 24; break;
      case 2: t200.reset(new ArenaTmp<200>(blk)); a = t200.get(); static_size = 200; break;
      case 3: t1k.reset(new ArenaTmp<1024>(blk)); a = t1k.get(); static_size = 1024; break;
      default: t8k.reset(new ArenaTmp<8192>(blk)); a = t8k.get(); static_size = 8192; break;
    }
  }
};

struct StrBox { uint64_t c0 = 0x5AFE5AFE5AFE5AFEull; String s; uint64_t c1 = 0x0DDC0FFEE0DDF00Dull; };
struct TmpBox { uint64_t c0 = 0x5AFE5AFE5AFE5AFEull; StringTmp<40> s; uint64_t c1 = 0x0DDC0FFEE0DDF00Dull; };

template<typename T> struct VecFam { ArenaVector<T> v[2]; std::vector<T> m[2]; };

struct World {
  vh::Ctx& ctx;
  ArenaHolder ah;
  Arena& arena() { return *ah.a; }
  size_t hash_mode = 0, node_mode = 0, bv_words = 2;

  // events for the non-trivial rule
  bool ev_growth = false, ev_removal = false;
  std::string sample;
  void tok(const char* t) { if (ctx.want_sample() && sample.size() < 360) { sample += t; sample += ' '; } }
  void cls(const std::string& n) { ctx.cls(n); }

  // ---- raw blocks ----
  std::vector<RawBlock> raw;      // live + abandoned oneshot (all stay until arena reset); freed reusable are erased
  uint32_t next_id = 1;

  // ---- containers + models ----
  VecFam<uint32_t> v4; VecFam<Rec12> v12; VecFam<Rec24> v24;
  ArenaHash<HNode> hash[2]; std::multimap<uint32_t, HNode*> hm[2]; std::map<HNode*, uint32_t> hval;
  ArenaTree<TNode> tree[2]; std::map<uint32_t, TNode*> tm[2];
  ArenaList<LNode> list[2]; std::vector<LNode*> lm[2]; std::map<LNode*, uint32_t> lval;
  std::vector<std::pair<void*, size_t>> detached;   // nodes taken out of a container but never given back to the arena
  ArenaBitSet bs[2]; std::vector<bool> bm[2];
  std::vector<BitWord> bvbuf[2]; std::vector<bool> bvm[2];
  ArenaPool<PObj> pool; std::vector<PObj*> pool_live; std::vector<PObj*> pool_free; std::map<PObj*, uint64_t> pool_tag;
  ArenaString<16> as[2]; std::string asm_[2]; std::vector<Region> as_ext;   // every external buffer ever handed out (until reset)
  std::unique_ptr<StrBox> sb[2]; std::unique_ptr<TmpBox> tb; std::string sm[3];
  String& str(size_t i) { return i < 2 ? sb[i]->s : static_cast<String&>(tb->s); }

  World(vh::Ctx& c, const vh::Case& cs) : ctx(c) {
    static const size_t blk[] = {1024, 2048, 4096, 65536};
    auto cf = [&](size_t i) { return i < cs.cfg.size() ? cs.cfg[i] : 0; };
    ah.init(umod(cf(0), 5), blk[umod(cf(1), 4)]);
    hash_mode = umod(cf(2), 6); node_mode = umod(cf(3), 2); bv_words = 1 + umod(cf(4), 4);
    for (int i = 0; i < 2; i++) {
      bvbuf[i].assign(bv_words + 2, 0); bvbuf[i][0] = bvbuf[i][bv_words + 1] = BitWord(0xA5A5A5A5A5A5A5A5ull);
      bvm[i].assign(bv_words * 64, false);
      sb[i].reset(new StrBox());
    }
    tb.reset(new TmpBox());
    cls(std::string("arena_kind.") + (ah.static_size ? "static" + std::to_string(ah.static_size) : std::string("plain")));
  }

  ~World() {
    // Teardown must not crash or leak even when a check threw in the middle of a case while one of the known arena defects
    // is pending (otherwise shrinking would die in ~Arena): silently repair what finish() would have reported.
    Arena& a = arena();
#ifdef C18_ASAN
    bool seen_current = false;
    for (Arena::ManagedBlock* b = a._first_block; b; b = b->next) {
      if (b == a._current_block) seen_current = true;
      if (b->next && __asan_address_is_poisoned(b->next)) b->next = seen_current ? nullptr : a._current_block;
    }
#endif
    if (a._dynamic_blocks && a._first_block->size == 0 && !a.has_static_block()) (void)a.alloc_oneshot(8);
  }

  // =============================================================================================
  // Arena block chain (defect class `arena-softreset-dangling-block`)
  // =============================================================================================
  void check_chain(const char* where) {
    Arena& a = arena();
    Arena::ManagedBlock* b = a._first_block;
    bool seen_current = false;
    size_t guard = 0;
    while (b) {
      if (b == a._current_block) seen_current = true;
      Arena::ManagedBlock* n = b->next;
#ifdef C18_ASAN
      if (n && __asan_address_is_poisoned(n)) {
        char m[256];
        snprintf(m, sizeof m, "%s: managed block #%zu links to a block that was already freed (use-after-free / double free on the next walk)", where, guard);
        ctx.fail_unless_known("arena-softreset-dangling-block", m);
        // known finding: repair the chain so that the rest of the history can still be explored
        b->next = seen_current ? nullptr : a._current_block;
        n = b->next;
      }
#endif
      b = n;
      VH_CHECK(ctx, ++guard < 100000, "arena-chain-cycle", "%s: block chain does not terminate", where);
    }
    VH_CHECK(ctx, seen_current || a._current_block == nullptr, "arena-current-unlinked", "%s: current block is not reachable from the first block", where);
    VH_CHECK(ctx, a._ptr <= a._end, "arena-cursor", "%s: cursor beyond end", where);
    VH_CHECK(ctx, uintptr_t(a._ptr) % 8 == 0, "arena-cursor-misaligned", "%s: cursor %p not 8-aligned", where, (void*)a._ptr);
  }

  // =============================================================================================
  // Live-region registry: alignment + pairwise disjointness + raw patterns
  // =============================================================================================
  static uint8_t pat(uint32_t id, size_t i) { return uint8_t(id * 131u + i * 7u + 1u); }
  void fill_block(const RawBlock& b) { for (size_t i = 0; i < b.usable; i++) b.p[i] = pat(b.id, i); }
  void verify_block(const RawBlock& b, bool full, const char* where) {
    size_t n = b.usable;
    auto chk = [&](size_t i) {
      if (b.p[i] != pat(b.id, i)) {
        char m[200]; snprintf(m, sizeof m, "%s: raw block #%u (%zu bytes, %s) byte %zu is 0x%02x, written 0x%02x", where, b.id, n, b.reusable ? "reusable" : "oneshot", i, b.p[i], pat(b.id, i));
        ctx.fail("raw-content-clobbered", m);
      }
    };
    if (full || n <= 256) { for (size_t i = 0; i < n; i++) chk(i); }
    else { for (size_t i = 0; i < 64; i++) { chk(i); chk(n - 1 - i); } }
  }

  template<typename T> void add_vec(std::vector<Region>& r, VecFam<T>& f, const char* what) {
    for (int i = 0; i < 2; i++) if (f.v[i]._data) r.push_back({uintptr_t(f.v[i]._data), size_t(f.v[i]._capacity) * sizeof(T), what});
  }
  void collect(std::vector<Region>& r) {
    for (auto& b : raw) if (!b.freed) r.push_back({uintptr_t(b.p), b.usable, "raw"});
    add_vec(r, v4, "vec<u32>"); add_vec(r, v12, "vec<Rec12>"); add_vec(r, v24, "vec<Rec24>");
    for (int i = 0; i < 2; i++) {
      if (hash[i]._data != hash[i]._embedded) r.push_back({uintptr_t(hash[i]._data), size_t(hash[i]._buckets_count) * sizeof(void*), "hash-buckets"});
      for (auto& kv : hm[i]) r.push_back({uintptr_t(kv.second), sizeof(HNode), "hash-node"});
      for (auto& kv : tm[i]) r.push_back({uintptr_t(kv.second), sizeof(TNode), "tree-node"});
      for (auto* n : lm[i]) r.push_back({uintptr_t(n), sizeof(LNode), "list-node"});
      if (bs[i]._data) r.push_back({uintptr_t(bs[i]._data), size_t(bs[i]._capacity) / 8, "bitset"});
    }
    for (auto& d : detached) r.push_back({uintptr_t(d.first), d.second, "detached-node"});
    for (auto* p : pool_live) r.push_back({uintptr_t(p), sizeof(PObj), "pool-live"});
    for (auto* p : pool_free) r.push_back({uintptr_t(p), sizeof(PObj), "pool-pooled"});
    for (auto& e : as_ext) r.push_back(e);
  }
  void check_regions(const char* where) {
    std::vector<Region> r;
    collect(r);
    std::sort(r.begin(), r.end(), [](const Region& a, const Region& b) { return a.p < b.p; });
    for (size_t i = 0; i < r.size(); i++) {
      VH_CHECK(ctx, r[i].p % Arena::kAlignment == 0, "misaligned", "%s: %s region at %p not aligned to 8", where, r[i].what, (void*)r[i].p);
      if (i + 1 < r.size())
        VH_CHECK(ctx, r[i].p + r[i].n <= r[i + 1].p, "overlap", "%s: live %s [%p,+%zu) overlaps live %s [%p,+%zu)", where, r[i].what, (void*)r[i].p, r[i].n, r[i + 1].what, (void*)r[i + 1].p, r[i + 1].n);
    }
    for (auto& b : raw) if (!b.freed) verify_block(b, false, where);
  }

  // node allocation shared by hash/tree/list: mode 0 = new_oneshot (never returned), mode 1 = alloc_reusable/free_reusable
  template<typename N, typename... A> N* new_node(A... a) {
    if (node_mode == 0) { N* n = arena().new_oneshot<N>(a...); VH_CHECK(ctx, n != nullptr, "alloc-failed", "new_oneshot<node> returned null"); return n; }
    void* p = arena().alloc_reusable(sizeof(N));
    VH_CHECK(ctx, p != nullptr, "alloc-failed", "alloc_reusable(%zu) returned null", sizeof(N));
    return new (p) N(a...);
  }
  template<typename N> void drop_node(N* n) {
    if (node_mode == 0) { memset((void*)n, 0xDD, sizeof(N)); detached.push_back({n, sizeof(N)}); }
    else { memset((void*)n, 0xDD, sizeof(N)); arena().free_reusable(n, sizeof(N)); }
  }

  // =============================================================================================
  // RAW
  // =============================================================================================
  void add_raw(void* p, size_t req, size_t usable, bool reusable, const char* how) {
    VH_CHECK(ctx, p != nullptr, "alloc-failed", "%s(%zu) returned null", how, req);
    VH_CHECK(ctx, uintptr_t(p) % Arena::kAlignment == 0, "misaligned", "%s(%zu) returned %p", how, req, p);
    VH_CHECK(ctx, usable >= req, "allocated-size-too-small", "%s(%zu) reports allocated size %zu", how, req, usable);
    RawBlock b{(uint8_t*)p, req, usable, next_id++, reusable, false};
    raw.push_back(b);
  }
  size_t dec_reusable_size(int64_t sel, int64_t v) {
    switch (umod(sel, 5)) {
      case 0: return 1 + umod(v, 64);
      case 1: { size_t k = umod(v >> 2, 8), d = umod(v, 3); return (size_t(16) << k) + d - 1; }   // slot boundaries 15,16,17 ... 2047,2048,2049
      case 2: return 1 + umod(v, 2048);
      case 3: return 2049 + umod(v, 4000);
      default: return 8 * (1 + umod(v, 16));
    }
  }
  void op_raw(const vh::Op& op) {
    Arena& a = arena();
    size_t sub = umod(arg(op, 2), 11);
    static const char* const nm[] = {"oneshot", "oneshot0", "reusable", "reusable0", "free", "dup", "huge1", "hugeR", "stats", "new", "sformat"};
    tok((std::string("raw.") + nm[sub]).c_str()); cls(std::string("op.raw.") + nm[sub]);
    int64_t s = arg(op, 3), v = arg(op, 4);
    switch (sub) {
      case 0: case 1: {
        size_t size;
        switch (umod(s, 4)) {
          case 0: size = 8 * (1 + umod(v, 16)); break;
          case 1: size = 8 * (1 + umod(v, 256)); break;
          case 2: size = 8 * (1 + umod(v, 1200)); break;
          default: { size_t rem = a.remaining_size() & ~size_t(7); size_t d = umod(v, 3) * 8; size = rem + d >= 16 ? rem + d - 8 : 8; cls("raw.oneshot_at_block_end"); break; }
        }
        Arena::ManagedBlock* cur = a._current_block;
        void* p = sub == 0 ? a.alloc_oneshot(size) : a.alloc_oneshot_zeroed(size);
        if (a._current_block != cur) cls("raw.new_managed_block");
        add_raw(p, size, size, false, "alloc_oneshot");
        if (sub == 1) for (size_t i = 0; i < size; i++) VH_CHECK(ctx, ((uint8_t*)p)[i] == 0, "zeroed-not-zero", "alloc_oneshot_zeroed(%zu): byte %zu is 0x%02x", size, i, ((uint8_t*)p)[i]);
        fill_block(raw.back());
        break;
      }
      case 2: case 3: {
        size_t size = dec_reusable_size(s, v);
        size_t got = size_t(0) - 1;
        bool with_out = (arg(op, 5) & 1) == 0;
        void* p;
        if (sub == 2) p = with_out ? a.alloc_reusable(size, Out(got)) : a.alloc_reusable(size);
        else p = with_out ? a.alloc_reusable_zeroed(size, Out(got)) : a.alloc_reusable_zeroed(size);
        if (!with_out) got = size;
        add_raw(p, size, got, true, "alloc_reusable");
        if (sub == 3) for (size_t i = 0; i < got; i++) VH_CHECK(ctx, ((uint8_t*)p)[i] == 0, "zeroed-not-zero", "alloc_reusable_zeroed(%zu): byte %zu of %zu is 0x%02x", size, i, got, ((uint8_t*)p)[i]);
        fill_block(raw.back());
        cls(size > Arena::kMaxReusableSlotSize ? "raw.reusable_dynamic" : "raw.reusable_slot");
        break;
      }
      case 4: {
        std::vector<size_t> idx;
        for (size_t i = 0; i < raw.size(); i++) if (raw[i].reusable && !raw[i].freed) idx.push_back(i);
        if (idx.empty()) { cls("raw.free_none"); break; }
        size_t i = idx[umod(s, idx.size())];
        verify_block(raw[i], true, "before free_reusable");
        memset(raw[i].p, 0xEE, raw[i].usable);
        a.free_reusable(raw[i].p, (v & 1) ? raw[i].usable : raw[i].req);
        raw.erase(raw.begin() + long(i));
        ev_removal = true; cls("raw.freed");
        break;
      }
      case 5: {
        size_t len = 1 + umod(v, umod(s, 3) == 0 ? 300 : 24);
        bool nt = (arg(op, 5) & 1) != 0;
        std::string t = gen_text(uint64_t(v) + 77, len);
        uint8_t* p = (uint8_t*)a.dup(t.data(), len, nt);
        size_t usable = Support::align_up(len + size_t(nt), size_t(8));
        VH_CHECK(ctx, p != nullptr, "alloc-failed", "dup(%zu) returned null", len);
        VH_CHECK(ctx, memcmp(p, t.data(), len) == 0, "dup-content", "dup(%zu) copied different bytes", len);
        if (nt) VH_CHECK(ctx, p[len] == 0, "dup-not-terminated", "dup(%zu, null_terminate) byte after data is 0x%02x", len, p[len]);
        add_raw(p, usable, usable, false, "dup");
        fill_block(raw.back());
        break;
      }
      case 6: {
        size_t size = kHugeOneshot[umod(v, countof(kHugeOneshot))];
        void* p; { MuteStderr mute; p = a.alloc_oneshot(size); }
        VH_CHECK(ctx, p == nullptr, "huge-alloc-succeeded", "alloc_oneshot(0x%zx) returned %p", size, p);
        cls("raw.huge_rejected");
        break;
      }
      case 7: {
        size_t size = kHugeReusable[umod(v, countof(kHugeReusable))];
        size_t got = 0;
        void* p; { MuteStderr mute; p = (arg(op, 5) & 1) ? a.alloc_reusable_zeroed(size, Out(got)) : a.alloc_reusable(size, Out(got)); }
        VH_CHECK(ctx, p == nullptr, "huge-alloc-succeeded", "alloc_reusable(0x%zx) returned %p", size, p);
        cls("raw.huge_rejected");
        break;
      }
      case 8: {
        check_chain("before statistics");
        ArenaStatistics st = a.statistics();
        VH_CHECK(ctx, st.reserved_size() >= st.used_size(), "stats-inconsistent", "reserved %zu < used %zu", st.reserved_size(), st.used_size());
        size_t live = 0;
        for (auto& b : raw) if (!b.reusable) live += b.usable;
        (void)live;
        break;
      }
      case 9: {
        PObj* p = a.new_oneshot<PObj>();
        add_raw(p, sizeof(PObj), sizeof(PObj), false, "new_oneshot");
        VH_CHECK(ctx, p->w[0] == 0 && p->w[1] == 0 && p->w[2] == 0, "new-oneshot-not-value-initialised", "new_oneshot<PObj>() left garbage");
        fill_block(raw.back());
        break;
      }
      default: {
        size_t len = umod(v, 200);
        std::string t = gen_text(uint64_t(v) + 5, len);
        char* p = a.sformat("%s|%d", t.c_str(), int(len));
        std::string exp = t + "|" + std::to_string(int(len));
        VH_CHECK(ctx, p != nullptr, "alloc-failed", "sformat returned null");
        VH_CHECK(ctx, exp == p, "sformat-content", "sformat produced '%s', expected '%s'", p, exp.c_str());
        size_t usable = Support::align_up(exp.size() + 1, size_t(8));
        add_raw(p, usable, usable, false, "sformat");
        fill_block(raw.back());
        break;
      }
    }
  }

  // =============================================================================================
  // VEC
  // =============================================================================================
  template<typename T> void cmp_vec(VecFam<T>& f, const char* nm, const char* where) {
    for (int i = 0; i < 2; i++) {
      ArenaVector<T>& v = f.v[i]; std::vector<T>& m = f.m[i];
      VH_CHECK(ctx, v.size() == m.size(), "vec-size", "%s[%d] after %s: size %zu, model %zu", nm, i, where, v.size(), m.size());
      VH_CHECK(ctx, v.capacity() >= v.size(), "vec-capacity", "%s[%d] after %s: capacity %zu < size %zu", nm, i, where, v.capacity(), v.size());
      VH_CHECK(ctx, v.is_empty() == m.empty(), "vec-size", "%s[%d] after %s: is_empty mismatch", nm, i, where);
      VH_CHECK(ctx, (v.data() != nullptr) || v.capacity() == 0, "vec-capacity", "%s[%d] after %s: null data with capacity %zu", nm, i, where, v.capacity());
      for (size_t k = 0; k < m.size(); k++)
        if (!(v.data()[k] == m[k])) { char b[200]; snprintf(b, sizeof b, "%s[%d] after %s: element %zu of %zu differs from the model", nm, i, where, k, m.size()); ctx.fail("vec-content", b); }
    }
  }
  template<typename T> void op_vec_t(VecFam<T>& f, const char* nm, const vh::Op& op) {
    Arena& a = arena();
    size_t t = umod(arg(op, 1) >> 2, 2), o = 1 - t;
    ArenaVector<T>& v = f.v[t]; std::vector<T>& m = f.m[t];
    size_t sub = umod(arg(op, 2), 24);
    static const char* const sn[] = {"append", "append_run", "prepend", "insert", "remove_at", "pop", "clear", "truncate", "resize_fit", "resize_grow",
      "reserve_fit", "reserve_grow", "reserve_add", "swap", "concat", "release", "move", "sort", "find", "iterate", "unchecked", "assign_unchecked", "remove_run", "sort_desc"};
    tok((std::string(nm) + "." + sn[sub]).c_str()); cls(std::string("op.vec.") + sn[sub]); cls(std::string("vec.type.") + nm);
    int64_t x = arg(op, 3), y = arg(op, 4), z = arg(op, 5);
    size_t cap0 = v.capacity();
    void* data0 = v._data;
    auto ok = [&](Error e, const char* w) { VH_CHECK(ctx, e == Error::kOk, "vec-op-failed", "%s.%s returned error %u", nm, w, unsigned(e)); };
    auto oom = [&](Error e, const char* w, size_t n) {
      VH_CHECK(ctx, e == Error::kOutOfMemory, "vec-huge-not-rejected", "%s.%s(0x%zx) returned %u, expected kOutOfMemory", nm, w, n, unsigned(e));
      VH_CHECK(ctx, v.capacity() == cap0 && v._data == data0, "vec-failed-op-changed-state", "%s.%s(0x%zx) failed but changed capacity/data", nm, w, n);
      cls("vec.huge_rejected");
    };
    bool huge = false;
    switch (sub) {
      case 0: ok(v.append(a, make_val<T>(x)), "append"); m.push_back(make_val<T>(x)); break;
      case 1: { size_t n = 1 + umod(y, umod(z, 4) == 0 ? 300 : 40);
        for (size_t i = 0; i < n; i++) { int64_t val = (z & 16) ? int64_t(umod(x + int64_t(i) * 3, 5)) : (z & 8) ? x - int64_t(i) : x + int64_t(i); ok(v.append(a, make_val<T>(val)), "append"); m.push_back(make_val<T>(val)); }
        break; }
      case 2: ok(v.prepend(a, make_val<T>(x)), "prepend"); m.insert(m.begin(), make_val<T>(x)); break;
      case 3: { size_t i = umod(y, m.size() + 1); ok(v.insert(a, i, make_val<T>(x)), "insert"); m.insert(m.begin() + long(i), make_val<T>(x)); break; }
      case 4: if (!m.empty()) { size_t i = umod(y, m.size()); v.remove_at(i); m.erase(m.begin() + long(i)); ev_removal = true; } break;
      case 5: if (!m.empty()) { T r = v.pop(); VH_CHECK(ctx, r == m.back(), "vec-content", "%s.pop returned a different element", nm); m.pop_back(); ev_removal = true; } break;
      case 6: v.clear(); if (!m.empty()) ev_removal = true; m.clear(); break;
      case 7: { size_t n = dec_count(x, y, m.size(), 40, 400, &huge); v.truncate(n); if (n < m.size()) { m.resize(n); ev_removal = true; } break; }
      case 8: case 9: { size_t n = dec_count(x, y, cap0, 40, 3000, &huge);
        Error e; { MuteStderr mute(huge); e = sub == 8 ? v.resize_fit(a, n) : v.resize_grow(a, n); }
        if (huge) { oom(e, "resize", n); break; }
        ok(e, "resize"); if (n < m.size()) ev_removal = true; m.resize(n, T{}); break; }
      case 10: case 11: { size_t n = dec_count(x, y, cap0, 40, 3000, &huge);
        Error e; { MuteStderr mute(huge); e = sub == 10 ? v.reserve_fit(a, n) : v.reserve_grow(a, n); }
        if (huge) { oom(e, "reserve", n); break; }
        ok(e, "reserve"); VH_CHECK(ctx, v.capacity() >= n, "vec-capacity", "%s.reserve(%zu) left capacity %zu", nm, n, v.capacity()); break; }
      case 12: { size_t n = dec_count(x, y, cap0 - m.size(), 40, 3000, &huge);
        Error e; { MuteStderr mute(huge); e = (n == 1 && (z & 1)) ? v.reserve_additional(a) : v.reserve_additional(a, n); }
        if (huge) { oom(e, "reserve_additional", n); break; }
        ok(e, "reserve_additional"); VH_CHECK(ctx, v.capacity() - v.size() >= n, "vec-capacity", "%s.reserve_additional(%zu) left %zu free", nm, n, v.capacity() - v.size()); break; }
      case 13: v.swap(f.v[o]); m.swap(f.m[o]); break;
      case 14: { ok(v.concat(a, f.v[o]), "concat"); m.insert(m.end(), f.m[o].begin(), f.m[o].end()); break; }
      case 15: v.release(a); VH_CHECK(ctx, v.data() == nullptr && v.capacity() == 0, "vec-release", "%s.release left data/capacity", nm); if (!m.empty()) ev_removal = true; m.clear(); break;
      case 16: { ArenaVector<T> tmp(std::move(v));
        VH_CHECK(ctx, v.data() == nullptr && v.size() == 0 && v.capacity() == 0, "vec-move", "%s: moved-from vector not reset", nm);
        VH_CHECK(ctx, tmp.size() == m.size() && tmp.capacity() == cap0 && tmp._data == data0, "vec-move", "%s: move constructor lost state", nm);
        v.swap(tmp); break; }
      case 17: v.sort(); std::sort(m.begin(), m.end()); if (m.size() > 7) cls("vec.sort_qsort"); break;
      case 23: v.sort(Support::Compare<Support::SortOrder::kDescending>()); std::sort(m.begin(), m.end(), [](const T& p, const T& q) { return q < p; }); break;
      case 18: {
        T val = (!m.empty() && (z & 1)) ? m[umod(y, m.size())] : make_val<T>(x);
        size_t first = SIZE_MAX, last = SIZE_MAX;
        for (size_t i = 0; i < m.size(); i++) if (m[i] == val) { if (first == SIZE_MAX) first = i; last = i; }
        VH_CHECK(ctx, v.index_of(val) == first, "vec-index-of", "%s.index_of gave %zu, model %zu", nm, v.index_of(val), first);
        VH_CHECK(ctx, v.contains(val) == (first != SIZE_MAX), "vec-index-of", "%s.contains disagrees with the model", nm);
        VH_CHECK(ctx, v.as_span().last_index_of(val) == last, "span-last-index-of", "Span::last_index_of gave %zu, model %zu", v.as_span().last_index_of(val), last);
        size_t li = v.last_index_of(val);
        if (li != last) {
          char b[200]; snprintf(b, sizeof b, "%s.last_index_of gave %zu, the last matching index is %zu (first is %zu)", nm, li, last, first);
          ctx.fail_unless_known("vector-last-index-of", b);
        }
        if (first != last) cls("vec.find_duplicates");
        break; }
      case 19: {
        size_t k = 0;
        for (T& e : v.iterate()) { VH_CHECK(ctx, k < m.size() && e == m[k], "vec-iterate", "%s.iterate() element %zu differs", nm, k); k++; }
        VH_CHECK(ctx, k == m.size(), "vec-iterate", "%s.iterate() visited %zu of %zu", nm, k, m.size());
        k = m.size();
        for (T& e : v.iterate_reverse()) { VH_CHECK(ctx, k > 0 && e == m[k - 1], "vec-iterate", "%s.iterate_reverse() element %zu differs", nm, k - 1); k--; }
        VH_CHECK(ctx, k == 0, "vec-iterate", "%s.iterate_reverse() stopped early", nm);
        VH_CHECK(ctx, size_t(v.end() - v.begin()) == m.size() && size_t(v.cend() - v.cbegin()) == m.size(), "vec-iterate", "%s begin/end distance", nm);
        Span<T> sp = v; VH_CHECK(ctx, sp.size() == m.size() && sp.data() == v.data(), "vec-iterate", "%s span conversion", nm);
        if (!m.empty()) {
          VH_CHECK(ctx, v.first() == m.front() && v.last() == m.back() && v.at(m.size() / 2) == m[m.size() / 2] && v[m.size() - 1] == m.back(), "vec-content", "%s first/last/at", nm);
        }
        break; }
      case 20: {
        if (v.size() < v.capacity()) {
          switch (umod(y, 3)) {
            case 0: v.append_unchecked(make_val<T>(x)); m.push_back(make_val<T>(x)); break;
            case 1: v.prepend_unchecked(make_val<T>(x)); m.insert(m.begin(), make_val<T>(x)); break;
            default: { size_t i = umod(z, m.size() + 1); v.insert_unchecked(i, make_val<T>(x)); m.insert(m.begin() + long(i), make_val<T>(x)); break; }
          }
        }
        if (v.capacity() - v.size() >= f.v[o].size()) { v.concat_unchecked(f.v[o]); m.insert(m.end(), f.m[o].begin(), f.m[o].end()); }
        break; }
      case 21: if (v.capacity() >= f.v[o].size()) { if (f.m[o].size() < m.size()) ev_removal = true; v.assign_unchecked(f.v[o]); m = f.m[o]; } break;
      default: { size_t n = 1 + umod(y, 12); for (size_t i = 0; i < n && !m.empty(); i++) { size_t k = (z & 1) ? 0 : umod(x + int64_t(i) * 7, m.size()); v.remove_at(k); m.erase(m.begin() + long(k)); ev_removal = true; } break; }
    }
    if (v.capacity() != cap0) {
      if (cap0 != 0 && v.capacity() > cap0) { ev_growth = true; cls("vec.regrow"); }
      if (v.capacity() * sizeof(T) > Arena::kMaxReusableSlotSize) cls("vec.dynamic_block");
    }
    if (v.size() == v.capacity() && v.size() > 0) cls("vec.full");
    cmp_vec(f, nm, sn[sub]);
  }
  void op_vec(const vh::Op& op) {
    switch (umod(arg(op, 1), 4)) {
      case 0: case 3: op_vec_t(v4, "v4", op); break;
      case 1: op_vec_t(v12, "v12", op); break;
      default: op_vec_t(v24, "v24", op); break;
    }
  }

  // =============================================================================================
  // HASH
  // =============================================================================================
  uint32_t hash_of(uint32_t key) const {
    switch (hash_mode) {
      case 0: return key;                                   // sequential
      case 1: return key & 3u;                              // four hash codes only: long chains
      case 2: return key * 2654435761u;                     // spread
      case 3: return 0xFFFFFFFFu - key;                     // top of the 32-bit range
      case 4: return key * (29u * 59u * 131u) ;             // multiples of the early primes: collide in every early table
      default: return key * 541u * 269u + 0x80000000u;
    }
  }
  void check_hash(int t, const char* where) {
    ArenaHash<HNode>& h = hash[t]; auto& m = hm[t];
    VH_CHECK(ctx, h.size() == m.size(), "hash-size", "hash[%d] after %s: size %zu, model %zu", t, where, h.size(), m.size());
    VH_CHECK(ctx, h.is_empty() == m.empty(), "hash-size", "hash[%d] after %s: is_empty mismatch", t, where);
    VH_CHECK(ctx, h._buckets_count >= 1, "hash-buckets", "hash[%d]: zero buckets", t);
    std::set<HNode*> seen;
    size_t longest = 0;
    for (uint32_t b = 0; b < h._buckets_count; b++) {
      size_t len = 0;
      for (ArenaHashNode* n = h._data[b]; n; n = n->_hash_next) {
        HNode* hn = static_cast<HNode*>(n);
        VH_CHECK(ctx, hval.count(hn) != 0, "hash-foreign-node", "hash[%d] after %s: bucket %u holds a node that was never inserted / already removed", t, where, b);
        VH_CHECK(ctx, n->_hash_code % h._buckets_count == b, "hash-wrong-bucket", "hash[%d] after %s: node hash 0x%08x sits in bucket %u of %u", t, where, n->_hash_code, b, h._buckets_count);
        VH_CHECK(ctx, h._calc_mod(n->_hash_code) == b, "hash-unreachable", "hash[%d] after %s: node hash 0x%08x maps to bucket %u but is chained in %u", t, where, n->_hash_code, h._calc_mod(n->_hash_code), b);
        VH_CHECK(ctx, seen.insert(hn).second, "hash-duplicate-link", "hash[%d] after %s: node linked twice", t, where);
        VH_CHECK(ctx, ++len <= m.size(), "hash-cycle", "hash[%d] after %s: chain longer than the table", t, where);
      }
      longest = std::max(longest, len);
    }
    VH_CHECK(ctx, seen.size() == m.size(), "hash-unreachable", "hash[%d] after %s: %zu nodes reachable from buckets, model holds %zu", t, where, seen.size(), m.size());
    for (auto& kv : m) {
      VH_CHECK(ctx, seen.count(kv.second) != 0, "hash-unreachable", "hash[%d] after %s: node key %u not reachable", t, where, kv.first);
      VH_CHECK(ctx, kv.second->key == kv.first && kv.second->val == hval[kv.second] && kv.second->_hash_code == hash_of(kv.first), "hash-node-clobbered", "hash[%d] after %s: node key %u content changed", t, where, kv.first);
    }
    if (longest >= 4) cls("hash.chain_ge4");
    // a hash table keeps its load factor bounded (the bucket array grows on insertion); 0.9 is the implementation's limit, 2.0 + 8 is asserted
    VH_CHECK(ctx, m.size() <= size_t(h._buckets_count) * 2 + 8, "hash-load-factor", "hash[%d] after %s: %zu nodes in %u buckets, the bucket array does not grow", t, where, m.size(), h._buckets_count);
  }
  void hash_get_check(int t, uint32_t key) {
    HNode* n = hash[t].get(HKey{hash_of(key), key});
    if (hm[t].count(key)) {
      VH_CHECK(ctx, n != nullptr, "hash-get-missed", "hash[%d].get(%u) returned null for a present key", t, key);
      VH_CHECK(ctx, n->key == key && hval.count(n), "hash-get-wrong", "hash[%d].get(%u) returned a node with key %u", t, key, n->key);
    } else VH_CHECK(ctx, n == nullptr, "hash-get-ghost", "hash[%d].get(%u) returned a node for an absent key", t, key);
  }
  void hash_insert(int t, uint32_t key, uint32_t val) {
    ArenaHash<HNode>& h = hash[t];
    uint32_t b0 = h._buckets_count; size_t n0 = h.size();
    HNode* n = new_node<HNode>(hash_of(key), key, val);
    HNode* r = h.insert(arena(), n);
    VH_CHECK(ctx, r == n, "hash-insert-ret", "insert returned a different node");
    if (hm[t].count(key)) cls("hash.duplicate_key");
    hm[t].insert({key, n}); hval[n] = val;
    if (h._buckets_count != b0) { cls("hash.rehash"); if (n0 > 0) ev_growth = true; VH_CHECK(ctx, h._buckets_count > b0, "hash-buckets", "rehash shrank the table %u -> %u", b0, h._buckets_count); }
  }
  void hash_remove_node(int t, uint32_t key) {
    HNode* n = hash[t].get(HKey{hash_of(key), key});
    VH_CHECK(ctx, n != nullptr && n->key == key, "hash-get-missed", "hash[%d].get(%u) failed before remove", t, key);
    HNode* r = hash[t].remove(arena(), n);
    VH_CHECK(ctx, r == n, "hash-remove-ret", "remove of a present node returned %p", (void*)r);
    auto range = hm[t].equal_range(key);
    bool found = false;
    for (auto it = range.first; it != range.second; ++it) if (it->second == n) { hm[t].erase(it); found = true; break; }
    VH_CHECK(ctx, found, "hash-get-wrong", "get(%u) returned a node the model does not hold", key);
    hval.erase(n); drop_node(n); ev_removal = true;
  }
  void op_hash(const vh::Op& op) {
    int t = int(umod(arg(op, 1), 2)), o = 1 - t;
    size_t sub = umod(arg(op, 2), 10);
    static const char* const sn[] = {"insert", "insert_run", "get", "remove_key", "remove_nth", "remove_detached", "swap", "release", "remove_run", "get_all"};
    tok((std::string("hash.") + sn[sub]).c_str()); cls(std::string("op.hash.") + sn[sub]);
    int64_t x = arg(op, 3), y = arg(op, 4), z = arg(op, 5);
    switch (sub) {
      case 0: hash_insert(t, uint32_t(x), uint32_t(y)); break;
      case 1: { size_t n = 1 + umod(y, umod(z, 4) == 0 ? 260 : 60); int64_t step = (z & 8) ? -1 : (z & 16) ? 11 : 1;
        for (size_t i = 0; i < n; i++) { hash_insert(t, uint32_t(x + int64_t(i) * step), uint32_t(i)); if ((i & 15) == 15) check_hash(t, "insert_run"); }
        break; }
      case 2: hash_get_check(t, uint32_t(x)); if (!hm[t].empty()) { auto it = hm[t].begin(); std::advance(it, long(umod(y, hm[t].size()))); hash_get_check(t, it->first); } break;
      case 3: if (hm[t].count(uint32_t(x))) hash_remove_node(t, uint32_t(x)); else hash_get_check(t, uint32_t(x)); break;
      case 4: if (!hm[t].empty()) { auto it = hm[t].begin(); std::advance(it, long(umod(x, hm[t].size()))); hash_remove_node(t, it->first); } break;
      case 5: {   // a node that is not in the table: remove() must report that (nullptr) and change nothing
        HNode* n = new_node<HNode>(hash_of(uint32_t(x)), uint32_t(x), 0u);
        HNode* r = hash[t].remove(arena(), n);
        VH_CHECK(ctx, r == nullptr, "hash-remove-ghost", "remove of a node that is not in the table returned %p", (void*)r);
        drop_node(n); break; }
      case 6: hash[t].swap(hash[o]); hm[t].swap(hm[o]); check_hash(o, "swap"); break;
      case 7: { for (auto& kv : hm[t]) { hval.erase(kv.second); drop_node(kv.second); } if (!hm[t].empty()) ev_removal = true; hm[t].clear();
        hash[t].release(arena());
        VH_CHECK(ctx, hash[t]._data == hash[t]._embedded && hash[t]._buckets_count == 1, "hash-release", "release did not return to the embedded bucket"); break; }
      case 8: { size_t n = 1 + umod(y, 40); for (size_t i = 0; i < n && !hm[t].empty(); i++) { auto it = (z & 1) ? hm[t].begin() : std::prev(hm[t].end()); hash_remove_node(t, it->first); } break; }
      default: { for (auto& kv : hm[t]) hash_get_check(t, kv.first); hash_get_check(t, uint32_t(x)); break; }
    }
    check_hash(t, sn[sub]);
  }

  // =============================================================================================
  // TREE
  // =============================================================================================
  int check_tree_rec(TNode* n, bool has_lo, uint32_t lo, bool has_hi, uint32_t hi, std::vector<uint32_t>& inorder, int t, const char* where, size_t depth) {
    if (!n) return 1;
    VH_CHECK(ctx, depth < 128, "tree-cycle", "tree[%d] after %s: deeper than 128", t, where);
    auto it = tm[t].find(n->key);
    VH_CHECK(ctx, it != tm[t].end() && it->second == n, "tree-foreign-node", "tree[%d] after %s: reachable node key %u is not the node the model holds", t, where, n->key);
    VH_CHECK(ctx, n->payload == n->key * 2654435761u + 17u, "tree-node-clobbered", "tree[%d] after %s: payload of key %u changed", t, where, n->key);
    VH_CHECK(ctx, (!has_lo || n->key > lo) && (!has_hi || n->key < hi), "tree-order", "tree[%d] after %s: key %u violates the search-tree order", t, where, n->key);
    TNode* l = n->left(); TNode* r = n->right();
    if (n->is_red()) VH_CHECK(ctx, !(l && l->is_red()) && !(r && r->is_red()), "tree-red-red", "tree[%d] after %s: red node %u has a red child", t, where, n->key);
    int lh = check_tree_rec(l, has_lo, lo, true, n->key, inorder, t, where, depth + 1);
    inorder.push_back(n->key);
    int rh = check_tree_rec(r, true, n->key, has_hi, hi, inorder, t, where, depth + 1);
    VH_CHECK(ctx, lh == rh, "tree-black-height", "tree[%d] after %s: black heights %d / %d differ below key %u", t, where, lh, rh, n->key);
    return lh + (n->is_red() ? 0 : 1);
  }
  void check_tree(int t, const char* where) {
    ArenaTree<TNode>& tr = tree[t];
    VH_CHECK(ctx, tr.is_empty() == tm[t].empty(), "tree-size", "tree[%d] after %s: is_empty mismatch", t, where);
    if (tr.root()) VH_CHECK(ctx, !tr.root()->is_red(), "tree-root-red", "tree[%d] after %s: root is red", t, where);
    std::vector<uint32_t> inorder;
    check_tree_rec(tr.root(), false, 0, false, 0, inorder, t, where, 0);
    VH_CHECK(ctx, inorder.size() == tm[t].size(), "tree-size", "tree[%d] after %s: %zu nodes reachable, model %zu", t, where, inorder.size(), tm[t].size());
    size_t k = 0;
    for (auto& kv : tm[t]) { VH_CHECK(ctx, inorder[k] == kv.first, "tree-order", "tree[%d] after %s: in-order position %zu is %u, model %u", t, where, k, inorder[k], kv.first); k++; }
  }
  typedef std::map<TNode*, std::pair<TNode*, TNode*>> Shape;
  void shape_of(TNode* n, Shape& s) { if (!n) return; s[n] = {n->left(), n->right()}; shape_of(n->left(), s); shape_of(n->right(), s); }
  void tree_get_check(int t, uint32_t key) {
    TNode* n = tree[t].get(key);
    auto it = tm[t].find(key);
    if (it != tm[t].end()) VH_CHECK(ctx, n == it->second, "tree-get-missed", "tree[%d].get(%u) returned %p, model holds %p", t, key, (void*)n, (void*)it->second);
    else VH_CHECK(ctx, n == nullptr, "tree-get-ghost", "tree[%d].get(%u) returned a node for an absent key", t, key);
  }
  void tree_insert(int t, uint32_t key) {
    if (tm[t].count(key)) { tree_get_check(t, key); cls("tree.insert_present"); return; }
    Shape before; shape_of(tree[t].root(), before);
    TNode* n = new_node<TNode>(key);
    tree[t].insert(n);
    tm[t][key] = n;
    Shape after; shape_of(tree[t].root(), after);
    for (auto& kv : before) {
      auto& a = after[kv.first];
      bool lch = a.first != kv.second.first && a.first != n, rch = a.second != kv.second.second && a.second != n;
      if (lch || rch) { ev_growth = true; cls("tree.rotation_on_insert"); break; }
    }
  }
  void tree_remove(int t, uint32_t key) {
    auto it = tm[t].find(key);
    if (it == tm[t].end()) { tree_get_check(t, key); cls("tree.remove_absent"); return; }
    TNode* n = tree[t].get(key);
    VH_CHECK(ctx, n == it->second, "tree-get-missed", "tree[%d].get(%u) before remove returned %p", t, key, (void*)n);
    if (n->left() && n->right()) cls("tree.remove_two_children");
    if (n == tree[t].root()) cls("tree.remove_root");
    tree[t].remove(n);
    tm[t].erase(it);
    drop_node(n); ev_removal = true;
  }
  void op_tree(const vh::Op& op) {
    int t = int(umod(arg(op, 1), 2)), o = 1 - t;
    size_t sub = umod(arg(op, 2), 9);
    static const char* const sn[] = {"insert", "insert_run", "get", "remove_key", "remove_nth", "remove_run", "swap", "drain", "get_all"};
    tok((std::string("tree.") + sn[sub]).c_str()); cls(std::string("op.tree.") + sn[sub]);
    int64_t x = arg(op, 3), y = arg(op, 4), z = arg(op, 5);
    switch (sub) {
      case 0: tree_insert(t, uint32_t(x)); break;
      case 1: { size_t n = 1 + umod(y, umod(z, 4) == 0 ? 200 : 48);
        static const int64_t steps[] = {1, -1, 7, -3, 1000003, 0x10000001};
        int64_t step = steps[umod(z >> 2, 6)];
        cls(step == 1 ? "tree.run_ascending" : step == -1 ? "tree.run_descending" : "tree.run_strided");
        for (size_t i = 0; i < n; i++) { tree_insert(t, uint32_t(x + int64_t(i) * step)); check_tree(t, "insert_run"); }
        break; }
      case 2: tree_get_check(t, uint32_t(x)); break;
      case 3: tree_remove(t, uint32_t(x)); break;
      case 4: if (!tm[t].empty()) { auto it = tm[t].begin(); std::advance(it, long(umod(x, tm[t].size()))); tree_remove(t, it->first); } break;
      case 5: { size_t n = 1 + umod(y, 48);
        for (size_t i = 0; i < n && !tm[t].empty(); i++) {
          uint32_t k;
          switch (umod(z, 3)) { case 0: k = tm[t].begin()->first; break; case 1: k = std::prev(tm[t].end())->first; break;
            default: { auto it = tm[t].begin(); std::advance(it, long(umod(x + int64_t(i) * 5, tm[t].size()))); k = it->first; } }
          tree_remove(t, k); check_tree(t, "remove_run");
        }
        break; }
      case 6: tree[t].swap(tree[o]); tm[t].swap(tm[o]); check_tree(o, "swap"); break;
      case 7: { while (!tm[t].empty()) { tree_remove(t, (z & 1) ? tm[t].begin()->first : tree[t].root()->key); if ((tm[t].size() & 3) == 0) check_tree(t, "drain"); } break; }
      default: { for (auto& kv : tm[t]) tree_get_check(t, kv.first); tree_get_check(t, uint32_t(x)); tree_get_check(t, uint32_t(x) + 1); break; }
    }
    check_tree(t, sn[sub]);
    if (tm[t].size() >= 32) cls("tree.size_ge32");
  }

  // =============================================================================================
  // LIST
  // =============================================================================================
  void check_list(int t, const char* where) {
    ArenaList<LNode>& l = list[t]; auto& m = lm[t];
    VH_CHECK(ctx, l.is_empty() == m.empty(), "list-size", "list[%d] after %s: is_empty mismatch", t, where);
    VH_CHECK(ctx, l.first() == (m.empty() ? nullptr : m.front()) && l.last() == (m.empty() ? nullptr : m.back()), "list-ends", "list[%d] after %s: first/last differ from the model", t, where);
    size_t k = 0; LNode* prev = nullptr;
    for (LNode* n = l.first(); n; n = n->next()) {
      VH_CHECK(ctx, k < m.size() && n == m[k], "list-order", "list[%d] after %s: forward position %zu differs from the model (%zu nodes)", t, where, k, m.size());
      VH_CHECK(ctx, n->prev() == prev, "list-links", "list[%d] after %s: node %zu prev link is not its predecessor", t, where, k);
      VH_CHECK(ctx, n->has_prev() == (prev != nullptr) && n->has_next() == (k + 1 < m.size()), "list-links", "list[%d] after %s: has_prev/has_next at %zu", t, where, k);
      VH_CHECK(ctx, n->val == lval[n], "list-node-clobbered", "list[%d] after %s: node %zu value changed", t, where, k);
      prev = n; k++;
    }
    VH_CHECK(ctx, k == m.size(), "list-order", "list[%d] after %s: forward walk saw %zu of %zu", t, where, k, m.size());
    k = m.size();
    for (LNode* n = l.last(); n; n = n->prev()) { VH_CHECK(ctx, k > 0 && n == m[k - 1], "list-links", "list[%d] after %s: backward position %zu differs", t, where, k - 1); k--; }
    VH_CHECK(ctx, k == 0, "list-links", "list[%d] after %s: backward walk stopped early", t, where);
  }
  void list_gone(LNode* n, const char* how) {
    VH_CHECK(ctx, n->prev() == nullptr && n->next() == nullptr, "list-unlinked-links", "%s: removed node keeps a link", how);
    lval.erase(n); drop_node(n); ev_removal = true;
  }
  void op_list(const vh::Op& op) {
    int t = int(umod(arg(op, 1), 2)), o = 1 - t;
    ArenaList<LNode>& l = list[t]; auto& m = lm[t];
    size_t sub = umod(arg(op, 2), 10);
    static const char* const sn[] = {"append", "prepend", "insert_after", "insert_before", "unlink", "pop", "pop_first", "swap", "append_run", "drain"};
    tok((std::string("list.") + sn[sub]).c_str()); cls(std::string("op.list.") + sn[sub]);
    int64_t x = arg(op, 3), y = arg(op, 4), z = arg(op, 5);
    auto mk = [&](uint32_t v) { LNode* n = new_node<LNode>(v); lval[n] = v; return n; };
    switch (sub) {
      case 0: { LNode* n = mk(uint32_t(x)); l.append(n); m.push_back(n); break; }
      case 1: { LNode* n = mk(uint32_t(x)); l.prepend(n); m.insert(m.begin(), n); break; }
      case 2: case 3: {
        if (m.empty()) { LNode* n = mk(uint32_t(x)); l.append(n); m.push_back(n); break; }
        size_t i = umod(y, m.size()); LNode* n = mk(uint32_t(x));
        if (sub == 2) { l.insert_after(m[i], n); m.insert(m.begin() + long(i) + 1, n); } else { l.insert_before(m[i], n); m.insert(m.begin() + long(i), n); }
        if (i == 0 || i + 1 == m.size() - 1) cls("list.insert_at_end");
        break; }
      case 4: if (!m.empty()) { size_t i = umod(y, m.size()); LNode* n = l.unlink(m[i]); VH_CHECK(ctx, n == m[i], "list-ret", "unlink returned another node"); m.erase(m.begin() + long(i)); list_gone(n, "unlink"); } break;
      case 5: if (!m.empty()) { LNode* n = l.pop(); VH_CHECK(ctx, n == m.back(), "list-ret", "pop returned another node"); m.pop_back(); list_gone(n, "pop"); } break;
      case 6: if (!m.empty()) { LNode* n = l.pop_first(); VH_CHECK(ctx, n == m.front(), "list-ret", "pop_first returned another node"); m.erase(m.begin()); list_gone(n, "pop_first"); } break;
      case 7: l.swap(list[o]); m.swap(lm[o]); check_list(o, "swap"); break;
      case 8: { size_t n = 1 + umod(y, 24); for (size_t i = 0; i < n; i++) { LNode* nd = mk(uint32_t(x + int64_t(i))); if ((z >> (i & 7)) & 1) { l.prepend(nd); m.insert(m.begin(), nd); } else { l.append(nd); m.push_back(nd); } } break; }
      default: { while (!m.empty()) { size_t i = umod(z, 3) == 0 ? 0 : umod(z, 3) == 1 ? m.size() - 1 : m.size() / 2; LNode* n = l.unlink(m[i]); m.erase(m.begin() + long(i)); list_gone(n, "unlink"); if ((m.size() & 3) == 0) check_list(t, "drain"); } break; }
    }
    check_list(t, sn[sub]);
  }

  // =============================================================================================
  // BITSET
  // =============================================================================================
  bool bitset_differs(int t) {
    ArenaBitSet& b = bs[t]; auto& m = bm[t];
    if (b.size() != m.size()) return true;
    for (size_t i = 0; i < m.size(); i++) if (b.bit_at(i) != bool(m[i])) return true;
    return false;
  }
  void bitset_force(int t) {   // only used to continue after a *known* finding: make the container equal to the model again
    ArenaBitSet& b = bs[t]; auto& m = bm[t];
    b._size = uint32_t(m.size());
    for (size_t w = 0; w < b.size_in_bit_words(); w++) b._data[w] = 0;
    for (size_t i = 0; i < m.size(); i++) if (m[i]) b._data[i / 64] |= BitWord(1) << (i % 64);
  }
  void check_bitset(int t, const char* where) {
    ArenaBitSet& b = bs[t]; auto& m = bm[t];
    VH_CHECK(ctx, b.size() == m.size(), "bitset-size", "bitset[%d] after %s: size %zu, model %zu", t, where, b.size(), m.size());
    VH_CHECK(ctx, b.capacity() >= b.size() && b.is_empty() == m.empty(), "bitset-size", "bitset[%d] after %s: capacity %zu < size %zu", t, where, b.capacity(), b.size());
    VH_CHECK(ctx, b.size_in_bit_words() == (m.size() + 63) / 64, "bitset-size", "bitset[%d] after %s: size_in_bit_words", t, where);
    for (size_t i = 0; i < m.size(); i++)
      if (b.bit_at(i) != bool(m[i])) { char s[200]; snprintf(s, sizeof s, "bitset[%d] after %s: bit %zu of %zu is %d, model %d", t, where, i, m.size(), int(b.bit_at(i)), int(bool(m[i]))); ctx.fail("bitset-content", s); }
    // iteration over set bits (also proves that bits beyond size() in the last word are zero)
    ArenaBitSet::ForEachBitSet it(b);
    size_t expect = 0;
    auto next_set = [&](size_t from) { while (from < m.size() && !m[from]) from++; return from; };
    expect = next_set(0);
    size_t guard = 0;
    while (it.has_next()) {
      size_t peek = it.peek_next(); size_t i = it.next();
      VH_CHECK(ctx, peek == i, "bitset-iterate", "bitset[%d] after %s: peek_next %zu != next %zu", t, where, peek, i);
      VH_CHECK(ctx, i == expect && i < m.size(), "bitset-iterate", "bitset[%d] after %s: iterator yields bit %zu, next set bit in the model is %zu (size %zu)", t, where, i, expect, m.size());
      expect = next_set(i + 1);
      VH_CHECK(ctx, ++guard <= m.size(), "bitset-iterate", "bitset[%d]: iterator does not terminate", t);
    }
    VH_CHECK(ctx, expect >= m.size(), "bitset-iterate", "bitset[%d] after %s: iterator stopped before set bit %zu", t, where, expect);
  }
  void op_bitset(const vh::Op& op) {
    Arena& a = arena();
    int t = int(umod(arg(op, 1), 2)), o = 1 - t;
    ArenaBitSet& b = bs[t]; auto& m = bm[t]; ArenaBitSet& ob = bs[o]; auto& om = bm[o];
    size_t sub = umod(arg(op, 2), 20);
    static const char* const sn[] = {"resize", "append", "append_run", "set_bit", "add_bit", "clear_bit", "xor_bit", "fill_bits", "clear_bits", "fill_all",
      "clear_all", "truncate", "clear", "and", "and_not", "or", "copy_from", "equals", "swap", "release"};
    tok((std::string("bs.") + sn[sub]).c_str()); cls(std::string("op.bitset.") + sn[sub]);
    int64_t x = arg(op, 3), y = arg(op, 4), z = arg(op, 5);
    size_t cap0 = b.capacity(), size0 = m.size();
    bool huge = false;
    auto idx = [&](int64_t v) { return umod(v, m.size()); };
    switch (sub) {
      case 0: {
        size_t n;
        switch (umod(x, 6)) {
          case 0: n = umod(y, 71); break;
          case 1: { static const size_t w[] = {62, 63, 64, 65, 66, 126, 127, 128, 129, 130, 191, 192, 193}; n = w[umod(y, countof(w))]; break; }
          case 2: { size_t d = umod(y, 3); n = cap0 + d >= 1 ? cap0 + d - 1 : 0; break; }
          case 3: n = umod(y, 3000); break;
          case 4: n = umod(y, 40000); break;
          default: huge = true; n = kHugeCount[umod(y, countof(kHugeCount))]; break;
        }
        bool val = (z & 1) != 0;
        Error e; { MuteStderr mute(huge); e = b.resize(a, n, val); }
        if (huge) {
          VH_CHECK(ctx, e == Error::kOutOfMemory, "bitset-huge-not-rejected", "resize(0x%zx) returned %u", n, unsigned(e));
          VH_CHECK(ctx, b.capacity() == cap0, "bitset-failed-op-changed-state", "failed resize changed the capacity");
          cls("bitset.huge_rejected"); break;
        }
        VH_CHECK(ctx, e == Error::kOk, "bitset-op-failed", "resize(%zu) returned %u", n, unsigned(e));
        if (n < size0) ev_removal = true;
        m.resize(n, val);
        if (n > size0 && size0 % 64 != 0) {
          cls("bitset.grow_from_partial_word");
          if (bitset_differs(t)) {
            char s[240]; snprintf(s, sizeof s, "resize(%zu -> %zu, new_bits=%d): growing from a size that is not a multiple of 64 produced wrong bits (old bits clobbered or new bits not set to the requested value)", size0, n, int(val));
            ctx.fail_unless_known("bitset-resize-grow", s);
            bitset_force(t);
          }
        }
        break; }
      case 1: { bool v = (x & 1) != 0; Error e = b.append(a, v); VH_CHECK(ctx, e == Error::kOk, "bitset-op-failed", "append returned %u", unsigned(e)); m.push_back(v); break; }
      case 2: { size_t n = 1 + umod(y, umod(z, 4) == 0 ? 700 : 90); uint64_t bits = uint64_t(x) * 0x9E3779B97F4A7C15ull;
        for (size_t i = 0; i < n; i++) { bool v = (bits >> (i & 63)) & 1; Error e = b.append(a, v); VH_CHECK(ctx, e == Error::kOk, "bitset-op-failed", "append returned %u", unsigned(e)); m.push_back(v); if ((i & 63) == 63) bits = bits * 6364136223846793005ull + 1; }
        break; }
      case 3: if (!m.empty()) { size_t i = idx(x); bool v = (y & 1) != 0; b.set_bit(i, v); m[i] = v; } break;
      case 4: if (!m.empty()) { size_t i = idx(x); bool v = (y & 1) != 0; b.add_bit(i, v); m[i] = m[i] || v; } break;
      case 5: if (!m.empty()) { size_t i = idx(x); b.clear_bit(i); m[i] = false; } break;
      case 6: if (!m.empty()) { size_t i = idx(x); bool v = (y & 1) != 0; b.xor_bit(i, v); m[i] = bool(m[i]) != v; } break;
      case 7: case 8: {
        size_t start = umod(x, m.size() + 1); size_t cnt = umod(y, m.size() - start + 1);
        if (z & 1) cnt = m.size() - start;   // up to the very end
        if (sub == 7) b.fill_bits(start, cnt); else b.clear_bits(start, cnt);
        for (size_t i = 0; i < cnt; i++) m[start + i] = (sub == 7);
        if (cnt > 64) cls("bitset.range_multiword");
        break; }
      case 9: b.fill_all(); m.assign(m.size(), true); break;
      case 10: b.clear_all(); m.assign(m.size(), false); break;
      case 11: { size_t n = dec_count(x, y, m.size(), 70, 3000, &huge); b.truncate(uint32_t(std::min<size_t>(n, 0xFFFFFFFFu))); if (n < m.size()) { m.resize(n); ev_removal = true; } break; }
      case 12: b.clear(); if (!m.empty()) ev_removal = true; m.clear(); break;
      case 13: b.and_(ob); for (size_t i = 0; i < m.size(); i++) m[i] = m[i] && (i < om.size() && om[i]); break;
      case 14: b.and_not(ob); for (size_t i = 0; i < m.size(); i++) m[i] = m[i] && !(i < om.size() && om[i]); break;
      case 15: b.or_(ob); for (size_t i = 0; i < m.size(); i++) m[i] = m[i] || (i < om.size() && om[i]); break;
      case 16: { Error e = b.copy_from(a, ob); VH_CHECK(ctx, e == Error::kOk, "bitset-op-failed", "copy_from returned %u", unsigned(e)); if (om.size() < m.size()) ev_removal = true; m = om;
        VH_CHECK(ctx, b.equals(ob) && ob.equals(b), "bitset-equals", "a copy does not compare equal to its source (size %zu)", m.size()); break; }
      case 17: { bool eq = (m == om);
        VH_CHECK(ctx, b.equals(ob) == eq && (b == ob) == eq && (b != ob) == !eq, "bitset-equals", "equals() says %d, models say %d (sizes %zu/%zu)", int(b.equals(ob)), int(eq), m.size(), om.size());
        if (eq && !m.empty()) cls("bitset.equals_true"); break; }
      case 18: b.swap(ob); m.swap(om); check_bitset(o, "swap"); break;
      default: b.release(a); VH_CHECK(ctx, b.data() == nullptr && b.capacity() == 0 && b.size() == 0, "bitset-release", "release left state behind"); if (!m.empty()) ev_removal = true; m.clear(); break;
    }
    if (b.capacity() > cap0 && cap0 != 0) { ev_growth = true; cls("bitset.regrow"); }
    if (b.capacity() / 8 > Arena::kMaxReusableSlotSize) cls("bitset.dynamic_block");
    if (m.size() % 64 == 0 && !m.empty()) cls("bitset.size_word_multiple");
    check_bitset(t, sn[sub]);
  }

  // =============================================================================================
  // BITVEC: Support::bit_vector_* helpers, BitOps (span based), iterators on plain word arrays with canaries
  // =============================================================================================
  void check_bitvec(const char* where) {
    for (int t = 0; t < 2; t++) {
      VH_CHECK(ctx, bvbuf[t][0] == BitWord(0xA5A5A5A5A5A5A5A5ull) && bvbuf[t][bv_words + 1] == BitWord(0xA5A5A5A5A5A5A5A5ull), "bitvec-out-of-range-write", "bitvec[%d] after %s: a guard word next to the array was modified", t, where);
      BitWord* w = bvbuf[t].data() + 1;
      for (size_t i = 0; i < bv_words * 64; i++)
        if (Support::bit_vector_get_bit(w, i) != bool(bvm[t][i])) { char s[200]; snprintf(s, sizeof s, "bitvec[%d] after %s: bit %zu is %d, model %d", t, where, i, int(Support::bit_vector_get_bit(w, i)), int(bool(bvm[t][i]))); ctx.fail("bitvec-content", s); }
    }
  }
  void op_bitvec(const vh::Op& op) {
    int t = int(umod(arg(op, 1), 2)), o = 1 - t;
    BitWord* w = bvbuf[t].data() + 1; BitWord* ow = bvbuf[o].data() + 1;
    auto& m = bvm[t]; auto& om = bvm[o];
    size_t nb = bv_words * 64;
    size_t sub = umod(arg(op, 2), 13);
    static const char* const sn[] = {"set_bit", "or_bit", "xor_bit", "fill", "clear", "index_of", "iterate", "op_iterate", "word_iterate", "span_ops", "span_or", "randomize", "fill_edge"};
    tok((std::string("bv.") + sn[sub]).c_str()); cls(std::string("op.bitvec.") + sn[sub]);
    int64_t x = arg(op, 3), y = arg(op, 4), z = arg(op, 5);
    Span<BitWord> sp(w, bv_words); Span<BitWord> osp(ow, bv_words);
    switch (sub) {
      case 0: { size_t i = umod(x, nb); bool v = y & 1; Support::bit_vector_set_bit(w, i, v); m[i] = v; break; }
      case 1: { size_t i = umod(x, nb); bool v = y & 1; Support::bit_vector_or_bit(w, i, v); m[i] = m[i] || v; break; }
      case 2: { size_t i = umod(x, nb); bool v = y & 1; Support::bit_vector_xor_bit(w, i, v); m[i] = bool(m[i]) != v; break; }
      case 3: case 4: case 12: {
        size_t start = umod(x, nb + 1), cnt = umod(y, nb - start + 1);
        if (sub == 12) {   // ranges that start / end exactly at word edges
          static const int d[] = {-1, 0, 1};
          size_t s0 = 64 * umod(x, bv_words + 1), e0 = 64 * umod(y, bv_words + 1);
          int64_t s1 = int64_t(s0) + d[umod(z, 3)], e1 = int64_t(e0) + d[umod(z >> 2, 3)];
          s1 = std::max<int64_t>(0, std::min<int64_t>(s1, int64_t(nb))); e1 = std::max<int64_t>(s1, std::min<int64_t>(e1, int64_t(nb)));
          start = size_t(s1); cnt = size_t(e1 - s1);
        }
        bool fill = sub == 3 || (sub == 12 && (z & 16));
        if (fill) Support::bit_vector_fill(w, start, cnt); else Support::bit_vector_clear(w, start, cnt);
        for (size_t i = 0; i < cnt; i++) m[start + i] = fill;
        if (cnt == 0) cls("bitvec.range_empty"); else if ((start % 64) + cnt > 64) cls("bitvec.range_crosses_word"); else cls("bitvec.range_in_word");
        break; }
      case 5: { size_t start = umod(x, nb); bool v = y & 1; size_t j = start; while (j < nb && bool(m[j]) != v) j++;
        if (j < nb) { size_t r = Support::bit_vector_index_of(w, start, v); VH_CHECK(ctx, r == j, "bitvec-index-of", "bit_vector_index_of(start=%zu, %d) gave %zu, model %zu", start, int(v), r, j); }
        break; }
      case 6: { size_t start = umod(x, nb + 1);
        Support::BitVectorIterator<BitWord> it(Span<const BitWord>(w, bv_words), start);
        size_t j = start; auto nxt = [&](size_t f) { while (f < nb && !m[f]) f++; return f; }; j = nxt(j);
        while (it.has_next()) { size_t i = it.next(); VH_CHECK(ctx, i == j, "bitvec-iterate", "BitVectorIterator(start=%zu) yields %zu, model %zu", start, i, j); j = nxt(i + 1); }
        VH_CHECK(ctx, j >= nb, "bitvec-iterate", "BitVectorIterator(start=%zu) stopped before bit %zu", start, j);
        break; }
      case 7: { size_t start = umod(x, nb + 1); size_t which = umod(y, 4);
        auto f = [&](bool p, bool q) { return which == 0 ? (p && q) : which == 1 ? (p || q) : which == 2 ? (p != q) : (p && !q); };
        std::vector<size_t> got;
        auto run = [&](auto it) { size_t g = 0; while (it.has_next()) { got.push_back(it.next()); VH_CHECK(ctx, ++g <= nb, "bitvec-iterate", "BitVectorOpIterator does not terminate"); } };
        if (which == 0) run(Support::BitVectorOpIterator<BitWord, Support::And>(w, ow, bv_words, start));
        else if (which == 1) run(Support::BitVectorOpIterator<BitWord, Support::Or>(Span<const BitWord>(w, bv_words), Span<const BitWord>(ow, bv_words), start));
        else if (which == 2) run(Support::BitVectorOpIterator<BitWord, Support::Xor>(w, ow, bv_words, start));
        else run(Support::BitVectorOpIterator<BitWord, Support::AndNot>(w, ow, bv_words, start));
        std::vector<size_t> exp; for (size_t i = start; i < nb; i++) if (f(m[i], om[i])) exp.push_back(i);
        VH_CHECK(ctx, got == exp, "bitvec-iterate", "BitVectorOpIterator(op %zu, start=%zu) yields %zu bits, model %zu", which, start, got.size(), exp.size());
        break; }
      case 8: { size_t wi = umod(x, bv_words); Support::BitWordIterator<BitWord> it(w[wi]); size_t j = 0; auto nxt = [&](size_t f) { while (f < 64 && !m[wi * 64 + f]) f++; return f; }; j = nxt(0);
        while (it.has_next()) { uint32_t i = it.next(); VH_CHECK(ctx, i == j, "bitvec-iterate", "BitWordIterator yields %u, model %zu", i, j); j = nxt(i + 1); }
        VH_CHECK(ctx, j >= 64, "bitvec-iterate", "BitWordIterator stopped early"); break; }
      case 9: { size_t i = umod(x, nb); bool v = y & 1;
        // (BitOps::set_bit/clear_bit/or_bit/xor_bit take `const Span<T>&` and cannot be instantiated; only bit_at / or_ / size helpers are usable)
        Support::bit_vector_set_bit(w, i, v); m[i] = v;
        VH_CHECK(ctx, BitOps::bit_at(sp, i) == bool(m[i]), "bitvec-content", "BitOps::bit_at(%zu) disagrees", i);
        VH_CHECK(ctx, BitOps::size_in_bits(sp) == nb && BitOps::size_in_words<BitWord>(nb) == bv_words && BitOps::size_in_words<BitWord>(nb + 1) == bv_words + 1, "bitvec-size", "size helpers");
        break; }
      case 10: { BitOps::or_(sp, sp, osp); for (size_t i = 0; i < nb; i++) m[i] = m[i] || om[i]; break; }
      default: { uint64_t s = uint64_t(x) * 0x9E3779B97F4A7C15ull + 1; for (size_t k = 0; k < bv_words; k++) { s = s * 6364136223846793005ull + 1442695040888963407ull; BitWord v = (y & 1) ? BitWord(s) : BitWord(s & (s >> 7) & (s << 9)); w[k] = v; for (size_t i = 0; i < 64; i++) m[k * 64 + i] = (v >> i) & 1; } break; }
    }
    check_bitvec(sn[sub]);
  }

  // =============================================================================================
  // POOL
  // =============================================================================================
  void op_pool(const vh::Op& op) {
    size_t sub = umod(arg(op, 2), 3);
    static const char* const sn[] = {"alloc", "release", "alloc_run"};
    tok((std::string("pool.") + sn[sub]).c_str()); cls(std::string("op.pool.") + sn[sub]);
    int64_t x = arg(op, 3);
    auto one_alloc = [&](uint64_t tag) {
      PObj* p = pool.alloc(arena());
      VH_CHECK(ctx, p != nullptr, "alloc-failed", "ArenaPool::alloc returned null");
      auto it = std::find(pool_free.begin(), pool_free.end(), p);
      if (!pool_free.empty()) {
        VH_CHECK(ctx, it != pool_free.end(), "pool-did-not-reuse", "pool holds %zu released objects but alloc returned a fresh one", pool_free.size());
        pool_free.erase(it); cls("pool.reused");
      } else VH_CHECK(ctx, std::find(pool_live.begin(), pool_live.end(), p) == pool_live.end(), "pool-live-reissued", "alloc returned an object that is still live");
      p->w[0] = tag; p->w[1] = ~tag; p->w[2] = tag * 3;
      pool_live.push_back(p); pool_tag[p] = tag;
    };
    switch (sub) {
      case 0: one_alloc(uint64_t(x)); break;
      case 1: if (!pool_live.empty()) { size_t i = umod(x, pool_live.size()); PObj* p = pool_live[i]; pool_live.erase(pool_live.begin() + long(i)); pool_tag.erase(p); pool.release(p); pool_free.push_back(p); ev_removal = true; } break;
      default: { size_t n = 1 + umod(arg(op, 4), 12); for (size_t i = 0; i < n; i++) one_alloc(uint64_t(x) + i); break; }
    }
    VH_CHECK(ctx, pool.pooled_item_count() == pool_free.size(), "pool-count", "pooled_item_count %zu, model %zu", pool.pooled_item_count(), pool_free.size());
    for (PObj* p : pool_live) { uint64_t tag = pool_tag[p]; VH_CHECK(ctx, p->w[0] == tag && p->w[1] == ~tag && p->w[2] == tag * 3, "pool-object-clobbered", "a live pool object changed"); }
  }

  // =============================================================================================
  // ASTR: ArenaString<16>
  // =============================================================================================
  void op_astr(const vh::Op& op) {
    int t = int(umod(arg(op, 1), 2));
    size_t sub = umod(arg(op, 2), 3);
    static const char* const sn[] = {"set_data", "set_cstr", "reset"};
    tok((std::string("astr.") + sn[sub]).c_str()); cls(std::string("op.astr.") + sn[sub]);
    int64_t x = arg(op, 3), y = arg(op, 4);
    if (sub == 2) { as[t].reset(); asm_[t].clear(); }
    else {
      size_t len;
      switch (umod(x, 4)) { case 0: len = umod(y, 9); break; case 1: len = 9 + umod(y, 6); break; case 2: len = umod(y, 64); break; default: len = umod(y, 700); break; }
      std::string s = gen_text(uint64_t(y) * 31 + uint64_t(x), len);
      Error e = as[t].set_data(arena(), s.c_str(), sub == 0 ? len : SIZE_MAX);
      VH_CHECK(ctx, e == Error::kOk, "astr-op-failed", "set_data(%zu) returned %u", len, unsigned(e));
      asm_[t] = s;
      if (len > ArenaString<16>::kMaxEmbeddedSize) { as_ext.push_back({uintptr_t(as[t].data()), Support::align_up(len + 1, size_t(8)), "arena-string"}); cls("astr.external"); }
      else cls(len == ArenaString<16>::kMaxEmbeddedSize ? "astr.embedded_full" : "astr.embedded");
    }
    for (int i = 0; i < 2; i++) {
      VH_CHECK(ctx, as[i].size() == asm_[i].size() && as[i].is_empty() == asm_[i].empty(), "astr-size", "astr[%d] size %u, model %zu", i, as[i].size(), asm_[i].size());
      VH_CHECK(ctx, as[i].is_embedded() == (asm_[i].size() <= 11), "astr-embedded", "astr[%d] is_embedded wrong for size %zu", i, asm_[i].size());
      VH_CHECK(ctx, memcmp(as[i].data(), asm_[i].data(), asm_[i].size()) == 0, "astr-content", "astr[%d] content differs (size %zu)", i, asm_[i].size());
      VH_CHECK(ctx, as[i].data()[asm_[i].size()] == '\0', "astr-not-terminated", "astr[%d] not NUL terminated (size %zu)", i, asm_[i].size());
    }
  }

  // =============================================================================================
  // STR: String x2 + StringTmp<40>
  // =============================================================================================
  static std::string model_number(uint64_t i, uint32_t base, size_t width, uint32_t flags, bool is_signed) {
    if (base == 0) base = 10;
    uint64_t orig = i; char sign = 0;
    if (is_signed && int64_t(i) < 0) { i = uint64_t(0) - i; sign = '-'; }
    else if (flags & 1) sign = '+';
    else if (flags & 2) sign = ' ';
    std::string digits;
    do { digits.insert(digits.begin(), "0123456789ABCDEF"[i % base]); i /= base; } while (i);
    std::string prefix;
    if (sign) prefix += sign;
    if (flags & 4) { if (base == 8 && orig != 0) prefix += "0"; if (base == 16) prefix += "0x"; }
    if (width > 256) width = 256;
    std::string zeros(width > digits.size() ? width - digits.size() : 0, '0');
    return prefix + zeros + digits;
  }
  void check_strings(const char* where) {
    for (size_t i = 0; i < 3; i++) {
      String& s = str(i); const std::string& m = sm[i];
      VH_CHECK(ctx, s.size() == m.size(), "string-size", "str[%zu] after %s: size %zu, model %zu", i, where, s.size(), m.size());
      VH_CHECK(ctx, s.capacity() >= s.size(), "string-capacity", "str[%zu] after %s: capacity %zu < size %zu", i, where, s.capacity(), s.size());
      VH_CHECK(ctx, s.data() != nullptr && s.data()[m.size()] == '\0', "string-not-terminated", "str[%zu] after %s: byte at size() %zu is not NUL", i, where, m.size());
      if (memcmp(s.data(), m.data(), m.size()) != 0) {
        size_t k = 0; while (k < m.size() && s.data()[k] == m[k]) k++;
        char b[240]; snprintf(b, sizeof b, "str[%zu] after %s: byte %zu of %zu is 0x%02x, model 0x%02x", i, where, k, m.size(), (unsigned char)s.data()[k], (unsigned char)m[k]);
        ctx.fail("string-content", b);
      }
      VH_CHECK(ctx, s.is_empty() == m.empty() && size_t(s.end() - s.begin()) == m.size() && s.as_span().size() == m.size(), "string-size", "str[%zu] after %s: is_empty/begin/end", i, where);
      VH_CHECK(ctx, s.is_large_or_external() || m.size() <= String::kSSOCapacity, "string-capacity", "str[%zu] after %s: %zu bytes in the small buffer", i, where, m.size());
    }
    for (int i = 0; i < 2; i++) VH_CHECK(ctx, sb[i]->c0 == 0x5AFE5AFE5AFE5AFEull && sb[i]->c1 == 0x0DDC0FFEE0DDF00Dull, "string-overrun", "after %s: guard next to String %d changed", where, i);
    VH_CHECK(ctx, tb->c0 == 0x5AFE5AFE5AFE5AFEull && tb->c1 == 0x0DDC0FFEE0DDF00Dull, "string-overrun", "after %s: guard next to StringTmp changed", where);
  }
  size_t dec_strlen(int64_t sel, int64_t v, String& s, bool append) {
    size_t room = s.capacity() - (append ? s.size() : 0);
    switch (umod(sel, 7)) {
      case 0: return umod(v, 9);
      case 1: return 27 + umod(v, 8);                                         // around kSSOCapacity (30)
      case 2: { size_t d = umod(v, 3); return room + d >= 1 ? std::min<size_t>(room + d - 1, 6000) : 0; }   // fills the buffer exactly / +-1
      case 3: return 100 + umod(v, 300);
      case 4: { static const size_t b[] = {46, 47, 48, 49, 126, 127, 128, 129, 254, 255, 256, 257, 510, 511, 512, 513, 1023, 1024, 1025}; return b[umod(v, countof(b))]; }
      case 5: return 1000 + umod(v, 4000);
      default: return umod(v, 40);
    }
  }
  void op_str(const vh::Op& op) {
    size_t t = umod(arg(op, 1), 3), o = umod(arg(op, 1) / 3 + 1 + t, 3); if (o == t) o = (t + 1) % 3;
    String& s = str(t); std::string& m = sm[t]; String& os = str(o); std::string& om = sm[o];
    size_t sub = umod(arg(op, 2), 26);
    static const char* const sn[] = {"assign", "assign_cstr", "assign_char", "assign_chars", "assign_other", "assign_substr", "append", "append_char", "append_chars",
      "append_other", "append_run", "number", "hex", "format", "pad_end", "truncate", "clear", "reset", "swap", "move", "equals", "prepare", "assign_span", "append_cstr", "format_fit", "huge"};
    tok((std::string("s.") + sn[sub]).c_str()); cls(std::string("op.str.") + sn[sub]);
    int64_t x = arg(op, 3), y = arg(op, 4), z = arg(op, 5), u = arg(op, 6);
    size_t cap0 = s.capacity(); bool large0 = s.is_large_or_external(); size_t size0 = m.size();
    const std::string m0 = m; bool assign_empty = false;   // an assign-type operation whose new content is empty
    auto ok = [&](Error e) { VH_CHECK(ctx, e == Error::kOk, "string-op-failed", "%s returned error %u", sn[sub], unsigned(e)); };
    auto oom = [&](Error e, size_t n) {
      VH_CHECK(ctx, e == Error::kOutOfMemory, "string-huge-not-rejected", "%s(0x%zx) returned %u, expected kOutOfMemory", sn[sub], n, unsigned(e));
      cls("str.huge_rejected");
    };
    switch (sub) {
      case 0: { size_t n = dec_strlen(x, y, s, false); std::string d = gen_text(uint64_t(y) + 1, n); ok(s.assign(d.data(), n)); m = d; break; }
      case 1: { size_t n = dec_strlen(x, y, s, false); std::string d = gen_text(uint64_t(y) + 2, n); ok((z & 1) ? s.assign(d.c_str()) : s.assign(d.c_str(), SIZE_MAX)); m = d; break; }
      case 2: { char c = char('A' + umod(x, 26)); ok(s.assign(c)); m.assign(1, c); break; }
      case 3: { size_t n = dec_strlen(x, y, s, false); char c = char('a' + umod(z, 26)); ok(s.assign_chars(c, n)); m.assign(n, c); assign_empty = n == 0; break; }
      case 4: { ok(s.assign(os)); m = om; break; }
      case 5: { size_t off = umod(x, m.size() + 1), n = umod(y, m.size() - off + 1); ok(s.assign(s.data() + off, n)); m = m.substr(off, n); cls("str.assign_substr_of_self"); break; }
      case 6: { size_t n = dec_strlen(x, y, s, true); std::string d = gen_text(uint64_t(y) + 3, n); ok(s.append(d.data(), n)); m += d; break; }
      case 7: { char c = char('0' + umod(x, 10)); ok(s.append(c)); m += c; break; }
      case 8: { size_t n = dec_strlen(x, y, s, true); char c = char('a' + umod(z, 26)); ok(s.append_chars(c, n)); m.append(n, c); break; }
      case 9: { ok(s.append(os)); m += om; break; }
      case 10: { size_t n = 1 + umod(y, umod(z, 4) == 0 ? 600 : 60); for (size_t i = 0; i < n; i++) { char c = char('a' + (uint64_t(x) + i) % 26); ok(s.append(c)); m += c; } break; }
      case 11: {
        static const uint64_t vals[] = {0, 1, 9, 10, 255, 0x7FFFFFFFFFFFFFFFull, 0x8000000000000000ull, 0xFFFFFFFFFFFFFFFFull, 0xFFFFFFFFull, 1234567890123ull};
        uint64_t val = (x & 1) ? vals[umod(x >> 1, countof(vals))] : uint64_t(x) * 0x9E3779B97F4A7C15ull >> umod(x >> 1, 64);
        static const uint32_t bases[] = {0, 10, 16, 2, 8, 16, 10, 1, 3, 7, 36, 17};
        uint32_t base = bases[umod(y, countof(bases))];
        static const size_t widths[] = {0, 0, 1, 2, 5, 8, 16, 20, 64, 65, 255, 256, 257, 1000, SIZE_MAX};
        size_t width = widths[umod(z, countof(widths))];
        uint32_t fl = uint32_t(umod(u, 8)); bool sg = (u & 8) != 0, asg = (u & 16) != 0;
        StringFormatFlags ff = StringFormatFlags(fl);
        Error e = sg ? (asg ? s.assign_int(int64_t(val), base, width, ff) : s.append_int(int64_t(val), base, width, ff))
                     : (asg ? s.assign_uint(val, base, width, ff) : s.append_uint(val, base, width, ff));
        bool valid = base == 0 || base == 2 || base == 8 || base == 10 || base == 16;
        if (!valid) { VH_CHECK(ctx, e == Error::kInvalidArgument, "string-bad-base-accepted", "number with base %u returned %u", base, unsigned(e)); cls("str.number_bad_base"); break; }
        ok(e);
        std::string exp = model_number(val, base, width, fl, sg);
        if (width == 0) {   // independent cross-check of the model against libc where printf has the same notion
          char b[80]; b[0] = 0; bool neg = sg && int64_t(val) < 0; uint32_t bb = base ? base : 10;
          if (bb == 10 && sg) snprintf(b, sizeof b, (fl & 1) ? "%+lld" : (fl & 2) ? "% lld" : "%lld", (long long)val);
          else if (bb == 10 && !(fl & 3)) snprintf(b, sizeof b, "%llu", (unsigned long long)val);
          else if (bb == 16 && !neg && !(fl & 3)) snprintf(b, sizeof b, (fl & 4) ? "0x%llX" : "%llX", (unsigned long long)val);
          else if (bb == 8 && !neg && !(fl & 3)) snprintf(b, sizeof b, (fl & 4) ? "%#llo" : "%llo", (unsigned long long)val);
          if (b[0]) VH_CHECK(ctx, exp == b, "harness-model", "number model '%s' disagrees with libc '%s'", exp.c_str(), b);
        }
        if (asg) m = exp; else m += exp;
        cls(std::string("str.number_base") + std::to_string(base));
        break; }
      case 12: { size_t n = umod(x, 3) == 0 ? umod(y, 200) : umod(y, 12); std::string d = gen_text(uint64_t(y) + 9, n); for (auto& ch : d) ch = char(ch ^ char(z)); 
        char sep = (u & 1) ? ((u & 2) ? ':' : ' ') : '\0'; bool asg = (u & 4) != 0;
        ok(asg ? s.assign_hex(d.data(), n, sep) : s.append_hex(d.data(), n, sep));
        std::string exp; for (size_t i = 0; i < n; i++) { char b[4]; snprintf(b, sizeof b, "%02X", (unsigned char)d[i]); exp += b; if (sep && i + 1 < n) exp += sep; }
        if (asg) { m = exp; assign_empty = n == 0; } else m += exp; break; }
      case 13: case 24: {
        bool asg = (u & 1) != 0;
        size_t start = asg ? 0 : m.size(); size_t room = s.capacity() - start;
        size_t L = sub == 24 ? [&] { size_t d = umod(y, 3); return room + d >= 1 ? std::min<size_t>(room + d - 1, 5000) : size_t(0); }() : dec_strlen(x, y, s, !asg);
        std::string txt = gen_text(uint64_t(y) + 11, L);
        std::vector<char> buf(L + 600);
        Error e; int n;
        switch (umod(z, 6)) {
          case 0: n = snprintf(buf.data(), buf.size(), "%s", txt.c_str()); e = asg ? s.assign_format("%s", txt.c_str()) : s.append_format("%s", txt.c_str()); break;
          case 1: n = snprintf(buf.data(), buf.size(), "%d", int(x)); e = asg ? s.assign_format("%d", int(x)) : s.append_format("%d", int(x)); break;
          case 2: { int w = int(std::min<size_t>(L, 5000)); n = snprintf(buf.data(), buf.size(), "%*d", w, int(x)); e = asg ? s.assign_format("%*d", w, int(x)) : s.append_format("%*d", w, int(x)); break; }
          case 3: n = snprintf(buf.data(), buf.size(), "%c%s%%", 'q', txt.c_str()); e = asg ? s.assign_format("%c%s%%", 'q', txt.c_str()) : s.append_format("%c%s%%", 'q', txt.c_str()); break;
          case 4: n = snprintf(buf.data(), buf.size(), "%08X-%lld", unsigned(x), (long long)y); e = asg ? s.assign_format("%08X-%lld", unsigned(x), (long long)y) : s.append_format("%08X-%lld", unsigned(x), (long long)y); break;
          default: n = snprintf(buf.data(), buf.size(), "%s", ""); e = asg ? s.assign_format("%s", "") : s.append_format("%s", ""); break;
        }
        ok(e);
        std::string exp(buf.data(), size_t(n));
        bool exact = room >= 128 && size_t(n) == room;
        if (exact) cls("str.format_exact_fit");
        if (room >= 128) cls("str.format_in_place"); else cls("str.format_via_buffer");
        if (asg) { m = exp; assign_empty = exp.empty(); } else m += exp;
        if (exact && (s.size() != m.size() || memcmp(s.data(), m.data(), m.size()) != 0 || s.data()[m.size()] != '\0')) {
          char b[240]; snprintf(b, sizeof b, "format output of %d bytes exactly fills the remaining capacity %zu: last character lost (byte %zu is 0x%02x) although size() is %zu", n, room, m.size() - 1, (unsigned char)s.data()[m.size() - 1], s.size());
          ctx.fail_unless_known("string-format-exact-fit", b);
          ok(s.assign(m.data(), m.size()));   // known finding: re-synchronise and go on
        }
        break; }
      case 14: { bool huge = umod(x, 8) == 7; size_t n = huge ? kHugeStr[umod(y, countof(kHugeStr))] : dec_strlen(x, y, s, false); char c = (z & 1) ? '.' : ' ';
        Error e; { MuteStderr mute(huge); e = (z & 2) ? s.pad_end(n, c) : (c == ' ' ? s.pad_end(n) : s.pad_end(n, c)); }
        if (huge) { oom(e, n); break; }
        ok(e); if (n > m.size()) m.append(n - m.size(), c); break; }
      case 15: { bool huge = umod(x, 8) == 7; size_t n = huge ? kHugeStr[umod(y, countof(kHugeStr))] : (umod(x, 2) ? umod(y, m.size() + 2) : dec_strlen(x, y, s, false));
        ok(s.truncate(n)); if (n < m.size()) { m.resize(n); ev_removal = true; cls("str.truncated"); } break; }
      case 16: ok(s.clear()); if (!m.empty()) ev_removal = true; m.clear(); VH_CHECK(ctx, s.capacity() == cap0, "string-capacity", "clear() changed the capacity"); break;
      case 17: ok(s.reset()); if (!m.empty()) ev_removal = true; m.clear(); VH_CHECK(ctx, !s.is_large_or_external() && s.capacity() == String::kSSOCapacity, "string-reset", "reset() did not return to the small buffer");
        if (t == 2 && (z & 1) && str(0).data() != tb->s._embedded_data && str(1).data() != tb->s._embedded_data) { tb->s._reset_to_temporary(); cls("str.tmp_rearmed"); }
        break;
      case 18: s.swap(os); m.swap(om); break;
      case 19: { String tmp(std::move(s));
        VH_CHECK(ctx, s.size() == 0 && !s.is_large_or_external() && s.data()[0] == '\0', "string-move", "moved-from string not reset");
        VH_CHECK(ctx, tmp.size() == m.size() && memcmp(tmp.data(), m.data(), m.size()) == 0, "string-move", "move constructor lost content");
        if (z & 1) { s = std::move(tmp); VH_CHECK(ctx, tmp.size() == 0, "string-move", "move assignment left content in the source"); }
        else { s.swap(tmp); }
        break; }
      case 20: {
        VH_CHECK(ctx, s.equals(m.c_str()) && s.equals(m.data(), m.size()) && (s == m.c_str()) && !(s != m.c_str()), "string-equals", "equals() false for identical content (size %zu)", m.size());
        std::string d = m + "x"; VH_CHECK(ctx, !s.equals(d.c_str()) && !s.equals(d.data(), d.size()), "string-equals", "equals() true for a longer string");
        if (!m.empty()) { std::string p = m.substr(0, m.size() - 1); VH_CHECK(ctx, !s.equals(p.c_str()) && !s.equals(p.data(), p.size()), "string-equals", "equals() true for a prefix");
          std::string q = m; q[umod(x, q.size())] ^= 1; VH_CHECK(ctx, !s.equals(q.c_str()) && !s.equals(q.data(), q.size()), "string-equals", "equals() true for different content"); }
        VH_CHECK(ctx, s.equals(os) == (m == om) && (s == os) == (m == om) && (s != os) == (m != om), "string-equals", "equals(String) disagrees with the models");
        break; }
      case 21: { bool app = (z & 1) != 0; size_t n = dec_strlen(x, y, s, app); std::string d = gen_text(uint64_t(y) + 13, n);
        char* p = s.prepare(app ? String::ModifyOp::kAppend : String::ModifyOp::kAssign, n);
        VH_CHECK(ctx, p != nullptr, "string-op-failed", "prepare(%zu) returned null", n);
        VH_CHECK(ctx, p == s.data() + (app ? size0 : 0), "string-prepare", "prepare returned a pointer %td bytes into the buffer", p - s.data());
        memcpy(p, d.data(), n); if (app) m += d; else m = d; break; }
      case 22: { size_t n = dec_strlen(x, y, s, false); std::string d = gen_text(uint64_t(y) + 17, n);
        if (z & 1) { ok(s.assign(Span<const char>(d.data(), n))); m = d; assign_empty = n == 0; } else { ok(s.append(Span<const char>(d.data(), n))); m += d; } break; }
      case 23: { size_t n = dec_strlen(x, y, s, true); std::string d = gen_text(uint64_t(y) + 19, n); ok(s.append(d.c_str())); m += d; break; }
      default: {   // requests whose size cannot be satisfied: must be reported, content untouched
        size_t n = kHugeStr[umod(y, countof(kHugeStr))];
        MuteStderr mute;
        switch (umod(x, 4)) {
          case 0: oom(s.append_chars('z', n), n); break;
          case 1: oom(s.assign_chars('z', n), n); break;
          case 2: { char* p = s.prepare(String::ModifyOp::kAppend, n); VH_CHECK(ctx, p == nullptr, "string-huge-not-rejected", "prepare(append, 0x%zx) returned %p", n, (void*)p); cls("str.huge_rejected"); break; }
          default: { char* p = s.prepare(String::ModifyOp::kAssign, n); VH_CHECK(ctx, p == nullptr, "string-huge-not-rejected", "prepare(assign, 0x%zx) returned %p", n, (void*)p); cls("str.huge_rejected"); break; }
        }
        VH_CHECK(ctx, s.capacity() == cap0, "string-failed-op-changed-state", "a rejected request changed the capacity");
        break; }
    }
    if (assign_empty && size0 > 0 && s.size() == size0 && memcmp(s.data(), m0.data(), size0) == 0) {
      char b[200]; snprintf(b, sizeof b, "%s with empty new content left the previous %zu bytes in place (capacity %zu): an assignment must replace the content", sn[sub], size0, cap0);
      ctx.fail_unless_known("string-assign-empty-noop", b);
      m = m0;   // known finding: follow the implementation and go on
    }
    if (s.capacity() != cap0 && sub != 18 && sub != 19 && sub != 17) {
      if (!large0) cls("str.sso_to_large"); else cls("str.realloc");
      if (size0 > 0 && s.capacity() > cap0) ev_growth = true;
    }
    if (m.size() == s.capacity()) cls("str.full");
    if (m.size() == String::kSSOCapacity && !s.is_large_or_external()) cls("str.sso_full");
    check_strings(sn[sub]);
  }

  // =============================================================================================
  // ARESET: every arena-backed container is reset first (their memory dies with the arena), then the arena
  // =============================================================================================
  template<typename T> void forget_vec(VecFam<T>& f) { for (int i = 0; i < 2; i++) { f.v[i].reset(); f.m[i].clear(); } }
  void op_areset(const vh::Op& op) {
    bool hard = (arg(op, 2) & 1) != 0;
    tok(hard ? "ARENA.reset(hard)" : "ARENA.reset(soft)"); cls(hard ? "op.areset.hard" : "op.areset.soft");
    check_chain("before reset");
    check_regions("before reset");
    bool had = !raw.empty() || v4.v[0]._data || v4.v[1]._data || !hm[0].empty() || !tm[0].empty() || !lm[0].empty() || bs[0]._data || !pool_live.empty();
    forget_vec(v4); forget_vec(v12); forget_vec(v24);
    for (int i = 0; i < 2; i++) {
      hash[i].reset(); hm[i].clear(); tree[i].reset(); tm[i].clear(); list[i].reset(); lm[i].clear();
      bs[i].reset(); bm[i].clear(); as[i].reset(); asm_[i].clear();
    }
    hval.clear(); lval.clear(); detached.clear(); pool.reset(); pool_live.clear(); pool_free.clear(); pool_tag.clear(); as_ext.clear();
    raw.clear();
    ArenaStatistics st0 = arena().statistics();
    arena().reset(hard ? ResetPolicy::kHard : ResetPolicy::kSoft);
    check_reset_released(hard ? "reset(kHard)" : "reset(kSoft)");
    ArenaStatistics st1 = arena().statistics();
    if (hard) VH_CHECK(ctx, st1.block_count() <= 1 && st1.used_size() == 0, "arena-reset", "hard reset left %zu blocks, %zu bytes used", st1.block_count(), st1.used_size());
    else VH_CHECK(ctx, st1.block_count() == st0.block_count() && st1.used_size() == 0, "arena-reset", "soft reset: blocks %zu -> %zu, used %zu", st0.block_count(), st1.block_count(), st1.used_size());
    if (had) cls(hard ? "areset.hard_nonempty" : "areset.soft_nonempty");
    if (!hard && st0.block_count() >= 3) cls("areset.soft_with_ge3_blocks");
    resets++;
  }
  size_t resets = 0;
  // After any reset every dynamically allocated (large) block must have been given back (defect class `arena-hard-reset-leaks-dynamic`).
  void check_reset_released(const char* how) {
    Arena& a = arena();
    if (a._dynamic_blocks != nullptr) {
      char m[200]; snprintf(m, sizeof m, "%s returned early and kept the list of dynamic (large) blocks: they are never freed (memory leak)", how);
      ctx.fail_unless_known("arena-hard-reset-leaks-dynamic", m);
      // known finding: give the arena a managed block so that the hard reset takes the full path
      (void)a.alloc_oneshot(8);
      a.reset(ResetPolicy::kHard);
      VH_CHECK(ctx, a._dynamic_blocks == nullptr, "arena-reset", "dynamic blocks survive a full hard reset");
    }
    for (size_t i = 0; i < Arena::kReusableSlotCount; i++) VH_CHECK(ctx, a._reusable_slots[i] == nullptr, "arena-reset", "%s left reusable slot %zu populated", how, i);
  }
  // end of case: what ~Arena does, but observable
  void finish() {
    check_chain("end of case");
    arena().reset(ResetPolicy::kHard);
    check_reset_released("final reset(kHard) (= ~Arena)");
  }

  void step(const vh::Op& op) {
    if (op.empty()) return;
    size_t kind = umod(op[0], K_COUNT);
    cls(std::string("kind.") + kKindName[kind]);
    switch (kind) {
      case K_RAW: op_raw(op); break;
      case K_VEC: op_vec(op); break;
      case K_HASH: op_hash(op); break;
      case K_TREE: op_tree(op); break;
      case K_LIST: op_list(op); break;
      case K_BITSET: op_bitset(op); break;
      case K_BITVEC: op_bitvec(op); break;
      case K_POOL: op_pool(op); break;
      case K_ASTR: op_astr(op); break;
      case K_STR: op_str(op); break;
      default: op_areset(op); break;
    }
    check_chain(kKindName[kind]);
    check_regions(kKindName[kind]);
    if (ah.static_size && arena()._current_block != arena()._first_block) cls("arena.static_exhausted");
  }

  // cross-container audit (everything that was not touched by the last op must still equal its model)
  void audit(const char* where) {
    cmp_vec(v4, "v4", where); cmp_vec(v12, "v12", where); cmp_vec(v24, "v24", where);
    for (int i = 0; i < 2; i++) { check_hash(i, where); check_tree(i, where); check_list(i, where); check_bitset(i, where); }
    check_bitvec(where); check_strings(where);
    for (PObj* p : pool_live) { uint64_t tag = pool_tag[p]; VH_CHECK(ctx, p->w[0] == tag && p->w[1] == ~tag && p->w[2] == tag * 3, "pool-object-clobbered", "%s: a live pool object changed", where); }
    for (int i = 0; i < 2; i++) VH_CHECK(ctx, as[i].size() == asm_[i].size() && memcmp(as[i].data(), asm_[i].data(), asm_[i].size() + 0) == 0 && as[i].data()[asm_[i].size()] == 0, "astr-content", "%s: astr[%d] differs", where, i);
    for (auto& b : raw) if (!b.freed) verify_block(b, true, where);
  }
};

} // namespace

void vh_run(const vh::Case& c, vh::Ctx& ctx) {
  World w(ctx, c);
  size_t n = 0, kinds_used = 0; bool used[K_COUNT] = {false};
  for (const vh::Op& op : c.ops) {
    if (!op.empty()) { size_t k = umod(op[0], K_COUNT); if (!used[k]) { used[k] = true; kinds_used++; } }
    w.step(op);
    if ((++n & 7) == 0) w.audit("periodic audit");
  }
  w.audit("final audit");
  w.finish();
  ctx.cls("containers_per_case." + std::to_string(std::min<size_t>(kinds_used, 6)) + (kinds_used >= 6 ? "+" : ""));
  if (w.ev_growth) ctx.cls("case.has_growth");
  if (w.ev_removal) ctx.cls("case.has_removal");
  if (w.resets) ctx.cls("case.has_arena_reset");
  if (w.ev_growth && w.ev_removal) { ctx.nontrivial(); ctx.sample(w.sample); }
}

// =================================================================================================
// Generator
// =================================================================================================
namespace {
int pickw(const std::vector<int>& w) {
  int tot = 0; for (int x : w) tot += x;
  int r = *vh::irange<int>(0, tot - 1);
  for (size_t i = 0; i < w.size(); i++) { if (r < w[i]) return int(i); r -= w[i]; }
  return 0;
}
int64_t num() {
  int s = *vh::irange<int>(0, 9);
  if (s < 5) return *vh::irange<int>(0, 40);
  if (s < 8) return *vh::irange<int>(0, 5000);
  return *vh::irange<int>(0, 0x7FFFFFF0);
}
// selector with K classes where class H (the "huge / must be rejected" class) is drawn with 5 % only
int64_t sel(int K, int H) { if (*vh::irange<int>(0, 99) < 5) return H; int v = *vh::irange<int>(0, K - 2); return v >= H ? v + 1 : v; }

const std::vector<int> kSubW[K_COUNT] = {
  /*raw   */ {20, 6, 25, 8, 22, 6, 2, 2, 4, 3, 2},
  /*vec   */ {10, 14, 4, 6, 8, 5, 2, 4, 5, 5, 4, 4, 4, 3, 4, 2, 2, 5, 7, 3, 3, 2, 5, 3},
  /*hash  */ {12, 14, 8, 8, 12, 2, 3, 2, 6, 4},
  /*tree  */ {12, 16, 6, 8, 14, 10, 3, 2, 4},
  /*list  */ {10, 8, 10, 10, 14, 6, 6, 3, 8, 2},
  /*bitset*/ {14, 6, 8, 6, 3, 3, 3, 8, 8, 2, 2, 5, 2, 4, 4, 4, 4, 4, 3, 2},
  /*bitvec*/ {6, 4, 4, 10, 10, 6, 8, 8, 4, 6, 3, 5, 10},
  /*pool  */ {40, 40, 20},
  /*astr  */ {60, 30, 10},
  /*str   */ {8, 3, 2, 4, 3, 3, 12, 4, 6, 4, 6, 10, 6, 10, 4, 8, 3, 2, 3, 3, 4, 4, 2, 3, 6, 2},
  /*areset*/ {3, 1},
};
}

rc::Gen<vh::Case> vh_gen(const vh::Opts&) {
  return rc::gen::exec([]() -> vh::Case {
    vh::Case c;
    c.cfg = {*vh::irange<int>(0, 4), *vh::irange<int>(0, 3), *vh::irange<int>(0, 5), *vh::irange<int>(0, 1), *vh::irange<int>(0, 3)};
    std::vector<int> kw = {14, 16, 10, 10, 8, 10, 6, 5, 3, 16, 2};
    int nf = *vh::irange<int>(0, 3);
    for (int i = 0; i < nf; i++) kw[size_t(*vh::irange<int>(0, K_COUNT - 2))] *= 6;
    auto opGen = rc::gen::exec([kw]() -> vh::Op {
      int kind = pickw(kw);
      int sub = pickw(kSubW[kind]);
      int64_t target = *vh::irange<int>(0, 11);
      int64_t a = num(), b = num(), cc = num(), d = num();
      switch (kind) {
        case K_VEC:
          if (sub >= 7 && sub <= 12) a = sel(4, 3);
          if (sub == 0 || sub == 2 || sub == 3 || sub == 18) { if (*vh::irange<int>(0, 1)) a = *vh::irange<int>(0, 12); }   // few distinct values: duplicates
          break;
        case K_HASH: case K_TREE:
          if (*vh::irange<int>(0, 9) < 7) a = *vh::irange<int>(0, 63);     // clustered keys: hits on get/remove, duplicates on insert
          break;
        case K_BITSET:
          if (sub == 0) a = sel(6, 5);
          if (sub == 11) a = sel(4, 3);
          break;
        case K_STR:
          if (sub == 14 || sub == 15) a = sel(8, 7);
          break;
        default: break;
      }
      return vh::Op{kind, target, sub, a, b, cc, d};
    });
    c.ops = *rc::gen::container<std::vector<vh::Op>>(opGen);
    return c;
  });
}
