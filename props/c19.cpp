// C19 — Constant pool returns aligned, stable, deduplicated offsets with exact contents.
//
// Case: cfg = [arena_block_size_sel, prefix_bytes]   ops = [kind, size, w0..wN]
//   kind 0: add(size, data built from words w*)    kind 1: fill + check    kind 2: reset
//   kind 3: embed into an x86 Assembler after `prefix` bytes and check the image + label
// Oracle: an explicit byte-image model (std::map offset->byte) + record list.
#define VH_MAIN
#include "vh.h"

#include <asmjit/core.h>
#include <asmjit/x86.h>

using namespace asmjit;

const char* vh_property() { return "C19"; }

static const size_t kSizes[] = {1, 2, 4, 8, 16, 32, 64, 0, 3, 5, 6, 7, 12, 24, 48, 65, 96, 128, 129, 256};

static uint32_t word_of(int64_t k) {
  // small alphabet of distinct 4-byte words; k==0 -> all zero (interacts with zero gaps)
  static const uint32_t tbl[] = {0x00000000u, 0x11111111u, 0x01020304u, 0xFFFFFFFFu, 0x04030201u, 0x80000000u, 0xA5A5A5A5u, 0x00000001u};
  if (k >= 0 && k < 8) return tbl[k];
  return uint32_t(k) * 2654435761u;
}

static void build_data(const vh::Op& op, size_t size, uint8_t* out /* >= 256 */) {
  size_t nw = (size + 3) / 4;
  for (size_t i = 0; i < nw; i++) {
    int64_t k = (3 + i < op.size()) ? op[3 + i] : (op.size() > 3 ? op[3 + (i % (op.size() - 3))] : 0);
    uint32_t w = word_of(k);
    memcpy(out + i * 4, &w, 4);
  }
  // op[2] = variant byte xor-ed into byte 0 for 1/2 byte constants to widen the space a little
  if (size < 4 && op.size() > 2) out[0] ^= uint8_t(op[2] & 3);
}

rc::Gen<vh::Case> vh_gen(const vh::Opts& o) {
  using namespace rc;
  auto opGen = gen::exec([]() -> vh::Op {
    int sel = *vh::irange<int>(0, 99);
    int kind = sel < 82 ? 0 : sel < 90 ? 1 : sel < 93 ? 2 : 3;
    vh::Op op;
    op.push_back(kind);
    if (kind == 0) {
      int ssel = *vh::irange<int>(0, 99);
      size_t size = ssel < 88 ? kSizes[*vh::irange<int>(0, 6)] : kSizes[*vh::irange<int>(7, int(sizeof(kSizes) / sizeof(kSizes[0])) - 1)];
      op.push_back(int64_t(size));
      op.push_back(*vh::irange<int>(0, 3));
      size_t nw = std::max<size_t>(1, std::min<size_t>((size + 3) / 4, 64));
      int alpha = *vh::irange<int>(1, 3);  // alphabet width: smaller -> more sharing
      int hi = alpha == 1 ? 1 : alpha == 2 ? 3 : 40;
      for (size_t i = 0; i < nw; i++) op.push_back(*vh::irange<int>(0, hi));
    }
    return op;
  });
  return gen::apply([](int a, int p, std::vector<vh::Op> ops) {
      vh::Case c; c.cfg = {a, p}; c.ops = std::move(ops); return c; },
    vh::irange<int>(0, 3), vh::irange<int>(0, 70), gen::container<std::vector<vh::Op>>(opGen));
}

namespace {
struct Rec { size_t off, size; std::string bytes; };

struct Model {
  std::vector<Rec> recs;
  std::map<size_t, uint8_t> image;   // every byte that belongs to some constant
  size_t max_end = 0;
  size_t max_size = 0;
  bool gap_created = false;
  bool gap_used_or_shared = false;
  void reset() { recs.clear(); image.clear(); max_end = 0; max_size = 0; }
};
}

static void check_fill(vh::Ctx& ctx, const ConstPool& pool, const Model& m, const uint8_t* img, size_t n, const char* where) {
  for (auto& kv : m.image) {
    VH_CHECK(ctx, kv.first < n, "fill-size", "%s: model byte at %zu beyond image size %zu", where, kv.first, n);
    VH_CHECK(ctx, img[kv.first] == kv.second, "fill-content", "%s: byte at offset %zu is 0x%02x, constant says 0x%02x", where, kv.first, img[kv.first], kv.second);
  }
  for (size_t i = 0; i < n; i++) {
    if (!m.image.count(i))
      VH_CHECK(ctx, img[i] == 0, "fill-gap-nonzero", "%s: gap byte at offset %zu is 0x%02x, expected 0", where, i, img[i]);
  }
  for (auto& r : m.recs)
    VH_CHECK(ctx, memcmp(img + r.off, r.bytes.data(), r.size) == 0, "fill-content", "%s: constant at %zu size %zu differs", where, r.off, r.size);
  (void)pool;
}

void vh_run(const vh::Case& c, vh::Ctx& ctx) {
  static const size_t blk[] = {1024, 4096, 32768, 65536};
  size_t a = c.cfg.size() > 0 ? size_t(c.cfg[0]) & 3 : 0;
  size_t prefix = c.cfg.size() > 1 ? size_t(c.cfg[1]) % 200 : 0;
  Arena arena(blk[a]);
  ConstPool pool(arena);
  Model m;
  std::string sample;
  bool any_invalid = false, did_fill = false;

  for (const vh::Op& op : c.ops) {
    if (op.empty()) continue;
    int kind = int(op[0]);
    if (kind == 0) {
      size_t size = op.size() > 1 ? size_t(op[1]) : 4;
      if (size > 256) size = 256;
      uint8_t data[260] = {0};
      build_data(op, size, data);
      bool valid = size == 1 || size == 2 || size == 4 || size == 8 || size == 16 || size == 32 || size == 64;
      size_t before_size = pool.size(), before_align = pool.alignment();
      size_t off = size_t(0) - 1;
      Error err = pool.add(data, size, Out(off));
      if (!valid) {
        any_invalid = true;
        VH_CHECK(ctx, err != Error::kOk, "invalid-size-accepted", "add(size=%zu) returned kOk", size);
        VH_CHECK(ctx, pool.size() == before_size && pool.alignment() == before_align, "invalid-size-changed-state",
                 "add(size=%zu) failed but size %zu->%zu align %zu->%zu", size, before_size, pool.size(), before_align, pool.alignment());
        ctx.cls("add_invalid");
        continue;
      }
      VH_CHECK(ctx, err == Error::kOk, "valid-add-failed", "add(size=%zu) returned error %u", size, unsigned(err));
      VH_CHECK(ctx, off % size == 0, "misaligned", "add(size=%zu) returned offset %zu", size, off);
      VH_CHECK(ctx, off + size <= pool.size(), "size-too-small", "offset %zu + size %zu > pool.size() %zu", off, size, pool.size());
      VH_CHECK(ctx, pool.alignment() >= size, "alignment-too-small", "alignment() %zu < size %zu", pool.alignment(), size);
      VH_CHECK(ctx, pool.size() >= before_size, "size-shrunk", "size() went from %zu to %zu", before_size, pool.size());
      std::string bytes((const char*)data, size);
      // dedup / stability: same (bytes,size) -> same offset as before
      bool seen = false;
      for (auto& r : m.recs)
        if (r.size == size && r.bytes == bytes) {
          seen = true;
          VH_CHECK(ctx, r.off == off, "not-deduplicated", "same %zu-byte constant got offset %zu, earlier %zu", size, off, r.off);
        }
      if (!seen) {
        // storage must not collide with bytes of a different value
        bool overlapped = false;
        for (size_t i = 0; i < size; i++) {
          auto it = m.image.find(off + i);
          if (it != m.image.end()) {
            overlapped = true;
            VH_CHECK(ctx, it->second == uint8_t(bytes[i]), "overlap", "constant size %zu at %zu overlaps different data at byte %zu", size, off, off + i);
          }
        }
        for (size_t i = 0; i < size; i++) m.image[off + i] = uint8_t(bytes[i]);
        if (off > before_size) { m.gap_created = true; ctx.cls("gap_created"); }
        if (overlapped) { m.gap_used_or_shared = true; ctx.cls("shared_subconstant"); }
        else if (off + size <= before_size) { m.gap_used_or_shared = true; ctx.cls("placed_in_gap"); }
        m.recs.push_back({off, size, bytes});
        m.max_end = std::max(m.max_end, off + size);
        m.max_size = std::max(m.max_size, size);
      } else ctx.cls("dedup_hit");
      // all earlier offsets remain valid: re-adding an earlier constant must return its offset unchanged
      if (!m.recs.empty()) {
        const Rec& r = m.recs[(size_t(op.size() > 2 ? op[2] : 0) * 7 + m.recs.size() / 2) % m.recs.size()];
        size_t off2 = size_t(0) - 1;
        size_t sz_before = pool.size();
        Error e2 = pool.add(r.bytes.data(), r.size, Out(off2));
        VH_CHECK(ctx, e2 == Error::kOk && off2 == r.off, "offset-unstable", "re-add of constant size %zu gave offset %zu (err %u), earlier %zu", r.size, off2, unsigned(e2), r.off);
        VH_CHECK(ctx, pool.size() == sz_before, "readd-grew", "re-adding a known constant grew the pool %zu->%zu", sz_before, pool.size());
      }
      ctx.cls("add_valid");
      if (ctx.want_sample() && sample.size() < 400) { char b[64]; snprintf(b, sizeof b, "add%zu@%zu ", size, off); sample += b; }
    } else if (kind == 1 || kind == 3) {
      size_t n = pool.size();
      VH_CHECK(ctx, n >= m.max_end, "size-too-small", "size() %zu < max end %zu", n, m.max_end);
      VH_CHECK(ctx, pool.alignment() >= m.max_size, "alignment-too-small", "alignment() %zu < %zu", pool.alignment(), m.max_size);
      if (kind == 1) {
        std::vector<uint8_t> buf(n + 64, 0xA5);
        pool.fill(buf.data() + 32);
        for (size_t i = 0; i < 32; i++)
          VH_CHECK(ctx, buf[i] == 0xA5 && buf[32 + n + i] == 0xA5, "fill-out-of-bounds", "fill wrote outside [0,%zu) at canary %zu", n, i);
        check_fill(ctx, pool, m, buf.data() + 32, n, "fill");
        did_fill = true;
        ctx.cls("fill");
        if (ctx.want_sample()) sample += "fill ";
      } else {
        CodeHolder code;
        Environment env(Arch::kX64);
        code.init(env);
        x86::Assembler as(&code);
        for (size_t i = 0; i < prefix; i++) as.db(0xCC);
        Label L = as.new_label();
        Error e = as.embed_const_pool(L, pool);
        VH_CHECK(ctx, e == Error::kOk, "embed-failed", "embed_const_pool error %u", unsigned(e));
        VH_CHECK(ctx, code.is_label_bound(L), "embed-label-unbound", "label not bound after embed_const_pool");
        uint64_t lo = code.label_offset(L);
        size_t al = pool.alignment() ? pool.alignment() : 1;
        VH_CHECK(ctx, lo % al == 0 && lo >= prefix && lo < prefix + al, "embed-label-misaligned", "label offset %llu prefix %zu alignment %zu", (unsigned long long)lo, prefix, al);
        const CodeBuffer& cb = code.text_section()->buffer();
        VH_CHECK(ctx, cb.size() == lo + n, "embed-size", "buffer size %zu != label %llu + pool %zu", cb.size(), (unsigned long long)lo, n);
        check_fill(ctx, pool, m, cb.data() + lo, n, "embed");
        did_fill = true;
        ctx.cls("embed");
        if (ctx.want_sample()) sample += "embed ";
      }
    } else if (kind == 2) {
      pool.reset();
      VH_CHECK(ctx, pool.size() == 0 && pool.alignment() == 0 && pool.is_empty(), "reset-residue", "after reset size %zu alignment %zu", pool.size(), pool.alignment());
      m.reset();
      ctx.cls("reset");
      if (ctx.want_sample()) sample += "reset ";
    }
  }
  // final fill always
  {
    size_t n = pool.size();
    VH_CHECK(ctx, n >= m.max_end, "size-too-small", "size() %zu < max end %zu", n, m.max_end);
    std::vector<uint8_t> buf(n + 1, 0x5A);
    pool.fill(buf.data());
    VH_CHECK(ctx, buf[n] == 0x5A, "fill-out-of-bounds", "fill wrote past size() %zu", n);
    check_fill(ctx, pool, m, buf.data(), n, "final-fill");
  }
  (void)any_invalid; (void)did_fill;
  if (m.gap_created && m.gap_used_or_shared) {
    ctx.nontrivial();
    ctx.sample(sample);
  }
}
