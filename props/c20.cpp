// C20 — Formatter and logger text faithfully denotes the instruction and operands.
//
// Case: cfg = [arch(0 x64, 1 x86, 2 a64), form/template index, format-flag selector]   ops[0] = choices (same instance streams as C01/C02)
// Oracles:
//   (a) inverse parser written independently (architectural register-name tables, AsmJit's documented text forms): parse(text) must give back
//       mnemonic, prefixes, every register (class/size/id), memory size/segment/base/index/scale/displacement/broadcast, {k}{z}, {er}/{sae},
//       immediates (decimal or hex per flags);
//   (b) the logger line equals the formatter text and its machine-code column equals the bytes appended (".." exactly over pending fixup bytes);
//   (c) x86: the text, after a fixed syntactic normalisation, is assembled by LLVM MC and must decode like AsmJit's bytes (independent reading).
#define VH_MAIN
#include "vh.h"
#include "gen/x86inst.h"
#include "gen/a64inst.h"
#include "oracle/textnorm.h"

#include <memory>

using namespace asmjit;

const char* vh_property() { return "C20"; }

static xdb::DB g_db;
static std::vector<ai::Template> g_t;
static std::map<std::string, std::vector<InstId>> g_a64ids;
static std::unique_ptr<oracle::LlvmMc> g_mc32, g_mc64;
static const int kChoices = 40;

void vh_init(const vh::Opts&, vh::Ctx&) {
  if (!g_db.load("build/gen/x86_forms.txt")) { fprintf(stderr, "cannot load build/gen/x86_forms.txt\n"); exit(2); }
  if (!ai::load_templates("build/gen/a64_templates.txt", g_t)) { fprintf(stderr, "cannot load build/gen/a64_templates.txt\n"); exit(2); }
  for (uint32_t id = 1; id < a64::Inst::_kIdCount; id++) { String s; InstAPI::inst_id_to_string(Arch::kAArch64, id, InstStringifyOptions::kNone, s); g_a64ids[std::string(s.data(), s.size())].push_back(id); }
  g_mc32.reset(new oracle::LlvmMc(oracle::Target::X86_32));
  g_mc64.reset(new oracle::LlvmMc(oracle::Target::X86_64));
}

static uint64_t mix(uint64_t x) { x += 0x9E3779B97F4A7C15ull; x = (x ^ (x >> 30)) * 0xBF58476D1CE4E5B9ull; x = (x ^ (x >> 27)) * 0x94D049BB133111EBull; return x ^ (x >> 31); }

bool vh_enum(const vh::Opts& o, uint64_t k, vh::Case& out) {
  uint64_t nx = g_db.forms.size(), na = g_t.size();
  uint64_t reps = uint64_t(o.geti("reps", 1));
  uint64_t total = (nx * 2 + na) * reps;
  uint64_t g = k * uint64_t(o.workers) + uint64_t(o.worker);
  if (g >= total) return false;
  uint64_t r = g % (nx * 2 + na), rep = g / (nx * 2 + na);
  out = vh::Case();
  if (r < nx * 2) out.cfg = {int64_t(r / nx), int64_t(r % nx), int64_t((r + rep) % 6)};
  else out.cfg = {2, int64_t(r - nx * 2), int64_t((r + rep) % 6)};
  vh::Op ch; uint64_t s = mix(o.seed * 104729 + g);
  for (int i = 0; i < kChoices; i++) { s = mix(s + uint64_t(i)); ch.push_back(int64_t(s >> 33)); }
  out.ops.push_back(ch);
  return true;
}

rc::Gen<vh::Case> vh_gen(const vh::Opts&) {
  using namespace rc;
  return gen::apply([](int arch, int idx, int ff, std::vector<int> ch) { vh::Case c; c.cfg = {arch, idx, ff}; vh::Op op; for (int v : ch) op.push_back(v); c.ops.push_back(op); return c; },
    vh::irange<int>(0, 5), vh::irange<int>(0, 1 << 20), vh::irange<int>(0, 5), gen::container<std::vector<int>>(size_t(kChoices), vh::irange<int>(0, 0x3fffffff)));
}

static const FormatFlags kFlagSets[6] = {
  FormatFlags::kNone, FormatFlags::kMachineCode, FormatFlags::kHexImms | FormatFlags::kHexOffsets, FormatFlags::kMachineCode | FormatFlags::kHexImms,
  FormatFlags::kMachineCode | FormatFlags::kHexOffsets, FormatFlags::kMachineCode | FormatFlags::kHexImms | FormatFlags::kHexOffsets | FormatFlags::kPositions };

static std::string hexu(const uint8_t* p, size_t n) { std::string s; char b[4]; for (size_t i = 0; i < n; i++) { snprintf(b, sizeof b, "%02X", p[i]); s += b; } return s; }
static std::string trim(std::string s) { while (!s.empty() && (s.back() == ' ' || s.back() == '\n')) s.pop_back(); size_t i = 0; while (i < s.size() && s[i] == ' ') i++; return s.substr(i); }

static std::vector<std::string> split_operands(const std::string& s) {
  std::vector<std::string> v; std::string cur; int depth = 0;
  for (char ch : s) { if (ch == '[' || ch == '{') depth++; if (ch == ']' || ch == '}') depth--; if (ch == ',' && depth == 0) { v.push_back(trim(cur)); cur.clear(); } else cur += ch; }
  if (!trim(cur).empty()) v.push_back(trim(cur));
  return v;
}

static bool parse_num(const std::string& t, int64_t& out) {
  std::string s = trim(t); if (s.empty()) return false;
  bool neg = false; size_t i = 0;
  if (s[0] == '-') { neg = true; i = 1; } else if (s[0] == '+') i = 1;
  if (i >= s.size()) return false;
  uint64_t v = 0;
  if (s.compare(i, 2, "0x") == 0) { i += 2; if (i >= s.size()) return false; for (; i < s.size(); i++) { char c = s[i]; if (!isxdigit((unsigned char)c)) return false; v = v * 16 + uint64_t(isdigit((unsigned char)c) ? c - '0' : (toupper(c) - 'A' + 10)); } }
  else { for (; i < s.size(); i++) { if (!isdigit((unsigned char)s[i])) return false; v = v * 10 + uint64_t(s[i] - '0'); } }
  out = neg ? int64_t(uint64_t(0) - v) : int64_t(v);
  return true;
}

// AsmJit prints x87 registers as "st0".."st7"; everything else uses the architectural names of xi::reg_name().
static std::string x86_reg_text(const xi::Reg& r) { if (r.rc == xi::RC::St) return "st" + std::to_string(r.id); return xi::reg_name(r); }

// ---- x86 ------------------------------------------------------------------------------------------------------------------
static void run_x86(const vh::Case& c, vh::Ctx& ctx, int mode) {
  const xdb::Form& f = g_db.forms[size_t(uint64_t(c.cfg[1]) % g_db.forms.size())];
  if (!f.mode_ok(mode) || f.is_apx()) { ctx.cls("skip_form"); return; }
  static const vh::Op empty; const vh::Op& chv = c.ops.empty() ? empty : c.ops[0];
  xi::Choices ch(chv, 0);
  xi::XInst x = xi::instantiate(f, mode, ch);
  if (!x.valid) { ctx.cls("skip_uninstantiable"); return; }
  Arch arch = mode == 64 ? Arch::kX64 : Arch::kX86;
  InstId id = InstAPI::string_to_inst_id(arch, f.name.c_str(), f.name.size());
  if (!id) { ctx.cls("skip_unknown_mnemonic"); return; }
  FormatFlags ff = kFlagSets[uint64_t(c.cfg[2]) % 6];
  bool hex_imm = Support::test(ff, FormatFlags::kHexImms), hex_off = Support::test(ff, FormatFlags::kHexOffsets);

  CodeHolder code; code.init(Environment(arch));
  x86::Assembler a(&code);
  a.add_diagnostic_options(DiagnosticOptions::kValidateAssembler);
  StringLogger lg; lg.set_flags(ff); code.set_logger(&lg);
  std::vector<Operand_> ops;
  Error err = xi::emit(a, id, x, &ops);
  if (err != Error::kOk) { ctx.cls("rejected"); return; }
  const CodeBuffer& buf = code.text_section()->buffer();
  std::string logline = trim(std::string(lg.data(), lg.data_size()));
  std::string want = xi::render(x);

  // formatter with the same flags (machine code / positions are logger-only columns)
  InstOptions opt = InstOptions::kNone;
  if (x.options & xi::kOptLock) opt |= InstOptions::kX86_Lock; if (x.options & xi::kOptRep) opt |= InstOptions::kX86_Rep; if (x.options & xi::kOptRepne) opt |= InstOptions::kX86_Repne;
  if (x.options & xi::kOptXacquire) opt |= InstOptions::kX86_XAcquire; if (x.options & xi::kOptXrelease) opt |= InstOptions::kX86_XRelease;
  if (x.z) opt |= InstOptions::kX86_ZMask; if (x.sae) opt |= InstOptions::kX86_SAE;
  if (x.er >= 0) { opt |= InstOptions::kX86_ER; opt |= x.er == 0 ? InstOptions::kX86_RN_SAE : x.er == 1 ? InstOptions::kX86_RD_SAE : x.er == 2 ? InstOptions::kX86_RU_SAE : InstOptions::kX86_RZ_SAE; }
  BaseInst inst(id, opt); if (x.k) inst.set_extra_reg(x86::KReg(uint32_t(x.k)));
  String sb;
  FormatFlags ff_fmt = ff & ~(FormatFlags::kMachineCode | FormatFlags::kPositions);
  Error fe = Formatter::format_instruction(sb, ff_fmt, &a, arch, inst, Span<const Operand_>(ops.data(), ops.size()));
  std::string text(sb.data(), sb.size());
  std::string desc = std::string(mode == 64 ? "x64 " : "x86 ") + "[" + want + "] formatted as '" + text + "'";
  VH_CHECK(ctx, fe == Error::kOk && !text.empty(), "format-failed", "%s: format_instruction error %u", desc.c_str(), unsigned(fe));

  // (b) logger line: "<text><pad>; HEX"   (with kPositions a leading "<offset>: ")
  {
    std::string body = logline, mc;
    if (Support::test(ff, FormatFlags::kMachineCode)) { size_t sc = logline.rfind(';'); VH_CHECK(ctx, sc != std::string::npos, "log-no-machine-code-column", "%s: log line '%s'", desc.c_str(), logline.c_str()); body = trim(logline.substr(0, sc)); mc = trim(logline.substr(sc + 1)); }
    if (Support::test(ff, FormatFlags::kPositions)) { size_t cp = body.find(": "); if (cp != std::string::npos && cp <= 10) body = trim(body.substr(cp + 2)); }
    for (const char* w : {"rex ", "short ", "long ", "vex3 ", "vex ", "evex ", "mod.mr ", "mod.rm "}) {
      size_t q = body.find(w);
      if (q != std::string::npos && (q == 0 || body[q - 1] == ' ') && q < body.find(f.name) && text.find(w) == std::string::npos) body.erase(q, strlen(w));
    }
    VH_CHECK(ctx, body == text, "log-text-differs-from-formatter", "%s: logger printed '%s'", desc.c_str(), body.c_str());
    if (Support::test(ff, FormatFlags::kMachineCode)) {
      std::string hx = hexu(buf.data(), buf.size());
      if (mc != hx) ctx.fail_unless_known("log-machine-code-differs:x86", desc + ": machine-code column '" + mc + "' but the bytes appended are " + hx);
      ctx.cls("machine_code_column_checked");
    }
  }

  // (a) inverse parse
  {
    std::string t = text;
    uint32_t got_opt = 0;
    for (;;) {
      bool any = false;
      struct P { const char* w; uint32_t bit; } ps[] = {{"lock ", xi::kOptLock}, {"rep ", xi::kOptRep}, {"repe ", xi::kOptRep}, {"repz ", xi::kOptRep}, {"repne ", xi::kOptRepne}, {"repnz ", xi::kOptRepne}, {"xacquire ", xi::kOptXacquire}, {"xrelease ", xi::kOptXrelease}};
      for (const P& p : ps) if (t.rfind(p.w, 0) == 0) { got_opt |= p.bit; t = t.substr(strlen(p.w)); any = true; }
      if (!any) break;
    }
    if (got_opt != (x.options & (xi::kOptLock | xi::kOptRep | xi::kOptRepne | xi::kOptXacquire | xi::kOptXrelease)))
      ctx.fail_unless_known("prefix-text-wrong:x86", desc + ": prefixes in text do not match the options given");
    size_t sp = t.find(' ');
    std::string mn = sp == std::string::npos ? t : t.substr(0, sp);
    std::string rest = sp == std::string::npos ? "" : t.substr(sp + 1);
    if (mn != f.name) ctx.fail_unless_known("mnemonic-text-wrong:" + f.name, desc + ": mnemonic '" + mn + "'");
    std::vector<std::string> parts = split_operands(rest);
    // trailing pseudo operand {sae}/{rn-sae}...
    int got_er = -1; bool got_sae = false;
    if (!parts.empty()) {
      const std::string& last = parts.back();
      static const char* er[] = {"{rn-sae}", "{rd-sae}", "{ru-sae}", "{rz-sae}"};
      if (last == "{sae}") { got_sae = true; parts.pop_back(); } else for (int i = 0; i < 4; i++) if (last == er[i]) { got_er = i; parts.pop_back(); break; }
    }
    if (got_er != x.er || got_sae != x.sae) ctx.fail_unless_known("rounding-text-wrong:x86", desc + ": {er}/{sae} decoration in text does not match");
    if (parts.size() != x.ops.size()) { ctx.fail_unless_known("operand-count-text-wrong:" + f.name, desc + ": " + std::to_string(parts.size()) + " operands in text, " + std::to_string(x.ops.size()) + " given"); return; }
    for (size_t i = 0; i < parts.size(); i++) {
      std::string p = parts[i];
      const xi::Opnd& o = x.ops[i];
      // decorations on the first operand
      int gk = 0; bool gz = false;
      if (i == 0) {
        size_t kb = p.find(" {k");
        if (kb != std::string::npos && kb + 4 < p.size() + 1 && isdigit((unsigned char)p[kb + 3]) && !(o.kind == xi::Opnd::kMem && p.find("{1to") == kb + 1)) {
          gk = p[kb + 3] - '0'; size_t e = p.find('}', kb); std::string tail = p.substr(e + 1); p = p.substr(0, kb);
          if (tail == "{z}") gz = true; else if (!tail.empty() && tail.find("{1to") == std::string::npos) ctx.fail_unless_known("mask-text-wrong:x86", desc + ": unexpected text after {k}: '" + tail + "'");
          if (tail.find("{1to") != std::string::npos) p += " " + trim(tail.substr(tail.find("{1to")));
        }
        if (gk != x.k || gz != x.z) ctx.fail_unless_known("mask-text-wrong:x86", desc + ": {k}/{z} in text = k" + std::to_string(gk) + (gz ? "{z}" : "") + ", given k" + std::to_string(x.k) + (x.z ? "{z}" : ""));
      }
      if (o.kind == xi::Opnd::kReg) {
        std::string wantr = x86_reg_text(o.reg);
        if (p != wantr) ctx.fail_unless_known("register-text-wrong:x86", desc + ": operand " + std::to_string(i) + " printed as '" + p + "', register is " + wantr);
        ctx.cls("parsed_reg");
      } else if (o.kind == xi::Opnd::kImm) {
        int64_t v = 0;
        if (!parse_num(p, v)) ctx.fail_unless_known("immediate-text-unparsable:x86", desc + ": operand " + std::to_string(i) + " '" + p + "' is not a number");
        else if (v != o.imm) ctx.fail_unless_known("immediate-text-wrong:x86", desc + ": operand " + std::to_string(i) + " printed as " + p + " = " + std::to_string(v) + ", immediate is " + std::to_string(o.imm));
        if (hex_imm && uint64_t(o.imm) > 9 && p.find("0x") == std::string::npos) ctx.fail_unless_known("hex-flag-ignored:x86", desc + ": kHexImms set but immediate printed as '" + p + "'");
        ctx.cls("parsed_imm");
      } else {
        const xi::Mem& m = o.mem;
        // [size ptr ][seg:]\[inner\][ {1toN}]
        std::string s = p; int bc = 0;
        size_t bb = s.find(" {1to");
        if (bb != std::string::npos) { bc = atoi(s.c_str() + bb + 5); s = trim(s.substr(0, bb)); }
        if (bc != (m.bcst > 0 ? m.bcst : 0)) ctx.fail_unless_known("broadcast-text-wrong:x86", desc + ": broadcast in text {1to" + std::to_string(bc) + "}, given " + std::to_string(m.bcst));
        std::string sz;
        size_t pp = s.find(" ptr ");
        if (pp != std::string::npos) { sz = s.substr(0, pp); s = s.substr(pp + 5); }
        static const struct { int bits; const char* kw; } szs[] = {{8, "byte"}, {16, "word"}, {32, "dword"}, {48, "fword"}, {64, "qword"}, {80, "tbyte"}, {128, "xmmword"}, {256, "ymmword"}, {512, "zmmword"}};
        const char* wsz = ""; for (auto& z : szs) if (z.bits == m.size_bits) wsz = z.kw;
        if (sz != wsz) ctx.fail_unless_known("memory-size-text-wrong:x86", desc + ": size keyword '" + sz + "', operand size is " + std::to_string(m.size_bits) + " bits");
        int gseg = 0; size_t lb = s.find('[');
        if (lb == std::string::npos || s.back() != ']') { ctx.fail_unless_known("memory-text-unparsable:x86", desc + ": '" + p + "'"); continue; }
        if (lb >= 3 && s[lb - 1] == ':') { static const char* sn[] = {"", "es", "cs", "ss", "ds", "fs", "gs"}; std::string g = s.substr(0, lb - 1); for (int k = 1; k <= 6; k++) if (g == sn[k]) gseg = k; }
        if (gseg != m.seg) ctx.fail_unless_known("segment-text-wrong:x86", desc + ": segment in text " + std::to_string(gseg) + ", given " + std::to_string(m.seg));
        std::string in = s.substr(lb + 1, s.size() - lb - 2);
        bool abs_kw = false, rel_kw = false;
        if (in.rfind("abs ", 0) == 0) { abs_kw = true; in = in.substr(4); } else if (in.rfind("rel ", 0) == 0) { rel_kw = true; in = in.substr(4); }
        (void)rel_kw;
        // terms separated by + / -
        std::vector<std::pair<char, std::string>> terms; { std::string cur; char sign = '+'; for (size_t q = 0; q < in.size(); q++) { char ch2 = in[q]; if ((ch2 == '+' || ch2 == '-') && q > 0) { terms.push_back({sign, cur}); cur.clear(); sign = ch2; } else cur += ch2; } terms.push_back({sign, cur}); }
        std::string gbase, gindex; int gscale = 1; int64_t gdisp = 0, gdisp_raw = 0; bool have_disp = false;
        for (auto& tm : terms) {
          int64_t v;
          if (parse_num(tm.second, v)) { gdisp = tm.first == '-' ? -v : v; gdisp_raw = gdisp; have_disp = true; continue; }
          size_t st = tm.second.find('*');
          if (st != std::string::npos) { gindex = tm.second.substr(0, st); gscale = atoi(tm.second.c_str() + st + 1); }
          else if (gbase.empty()) gbase = tm.second; else gindex = tm.second;
        }
        std::string wbase = m.base.rc == xi::RC::None ? "" : x86_reg_text(m.base), windex = m.index.rc == xi::RC::None ? "" : x86_reg_text(m.index);
        if (gbase != wbase || gindex != windex) {
          // a sole index*1 may be printed as base
          if (!(wbase.empty() && gbase == windex && gindex.empty() && m.scale == 1))
            ctx.fail_unless_known("memory-registers-text-wrong:x86", desc + ": base/index printed as '" + gbase + "'/'" + gindex + "', given '" + wbase + "'/'" + windex + "'");
        }
        if (!windex.empty() && !gindex.empty() && gscale != m.scale) ctx.fail_unless_known("scale-text-wrong:x86", desc + ": scale printed " + std::to_string(gscale) + ", given " + std::to_string(m.scale));
        int64_t wdisp = m.disp;
        bool absolute = m.base.rc == xi::RC::None && m.index.rc == xi::RC::None;
        if (absolute) { if (mode == 32) { wdisp &= 0xFFFFFFFFLL; gdisp &= 0xFFFFFFFFLL; } if (!abs_kw) ctx.cls("abs_without_keyword"); }
        else { wdisp = int64_t(int32_t(uint32_t(wdisp))); gdisp = int64_t(int32_t(uint32_t(uint64_t(gdisp)))); }
        if ((have_disp ? gdisp : 0) != wdisp) ctx.fail_unless_known("displacement-text-wrong:x86", desc + ": displacement printed " + std::to_string(gdisp) + ", given " + std::to_string(wdisp));
        if (hex_off && have_disp && uint64_t(gdisp_raw) > 9 && gdisp_raw > 0 && in.find("0x") == std::string::npos) ctx.fail_unless_known("hex-flag-ignored:x86", desc + ": kHexOffsets set but displacement printed in decimal");
        ctx.cls("parsed_mem");
      }
    }
  }

  // (c) independent reading by LLVM MC of AsmJit's own text
  {
    std::string t = text;
    auto repl = [&](const std::string& a2, const std::string& b2) { size_t q = 0; while ((q = t.find(a2, q)) != std::string::npos) { t.replace(q, a2.size(), b2); q += b2.size(); } };
    repl("[abs ", "["); repl("[rel ", "["); repl("] {1to", "]{1to"); repl("}{z}", "} {z}");
    for (int i = 0; i < 8; i++) { std::string a2 = "st" + std::to_string(i); size_t q = 0; while ((q = t.find(a2, q)) != std::string::npos) { bool ok = (q == 0 || !isalnum((unsigned char)t[q - 1])) && (q + 3 >= t.size() || !isalnum((unsigned char)t[q + 3])); if (ok) { t.replace(q, 3, "st(" + std::to_string(i) + ")"); q += 5; } else q += 3; } }
    // {sae}/{er} come before a trailing immediate in LLVM's syntax
    if (x.sae || x.er >= 0) {
      size_t lb = t.rfind(", {");
      if (lb != std::string::npos) { std::string deco = t.substr(lb + 2); std::string head = t.substr(0, lb); size_t lc = head.rfind(", "); int64_t dummy; if (lc != std::string::npos && parse_num(head.substr(lc + 2), dummy)) t = head.substr(0, lc) + ", " + deco + head.substr(lc); }
    }
    oracle::LlvmMc& mc = mode == 64 ? *g_mc64 : *g_mc32;
    std::vector<uint8_t> L; std::string lerr; unsigned fix = 0;
    bool ok = mc.assemble(t, L, lerr, &fix) && fix == 0 && !L.empty();
    if (ok) {
      int opsize = 64, addrbits = mode;
      for (const xi::Opnd& o : x.ops) if (o.kind == xi::Opnd::kMem && o.mem.addr_bits) addrbits = o.mem.addr_bits;
      for (const xi::Opnd& o : x.ops) { if (o.kind == xi::Opnd::kReg) { int b = xi::rc_bits(o.reg.rc); if (b && b <= 64) { opsize = b; break; } } if (o.kind == xi::Opnd::kMem && o.mem.size_bits && o.mem.size_bits <= 64) { opsize = o.mem.size_bits; break; } }
      SeqText dA = llvm_seq(mc, buf.data(), buf.size()), dL = llvm_seq(mc, L.data(), L.size());
      SeqText oA = opc_seq(mode, buf.data(), buf.size()), oL = opc_seq(mode, L.data(), L.size());
      bool bad1 = dA.consumed == buf.size() && dL.consumed == L.size() && norm_text(dA.text, opsize, addrbits) != norm_text(dL.text, opsize, addrbits);
      bool bad2 = oA.consumed == buf.size() && oL.consumed == L.size() && norm_text(oA.text, opsize, addrbits) != norm_text(oL.text, opsize, addrbits);
      if (bad1 && (bad2 || !oA.count)) {
        // the text reads (to an independent assembler) as another instruction than the bytes AsmJit emitted for it; C01 judges the bytes,
        // so attribute it to the text only when C01's rendering of the same instance agrees with the bytes
        std::vector<uint8_t> L2; std::string e2; unsigned f2 = 0;
        bool ok2 = mc.assemble(want, L2, e2, &f2) && f2 == 0 && !L2.empty();
        SeqText dW = ok2 ? llvm_seq(mc, L2.data(), L2.size()) : SeqText();
        // LLVM can only arbitrate if its disassembler is consistent with its own assembler for this instruction: re-assembling what it
        // printed for its own bytes must give those bytes back (LLVM 14 prints EVEX.W1 vshuff64x2 ymm with {1toN} as vshuff32x4 and scales
        // disp8 by the wrong element size - a decoder defect that made two equivalent encodings look different)
        bool llvm_consistent = true;
        if (dL.count == 1) { std::vector<uint8_t> L3; std::string e3; unsigned f3 = 0; llvm_consistent = mc.assemble(dL.text, L3, e3, &f3) && f3 == 0 && L3 == L; }
        if (!llvm_consistent) ctx.cls("llvm_decoder_inconsistent_with_its_assembler_unarbitrated");
        else if (ok2 && norm_text(dW.text, opsize, addrbits) == norm_text(dA.text, opsize, addrbits))
          ctx.fail_unless_known("text-reads-as-other-instruction:" + f.name, desc + ": LLVM MC reads the text as '" + dL.text + "' but the bytes " + hexu(buf.data(), buf.size()) + " are '" + dA.text + "'");
        else ctx.cls("llvm_reading_differs_unarbitrated");
      } else ctx.cls("llvm_reads_text_like_bytes");
    } else ctx.cls("llvm_cannot_read_text");
  }
  ctx.cls(mode == 64 ? "x64" : "x86");
  bool interesting = x.k || x.z || x.er >= 0 || x.sae; for (const xi::Opnd& o : x.ops) if (o.kind == xi::Opnd::kMem) interesting = true;
  if (interesting) { ctx.nontrivial(); if (ctx.want_sample()) ctx.sample(desc + " | log: " + logline); }
}

// ---- AArch64 -----------------------------------------------------------------------------------------------------------------
static std::string a64_expected_operand(const ai::Opnd& o, bool hex_imm, bool hex_off) {
  // AsmJit's documented AArch64 text forms (see Appendix A of DESIGN.md): shifts print "<op> <amount>" with LSL unnamed, memory offsets
  // without '#', arrangements as "v1.4s", lanes as "v1.4s[1]" / "v1.s[1]" (both accepted by the parser below).
  char b[96];
  auto num = [&](int64_t v, bool hex) { std::string s; if (hex && uint64_t(v) > 9) { snprintf(b, sizeof b, "0x%llX", (unsigned long long)v); s = b; } else { snprintf(b, sizeof b, "%lld", (long long)v); s = b; } return s; };
  switch (o.kind) {
    case ai::K::Mem: {
      std::string base = o.base == 31 ? "sp" : "x" + std::to_string(o.base), idx = std::string(o.idx_x ? "x" : "w") + std::to_string(o.idx);
      switch (o.mode) {
        case 0: return "[" + base + "]";
        case 1: return o.imm == 0 ? "[" + base + "]" : "[" + base + ", " + num(o.imm, hex_off) + "]";
        case 2: return "[" + base + ", " + num(o.imm, hex_off) + "]!";
        case 3: return "[" + base + "], " + num(o.imm, hex_off);
        case 4: return "[" + base + ", " + idx + "]";
        case 5: return "[" + base + "], " + idx;
        default: if (o.ext == "lsl" && o.amount == 0) return "[" + base + ", " + idx + "]"; return "[" + base + ", " + idx + " " + o.ext + " " + std::to_string(o.amount) + "]";
      }
    }
    case ai::K::Imm: return num(o.imm, hex_imm);
    default: return ai::reg_text(o);
  }
}

static void run_a64(const vh::Case& c, vh::Ctx& ctx) {
  const ai::Template& t = g_t[size_t(uint64_t(c.cfg[1]) % g_t.size())];
  static const vh::Op empty; const vh::Op& chv = c.ops.empty() ? empty : c.ops[0];
  ai::Choices ch(chv, 0);
  ai::Inst in = ai::instantiate(t, ch, false, false);
  auto it = g_a64ids.find(t.name);
  if (it == g_a64ids.end()) { ctx.cls("skip_unknown_mnemonic"); return; }
  bool any_vec = false; for (const ai::Opnd& o : in.ops) if (o.kind == ai::K::Scalar || o.kind == ai::K::VecArr || o.kind == ai::K::VecElem) any_vec = true;
  InstId id = it->second.size() >= 2 ? (any_vec ? it->second.back() : it->second.front()) : it->second.front();
  FormatFlags ff = kFlagSets[uint64_t(c.cfg[2]) % 6];
  bool hex_imm = Support::test(ff, FormatFlags::kHexImms), hex_off = Support::test(ff, FormatFlags::kHexOffsets);
  CodeHolder code; code.init(Environment(Arch::kAArch64));
  a64::Assembler a(&code);
  StringLogger lg; lg.set_flags(ff); code.set_logger(&lg);
  Operand_ ops[8]; size_t n = 0;
  for (const ai::Opnd& o : in.ops) { if (n >= 6) break; Operand op = ai::to_asmjit(o); ops[n++] = op; }
  Error err = a.emit_op_array(id, ops, n);
  if (err != Error::kOk) { ctx.cls("rejected"); return; }
  const CodeBuffer& buf = code.text_section()->buffer();
  std::string logline = trim(std::string(lg.data(), lg.data_size()));
  String sb;
  FormatFlags ff_fmt = ff & ~(FormatFlags::kMachineCode | FormatFlags::kPositions);
  Formatter::format_instruction(sb, ff_fmt, &a, Arch::kAArch64, BaseInst(id), Span<const Operand_>(ops, n));
  std::string text(sb.data(), sb.size());
  std::string desc = "a64 [" + ai::render(in) + "] formatted as '" + text + "'";
  {
    std::string body = logline, mc;
    if (Support::test(ff, FormatFlags::kMachineCode)) { size_t sc = logline.rfind(';'); VH_CHECK(ctx, sc != std::string::npos, "log-no-machine-code-column", "%s: log line '%s'", desc.c_str(), logline.c_str()); body = trim(logline.substr(0, sc)); mc = trim(logline.substr(sc + 1)); }
    if (Support::test(ff, FormatFlags::kPositions)) { size_t cp = body.find(": "); if (cp != std::string::npos && cp <= 10) body = trim(body.substr(cp + 2)); }
    if (body != text && body.size() == text.size() + 1 && (body.rfind("ldu", 0) == 0 || body.rfind("stu", 0) == 0) && body.substr(0, 2) + body.substr(3) == text) { ctx.cls("logger_shows_unscaled_twin"); body = text; }
    VH_CHECK(ctx, body == text, "log-text-differs-from-formatter", "%s: logger printed '%s'", desc.c_str(), body.c_str());
    if (Support::test(ff, FormatFlags::kMachineCode)) { std::string hx = hexu(buf.data(), buf.size()); if (mc != hx) ctx.fail_unless_known("log-machine-code-differs:a64", desc + ": machine-code column '" + mc + "' but the bytes appended are " + hx); ctx.cls("machine_code_column_checked"); }
  }
  size_t sp = text.find(' ');
  std::string mn = sp == std::string::npos ? text : text.substr(0, sp);
  if (mn != t.name) ctx.fail_unless_known("mnemonic-text-wrong:a64:" + t.name, desc + ": mnemonic '" + mn + "'");
  std::vector<std::string> parts = split_operands(sp == std::string::npos ? "" : text.substr(sp + 1));
  // post-index memory operands contain a top-level comma: "[x1], 32" -> rejoin
  std::vector<std::string> joined;
  for (size_t i = 0; i < parts.size(); i++) { if (!joined.empty() && !joined.back().empty() && joined.back().back() == ']' && joined.back()[0] == '[' && i < parts.size()) { bool post = false; for (const ai::Opnd& o : in.ops) if (o.kind == ai::K::Mem && (o.mode == 3 || o.mode == 5)) post = true; if (post && joined.size() == in.ops.size()) { joined.back() += ", " + parts[i]; continue; } } joined.push_back(parts[i]); }
  if (joined.size() != in.ops.size()) { ctx.fail_unless_known("operand-count-text-wrong:a64:" + t.name, desc + ": " + std::to_string(joined.size()) + " operands in text, " + std::to_string(in.ops.size()) + " given"); return; }
  for (size_t i = 0; i < joined.size(); i++) {
    const ai::Opnd& o = in.ops[i];
    const std::string& p = joined[i];
    if (o.kind == ai::K::Shift) {
      // "lsl" is printed as a bare amount; other shifts/extends as "<op> <amount>"
      std::string w1 = o.ext + " " + std::to_string(o.amount), w2 = std::to_string(o.amount);
      bool okp = false;
      { size_t q = p.find(' '); std::string opn = q == std::string::npos ? "" : p.substr(0, q); std::string am = q == std::string::npos ? p : p.substr(q + 1); int64_t v; okp = parse_num(am, v) && v == o.amount && (opn == o.ext || (opn.empty() && o.ext == "lsl")); }
      if (!okp) ctx.fail_unless_known("shift-text-wrong:a64", desc + ": operand " + std::to_string(i) + " printed as '" + p + "', shift is " + w1);
      ctx.cls("parsed_shift");
    } else if (o.kind == ai::K::Cond || o.kind == ai::K::Float) { ctx.cls("cond_or_float_not_parsed"); }
    else if (o.kind == ai::K::VecElem) {
      // AsmJit prints "v1.4s[1]" (arrangement + lane) where the architecture writes "v1.s[1]"; both denote the same element
      char b1[48], b2[48];
      snprintf(b1, sizeof b1, "v%d.%s[%d]", o.id, ai::arr_text(o.arr).c_str(), o.lane);
      static const struct { const char* e; const char* full; } fulls[] = {{"b", "16b"}, {"h", "8h"}, {"s", "4s"}, {"d", "2d"}, {"b4", "4b"}, {"h2", "2h"}};
      const char* full = ""; for (auto& z : fulls) if (o.arr == z.e) full = z.full;
      snprintf(b2, sizeof b2, "v%d.%s[%d]", o.id, full, o.lane);
      if (p != b1 && p != b2) ctx.fail_unless_known("lane-text-wrong:a64", desc + ": operand " + std::to_string(i) + " printed as '" + p + "', element is " + b1);
      ctx.cls("parsed_lane");
    } else {
      std::string w = a64_expected_operand(o, hex_imm, hex_off);
      bool ok = p == w;
      if (!ok && o.kind == ai::K::Imm) { int64_t v; ok = parse_num(p, v) && v == o.imm; }
      if (!ok && o.kind == ai::K::Mem) {
        // compare structurally: registers must match textually, the offset numerically
        std::string pa = p, wa = w; int64_t pv = 0, wv = 0;
        auto strip_num = [&](std::string& s, int64_t& v) { size_t q = s.rfind(", "); if (q != std::string::npos) { std::string tail = s.substr(q + 2); std::string tl = tail; while (!tl.empty() && (tl.back() == ']' || tl.back() == '!')) tl.pop_back(); if (parse_num(tl, v)) { s = s.substr(0, q) + tail.substr(tl.size()); return true; } } return false; };
        bool a1 = strip_num(pa, pv), a2 = strip_num(wa, wv);
        ok = a1 == a2 && pa == wa && pv == wv;
      }
      if (!ok) ctx.fail_unless_known(std::string(o.kind == ai::K::Mem ? "memory-text-wrong:a64" : o.kind == ai::K::Imm ? "immediate-text-wrong:a64" : "register-text-wrong:a64"), desc + ": operand " + std::to_string(i) + " printed as '" + p + "', expected '" + w + "'");
      ctx.cls(o.kind == ai::K::Mem ? "parsed_mem" : o.kind == ai::K::Imm ? "parsed_imm" : "parsed_reg");
    }
  }
  ctx.cls("a64");
  bool interesting = false; for (const ai::Opnd& o : in.ops) if (o.kind == ai::K::Mem || o.kind == ai::K::Shift || o.kind == ai::K::VecElem) interesting = true;
  if (interesting) { ctx.nontrivial(); if (ctx.want_sample()) ctx.sample(desc + " | log: " + logline); }
}


// ---- label operands (x86 and a64) ---------------------------------------------------------------------------------------------
// Instructions that reference anonymous / named / local / named-anonymous labels, bound or not yet bound, with addends and trailing
// immediates. Oracle: the label token printed resolves (through the CodeHolder's documented naming scheme: "L<id>", "<name>",
// "<parent>.<name>", "L<id>@<name>") to exactly the label given; size keyword, addend, registers and immediates are parsed back;
// the machine-code column equals the bytes appended, where only the bytes of the displacement field of a reference that is still
// pending may be printed as "..".
static int64_t resolve_label_text(CodeHolder& code, const std::string& t) {
  if (t.empty()) return -1;
  size_t dot = t.find('.');
  if (dot != std::string::npos) {
    int64_t parent = resolve_label_text(code, t.substr(0, dot));
    if (parent < 0) return -1;
    std::string child = t.substr(dot + 1);
    uint32_t id = code.label_id_by_name(child.c_str(), child.size(), uint32_t(parent));
    return id == Globals::kInvalidId ? -1 : int64_t(id);
  }
  if (t[0] == 'L' && t.size() > 1 && isdigit((unsigned char)t[1])) {
    size_t i = 1; uint64_t v = 0; while (i < t.size() && isdigit((unsigned char)t[i])) { v = v * 10 + uint64_t(t[i] - '0'); i++; }
    if (i == t.size()) return int64_t(v);
    if (t[i] == '@') {       // named anonymous label: the name after '@' must be that label's name
      if (!code.is_label_valid(uint32_t(v))) return -1;
      const LabelEntry& le = code.label_entry_of(uint32_t(v));
      if (!le.has_name() || std::string(le.name()) != t.substr(i + 1)) return -1;
      return int64_t(v);
    }
    return -1;
  }
  uint32_t id = code.label_id_by_name(t.c_str(), t.size());
  return id == Globals::kInvalidId ? -1 : int64_t(id);
}

static void run_labels(const vh::Case& c, vh::Ctx& ctx, int archsel) {
  static const vh::Op empty; const vh::Op& chv = c.ops.empty() ? empty : c.ops[0];
  xi::Choices ch(chv, 0);
  FormatFlags ff = kFlagSets[uint64_t(c.cfg[2]) % 6];
  bool a64 = archsel == 2; int mode = archsel == 1 ? 32 : 64;
  Arch arch = a64 ? Arch::kAArch64 : mode == 64 ? Arch::kX64 : Arch::kX86;
  CodeHolder code; code.init(Environment(arch));
  x86::Assembler xa; a64::Assembler ra;
  BaseAssembler* as = a64 ? static_cast<BaseAssembler*>(&ra) : static_cast<BaseAssembler*>(&xa);
  code.attach(as);
  StringLogger lg; lg.set_flags(ff); code.set_logger(&lg);

  // label population: ids are spread so that "L<id>" has one and two digits
  int filler = ch.pick(13);
  for (int i = 0; i < filler; i++) (void)as->new_label();
  static const char* gnames[] = {"fn_main", "loop_head", "L7", "x", "data.end", "_start$1"};      // "L7": a name that looks like an anonymous label
  static const char* lnames[] = {"loc", "1", "exit", "L0"};
  int lk = ch.pick(5);
  Label target; std::string kind;
  if (lk == 0) { target = as->new_label(); kind = "anonymous"; }
  else if (lk == 1) { const char* n = gnames[ch.pick(6)]; if (strchr(n, '.') || (n[0] == 'L' && isdigit((unsigned char)n[1]))) ctx.cls("label_name_ambiguous_by_construction"); target = as->new_named_label(n); kind = std::string("global '") + n + "'"; }
  else if (lk == 2) { Label parent = as->new_named_label(gnames[ch.pick(2)]); target = as->new_named_label(lnames[ch.pick(3)], SIZE_MAX, LabelType::kLocal, parent.id()); kind = "local of named"; }
  else if (lk == 3) { target = as->new_named_label(lnames[ch.pick(3)], SIZE_MAX, LabelType::kAnonymous); kind = "named anonymous"; }
  else { Label parent = as->new_label(); target = as->new_named_label(lnames[ch.pick(3)], SIZE_MAX, LabelType::kLocal, parent.id()); kind = "local of anonymous"; }
  if (!target.is_valid()) { ctx.cls("label_creation_rejected"); return; }
  // names containing '.' or of the form L<digits> make the text ambiguous by construction: the inverse would not be a function; skip those
  // (they are counted above) - the property can only be judged for names the naming scheme can denote uniquely.
  {
    const LabelEntry& le = code.label_entry_of(target.id());
    if (le.has_name()) { std::string n = le.name(); if (n.find('.') != std::string::npos || (n[0] == 'L' && n.size() > 1 && isdigit((unsigned char)n[1]))) return; }
    if (le.has_parent()) { const LabelEntry& pe = code.label_entry_of(le.parent_id()); if (pe.has_name()) { std::string n = pe.name(); if (n.find('.') != std::string::npos || (n[0] == 'L' && n.size() > 1 && isdigit((unsigned char)n[1]))) return; } }
  }
  bool bound = ch.chance(1, 3);
  int pre = ch.pick(4), mid = ch.pick(6);
  auto nops = [&](int n) { for (int i = 0; i < n; i++) { if (a64) ra.nop(); else xa.nop(); } };
  nops(pre); if (bound) as->bind(target); nops(mid);
  lg.clear();
  size_t off0 = as->offset();
  Error err = Error::kOk;
  std::string mn; std::vector<std::string> want_ops;       // expected operand descriptions: "L" label, "M:<size>:<addend>" memory, "R:<name>", "I:<value>:<bits>"
  size_t imm_size = 0, field = 4; bool is_short = false;
  int64_t addend = 0;
  static const int64_t addends[] = {0, 0, 4, 8, -4, 100, -1, 0x1000, -128, 127};
  if (!a64) {
    int k = ch.pick(12);
    static const x86::Gp r32[] = {x86::eax, x86::ecx, x86::edx, x86::ebx, x86::esi, x86::edi};
    static const char* r32n[] = {"eax", "ecx", "edx", "ebx", "esi", "edi"};
    int ri = ch.pick(6);
    addend = addends[ch.pick(10)];
    int64_t imm32s[] = {0x12345678, 1, -1, 0x7FFFFFFF, 200, -129, 0x11223344};
    int64_t imm8s[] = {5, -1, 0x7F, -128, 1, 0x12};
    switch (k) {
      case 0: mn = "jmp"; err = xa.jmp(target); want_ops = {"L"}; break;
      case 1: { static const char* ccn[] = {"jz", "jnz", "jb", "jge", "jo", "js"}; int cc = ch.pick(6); mn = ccn[cc];
                err = cc == 0 ? xa.jz(target) : cc == 1 ? xa.jnz(target) : cc == 2 ? xa.jb(target) : cc == 3 ? xa.jge(target) : cc == 4 ? xa.jo(target) : xa.js(target); want_ops = {"L"}; break; }
      case 2: mn = "call"; err = xa.call(target); want_ops = {"L"}; break;
      case 3: mn = "jmp"; is_short = true; field = 1; err = xa.short_().jmp(target); want_ops = {"L"}; break;
      case 4: mn = "jnz"; is_short = true; field = 1; err = xa.short_().jnz(target); want_ops = {"L"}; break;
      case 5: mn = "lea"; err = xa.lea(r32[ri], x86::ptr(target, int32_t(addend))); want_ops = {std::string("R:") + r32n[ri], "M::" + std::to_string(addend)}; break;
      case 6: { int64_t v = imm32s[ch.pick(7)]; int op = ch.pick(4); mn = op == 0 ? "mov" : op == 1 ? "cmp" : op == 2 ? "add" : "test";
                x86::Mem m = x86::dword_ptr(target, int32_t(addend));
                err = op == 0 ? xa.mov(m, Imm(v)) : op == 1 ? xa.cmp(m, Imm(v)) : op == 2 ? xa.add(m, Imm(v)) : xa.test(m, Imm(v));
                imm_size = (op == 0 || op == 3) ? 4 : (v >= -128 && v <= 127 ? 1 : 4);
                want_ops = {"M:dword:" + std::to_string(addend), "I:" + std::to_string(v) + ":32"}; break; }
      case 7: { int64_t v = imm8s[ch.pick(6)]; int op = ch.pick(3); mn = op == 0 ? "mov" : op == 1 ? "cmp" : "or";
                x86::Mem m = x86::byte_ptr(target, int32_t(addend));
                err = op == 0 ? xa.mov(m, Imm(v)) : op == 1 ? xa.cmp(m, Imm(v)) : xa.or_(m, Imm(v));
                imm_size = 1; want_ops = {"M:byte:" + std::to_string(addend), "I:" + std::to_string(v) + ":8"}; break; }
      case 8: { int64_t v = ch.chance(1, 2) ? 0x1234 : 7; int op = ch.pick(2); mn = op == 0 ? "mov" : "add";
                x86::Mem m = x86::word_ptr(target, int32_t(addend));
                err = op == 0 ? xa.mov(m, Imm(v)) : xa.add(m, Imm(v));
                imm_size = (op == 0) ? 2 : (v <= 127 ? 1 : 2); want_ops = {"M:word:" + std::to_string(addend), "I:" + std::to_string(v) + ":16"}; break; }
      case 9: { int64_t v = ch.chance(1, 2) ? 100000 : 3; mn = "imul"; err = xa.imul(r32[ri], x86::dword_ptr(target, int32_t(addend)), Imm(v)); imm_size = v <= 127 ? 1 : 4;
                want_ops = {std::string("R:") + r32n[ri], "M:dword:" + std::to_string(addend), "I:" + std::to_string(v) + ":32"}; break; }
      case 10: mn = "mov"; if (ch.chance(1, 2)) { err = xa.mov(r32[ri], x86::dword_ptr(target, int32_t(addend))); want_ops = {std::string("R:") + r32n[ri], "M:dword:" + std::to_string(addend)}; }
               else { err = xa.mov(x86::dword_ptr(target, int32_t(addend)), r32[ri]); want_ops = {"M:dword:" + std::to_string(addend), std::string("R:") + r32n[ri]}; } break;
      default: { int64_t v = ch.pick(256); mn = "vpshufd"; err = xa.vpshufd(x86::xmm1, x86::xmmword_ptr(target, int32_t(addend)), Imm(v)); imm_size = 1;
                 want_ops = {"R:xmm1", "M:xmmword:" + std::to_string(addend), "I:" + std::to_string(v) + ":8"}; break; }
    }
  } else {
    int k = ch.pick(9);
    switch (k) {
      case 0: mn = "b"; err = ra.b(target); want_ops = {"L"}; break;
      case 1: mn = "bl"; err = ra.bl(target); want_ops = {"L"}; break;
      case 2: mn = ch.chance(1, 2) ? "b.eq" : "b.lt"; err = mn == "b.eq" ? ra.b_eq(target) : ra.b_lt(target); want_ops = {"L"}; break;
      case 3: mn = "cbz"; err = ra.cbz(a64::x1, target); want_ops = {"R:x1", "L"}; break;
      case 4: mn = "cbnz"; err = ra.cbnz(a64::w9, target); want_ops = {"R:w9", "L"}; break;
      case 5: { int bit = ch.pick(32); mn = "tbz"; err = ra.tbz(a64::w2, uint32_t(bit), target); want_ops = {"R:w2", "I:" + std::to_string(bit) + ":8", "L"}; break; }
      case 6: mn = "adr"; err = ra.adr(a64::x3, target); want_ops = {"R:x3", "L"}; break;
      case 7: mn = "ldr"; err = ra.ldr(a64::x4, a64::ptr(target)); want_ops = {"R:x4", "M::0"}; break;
      default: mn = "adrp"; err = ra.adrp(a64::x5, target); want_ops = {"R:x5", "L"}; break;
    }
    field = 0;
  }
  const char* an = a64 ? "a64" : mode == 64 ? "x64" : "x86";
  if (err != Error::kOk) { ctx.cls(std::string("label_inst_rejected_") + an); return; }
  size_t off1 = as->offset();
  const CodeBuffer& buf = code.text_section()->buffer();
  std::string logline = trim(std::string(lg.data(), lg.data_size()));
  std::string desc = std::string(an) + " " + mn + " -> label id " + std::to_string(target.id()) + " (" + kind + (bound ? ", bound" : ", not bound") + "), addend " + std::to_string(addend) + ": log line '" + logline + "'";
  VH_CHECK(ctx, logline.find('\n') == std::string::npos && !logline.empty(), "label-log-line-count", "%s", desc.c_str());
  std::string body = logline, mc;
  if (Support::test(ff, FormatFlags::kMachineCode)) { size_t sc = logline.rfind(';'); VH_CHECK(ctx, sc != std::string::npos, "log-no-machine-code-column", "%s", desc.c_str()); body = trim(logline.substr(0, sc)); mc = trim(logline.substr(sc + 1)); }
  if (Support::test(ff, FormatFlags::kPositions)) { size_t cp = body.find(": "); if (cp != std::string::npos && cp <= 10) body = trim(body.substr(cp + 2)); }
  // mnemonic (+ "short")
  {
    // "short" denotes the rel8 encoding, which the assembler also selects by itself for a bound label in range: judge it by the opcode
    if (!a64 && want_ops.size() == 1 && want_ops[0] == "L") {
      uint8_t op0 = buf.data()[off0];
      bool enc_short = op0 == 0xEB || (op0 >= 0x70 && op0 <= 0x7F);
      bool txt_short = body.compare(0, 6, "short ") == 0;
      if (is_short && !enc_short) ctx.fail_unless_known(std::string("short-option-ignored:") + an, desc + ": short_() requested but opcode is " + hexu(buf.data() + off0, 1));
      if (enc_short != txt_short) ctx.fail_unless_known(std::string("label-text-short-mismatch:") + an, desc + ": text " + (txt_short ? "says" : "does not say") + " short but the opcode is " + hexu(buf.data() + off0, 1));
      is_short = txt_short; field = enc_short ? 1 : 4;
      if (enc_short && !is_short) return;
    }
    std::string want_head = (is_short ? std::string("short ") : std::string()) + mn + " ";
    if (mn == "jge" && body.compare(0, want_head.size(), want_head) != 0) { mn = "jnl"; want_head = (is_short ? std::string("short ") : std::string()) + mn + " "; }      // architectural alias (same opcode 7D / 0F 8D)
    if (body.compare(0, want_head.size(), want_head) != 0) { ctx.fail_unless_known(std::string("label-text-mnemonic:") + an, desc + ": expected it to start with '" + want_head + "'"); return; }
    body = body.substr(want_head.size());
  }
  std::vector<std::string> got = split_operands(body);
  if (got.size() != want_ops.size()) { ctx.fail_unless_known(std::string("label-text-operand-count:") + an, desc + ": " + std::to_string(got.size()) + " operands printed, " + std::to_string(want_ops.size()) + " given"); return; }
  for (size_t i = 0; i < got.size(); i++) {
    const std::string& w = want_ops[i]; std::string g = got[i];
    if (w == "L") {
      int64_t id = resolve_label_text(code, g);
      if (id != int64_t(target.id())) ctx.fail_unless_known(std::string("label-text-denotes-other-label:") + an, desc + ": operand '" + g + "' denotes label " + std::to_string(id));
      ctx.cls("label_operand_parsed");
    } else if (w[0] == 'R') {
      if (g != w.substr(2)) ctx.fail_unless_known(std::string("label-text-register:") + an, desc + ": operand '" + g + "', expected " + w.substr(2));
    } else if (w[0] == 'I') {
      size_t c2 = w.rfind(':'); int64_t v = strtoll(w.substr(2, c2 - 2).c_str(), nullptr, 10); int bits = atoi(w.substr(c2 + 1).c_str());
      int64_t pv; bool ok = parse_num(g, pv);
      uint64_t mask = bits >= 64 ? ~uint64_t(0) : ((uint64_t(1) << bits) - 1);
      if (!ok || ((uint64_t(pv) ^ uint64_t(v)) & mask) != 0) ctx.fail_unless_known(std::string("label-text-immediate:") + an, desc + ": immediate printed as '" + g + "', given " + std::to_string(v));
    } else {       // M:<size>:<addend>
      size_t c1 = w.find(':', 2); std::string sz = w.substr(2, c1 - 2); int64_t ad = strtoll(w.substr(c1 + 1).c_str(), nullptr, 10);
      size_t lb = g.find('['), rb = g.rfind(']');
      if (lb == std::string::npos || rb == std::string::npos || rb < lb) { ctx.fail_unless_known(std::string("label-text-memory-syntax:") + an, desc + ": operand '" + g + "'"); continue; }
      std::string pre_t = trim(g.substr(0, lb)), in = g.substr(lb + 1, rb - lb - 1);
      std::string want_pre = sz.empty() ? "" : sz + " ptr";
      if (pre_t != want_pre) ctx.fail_unless_known(std::string("label-text-memory-size:") + an, desc + ": operand '" + g + "' has size prefix '" + pre_t + "', expected '" + want_pre + "'");
      // label [+-] addend : the addend is the last +/- followed only by a number
      std::string lt = in; int64_t got_ad = 0;
      size_t pm = in.find_last_of("+-");
      if (pm != std::string::npos && pm > 0) { int64_t v; if (parse_num(in.substr(pm + 1), v)) { got_ad = in[pm] == '-' ? -v : v; lt = in.substr(0, pm); } }
      if (lt.compare(0, 4, "rip+") == 0) lt = lt.substr(4);
      int64_t id = resolve_label_text(code, trim(lt));
      if (id != int64_t(target.id())) ctx.fail_unless_known(std::string("label-text-denotes-other-label:") + an, desc + ": memory operand '" + g + "' denotes label " + std::to_string(id));
      if (got_ad != ad) ctx.fail_unless_known(std::string("label-text-addend:") + an, desc + ": memory operand '" + g + "' shows addend " + std::to_string(got_ad) + ", given " + std::to_string(ad));
      ctx.cls("label_memory_operand_parsed");
    }
  }
  // machine-code column
  if (Support::test(ff, FormatFlags::kMachineCode)) {
    size_t n = off1 - off0; const uint8_t* p = buf.data() + off0;
    bool okc = mc.size() == 2 * n; size_t dotted = 0;
    if (okc) {
      size_t f0 = n - imm_size - field, f1 = n - imm_size;
      for (size_t i = 0; i < n && okc; i++) {
        std::string pair = mc.substr(2 * i, 2);
        if (pair == "..") { dotted++; if (a64 || i < f0 || i >= f1 || bound) okc = false; }       // dots only over a pending displacement field
        else if (pair != hexu(p + i, 1)) okc = false;
      }
      if (dotted != 0 && dotted != field) okc = false;
    }
    if (!okc) ctx.fail_unless_known(std::string("label-log-machine-code-differs:") + an, desc + ": machine-code column '" + mc + "' but the bytes appended are " + hexu(p, n) + " (displacement field " + std::to_string(field) + " byte(s), immediate " + std::to_string(imm_size) + " byte(s))");
    ctx.cls(dotted ? "label_machine_code_with_pending_field" : "label_machine_code_plain");
    if (dotted && imm_size) ctx.cls("label_machine_code_pending_field_then_immediate");
  }
  ctx.cls(std::string("labels_") + an); ctx.cls("label_kind_" + std::to_string(lk));
  ctx.nontrivial(); if (ctx.want_sample()) ctx.sample(desc);
}

void vh_run(const vh::Case& c, vh::Ctx& ctx) {
  if (c.cfg.size() < 3) return;
  int arch = int(uint64_t(c.cfg[0]) % 6);      // 0 x64, 1 x86, 2 a64 (ISA-database forms); 3..5 the same architectures with label operands
  if (arch >= 3) { run_labels(c, ctx, arch - 3); return; }
  if (arch == 2) run_a64(c, ctx); else run_x86(c, ctx, arch == 0 ? 64 : 32);
}
