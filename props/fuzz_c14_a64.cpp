// C14 — Invalid input is rejected with an error and leaves emitter state untouched (AArch64).
//
// libFuzzer target: bytes -> script of public-API calls on an a64::Assembler / Builder / Compiler. AArch64 has no operand validator (operand
// kinds are enforced by the typed C++ overloads), so every instruction call starts from an operand-shape template of the instruction database
// (build/gen/a64_templates.txt, the same 3,199 shapes C02 uses) and KEEPS the operand kinds, while every id, element type / index, shift / extend
// kind and amount, offset, offset mode, immediate, condition code and label id is perturbed arbitrarily (physical ids 0..40, the boundaries
// 31/32/62/63/64/255/256.., ids of the virtual range, arbitrary 32-bit ids). Label forms (b, bl, b.cond, cbz, cbnz, tbz, tbnz, adr, adrp,
// ldr / ldrsw / prfm literal) get valid and invalid label ids. Interleaved with valid instructions and with bind / align / embed / embed_label(_delta) /
// new_named_label / section calls given valid and invalid arguments; error handler none / recording / throwing.
//
// Oracle (inside the target): no sanitizer report; a failed call returns != kOk, invokes the handler exactly once with that code, appends
// nothing, creates no label / fixup / relocation / section / node, leaves emitter flags / options untouched and clears the one-shot instruction
// state - also when the handler throws. A successful instruction call on the Assembler appends exactly one 4-byte word; a successful call that
// names a physical register id the register file does not have (GP: 32..62 / 64..255, vector: 32..255) is a violation (it can only have been
// encoded as some other register). Every accepted word is re-derived on a fresh Assembler from the same call (history independence: equal
// word for label-free calls). A Builder / Compiler accepts calls into nodes; every accepted call is repeated on a shadow Assembler and
// serialisation (finalize()) must fail iff the shadow rejected one of them and otherwise produce exactly the shadow's bytes, label offsets
// and fixup / relocation counts. At the end a fixed probe program must come out byte-identical to a fresh emitter's.
// Triage aids: VH_PRINT_SCRIPT=1 prints the decoded script of every input.
#include <fuzzer/FuzzedDataProvider.h>

#include <asmjit/core.h>
#include <asmjit/a64.h>
#include "gen/a64inst.h"
#include "oracle/llvm_mc.h"

#include <cstdio>
#include <cstdlib>
#include <cstring>
#include <functional>
#include <map>
#include <memory>
#include <set>
#include <string>
#include <unistd.h>
#include <unordered_set>
#include <vector>

using namespace asmjit;

namespace {

struct Counters {
  uint64_t execs = 0, nontrivial = 0;
  std::map<std::string, uint64_t> classes, known_hits;
  std::unordered_set<uint64_t> hashes;
  std::vector<std::string> samples;
  std::set<std::string> known;
  bool inited = false, print_script = false;
} g;

std::vector<ai::Template> g_t;
std::map<std::string, std::vector<InstId>> g_ids;
oracle::LlvmMc* g_mc = nullptr;

uint64_t fnv(const uint8_t* p, size_t n) { uint64_t h = 1469598103934665603ull; for (size_t i = 0; i < n; i++) { h ^= p[i]; h *= 1099511628211ull; } return h; }

void flush_counters() {
  const char* path = getenv("VH_COUNTERS");
  if (!path) return;
  FILE* f = fopen(path, "w");
  if (!f) return;
  fprintf(f, "{\"evaluations\": %llu, \"nontrivial_evals\": %llu, \"classes\": {", (unsigned long long)g.execs, (unsigned long long)g.nontrivial);
  bool first = true;
  for (auto& kv : g.classes) { fprintf(f, "%s\"%s\": %llu", first ? "" : ", ", kv.first.c_str(), (unsigned long long)kv.second); first = false; }
  fprintf(f, "}, \"known_hits\": {");
  first = true;
  for (auto& kv : g.known_hits) { fprintf(f, "%s\"%s\": %llu", first ? "" : ", ", kv.first.c_str(), (unsigned long long)kv.second); first = false; }
  fprintf(f, "}, \"samples\": [");
  first = true;
  for (auto& s : g.samples) { std::string e; for (char c : s) { if (c == '"' || c == '\\') e += '\\'; if ((unsigned char)c >= 0x20) e += c; } fprintf(f, "%s\"%s\"", first ? "" : ", ", e.c_str()); first = false; }
  fprintf(f, "]}\n");
  fclose(f);
  std::string hp(path); hp = hp.substr(0, hp.size() - 5) + ".hashes";
  FILE* h = fopen(hp.c_str(), "wb");
  if (h) { std::vector<uint64_t> v(g.hashes.begin(), g.hashes.end()); if (!v.empty()) fwrite(v.data(), 8, v.size(), h); fclose(h); }
}

void init_once() {
  if (g.inited) return;
  g.inited = true;
  const char* k = getenv("VH_KNOWN");
  if (k) { std::string s(k); size_t p = 0; while (p <= s.size()) { size_t q = s.find(',', p); if (q == std::string::npos) q = s.size(); if (q > p) g.known.insert(s.substr(p, q - p)); p = q + 1; } }
  g.print_script = getenv("VH_PRINT_SCRIPT") != nullptr;
  // templates: $VH_A64_TEMPLATES, or <dir of the binary>/../gen/a64_templates.txt (build/bin -> build/gen)
  std::string path;
  if (const char* t = getenv("VH_A64_TEMPLATES")) path = t;
  else { char b[4096]; ssize_t n = readlink("/proc/self/exe", b, sizeof b - 1); if (n > 0) { b[n] = 0; path = b; size_t s = path.rfind('/'); path = path.substr(0, s); s = path.rfind('/'); path = path.substr(0, s) + "/gen/a64_templates.txt"; } }
  if (!ai::load_templates(path.c_str(), g_t)) { fprintf(stderr, "cannot load %s\n", path.c_str()); _exit(2); }
  for (uint32_t id = 1; id < a64::Inst::_kIdCount; id++) {
    String s; InstAPI::inst_id_to_string(Arch::kAArch64, id, InstStringifyOptions::kNone, s);
    g_ids[std::string(s.data(), s.size())].push_back(id);
  }
  g_mc = new oracle::LlvmMc(oracle::Target::A64);
  atexit(flush_counters);
}

bool is_known(const std::string& key) {
  if (g.known.count(key) != 0) return true;
  for (const std::string& k : g.known) if (!k.empty() && k.back() == '*' && key.compare(0, k.size() - 1, k, 0, k.size() - 1) == 0) return true;
  return false;
}

[[noreturn]] void oracle_fail(const std::string& key, const std::string& msg, const std::string& script) {
  fprintf(stderr, "ORACLE %s: %s\nscript: %s\n", key.c_str(), msg.c_str(), script.c_str());
  flush_counters();
  __builtin_trap();
}

// a listed known finding is routed around (counted), anything else traps
void fail_or_known(const std::string& key, const std::string& msg, const std::string& script) {
  if (is_known(key)) { g.known_hits[key]++; return; }
  oracle_fail(key, msg, script);
}

struct Thrown { Error err; };

class RecHandler : public ErrorHandler {
public:
  int calls = 0; Error last = Error::kOk; bool throwing = false;
  void handle_error(Error err, const char*, BaseEmitter*) override { calls++; last = err; if (throwing) throw Thrown{err}; }
};

struct Snap {
  size_t sections = 0, labels = 0, relocs = 0, fixups = 0, nodes = 0; std::vector<size_t> sizes;
  const void* cursor = nullptr; const void* first = nullptr; const void* last = nullptr; const void* handler = nullptr;
  uint32_t eflags = 0, enc = 0, diag = 0, forced = 0;
  bool operator==(const Snap& o) const {
    return sections == o.sections && labels == o.labels && relocs == o.relocs && fixups == o.fixups && nodes == o.nodes && sizes == o.sizes &&
           cursor == o.cursor && first == o.first && last == o.last && handler == o.handler && eflags == o.eflags && enc == o.enc && diag == o.diag && forced == o.forced;
  }
};

size_t count_nodes(BaseBuilder* b) { size_t n = 0; for (BaseNode* p = b->first_node(); p; p = p->next()) n++; return n; }

Snap snap(CodeHolder& code, BaseBuilder* bb, BaseEmitter* e) {
  Snap s; s.sections = code.section_count(); s.labels = code.label_count(); s.relocs = code.reloc_entries().size(); s.fixups = code.unresolved_fixup_count();
  for (Section* sec : code.sections()) s.sizes.push_back(sec->buffer_size());
  if (bb) { s.nodes = count_nodes(bb); s.cursor = bb->cursor(); s.first = bb->first_node(); s.last = bb->last_node(); }
  s.handler = e->error_handler(); s.eflags = uint32_t(e->emitter_flags()); s.enc = uint32_t(e->encoding_options()); s.diag = uint32_t(e->diagnostic_options()); s.forced = uint32_t(e->forced_inst_options());
  return s;
}

std::string snap_text(const Snap& s) { char b[320]; size_t tot = 0; for (size_t z : s.sizes) tot += z; snprintf(b, sizeof b, "sections=%zu labels=%zu relocs=%zu fixups=%zu nodes=%zu bytes=%zu cursor=%p last=%p eflags=%x enc=%x diag=%x forced=%x", s.sections, s.labels, s.relocs, s.fixups, s.nodes, tot, s.cursor, s.last, s.eflags, s.enc, s.diag, s.forced); return b; }

void emit_probe(BaseEmitter* e) {
  a64::Emitter* a = e->as<a64::Emitter>();
  a->mov(a64::x0, 0x1234);
  a->add(a64::w1, a64::w2, a64::w3);
  a->ldr(a64::x4, a64::ptr(a64::sp, 16));
  a->fadd(a64::v1.s4(), a64::v2.s4(), a64::v3.s4());
  a->ret(a64::x30);
}

// The instruction id the typed API would use for this operand shape: several ids share one mnemonic (abs: GP and SIMD), and pairing the
// operands with the id of the other KIND is ruled out by the typed overloads. The id is the one that accepts the template's own example.
uint32_t id_of_template(size_t ti) {
  static std::vector<int64_t> cache;
  if (cache.empty()) cache.assign(g_t.size(), -1);
  if (cache[ti] >= 0) return uint32_t(cache[ti]);
  const ai::Template& t = g_t[ti];
  uint32_t found = 0;
  auto it = g_ids.find(t.name);
  if (it != g_ids.end()) {
    std::vector<int64_t> zeros(64, 0); ai::Choices ch(zeros, 0);
    ai::Inst in = ai::instantiate(t, ch, true, false);
    Operand_ ops[6]; uint32_t n = 0;
    for (const ai::Opnd& o : in.ops) if (n < 6) ops[n++] = ai::to_asmjit(o);
    for (InstId id : it->second) {
      CodeHolder c; c.init(Environment(Arch::kAArch64)); a64::Assembler a; c.attach(&a);
      if (a.emit_op_array(id, ops, n) == Error::kOk) { found = id; break; }
    }
  }
  cache[ti] = found;
  return found;
}

const uint32_t kBoundaryIds[] = {30u, 31u, 32u, 33u, 62u, 63u, 64u, 65u, 127u, 128u, 254u, 255u, 256u, 257u, 0x7FFFFFFFu, 0xFFFFFFFFu};

enum : uint32_t { kSawVirt = 1u, kSawBoundary = 2u, kSawOutOfFile = 4u, kSawLabel = 8u, kSawBadLabel = 16u, kSawPerturbed = 32u };

// perturbed register id: mostly the usual file, sometimes a boundary, the virtual range or an arbitrary word
uint32_t any_id(FuzzedDataProvider& fdp, uint32_t& saw) {
  uint32_t v = fdp.ConsumeIntegralInRange<uint32_t>(0, 63);
  if (v < 41) return v;                                   // 0..40: 32..40 are outside the file
  if (v < 52) { saw |= kSawBoundary; return kBoundaryIds[(v - 41) + (fdp.ConsumeBool() ? 5 : 0)]; }
  if (v < 60) { return Operand::kVirtIdMin + fdp.ConsumeIntegralInRange<uint32_t>(0, 40); }
  return fdp.ConsumeIntegral<uint32_t>();
}

bool gp_id_in_file(uint32_t id) { return id <= 31u || id == 63u; }
bool vec_id_in_file(uint32_t id) { return id <= 31u; }

uint32_t scan_operand(const Operand_& o) {
  uint32_t f = 0;
  if (o.is_reg()) {
    uint32_t id = o.id();
    if (Operand::is_virt_id(id)) f |= kSawVirt;
    else if (o.as<Reg>().is_gp() ? !gp_id_in_file(id) : !vec_id_in_file(id)) f |= kSawOutOfFile;
  }
  if (o.is_label()) f |= kSawLabel;
  if (o.is_mem()) {
    const BaseMem& m = o.as<BaseMem>();
    if (m.has_base_label()) f |= kSawLabel;
    if (m.has_base_reg()) { if (Operand::is_virt_id(m.base_id())) f |= kSawVirt; else if (!gp_id_in_file(m.base_id())) f |= kSawOutOfFile; }
    if (m.has_index_reg()) { if (Operand::is_virt_id(m.index_id())) f |= kSawVirt; else if (!gp_id_in_file(m.index_id())) f |= kSawOutOfFile; }
  }
  return f;
}

uint32_t pick_label(FuzzedDataProvider& fdp, const std::vector<uint32_t>& labels, uint32_t& saw) {
  saw |= kSawLabel;
  if (!labels.empty() && fdp.ConsumeIntegralInRange<int>(0, 3) != 0) return labels[fdp.ConsumeIntegralInRange<size_t>(0, labels.size() - 1)];
  saw |= kSawBadLabel;
  int k = fdp.ConsumeIntegralInRange<int>(0, 3);
  return k == 0 ? uint32_t(labels.size()) : k == 1 ? uint32_t(labels.size() + 1 + fdp.ConsumeIntegralInRange<uint32_t>(0, 300)) : k == 2 ? Globals::kInvalidId : fdp.ConsumeIntegral<uint32_t>();
}

int64_t any_imm(FuzzedDataProvider& fdp, int64_t example) {
  switch (fdp.ConsumeIntegralInRange<int>(0, 5)) {
    case 0: return example;
    case 1: return int64_t(fdp.ConsumeIntegralInRange<int>(-300, 300));
    case 2: return int64_t(uint64_t(example) + uint64_t(int64_t(fdp.ConsumeIntegralInRange<int>(-2, 2))));
    case 3: { int sh = fdp.ConsumeIntegralInRange<int>(0, 63); uint64_t v = uint64_t(1) << sh; int k = fdp.ConsumeIntegralInRange<int>(0, 3); return int64_t(k == 0 ? v : k == 1 ? v - 1 : k == 2 ? uint64_t(0) - v : v + 1); }
    case 4: return int64_t(fdp.ConsumeIntegral<int32_t>());
    default: return fdp.ConsumeIntegral<int64_t>();
  }
}

// operand of the template's kind, everything else perturbed
Operand make_operand(FuzzedDataProvider& fdp, const ai::Template& t, size_t i, const std::vector<uint32_t>& labels, std::string& txt, uint32_t& saw) {
  const std::string& sh = t.shapes[i];
  auto exi = [&](size_t k, int64_t d) -> int64_t { return (i < t.ex.size() && k < t.ex[i].size()) ? strtoll(t.ex[i][k].c_str(), nullptr, 0) : d; };
  char b[128];
  bool keep = fdp.ConsumeIntegralInRange<int>(0, 3) == 0;     // a quarter of the operands stay well-formed so that the perturbed one is reached
  if (!keep) saw |= kSawPerturbed;
  if (sh == "W" || sh == "X" || sh == "WZR" || sh == "XZR" || sh == "WSP" || sh == "SP") {
    bool w = sh[0] == 'W';
    uint32_t id = keep ? (sh.size() > 1 ? (sh[1] == 'Z' ? 63u : 31u) : fdp.ConsumeIntegralInRange<uint32_t>(0, 30)) : any_id(fdp, saw);
    snprintf(b, sizeof b, "%c%u ", w ? 'w' : 'x', id); txt += b;
    return w ? Operand(a64::Gp::make_r32(id)) : Operand(a64::Gp::make_r64(id));
  }
  if (sh.size() == 2 && sh[0] == 'S') {
    uint32_t id = keep ? fdp.ConsumeIntegralInRange<uint32_t>(0, 31) : any_id(fdp, saw);
    snprintf(b, sizeof b, "%c%u ", sh[1], id); txt += b;
    a64::Vec v;
    switch (sh[1]) { case 'b': v = a64::Vec::make_v8(id); break; case 'h': v = a64::Vec::make_v16(id); break; case 's': v = a64::Vec::make_v32(id); break; case 'd': v = a64::Vec::make_v64(id); break; default: v = a64::Vec::make_v128(id); }
    if (!keep && fdp.ConsumeIntegralInRange<int>(0, 7) == 0) { uint32_t et = fdp.ConsumeIntegralInRange<uint32_t>(0, 6); v.set_element_type(a64::VecElementType(et)); snprintf(b, sizeof b, "(et%u) ", et); txt += b; }
    return v;
  }
  if (sh.rfind("V:", 0) == 0 || sh.rfind("VE:", 0) == 0) {
    bool elem = sh[1] == 'E';
    std::string arr = sh.substr(elem ? 3 : 2);
    uint32_t id = keep ? fdp.ConsumeIntegralInRange<uint32_t>(0, 31) : any_id(fdp, saw);
    if (keep) { int lane = elem ? int(fdp.ConsumeIntegralInRange<int>(0, ai::lanes_of(arr) - 1)) : 0; snprintf(b, sizeof b, "v%u.%s[%d] ", id, arr.c_str(), lane); txt += b; return ai::vec_with(arr, int(id & 31u), elem, lane); }
    // arbitrary width (64 / 128), element type and - for element forms - index
    uint32_t et = fdp.ConsumeIntegralInRange<uint32_t>(0, 6);
    a64::Vec v;
    if (elem) { uint32_t idx = fdp.ConsumeIntegralInRange<uint32_t>(0, 15); v = a64::Vec::make_v128_with_element_index(a64::VecElementType(et), idx, id); snprintf(b, sizeof b, "v%u.et%u[%u] ", id, et, idx); }
    else { bool q = fdp.ConsumeBool(); v = q ? a64::Vec::make_v128_with_element_type(a64::VecElementType(et), id) : a64::Vec::make_v64_with_element_type(a64::VecElementType(et), id); snprintf(b, sizeof b, "v%u.%cet%u ", id, q ? 'q' : 'd', et); }
    txt += b;
    return v;
  }
  if (sh.rfind("M:", 0) == 0) {
    std::string m = sh.substr(2);
    uint32_t bid = keep ? fdp.ConsumeIntegralInRange<uint32_t>(0, 31) : any_id(fdp, saw);
    bool base_w = !keep && fdp.ConsumeIntegralInRange<int>(0, 7) == 0;
    a64::Gp base = base_w ? a64::Gp::make_r32(bid) : a64::Gp::make_r64(bid);
    int64_t off = keep ? exi(1, 0) : any_imm(fdp, exi(1, 0));
    a64::Mem mem;
    bool label_base = !keep && fdp.ConsumeIntegralInRange<int>(0, 11) == 0;
    if (label_base) { uint32_t lid = pick_label(fdp, labels, saw); mem = a64::Mem(Label(lid), int32_t(off)); snprintf(b, sizeof b, "mem[L%u%+lld] ", lid, (long long)off); txt += b; }
    else if (m == "base" || m == "off" || m == "pre" || m == "post") {
      mem = a64::Mem(base, int32_t(off));
      snprintf(b, sizeof b, "mem[%c%u%+lld] ", base_w ? 'w' : 'x', bid, (long long)off); txt += b;
      if (m == "pre") mem.make_pre_index(); else if (m == "post") mem.make_post_index();
    } else {
      uint32_t iid = keep ? fdp.ConsumeIntegralInRange<uint32_t>(0, 30) : any_id(fdp, saw);
      bool idx_x = m.find("x") != std::string::npos && m != "extw";
      if (!keep && fdp.ConsumeIntegralInRange<int>(0, 5) == 0) idx_x = !idx_x;
      a64::Gp idx = idx_x ? a64::Gp::make_r64(iid) : a64::Gp::make_r32(iid);
      if (m.rfind("ext", 0) == 0) {
        uint32_t sop = keep ? uint32_t(ai::make_shift(m.substr(5), 0).op()) : fdp.ConsumeIntegralInRange<uint32_t>(0, 13);
        uint32_t amt = keep ? uint32_t(exi(2, 0)) : (fdp.ConsumeBool() ? fdp.ConsumeIntegralInRange<uint32_t>(0, 7) : fdp.ConsumeIntegral<uint32_t>());
        mem = a64::Mem(base, idx, a64::Shift(arm::ShiftOp(sop), amt));
        snprintf(b, sizeof b, "mem[%c%u,%c%u,sop%u #%u] ", base_w ? 'w' : 'x', bid, idx_x ? 'x' : 'w', iid, sop, amt); txt += b;
      } else {
        mem = a64::Mem(base, idx);
        snprintf(b, sizeof b, "mem[%c%u,%c%u] ", base_w ? 'w' : 'x', bid, idx_x ? 'x' : 'w', iid); txt += b;
        if (m.rfind("postreg", 0) == 0) mem.make_post_index();
      }
    }
    if (!keep && fdp.ConsumeIntegralInRange<int>(0, 5) == 0) { uint32_t om = fdp.ConsumeIntegralInRange<uint32_t>(0, 2); mem.set_offset_mode(arm::OffsetMode(om)); snprintf(b, sizeof b, "(om%u) ", om); txt += b; }
    return mem;
  }
  if (sh.rfind("SH:", 0) == 0) {
    a64::Shift s0 = ai::make_shift(sh.substr(3), 0);
    uint32_t sop = keep ? uint32_t(s0.op()) : fdp.ConsumeIntegralInRange<uint32_t>(0, 13);
    uint32_t amt = keep ? uint32_t(exi(0, 0)) : (fdp.ConsumeBool() ? fdp.ConsumeIntegralInRange<uint32_t>(0, 70) : fdp.ConsumeIntegral<uint32_t>());
    snprintf(b, sizeof b, "shift(sop%u #%u) ", sop, amt); txt += b;
    return Imm(a64::Shift(arm::ShiftOp(sop), amt));
  }
  if (sh == "CC") { uint32_t cc = keep ? 2u : (fdp.ConsumeBool() ? fdp.ConsumeIntegralInRange<uint32_t>(0, 17) : fdp.ConsumeIntegral<uint32_t>()); snprintf(b, sizeof b, "cc(%u) ", cc); txt += b; return Imm(cc); }
  if (sh == "F") {
    double d = keep ? 1.0 : 0.0;
    if (!keep) { int k = fdp.ConsumeIntegralInRange<int>(0, 3); uint64_t bits = fdp.ConsumeIntegral<uint64_t>(); if (k == 0) memcpy(&d, &bits, 8); else if (k == 1) d = double(int64_t(bits) % 64) / 8.0; else if (k == 2) d = 0.0; else d = 31.0; }
    snprintf(b, sizeof b, "f(%g) ", d); txt += b;
    return Imm(d);
  }
  // "I" and anything else: immediate
  int64_t v = keep ? exi(0, 0) : any_imm(fdp, exi(0, 0));
  snprintf(b, sizeof b, "#%lld ", (long long)v); txt += b;
  return Imm(v);
}

std::string hex(const uint8_t* p, size_t n) { std::string h; char hb[4]; for (size_t i = 0; i < n && i < 64; i++) { snprintf(hb, sizeof hb, "%02x", p[i]); h += hb; } if (n > 64) h += ".."; return h; }

} // namespace

extern "C" int LLVMFuzzerTestOneInput(const uint8_t* data, size_t size) {
  init_once();
  g.execs++;
  if (size < 4) return 0;
  FuzzedDataProvider fdp(data, size);
  // one byte: emitter kind (v % 3, as in the first version so that saved inputs keep their meaning) and whether a logger is attached (v / 3)
  int ekl = fdp.ConsumeIntegralInRange<int>(0, 5);
  int ek = ekl % 3;
  const bool with_logger = ekl >= 3;
  int hk = fdp.ConsumeIntegralInRange<int>(0, 2);
  bool strict = fdp.ConsumeBool();     // kValidateAssembler: the validator is a stub on AArch64, the path around it differs
  std::string script = std::string(ek == 0 ? "asm" : ek == 1 ? "builder" : "compiler") + (strict ? "[VA]" : "") + "/a64" + (hk == 0 ? "/nohandler" : hk == 1 ? "/recording" : "/throwing") + ": ";

  CodeHolder code; code.init(Environment(Arch::kAArch64));
  a64::Assembler as; a64::Builder bd; a64::Compiler cc;
  BaseEmitter* e = ek == 0 ? static_cast<BaseEmitter*>(&as) : ek == 1 ? static_cast<BaseEmitter*>(&bd) : static_cast<BaseEmitter*>(&cc);
  BaseBuilder* bb = ek == 0 ? nullptr : (ek == 1 ? static_cast<BaseBuilder*>(&bd) : static_cast<BaseBuilder*>(&cc));
  code.attach(e);
  if (strict) e->add_diagnostic_options(DiagnosticOptions::kValidateAssembler);
  RecHandler rh; rh.throwing = hk == 2;
  if (hk != 0) e->set_error_handler(&rh);
  // a logger makes every accepted instruction (perturbed but accepted operands) go through the AArch64 formatter, machine-code column included
  StringLogger logger;
  if (with_logger) {
    logger.set_flags(FormatFlags::kMachineCode | FormatFlags::kHexImms | FormatFlags::kHexOffsets | FormatFlags::kExplainImms | FormatFlags::kRegCasts | FormatFlags::kRegType);
    e->set_logger(&logger);
    script += "(logger) ";
  }

  // shadow Assembler of a Builder / Compiler (own CodeHolder): every accepted call is repeated on it
  const bool shadow_on = ek != 0;
  CodeHolder code2; a64::Assembler sh;
  if (shadow_on) { code2.init(Environment(Arch::kAArch64)); code2.attach(&sh); if (strict) sh.add_diagnostic_options(DiagnosticOptions::kValidateAssembler); }
  bool sh_unsupported = false, sh_multi_section = false, sh_expect_fail = false, accepted_virt = false;
  size_t sh_label_reject_count = SIZE_MAX;
  std::string sh_first_reject;

  std::vector<uint32_t> labels;
  std::vector<Section*> secs; secs.push_back(code.text_section());
  size_t failed = 0, ok_after_fail = 0, ops = 0;

  while (fdp.remaining_bytes() > 0 && ops < 24) {
    ops++;
    int op = fdp.ConsumeIntegralInRange<int>(0, 15);
    Snap before = snap(code, bb, e);
    rh.calls = 0;
    Error err = Error::kOk;
    bool threw = false;
    bool is_inst = false, must_succeed = false, names_label = false, is_bind = false;
    std::string txt;
    size_t off0 = ek == 0 ? as.offset() : 0;
    const size_t log0 = logger.data_size();
    std::function<Error(BaseEmitter*, CodeHolder&)> call;
    uint32_t saw = 0, a_id = 0;
    try {
      if (op <= 8) {
        is_inst = true;
        uint32_t id = 0, n = 0; Operand_ opnds[6];
        uint32_t optbits = 0; bool inl = false;
        if (op <= 6) {
          // database shape, operand kinds kept, everything else perturbed
          size_t ti = fdp.ConsumeIntegralInRange<size_t>(0, g_t.size() - 1);
          const ai::Template& t = g_t[ti];
          id = id_of_template(ti);
          if (id == 0) { g.classes["template_without_accepting_id"]++; continue; }
          int ik = fdp.ConsumeIntegralInRange<int>(0, 31);
          // ids that name no instruction (any other real id would pair the operands with an instruction of other operand KINDS, which only the typed
          // overloads rule out on AArch64 - outside the property's domain)
          if (ik == 0) { id = fdp.ConsumeIntegral<uint32_t>(); if ((id & 0xFFFFu) < uint32_t(a64::Inst::_kIdCount)) id |= 0x7FFFu; }
          else if (ik == 1) id = fdp.ConsumeBool() ? 0u : uint32_t(a64::Inst::_kIdCount) + fdp.ConsumeIntegralInRange<uint32_t>(0, 40);
          else if (ik == 2) id |= fdp.ConsumeIntegralInRange<uint32_t>(0, 31) << 27;                              // condition-code bits on any instruction
          char b[96]; snprintf(b, sizeof b, "%s(id=%u) ", t.name.c_str(), id); txt = b;
          n = uint32_t(std::min<size_t>(t.shapes.size(), 6));
          for (uint32_t i = 0; i < n; i++) { Operand o = make_operand(fdp, t, i, labels, txt, saw); opnds[i] = o; }
          if (fdp.ConsumeIntegralInRange<int>(0, 15) == 0 && n > 0) { n--; txt += "(dropped-last) "; saw |= kSawPerturbed; }
          saw &= ~uint32_t(kSawLabel | kSawBadLabel);
          for (uint32_t i = 0; i < n; i++) { uint32_t f = scan_operand(opnds[i]); saw |= f; if ((f & kSawLabel) && !code.is_label_valid(opnds[i].as<BaseMem>().base_id())) saw |= kSawBadLabel; }
        } else {
          // label forms
          static const InstId lab_ids[] = {a64::Inst::kIdB, a64::Inst::kIdBl, a64::Inst::kIdCbz, a64::Inst::kIdCbnz, a64::Inst::kIdTbz, a64::Inst::kIdTbnz, a64::Inst::kIdAdr, a64::Inst::kIdAdrp,
                                           a64::Inst::kIdLdr, a64::Inst::kIdLdrsw, a64::Inst::kIdPrfm, a64::Inst::kIdB};
          int w = fdp.ConsumeIntegralInRange<int>(0, 11);
          id = lab_ids[w];
          uint32_t lid = pick_label(fdp, labels, saw);
          uint32_t rid = fdp.ConsumeBool() ? fdp.ConsumeIntegralInRange<uint32_t>(0, 30) : any_id(fdp, saw);
          bool x = fdp.ConsumeBool();
          Operand reg = x ? Operand(a64::Gp::make_r64(rid)) : Operand(a64::Gp::make_r32(rid));
          int64_t bit = fdp.ConsumeBool() ? int64_t(fdp.ConsumeIntegralInRange<int>(0, 63)) : any_imm(fdp, 3);
          int32_t loff = fdp.ConsumeBool() ? 0 : int32_t(any_imm(fdp, 8));
          char b[128];
          switch (w) {
            case 0: case 1: opnds[0] = Label(lid); n = 1; snprintf(b, sizeof b, "%s L%u ", w ? "bl" : "b", lid); break;
            case 11: { uint32_t c = fdp.ConsumeIntegralInRange<uint32_t>(0, 17); id |= c << 27; opnds[0] = Label(lid); n = 1; snprintf(b, sizeof b, "b.cc%u L%u ", c, lid); break; }
            case 2: case 3: opnds[0] = reg; opnds[1] = Label(lid); n = 2; snprintf(b, sizeof b, "%s %c%u, L%u ", w == 2 ? "cbz" : "cbnz", x ? 'x' : 'w', rid, lid); break;
            case 4: case 5: opnds[0] = reg; opnds[1] = Imm(bit); opnds[2] = Label(lid); n = 3; snprintf(b, sizeof b, "%s %c%u, #%lld, L%u ", w == 4 ? "tbz" : "tbnz", x ? 'x' : 'w', rid, (long long)bit, lid); break;
            case 6: case 7: opnds[0] = reg; opnds[1] = Label(lid); n = 2; snprintf(b, sizeof b, "%s %c%u, L%u ", w == 6 ? "adr" : "adrp", x ? 'x' : 'w', rid, lid); break;
            case 10: opnds[0] = Imm(bit); opnds[1] = a64::Mem(Label(lid), loff); n = 2; snprintf(b, sizeof b, "prfm #%lld, [L%u%+d] ", (long long)bit, lid, loff); break;
            default: {
              int rk = fdp.ConsumeIntegralInRange<int>(0, 3);
              if (rk == 2) reg = a64::Vec::make_v64(rid); else if (rk == 3) reg = a64::Vec::make_v128(rid);
              opnds[0] = reg; opnds[1] = a64::Mem(Label(lid), loff); n = 2; snprintf(b, sizeof b, "%s r%d.%u, [L%u%+d] ", w == 8 ? "ldr" : "ldrsw", rk, rid, lid, loff); break;
            }
          }
          txt = b;
          for (uint32_t i = 0; i < n; i++) saw |= scan_operand(opnds[i]);
        }
        names_label = (saw & kSawLabel) != 0;
        if (fdp.ConsumeIntegralInRange<int>(0, 15) == 0) inl = true;
        a_id = id;
        std::vector<Operand_> ov(opnds, opnds + n);
        call = [=](BaseEmitter* em, CodeHolder&) -> Error {
          if (optbits) em->set_inst_options(InstOptions(optbits));
          if (inl) em->set_inline_comment("c");
          return em->emit_op_array(id, ov.data(), n);
        };
        if (g.print_script) fprintf(stderr, "CALL %s%s\n", script.c_str(), txt.c_str());
        err = call(e, code);
      } else if (op == 9) {
        is_inst = true; must_succeed = true; txt = "valid-inst ";
        int w = fdp.ConsumeIntegralInRange<int>(0, 4);
        call = [=](BaseEmitter* em, CodeHolder&) -> Error {
          a64::Emitter* a = em->as<a64::Emitter>();
          switch (w) {
            case 0: return a->mov(a64::w0, 1);
            case 1: return a->add(a64::x1, a64::x2, a64::x3, a64::lsl(3));
            case 2: return a->nop();
            case 3: return a->ldp(a64::x29, a64::x30, a64::ptr_post(a64::sp, 16));
            default: return a->ret(a64::x30);
          }
        };
        err = call(e, code);
      } else if (op == 10) {
        int k = fdp.ConsumeIntegralInRange<int>(0, 3);
        if (k == 0) {
          Label L = e->new_label(); if (L.is_valid()) labels.push_back(L.id()); txt = "new_label ";
          if (shadow_on) { Label L2 = sh.new_label(); if (L2.id() != L.id()) sh_unsupported = true; }
          script += txt;
          continue;
        }
        uint32_t lid = (!labels.empty() && k != 3) ? labels[fdp.ConsumeIntegralInRange<size_t>(0, labels.size() - 1)] : fdp.ConsumeIntegral<uint32_t>();
        txt = "bind L" + std::to_string(lid) + " ";
        is_bind = true;
        // every other bind is issued with a pending inline comment (one-shot state): a failed bind has to clear it like a failed instruction does
          const bool with_comment = ek == 0 && (ops & 1) == 0;   // Assembler only: its bind() consumes the comment (logs it); a Builder's bind() never touches it, pass or fail
          if (with_comment) txt += "(comment) ";
          call = [=](BaseEmitter* em, CodeHolder&) -> Error { if (with_comment) em->set_inline_comment("one-shot"); return em->bind(Label(lid)); };
        err = call(e, code);
      } else if (op == 11) {
        uint32_t am = fdp.ConsumeIntegralInRange<uint32_t>(0, 4);
        uint32_t al = fdp.ConsumeBool() ? (1u << fdp.ConsumeIntegralInRange<uint32_t>(0, 7)) : fdp.ConsumeIntegral<uint32_t>();
        txt = "align(" + std::to_string(am) + "," + std::to_string(al) + ") ";
        call = [=](BaseEmitter* em, CodeHolder&) -> Error { return em->align(AlignMode(am), al); };
        err = call(e, code);
      } else if (op == 12) {
        size_t n = fdp.ConsumeIntegralInRange<size_t>(0, 4) * 4;
        txt = "embed(" + std::to_string(n) + ") ";
        call = [=](BaseEmitter* em, CodeHolder&) -> Error { uint8_t buf[16] = {1, 2, 3, 4, 5, 6, 7, 8, 9, 10, 11, 12, 13, 14, 15, 16}; return em->embed(buf, n); };
        err = call(e, code);
      } else if (op == 13) {
        uint32_t s0 = 0;
        uint32_t lid = pick_label(fdp, labels, s0);
        size_t sz = fdp.ConsumeIntegralInRange<size_t>(0, 9);
        names_label = true;
        if (fdp.ConsumeBool()) {
          txt = "embed_label(L" + std::to_string(lid) + "," + std::to_string(sz) + ") ";
          call = [=](BaseEmitter* em, CodeHolder&) -> Error { return em->embed_label(Label(lid), sz); };
        } else {
          uint32_t l2 = pick_label(fdp, labels, s0);
          txt = "embed_label_delta(L" + std::to_string(lid) + ",L" + std::to_string(l2) + "," + std::to_string(sz) + ") ";
          call = [=](BaseEmitter* em, CodeHolder&) -> Error { return em->embed_label_delta(Label(lid), Label(l2), sz); };
        }
        err = call(e, code);
      } else if (op == 14) {
        std::string name = fdp.ConsumeRandomLengthString(12);
        uint32_t lt = fdp.ConsumeIntegralInRange<uint32_t>(0, 5);
        uint32_t parent = (!labels.empty() && fdp.ConsumeBool()) ? labels[0] : Globals::kInvalidId;
        txt = "new_named_label(len=" + std::to_string(name.size()) + ",type=" + std::to_string(lt) + ") ";
        size_t lc = code.label_count();
        Label L = e->new_named_label(name.c_str(), name.size(), LabelType(lt), parent);
        if (shadow_on) { Label L2 = sh.new_named_label(name.c_str(), name.size(), LabelType(lt), parent); if (L2.id() != L.id()) sh_unsupported = true; }
        if (L.is_valid()) labels.push_back(L.id());
        else if (code.label_count() != lc) oracle_fail("failed-new-named-label-created-label", "new_named_label returned an invalid label but label_count grew", script + txt);
        script += txt;
        continue;
      } else {
        if (fdp.ConsumeBool() && secs.size() < 3) {
          Section* s = nullptr; uint32_t al = fdp.ConsumeBool() ? 8u : fdp.ConsumeIntegral<uint32_t>();
          std::string nm = fdp.ConsumeRandomLengthString(40);
          size_t sc = code.section_count();
          Error se = code.new_section(Out(s), nm.c_str(), nm.size(), SectionFlags::kNone, al, 0);
          txt = "new_section ";
          if (se == Error::kOk && s) secs.push_back(s); else if (code.section_count() != sc) oracle_fail("failed-new-section-created-section", "new_section failed but section_count grew", script + txt);
          if (shadow_on) { Section* s2 = nullptr; Error se2 = code2.new_section(Out(s2), nm.c_str(), nm.size(), SectionFlags::kNone, al, 0); if (se2 != se || code2.section_count() != code.section_count()) sh_unsupported = true; }
          script += txt;
          continue;
        }
        Section* s = secs[fdp.ConsumeIntegralInRange<size_t>(0, secs.size() - 1)];
        uint32_t sid = s->section_id();
        txt = "section(" + std::to_string(sid) + ") ";
        call = [=](BaseEmitter* em, CodeHolder& ch) -> Error { Section* t = ch.section_by_id(sid); return t ? em->section(t) : Error::kInvalidSection; };
        err = call(e, code);
        if (err == Error::kOk) {
          if (shadow_on) { if (sid != 0) sh_multi_section = true; if (call(&sh, code2) != Error::kOk) sh_unsupported = true; }
          script += txt;
          continue;
        }
      }
    } catch (const Thrown& t) { threw = true; err = t.err; }
    script += txt + (err == Error::kOk ? "=ok; " : std::string("=") + DebugUtils::error_as_string(err) + "; ");
    if (script.size() > 3000) script.erase(0, 1000);

    if (saw & kSawVirt) g.classes["operand_virt_id_range"]++;
    if (saw & kSawBoundary) g.classes["operand_boundary_id"]++;
    if (saw & kSawOutOfFile) g.classes["operand_id_outside_register_file"]++;
    if (saw & kSawBadLabel) g.classes["invalid_label_id"]++;
    if (is_inst && names_label) g.classes["label_form"]++;

    Snap after = snap(code, bb, e);
    if (must_succeed && err != Error::kOk) oracle_fail("valid-instruction-failed-after-errors", std::string("a valid instruction failed with ") + DebugUtils::error_as_string(err), script);
    if (err != Error::kOk) {
      failed++;
      g.classes[is_inst ? "failed_instruction" : "failed_other_call"]++;
      // bind() that reports kInvalidDisplacement has bound the label and resolved the fixups it could (documented behaviour of
      // CodeHolder::bind_label: the unresolvable fixup stays pending) - it creates nothing: fixups may only go down, everything else is unchanged
      if (is_bind && err == Error::kInvalidDisplacement && after.fixups <= before.fixups) { g.classes["bind_reports_unresolvable_fixup"]++; after.fixups = before.fixups; }
      if (!(before == after)) oracle_fail("failed-call-changed-state", "before: " + snap_text(before) + " after: " + snap_text(after), script);
      if (hk != 0 && rh.calls != 1) oracle_fail("handler-call-count", "error " + std::string(DebugUtils::error_as_string(err)) + " but the handler was invoked " + std::to_string(rh.calls) + " times", script);
      if (hk != 0 && rh.last != err) oracle_fail("handler-error-code-differs", "returned " + std::string(DebugUtils::error_as_string(err)) + ", handler saw " + DebugUtils::error_as_string(rh.last), script);
      if (hk == 2 && !threw) oracle_fail("throwing-handler-swallowed", "handler threw but the call returned normally", script);
      if (e->inst_options() != InstOptions::kNone || e->extra_reg().is_reg() || e->inline_comment() != nullptr)
        oracle_fail("one-shot-state-not-cleared-after-failure", "inst_options/extra_reg/inline_comment still set after a failed call", script);
    } else {
      if (failed) ok_after_fail++;
      if (hk != 0 && rh.calls != 0) oracle_fail("handler-invoked-on-success", "call returned kOk but the handler was invoked", script);
      if (is_inst) {
        g.classes["accepted_instruction"]++;
        if (saw & kSawPerturbed) g.classes["accepted_perturbed_instruction"]++;
        if (e->inst_options() != InstOptions::kNone || e->extra_reg().is_reg() || e->inline_comment() != nullptr)
          oracle_fail("one-shot-state-not-cleared-after-success", "inst_options/extra_reg/inline_comment still set after an instruction was emitted", script);
        if (ek == 0 && with_logger) {
          if (logger.data_size() <= log0) oracle_fail("accepted-instruction-not-logged", "an accepted instruction left no line in the attached logger", script);
          g.classes["accepted_instruction_logged"]++;
        }
        if (ek == 0) {
          size_t n = as.offset() - off0;
          const uint8_t* p = as.buffer_data() + off0;
          // one word; `mov Rd, #imm` is a documented macro of up to four movz/movk words
          const bool is_mov = (a_id & 0xFFFFu) == a64::Inst::kIdMov;
          if (n != 4 && !(is_mov && n >= 4 && n <= 16 && n % 4 == 0)) fail_or_known("accepted-instruction-not-one-word", "accepted instruction appended " + std::to_string(n) + " bytes: " + hex(p, n), script);
          else {
            if (saw & kSawOutOfFile) fail_or_known("accepted-register-id-outside-register-file", "accepted an instruction naming a physical register id the register file does not have; word " + hex(p, n), script);
            if (saw & kSawVirt) fail_or_known("assembler-accepted-virtual-register-id", "the Assembler accepted a register id of the virtual range; word " + hex(p, n), script);
            size_t dec = 0; for (size_t k = 0; k < n; k += 4) dec += g_mc->decode(p + k, 4).length == 4;
            g.classes[dec * 4 == n ? "accepted_llvm_decodes" : "accepted_llvm_cannot_decode"]++;
            // history independence: the same call on a fresh Assembler gives the same word (label-free calls)
            if (!names_label) {
              CodeHolder c3; c3.init(Environment(Arch::kAArch64)); a64::Assembler a3; c3.attach(&a3);
              if (strict) a3.add_diagnostic_options(DiagnosticOptions::kValidateAssembler);
              Error e3 = call(&a3, c3);
              if (e3 != Error::kOk || a3.offset() != n || memcmp(a3.buffer_data(), p, n) != 0)
                oracle_fail("accepted-word-depends-on-history", "fresh assembler: " + std::string(DebugUtils::error_as_string(e3)) + " " + hex(a3.buffer_data(), a3.offset()) + " vs " + hex(p, n), script);
              g.classes["fresh_assembler_same_word"]++;
            }
          }
        } else {
          if (after.nodes != before.nodes + 1) oracle_fail("builder-accepted-without-one-node", "accepted instruction changed the node count from " + std::to_string(before.nodes) + " to " + std::to_string(after.nodes), script);
          if (saw & kSawVirt) accepted_virt = true;
        }
      }
      // mirror on the shadow
      if (shadow_on && call && !sh_unsupported) {
        Error e2 = call(&sh, code2);
        if (e2 != Error::kOk) {
          g.classes["builder_accepted_shadow_rejects"]++;
          if (!sh_expect_fail) { sh_expect_fail = true; sh_first_reject = txt + "=" + DebugUtils::error_as_string(e2); if (names_label) sh_label_reject_count = code.label_count(); }
        }
      }
    }
  }

  // ---- serialisation differential (Builder; Compiler only without virtual ids - no function, so no register allocation)
  const bool label_created_later = sh_label_reject_count != SIZE_MAX && code.label_count() > sh_label_reject_count;   // the deferred call may have become valid
  if (shadow_on && !sh_unsupported && !(ek == 2 && accepted_virt) && !label_created_later) {
    rh.calls = 0;
    Error fe = Error::kOk;
    try { fe = bb->finalize(); } catch (const Thrown& t) { fe = t.err; }
    // a pending (unbound) label is reported by neither path at this point; only the encoding verdict is compared
    if (sh_expect_fail) {
      if (fe == Error::kOk) fail_or_known("builder-serialises-what-assembler-rejects", "the Assembler rejects '" + sh_first_reject + "' but finalize() of the same nodes succeeded", script);
      else g.classes["finalize_failed_as_expected"]++;
    } else if (fe != Error::kOk) {
      fail_or_known("builder-finalize-fails-where-assembler-accepts", std::string("finalize() failed with ") + DebugUtils::error_as_string(fe) + " although the Assembler accepted every call", script);
    } else if (!sh_multi_section) {
      Section* t1 = code.text_section(); Section* t2 = code2.text_section();
      bool same = code.section_count() == code2.section_count();
      for (size_t i = 0; same && i < code.section_count(); i++) {
        Section* a = code.sections()[i]; Section* b = code2.sections()[i];
        same = a->buffer_size() == b->buffer_size() && (a->buffer_size() == 0 || memcmp(a->data(), b->data(), a->buffer_size()) == 0);
      }
      if (!same) oracle_fail("builder-bytes-differ-from-assembler", "builder: " + hex(t1->data(), t1->buffer_size()) + " assembler: " + hex(t2->data(), t2->buffer_size()), script);
      if (code.reloc_entries().size() != code2.reloc_entries().size() || code.unresolved_fixup_count() != code2.unresolved_fixup_count())
        oracle_fail("builder-relocs-or-fixups-differ-from-assembler", "relocs " + std::to_string(code.reloc_entries().size()) + "/" + std::to_string(code2.reloc_entries().size()) + " fixups " + std::to_string(code.unresolved_fixup_count()) + "/" + std::to_string(code2.unresolved_fixup_count()), script);
      for (uint32_t lid : labels) {
        if (code.is_label_bound(lid) != code2.is_label_bound(lid) || (code.is_label_bound(lid) && code.label_offset(lid) != code2.label_offset(lid)))
          oracle_fail("builder-label-offset-differs-from-assembler", "label " + std::to_string(lid), script);
      }
      g.classes["builder_bytes_equal_assembler"]++;
    } else g.classes["builder_multi_section_not_compared"]++;
  } else if (shadow_on) g.classes["builder_no_differential"]++;

  // ---- probe: after any history the Assembler emits what a fresh one does
  if (ek == 0) {
    rh.calls = 0;
    size_t o0 = as.offset();
    try { emit_probe(&as); } catch (const Thrown&) { oracle_fail("probe-threw", "the probe program reported an error after the history", script); }
    CodeHolder c4; c4.init(Environment(Arch::kAArch64)); a64::Assembler a4; c4.attach(&a4);
    emit_probe(&a4);
    if (as.offset() - o0 != a4.offset() || memcmp(as.buffer_data() + o0, a4.buffer_data(), a4.offset()) != 0)
      oracle_fail("probe-differs-after-history", "probe after history: " + hex(as.buffer_data() + o0, as.offset() - o0) + " fresh: " + hex(a4.buffer_data(), a4.offset()), script);
    g.classes["probe_equal"]++;
  }

  if (failed && ok_after_fail) g.nontrivial++;
  g.hashes.insert(fnv(data, size));
  if (g.samples.size() < 12 && failed && ok_after_fail && (g.execs % 97) == 0) g.samples.push_back(script.substr(0, 400));
  if (g.print_script) fprintf(stderr, "SCRIPT %s\n", script.c_str());
  return 0;
}
