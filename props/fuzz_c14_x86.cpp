// C14 — Invalid input is rejected with an error and leaves emitter state untouched (x86-32 / x86-64, strict validation).
//
// libFuzzer target: bytes -> script of public-API calls on an Assembler / Builder / Compiler with arbitrary instruction ids, option bits,
// extra registers and 0..6 arbitrary operands (built only through public constructors and setters), interleaved with valid instructions
// and with label / align / embed / section calls given valid and invalid arguments; error handler none / recording / throwing.
// Oracle (inside the target): no sanitizer report; a failed call returns != kOk, invokes the handler exactly once with that code,
// appends nothing, creates no label / fixup / relocation / section / node, clears the one-shot instruction state — also when the handler
// throws; a successful instruction on the Assembler appends bytes that LLVM MC decodes as complete instruction(s) of exactly that length;
// at the end a fixed probe program must come out byte-identical to a fresh emitter's.
#include <fuzzer/FuzzedDataProvider.h>

#include <asmjit/core.h>
#include <asmjit/x86.h>
#include "oracle/llvm_mc.h"

#include <cstdio>
#include <cstdlib>
#include <cstring>
#include <map>
#include <set>
#include <string>
#include <unordered_set>
#include <vector>

using namespace asmjit;

namespace {

struct Counters {
  uint64_t execs = 0, nontrivial = 0;
  std::map<std::string, uint64_t> classes, known_hits;
  std::unordered_set<uint64_t> hashes;
  std::vector<std::string> samples;
  std::set<std::string> known;
  bool inited = false;
} g;

uint64_t fnv(const uint8_t* p, size_t n) { uint64_t h = 1469598103934665603ull; for (size_t i = 0; i < n; i++) { h ^= p[i]; h *= 1099511628211ull; } return h; }

void flush_counters() {
  const char* path = getenv("VH_COUNTERS");
  if (!path) return;
  FILE* f = fopen(path, "w");
  if (!f) return;
  fprintf(f, "{\"evaluations\": %llu, \"nontrivial_evals\": %llu, \"classes\": {", (unsigned long long)g.execs, (unsigned long long)g.nontrivial);
  bool first = true;
  for (auto& kv : g.classes) { fprintf(f, "%s\"%s\": %llu", first ? "" : ", ", kv.first.c_str(), (unsigned long long)kv.second); first = false; }
  fprintf(f, "}, \"known_hits\": {");
  first = true;
  for (auto& kv : g.known_hits) { fprintf(f, "%s\"%s\": %llu", first ? "" : ", ", kv.first.c_str(), (unsigned long long)kv.second); first = false; }
  fprintf(f, "}, \"samples\": [");
  first = true;
  for (auto& s : g.samples) { std::string e; for (char c : s) { if (c == '"' || c == '\\') e += '\\'; if ((unsigned char)c >= 0x20) e += c; } fprintf(f, "%s\"%s\"", first ? "" : ", ", e.c_str()); first = false; }
  fprintf(f, "]}\n");
  fclose(f);
  std::string hp(path); hp = hp.substr(0, hp.size() - 5) + ".hashes";
  FILE* h = fopen(hp.c_str(), "wb");
  if (h) { std::vector<uint64_t> v(g.hashes.begin(), g.hashes.end()); if (!v.empty()) fwrite(v.data(), 8, v.size(), h); fclose(h); }
}

void init_once() {
  if (g.inited) return;
  g.inited = true;
  const char* k = getenv("VH_KNOWN");
  if (k) { std::string s(k); size_t p = 0; while (p <= s.size()) { size_t q = s.find(',', p); if (q == std::string::npos) q = s.size(); if (q > p) g.known.insert(s.substr(p, q - p)); p = q + 1; } }
  atexit(flush_counters);
}

bool is_known(const std::string& key) { return g.known.count(key) != 0; }

[[noreturn]] void oracle_fail(const std::string& key, const std::string& msg, const std::string& script) {
  fprintf(stderr, "ORACLE %s: %s\nscript: %s\n", key.c_str(), msg.c_str(), script.c_str());
  flush_counters();
  __builtin_trap();
}

struct Thrown { Error err; };

class RecHandler : public ErrorHandler {
public:
  int calls = 0; Error last = Error::kOk; bool throwing = false;
  void handle_error(Error err, const char*, BaseEmitter*) override { calls++; last = err; if (throwing) throw Thrown{err}; }
};

struct Snap {
  size_t sections = 0, labels = 0, relocs = 0, fixups = 0, nodes = 0; std::vector<size_t> sizes;
  bool operator==(const Snap& o) const { return sections == o.sections && labels == o.labels && relocs == o.relocs && fixups == o.fixups && nodes == o.nodes && sizes == o.sizes; }
};

size_t count_nodes(BaseBuilder* b) { size_t n = 0; for (BaseNode* p = b->first_node(); p; p = p->next()) n++; return n; }

Snap snap(CodeHolder& code, BaseBuilder* bb) {
  Snap s; s.sections = code.section_count(); s.labels = code.label_count(); s.relocs = code.reloc_entries().size(); s.fixups = code.unresolved_fixup_count();
  for (Section* sec : code.sections()) s.sizes.push_back(sec->buffer_size());
  if (bb) s.nodes = count_nodes(bb);
  return s;
}

std::string snap_text(const Snap& s) { char b[160]; size_t tot = 0; for (size_t z : s.sizes) tot += z; snprintf(b, sizeof b, "sections=%zu labels=%zu relocs=%zu fixups=%zu nodes=%zu bytes=%zu", s.sections, s.labels, s.relocs, s.fixups, s.nodes, tot); return b; }

oracle::LlvmMc* g_mc32 = nullptr; oracle::LlvmMc* g_mc64 = nullptr;

void emit_probe(BaseEmitter* e, int mode) {
  x86::Emitter* x = e->as<x86::Emitter>();
  x->mov(x86::eax, 0x11223344);
  x->add(x86::ecx, x86::edx);
  x->lea(x86::eax, x86::ptr(x86::ebx, x86::esi, 2, 16));
  if (mode == 64) x->mov(x86::r9, x86::qword_ptr(x86::rsp, 8));
  x->movaps(x86::xmm1, x86::xmm2);
  x->ret();
}

Operand make_operand(FuzzedDataProvider& fdp, std::vector<uint32_t>& valid_labels, std::string& txt, int mode) {
  int kind = fdp.ConsumeIntegralInRange<int>(0, 7);
  char b[96];
  switch (kind) {
    case 0: txt += "none "; return Operand();
    case 1: case 5: {
      uint32_t t = kind == 5 ? (fdp.ConsumeBool() ? uint32_t(RegType::kGp32) : uint32_t(RegType::kGp64)) : fdp.ConsumeIntegralInRange<uint32_t>(0, 31);
      uint32_t id = fdp.ConsumeIntegralInRange<int>(0, 7) == 0 ? fdp.ConsumeIntegral<uint32_t>() : fdp.ConsumeIntegralInRange<uint32_t>(0, kind == 5 ? 15 : 40);
      snprintf(b, sizeof b, "reg(t%u,%u) ", t, id); txt += b;
      return Reg::from_type_and_id(RegType(t), id);
    }
    case 2: case 6: {
      int bk = fdp.ConsumeIntegralInRange<int>(0, 4);
      uint32_t shift = fdp.ConsumeIntegralInRange<uint32_t>(0, 3);
      int32_t off = fdp.ConsumeBool() ? fdp.ConsumeIntegral<int32_t>() : int32_t(fdp.ConsumeIntegralInRange<int>(-130, 130));
      uint32_t size = fdp.ConsumeBool() ? fdp.ConsumeIntegralInRange<uint32_t>(0, 64) : 0;
      bool has_index = fdp.ConsumeBool();
      uint32_t it = fdp.ConsumeBool() ? uint32_t(mode == 64 ? RegType::kGp64 : RegType::kGp32) : fdp.ConsumeIntegralInRange<uint32_t>(0, 31);
      uint32_t iid = fdp.ConsumeIntegralInRange<uint32_t>(0, 40);
      Reg index = Reg::from_type_and_id(RegType(it), iid);
      x86::Mem m;
      if (bk <= 1) {
        uint32_t bt = bk == 0 ? uint32_t(mode == 64 ? RegType::kGp64 : RegType::kGp32) : fdp.ConsumeIntegralInRange<uint32_t>(0, 31);
        uint32_t bid = fdp.ConsumeIntegralInRange<uint32_t>(0, 40);
        Reg base = Reg::from_type_and_id(RegType(bt), bid);
        m = has_index ? x86::Mem(base, index, shift, off, size) : x86::Mem(base, off, size);
        snprintf(b, sizeof b, "mem[t%u.%u%s+%d]/%u ", bt, bid, has_index ? "+idx" : "", off, size); txt += b;
      } else if (bk == 2) {
        uint32_t lid = (!valid_labels.empty() && fdp.ConsumeBool()) ? valid_labels[fdp.ConsumeIntegralInRange<size_t>(0, valid_labels.size() - 1)] : fdp.ConsumeIntegral<uint32_t>();
        Label L(lid);
        m = has_index ? x86::Mem(L, index, shift, off, size) : x86::Mem(L, off, size);
        snprintf(b, sizeof b, "mem[L%u%s+%d]/%u ", lid, has_index ? "+idx" : "", off, size); txt += b;
      } else {
        uint64_t abs = fdp.ConsumeBool() ? fdp.ConsumeIntegral<uint64_t>() : uint64_t(uint32_t(off));
        m = has_index ? x86::Mem(abs, index, shift, size) : x86::Mem(abs, size);
        snprintf(b, sizeof b, "mem[abs %llx%s]/%u ", (unsigned long long)abs, has_index ? "+idx" : "", size); txt += b;
      }
      if (fdp.ConsumeBool()) m.set_segment(fdp.ConsumeIntegralInRange<uint32_t>(0, 7));
      if (fdp.ConsumeIntegralInRange<int>(0, 3) == 0) m.set_broadcast(x86::Mem::Broadcast(fdp.ConsumeIntegralInRange<uint32_t>(0, 7)));
      if (fdp.ConsumeIntegralInRange<int>(0, 3) == 0) m.set_addr_type(x86::Mem::AddrType(fdp.ConsumeIntegralInRange<uint32_t>(0, 3)));
      return m;
    }
    case 3: { int64_t v = fdp.ConsumeBool() ? fdp.ConsumeIntegral<int64_t>() : int64_t(fdp.ConsumeIntegralInRange<int>(-200, 300)); snprintf(b, sizeof b, "imm(%lld) ", (long long)v); txt += b; return Imm(v); }
    case 4: {
      uint32_t lid = (!valid_labels.empty() && fdp.ConsumeBool()) ? valid_labels[fdp.ConsumeIntegralInRange<size_t>(0, valid_labels.size() - 1)] : fdp.ConsumeIntegral<uint32_t>();
      snprintf(b, sizeof b, "L%u ", lid); txt += b;
      return Label(lid);
    }
    default: {
      // well-formed vector / mask registers to reach deeper into the encoder
      static const RegType vt[] = {RegType::kVec128, RegType::kVec256, RegType::kVec512, RegType::kMask, RegType::kGp8Lo, RegType::kGp8Hi, RegType::kGp16, RegType::kX86_Mm};
      RegType t = vt[fdp.ConsumeIntegralInRange<int>(0, 7)];
      uint32_t id = fdp.ConsumeIntegralInRange<uint32_t>(0, 33);
      snprintf(b, sizeof b, "reg(t%u,%u) ", uint32_t(t), id); txt += b;
      return Reg::from_type_and_id(t, id);
    }
  }
}

} // namespace

extern "C" int LLVMFuzzerTestOneInput(const uint8_t* data, size_t size) {
  init_once();
  if (!g_mc64) { g_mc32 = new oracle::LlvmMc(oracle::Target::X86_32); g_mc64 = new oracle::LlvmMc(oracle::Target::X86_64); }
  g.execs++;
  if (size < 4) return 0;
  FuzzedDataProvider fdp(data, size);
  int ek = fdp.ConsumeIntegralInRange<int>(0, 2);
  int mode = fdp.ConsumeBool() ? 32 : 64;
  int hk = fdp.ConsumeIntegralInRange<int>(0, 2);
  Arch arch = mode == 64 ? Arch::kX64 : Arch::kX86;
  std::string script = std::string(ek == 0 ? "asm" : ek == 1 ? "builder" : "compiler") + (mode == 64 ? "/x64" : "/x86") + (hk == 0 ? "/nohandler" : hk == 1 ? "/recording" : "/throwing") + ": ";

  // Known finding (excluded while listed): x86-32 memory operand with an invalid label id -> label_entry_of() out of bounds
  const bool avoid_x86_32_bad_label = is_known("x86-32-invalid-label-in-mem-oob") && mode == 32;

  CodeHolder code; code.init(Environment(arch));
  x86::Assembler as; x86::Builder bd; x86::Compiler cc;
  BaseEmitter* e = ek == 0 ? static_cast<BaseEmitter*>(&as) : ek == 1 ? static_cast<BaseEmitter*>(&bd) : static_cast<BaseEmitter*>(&cc);
  BaseBuilder* bb = ek == 0 ? nullptr : static_cast<BaseBuilder*>(ek == 1 ? static_cast<BaseBuilder*>(&bd) : static_cast<BaseBuilder*>(&cc));
  code.attach(e);
  e->add_diagnostic_options(DiagnosticOptions::kValidateAssembler | DiagnosticOptions::kValidateIntermediate);
  RecHandler rh; rh.throwing = hk == 2;
  if (hk != 0) e->set_error_handler(&rh);
  oracle::LlvmMc& mc = mode == 64 ? *g_mc64 : *g_mc32;

  std::vector<uint32_t> labels; std::vector<uint32_t> bound;
  std::vector<Section*> secs; secs.push_back(code.text_section());
  size_t failed = 0, ok_after_fail = 0, ops = 0;
  bool emitter_valid = true;

  while (fdp.remaining_bytes() > 0 && ops < 24 && emitter_valid) {
    ops++;
    int op = fdp.ConsumeIntegralInRange<int>(0, 15);
    Snap before = snap(code, bb);
    rh.calls = 0;
    Error err = Error::kOk;
    bool threw = false; Error thrown = Error::kOk;
    bool is_inst = false, must_succeed = false;
    std::string txt;
    size_t off0 = ek == 0 ? as.offset() : 0;
    try {
      if (op <= 7) {
        // arbitrary instruction
        is_inst = true;
        uint32_t id = fdp.ConsumeIntegralInRange<uint32_t>(0, uint32_t(x86::Inst::_kIdCount) + 40);
        if (fdp.ConsumeIntegralInRange<int>(0, 15) == 0) id = fdp.ConsumeIntegral<uint32_t>();
        uint32_t optbits = fdp.ConsumeBool() ? 0 : (fdp.ConsumeIntegral<uint32_t>() & 0xCFEFFFF7u);   // every DEFINED InstOptions bit (undefined bits are outside the typed API)
        bool has_extra = fdp.ConsumeIntegralInRange<int>(0, 3) == 0;
        uint32_t n = fdp.ConsumeIntegralInRange<uint32_t>(0, 6);
        Operand_ opnds[6];
        char b[64]; snprintf(b, sizeof b, "inst(%u,opt=%x) ", id, optbits); txt = b;
        bool bad_label_mem32 = false;
        for (uint32_t i = 0; i < n; i++) {
          Operand o = make_operand(fdp, labels, txt, mode);
          if (o.is_mem() && o.as<x86::Mem>().has_base_label() && !code.is_label_valid(o.as<x86::Mem>().base_id())) bad_label_mem32 = true;
          opnds[i] = o;
        }
        if (avoid_x86_32_bad_label && bad_label_mem32) { g.known_hits["x86-32-invalid-label-in-mem-oob"]++; continue; }
        if (has_extra) { Reg xr = Reg::from_type_and_id(RegType(fdp.ConsumeIntegralInRange<uint32_t>(0, 31)), fdp.ConsumeIntegralInRange<uint32_t>(0, 40)); e->set_extra_reg(xr); txt += "extra "; }
        e->set_inst_options(InstOptions(optbits));
        if (fdp.ConsumeIntegralInRange<int>(0, 7) == 0) e->set_inline_comment("c");
        err = e->emit_op_array(id, opnds, n);
      } else if (op == 8) {
        is_inst = true; must_succeed = true; txt = "valid-inst ";
        x86::Emitter* x = e->as<x86::Emitter>();
        switch (fdp.ConsumeIntegralInRange<int>(0, 4)) {
          case 0: err = x->mov(x86::eax, 1); break;
          case 1: err = x->add(x86::ecx, x86::dword_ptr(x86::esp, 4)); break;
          case 2: err = x->nop(); break;
          case 3: err = x->paddd(x86::xmm0, x86::xmm1); break;
          default: err = x->ret(); break;
        }
      } else if (op == 9) {
        int k = fdp.ConsumeIntegralInRange<int>(0, 3);
        if (k == 0) { Label L = e->new_label(); if (L.is_valid()) labels.push_back(L.id()); txt = "new_label "; }
        else {
          uint32_t lid = (!labels.empty() && k != 3) ? labels[fdp.ConsumeIntegralInRange<size_t>(0, labels.size() - 1)] : fdp.ConsumeIntegral<uint32_t>();
          txt = "bind L" + std::to_string(lid) + " ";
          err = e->bind(Label(lid));
          if (err == Error::kOk) bound.push_back(lid);
        }
      } else if (op == 10) {
        uint32_t am = fdp.ConsumeIntegralInRange<uint32_t>(0, 4);
        uint32_t al = fdp.ConsumeBool() ? (1u << fdp.ConsumeIntegralInRange<uint32_t>(0, 7)) : fdp.ConsumeIntegral<uint32_t>();
        txt = "align(" + std::to_string(am) + "," + std::to_string(al) + ") ";
        err = e->align(AlignMode(am), al);
      } else if (op == 11) {
        uint8_t buf[16] = {1, 2, 3, 4, 5, 6, 7, 8, 9, 10, 11, 12, 13, 14, 15, 16};
        size_t n = fdp.ConsumeIntegralInRange<size_t>(0, 16);
        txt = "embed(" + std::to_string(n) + ") ";
        err = e->embed(buf, n);
      } else if (op == 12) {
        uint32_t lid = (!labels.empty() && fdp.ConsumeBool()) ? labels[fdp.ConsumeIntegralInRange<size_t>(0, labels.size() - 1)] : fdp.ConsumeIntegral<uint32_t>();
        size_t sz = fdp.ConsumeIntegralInRange<size_t>(0, 9);
        if (fdp.ConsumeBool()) { txt = "embed_label(L" + std::to_string(lid) + "," + std::to_string(sz) + ") "; err = e->embed_label(Label(lid), sz); }
        else { uint32_t l2 = (!labels.empty() && fdp.ConsumeBool()) ? labels[fdp.ConsumeIntegralInRange<size_t>(0, labels.size() - 1)] : fdp.ConsumeIntegral<uint32_t>(); txt = "embed_label_delta(L" + std::to_string(lid) + ",L" + std::to_string(l2) + "," + std::to_string(sz) + ") "; err = e->embed_label_delta(Label(lid), Label(l2), sz); }
      } else if (op == 13) {
        std::string name = fdp.ConsumeRandomLengthString(12);
        uint32_t lt = fdp.ConsumeIntegralInRange<uint32_t>(0, 5);
        uint32_t parent = (!labels.empty() && fdp.ConsumeBool()) ? labels[0] : Globals::kInvalidId;
        txt = "new_named_label(len=" + std::to_string(name.size()) + ",type=" + std::to_string(lt) + ") ";
        size_t lc = code.label_count();
        Label L = e->new_named_label(name.c_str(), name.size(), LabelType(lt), parent);
        if (L.is_valid()) labels.push_back(L.id());
        else { err = Error::kInvalidLabelName; if (code.label_count() != lc) oracle_fail("failed-new-named-label-created-label", "new_named_label returned an invalid label but label_count grew", script + txt); before = snap(code, bb); continue; }
        before = snap(code, bb);   // a successful creation legitimately changes the label count
        continue;
      } else if (op == 14) {
        if (fdp.ConsumeBool() && secs.size() < 4) {
          Section* s = nullptr; uint32_t al = fdp.ConsumeBool() ? 8u : fdp.ConsumeIntegral<uint32_t>();
          std::string nm = fdp.ConsumeRandomLengthString(40);
          size_t sc = code.section_count();
          Error se = code.new_section(Out(s), nm.c_str(), nm.size(), SectionFlags::kNone, al, 0);
          txt = "new_section ";
          if (se == Error::kOk && s) secs.push_back(s); else if (code.section_count() != sc) oracle_fail("failed-new-section-created-section", "new_section failed but section_count grew", script + txt);
          continue;
        }
        Section* s = secs[fdp.ConsumeIntegralInRange<size_t>(0, secs.size() - 1)];
        txt = "section ";
        err = e->section(s);
        if (err == Error::kOk) continue;
      } else {
        std::string cmt = fdp.ConsumeRandomLengthString(20);
        txt = "comment ";
        err = e->comment(cmt.c_str(), cmt.size());
        if (err == Error::kOk) continue;
      }
    } catch (const Thrown& t) { threw = true; thrown = t.err; err = t.err; }
    script += txt + (err == Error::kOk ? "=ok; " : std::string("=") + DebugUtils::error_as_string(err) + "; ");
    if (script.size() > 3000) script.erase(0, 1000);

    Snap after = snap(code, bb);
    if (must_succeed && err != Error::kOk) oracle_fail("valid-instruction-failed-after-errors", std::string("a valid instruction failed with ") + DebugUtils::error_as_string(err), script);
    if (err != Error::kOk) {
      failed++;
      g.classes[is_inst ? "failed_instruction" : "failed_other_call"]++;
      if (!(before == after)) oracle_fail("failed-call-changed-state", "before: " + snap_text(before) + " after: " + snap_text(after), script);
      if (hk != 0 && rh.calls != 1) oracle_fail("handler-call-count", "error " + std::string(DebugUtils::error_as_string(err)) + " but the handler was invoked " + std::to_string(rh.calls) + " times", script);
      if (hk != 0 && rh.last != err) oracle_fail("handler-error-code-differs", "returned " + std::string(DebugUtils::error_as_string(err)) + ", handler saw " + DebugUtils::error_as_string(rh.last), script);
      if (hk == 2 && !threw) oracle_fail("throwing-handler-swallowed", "handler threw but the call returned normally", script);
      if (e->inst_options() != InstOptions::kNone || e->extra_reg().is_reg() || e->inline_comment() != nullptr)
        oracle_fail("one-shot-state-not-cleared-after-failure", "inst_options/extra_reg/inline_comment still set after a failed call", script);
    } else {
      if (failed) ok_after_fail++;
      if (hk != 0 && rh.calls != 0) oracle_fail("handler-invoked-on-success", "call returned kOk but the handler was invoked", script);
      if (is_inst) {
        if (e->inst_options() != InstOptions::kNone || e->extra_reg().is_reg() || e->inline_comment() != nullptr)
          oracle_fail("one-shot-state-not-cleared-after-success", "inst_options/extra_reg/inline_comment still set after an instruction was emitted", script);
        if (ek == 0) {
          size_t n = as.offset() - off0;
          const uint8_t* p = as.buffer_data() + off0;
          if (n == 0) { g.classes["accepted_no_bytes"]++; }
          else if (after.relocs == before.relocs && after.fixups == before.fixups) {
            size_t consumed = 0; int cnt = 0;
            while (consumed < n && cnt < 8) { oracle::Decoded d = mc.decode(p + consumed, n - consumed); if (!d.length) break; consumed += d.length; cnt++; }
            if (cnt == 0) g.classes["accepted_llvm_cannot_decode"]++;
            else if (consumed != n) {
              std::string hx; char hb[4]; for (size_t i = 0; i < n; i++) { snprintf(hb, sizeof hb, "%02x", p[i]); hx += hb; }
              if (!is_known("accepted-bytes-not-whole-instructions")) oracle_fail("accepted-bytes-not-whole-instructions", "accepted instruction appended " + hx + " of which LLVM decodes only " + std::to_string(consumed) + " bytes", script);
              g.known_hits["accepted-bytes-not-whole-instructions"]++;
            } else g.classes["accepted_decodes_fully"]++;
          }
        }
        g.classes["accepted_instruction"]++;
      }
    }
  }

  // ---- probe: the emitter must produce exactly what a fresh one produces ----
  try {
    if (ek == 0) {
      as.section(code.text_section());
      size_t o0 = as.offset();
      emit_probe(&as, mode);
      std::vector<uint8_t> got(as.buffer_data() + o0, as.buffer_data() + as.offset());
      CodeHolder c2; c2.init(Environment(arch)); x86::Assembler a2(&c2); a2.add_diagnostic_options(DiagnosticOptions::kValidateAssembler); emit_probe(&a2, mode);
      std::vector<uint8_t> want(a2.buffer_data(), a2.buffer_data() + a2.offset());
      if (got != want) oracle_fail("probe-differs-after-history", "the probe program differs from a fresh assembler's output", script);
    } else {
      size_t n0 = count_nodes(bb);
      emit_probe(e, mode);
      if (count_nodes(bb) - n0 != (mode == 64 ? 6u : 5u)) oracle_fail("probe-node-count", "the probe program created an unexpected number of nodes", script);
    }
  } catch (const Thrown&) { oracle_fail("probe-threw", "a valid probe instruction reported an error", script); }

  if (failed && ok_after_fail) { g.nontrivial++; if (g.hashes.size() < 2000000) g.hashes.insert(fnv(data, size)); if (g.samples.size() < 4) g.samples.push_back(script.substr(0, 400)); }
  g.classes[ek == 0 ? "emitter_assembler" : ek == 1 ? "emitter_builder" : "emitter_compiler"]++;
  g.classes[hk == 0 ? "handler_none" : hk == 1 ? "handler_recording" : "handler_throwing"]++;
  if ((g.execs & 0x3FFF) == 0) flush_counters();
  return 0;
}
