// C14 — Invalid input is rejected with an error and leaves emitter state untouched (x86-32 / x86-64, strict validation).
//
// libFuzzer target: bytes -> script of public-API calls on an Assembler / Builder / Compiler with arbitrary instruction ids, option bits,
// extra registers and 0..6 arbitrary operands (built only through public constructors and setters), interleaved with valid instructions
// and with label / align / embed / section calls given valid and invalid arguments; error handler none / recording / throwing.
// Oracle (inside the target): no sanitizer report; a failed call returns != kOk, invokes the handler exactly once with that code,
// appends nothing, creates no label / fixup / relocation / section / node, clears the one-shot instruction state — also when the handler
// throws; a successful instruction on the Assembler appends bytes that LLVM MC decodes as complete instruction(s) of exactly that length;
// at the end a fixed probe program must come out byte-identical to a fresh emitter's.
//
// Builder / Compiler run with generated DiagnosticOptions (kValidateAssembler|kValidateIntermediate, kValidateIntermediate only,
// kValidateAssembler only, none); register ids of register operands, memory bases / indexes and the extra register also come from the
// virtual-id range (>= Operand::kVirtIdMin) and from the boundaries of the physical range. Differential oracle for a Builder (and for a
// Compiler as long as no virtual id was accepted; no functions are created, so it is a Builder with an empty RA pass): every call the
// Builder accepted is repeated on a strict "shadow" x86::Assembler on its own CodeHolder.
//  * kValidateIntermediate: an accepted instruction must be accepted by the public InstAPI::validate() called the way the strict Assembler
//    calls it (all six operand slots; no kEnableVirtRegs for a Builder), and - Assembler and Builder - must not carry a register id of the
//    virtual range at all (only a Compiler has an allocator). What validate() admits and only the encoder refuses is property C13's
//    validator / encoder disagreement: counted per error code (validated_but_encoder_rejects:*), not a failure here;
//  * a rejected call leaves node list, cursor, emitter flags / options / handler untouched;
//  * at the end the nodes are serialised (Builder::finalize() when it propagates kValidateAssembler, else serialize_to() a strict Assembler -
//    arbitrary operand kinds are in the property's domain only under strict validation): that must fail iff the shadow rejected one of the
//    accepted calls and otherwise produce exactly the shadow's bytes, label offsets and relocation / fixup counts - never silently different
//    code (single-section scripts; a Builder groups nodes by section, so scripts that switch sections are only counted).
// Triage aids: VH_PRINT_SCRIPT=1 prints the decoded script of every input, VH_SHOW_KNOWN=1 the first script of every routed-around key;
// tools/c14_mkseeds.py encodes scripts into this byte format (seed corpus, regress inputs).
#include <fuzzer/FuzzedDataProvider.h>

#include <asmjit/core.h>
#include <asmjit/x86.h>
#include "oracle/llvm_mc.h"

#include <cstdio>
#include <cstdlib>
#include <cstring>
#include <functional>
#include <map>
#include <memory>
#include <set>
#include <string>
#include <unordered_set>
#include <vector>

using namespace asmjit;

namespace {

struct Counters {
  uint64_t execs = 0, nontrivial = 0;
  std::map<std::string, uint64_t> classes, known_hits;
  std::unordered_set<uint64_t> hashes;
  std::vector<std::string> samples;
  std::set<std::string> known;
  bool inited = false, print_script = false;   // VH_PRINT_SCRIPT=1: print the decoded script of every input (triage / writing seeds)
} g;

uint64_t fnv(const uint8_t* p, size_t n) { uint64_t h = 1469598103934665603ull; for (size_t i = 0; i < n; i++) { h ^= p[i]; h *= 1099511628211ull; } return h; }

void flush_counters() {
  const char* path = getenv("VH_COUNTERS");
  if (!path) return;
  FILE* f = fopen(path, "w");
  if (!f) return;
  fprintf(f, "{\"evaluations\": %llu, \"nontrivial_evals\": %llu, \"classes\": {", (unsigned long long)g.execs, (unsigned long long)g.nontrivial);
  bool first = true;
  for (auto& kv : g.classes) { fprintf(f, "%s\"%s\": %llu", first ? "" : ", ", kv.first.c_str(), (unsigned long long)kv.second); first = false; }
  fprintf(f, "}, \"known_hits\": {");
  first = true;
  for (auto& kv : g.known_hits) { fprintf(f, "%s\"%s\": %llu", first ? "" : ", ", kv.first.c_str(), (unsigned long long)kv.second); first = false; }
  fprintf(f, "}, \"samples\": [");
  first = true;
  for (auto& s : g.samples) { std::string e; for (char c : s) { if (c == '"' || c == '\\') e += '\\'; if ((unsigned char)c >= 0x20) e += c; } fprintf(f, "%s\"%s\"", first ? "" : ", ", e.c_str()); first = false; }
  fprintf(f, "]}\n");
  fclose(f);
  std::string hp(path); hp = hp.substr(0, hp.size() - 5) + ".hashes";
  FILE* h = fopen(hp.c_str(), "wb");
  if (h) { std::vector<uint64_t> v(g.hashes.begin(), g.hashes.end()); if (!v.empty()) fwrite(v.data(), 8, v.size(), h); fclose(h); }
}

void init_once() {
  if (g.inited) return;
  g.inited = true;
  const char* k = getenv("VH_KNOWN");
  if (k) { std::string s(k); size_t p = 0; while (p <= s.size()) { size_t q = s.find(',', p); if (q == std::string::npos) q = s.size(); if (q > p) g.known.insert(s.substr(p, q - p)); p = q + 1; } }
  g.print_script = getenv("VH_PRINT_SCRIPT") != nullptr;
  atexit(flush_counters);
}

// exact key, or a listed "prefix*"
bool is_known(const std::string& key) {
  if (g.known.count(key) != 0) return true;
  for (const std::string& k : g.known) if (!k.empty() && k.back() == '*' && key.compare(0, k.size() - 1, k, 0, k.size() - 1) == 0) return true;
  return false;
}

// VH_SHOW_KNOWN=1: print the first script of every routed-around key (triage aid)
void note_known(const std::string& key, const std::string& script) {
  if (g.known_hits[key]++ == 0 && getenv("VH_SHOW_KNOWN")) fprintf(stderr, "KNOWN-HIT %s\nscript: %s\n", key.c_str(), script.c_str());
}

[[noreturn]] void oracle_fail(const std::string& key, const std::string& msg, const std::string& script) {
  fprintf(stderr, "ORACLE %s: %s\nscript: %s\n", key.c_str(), msg.c_str(), script.c_str());
  flush_counters();
  __builtin_trap();
}

struct Thrown { Error err; };

class RecHandler : public ErrorHandler {
public:
  int calls = 0; Error last = Error::kOk; bool throwing = false;
  void handle_error(Error err, const char*, BaseEmitter*) override { calls++; last = err; if (throwing) throw Thrown{err}; }
};

struct Snap {
  size_t sections = 0, labels = 0, relocs = 0, fixups = 0, nodes = 0; std::vector<size_t> sizes;
  const void* cursor = nullptr; const void* first = nullptr; const void* last = nullptr; const void* handler = nullptr;
  uint32_t eflags = 0, enc = 0, diag = 0, forced = 0;
  bool operator==(const Snap& o) const {
    return sections == o.sections && labels == o.labels && relocs == o.relocs && fixups == o.fixups && nodes == o.nodes && sizes == o.sizes &&
           cursor == o.cursor && first == o.first && last == o.last && handler == o.handler && eflags == o.eflags && enc == o.enc && diag == o.diag && forced == o.forced;
  }
};

size_t count_nodes(BaseBuilder* b) { size_t n = 0; for (BaseNode* p = b->first_node(); p; p = p->next()) n++; return n; }

Snap snap(CodeHolder& code, BaseBuilder* bb, BaseEmitter* e) {
  Snap s; s.sections = code.section_count(); s.labels = code.label_count(); s.relocs = code.reloc_entries().size(); s.fixups = code.unresolved_fixup_count();
  for (Section* sec : code.sections()) s.sizes.push_back(sec->buffer_size());
  if (bb) { s.nodes = count_nodes(bb); s.cursor = bb->cursor(); s.first = bb->first_node(); s.last = bb->last_node(); }
  s.handler = e->error_handler(); s.eflags = uint32_t(e->emitter_flags()); s.enc = uint32_t(e->encoding_options()); s.diag = uint32_t(e->diagnostic_options()); s.forced = uint32_t(e->forced_inst_options());
  return s;
}

std::string snap_text(const Snap& s) { char b[320]; size_t tot = 0; for (size_t z : s.sizes) tot += z; snprintf(b, sizeof b, "sections=%zu labels=%zu relocs=%zu fixups=%zu nodes=%zu bytes=%zu cursor=%p last=%p eflags=%x enc=%x diag=%x forced=%x", s.sections, s.labels, s.relocs, s.fixups, s.nodes, tot, s.cursor, s.last, s.eflags, s.enc, s.diag, s.forced); return b; }

oracle::LlvmMc* g_mc32 = nullptr; oracle::LlvmMc* g_mc64 = nullptr;

void emit_probe(BaseEmitter* e, int mode) {
  x86::Emitter* x = e->as<x86::Emitter>();
  x->mov(x86::eax, 0x11223344);
  x->add(x86::ecx, x86::edx);
  x->lea(x86::eax, x86::ptr(x86::ebx, x86::esi, 2, 16));
  if (mode == 64) x->mov(x86::r9, x86::qword_ptr(x86::rsp, 8));
  x->movaps(x86::xmm1, x86::xmm2);
  x->ret();
}

// Register ids: small physical ids as before, plus ids of the virtual range (>= Operand::kVirtIdMin) and the boundaries of both ranges.
// (The byte consumption of the previous decoder is kept so that the stored corpus keeps its meaning.)
enum : uint32_t { kSawVirtReg = 1u, kSawVirtBase = 2u, kSawVirtIndex = 4u, kSawBoundaryId = 8u, kSawLabel = 16u, kSawVirtExtra = 32u };

// what the operand really carries (an invalid RegType gives a none operand, a memory operand may have no index ...)
uint32_t scan_operand(const Operand_& o) {
  uint32_t f = 0;
  if (o.is_reg() && Operand::is_virt_id(o.id())) f |= kSawVirtReg;
  if (o.is_label()) f |= kSawLabel;
  if (o.is_mem()) {
    const BaseMem& m = o.as<BaseMem>();
    if (m.has_base_label()) f |= kSawLabel;
    if (m.has_base_reg() && Operand::is_virt_id(m.base_id())) f |= kSawVirtBase;
    if (m.has_index_reg() && Operand::is_virt_id(m.index_id())) f |= kSawVirtIndex;
  }
  return f;
}

const uint32_t kBoundaryIds[] = {31u, 32u, 33u, 63u, 64u, 127u, 128u, 254u, 255u, 256u, 257u, 511u, 0x7FFFFFFFu, 0x80000000u, 0xFFFFFFFEu, 0xFFFFFFFFu};

// one byte: ids 0..40 (4 of 6 classes), 256 + 0..40, or a boundary id
uint32_t small_or_virt_id(FuzzedDataProvider& fdp, uint32_t& saw, uint32_t virt_flag) {
  uint32_t v = fdp.ConsumeIntegralInRange<uint32_t>(0, 245);
  uint32_t lo = v % 41u, cls = v / 41u;
  (void)virt_flag;
  if (cls == 4) return Operand::kVirtIdMin + lo;
  if (cls == 5) { saw |= kSawBoundaryId; return kBoundaryIds[lo % 16u]; }
  return lo;
}

// a physical base / index id the mode has no register for (GP: 8 in 32-bit mode, 16 in 64-bit mode; vector index: 8 / 32)
bool mem_id_outside_register_file(const Operand_& o, int mode) {
  if (!o.is_mem()) return false;
  const BaseMem& m = o.as<BaseMem>();
  auto is_gp = [](RegType t) { return t == RegType::kGp16 || t == RegType::kGp32 || t == RegType::kGp64; };
  auto is_vec = [](RegType t) { return t == RegType::kVec128 || t == RegType::kVec256 || t == RegType::kVec512; };
  uint32_t gp_limit = mode == 64 ? 16u : 8u, vec_limit = mode == 64 ? 32u : 8u;
  if (m.has_base_reg() && is_gp(m.base_type()) && m.base_id() < Operand::kVirtIdMin && m.base_id() >= gp_limit) return true;
  if (m.has_index_reg() && m.index_id() < Operand::kVirtIdMin) {
    if (is_gp(m.index_type()) && m.index_id() >= gp_limit) return true;
    if (is_vec(m.index_type()) && m.index_id() >= vec_limit) return true;
  }
  return false;
}

Operand make_operand(FuzzedDataProvider& fdp, std::vector<uint32_t>& valid_labels, std::string& txt, int mode, uint32_t& saw) {
  int kind = fdp.ConsumeIntegralInRange<int>(0, 7);
  char b[96];
  switch (kind) {
    case 0: txt += "none "; return Operand();
    case 1: case 5: {
      uint32_t t = kind == 5 ? (fdp.ConsumeBool() ? uint32_t(RegType::kGp32) : uint32_t(RegType::kGp64)) : fdp.ConsumeIntegralInRange<uint32_t>(0, 31);
      int sel = fdp.ConsumeIntegralInRange<int>(0, 15);
      uint32_t id;
      if (sel == 0) id = fdp.ConsumeIntegral<uint32_t>();
      else if (sel == 8) id = Operand::kVirtIdMin + (fdp.ConsumeIntegral<uint32_t>() & 63u);
      else if (sel == 9) { id = kBoundaryIds[fdp.ConsumeIntegralInRange<uint32_t>(0, kind == 5 ? 15 : 40) % 16u]; saw |= kSawBoundaryId; }
      else id = fdp.ConsumeIntegralInRange<uint32_t>(0, kind == 5 ? 15 : 40);
      snprintf(b, sizeof b, "reg(t%u,%u) ", t, id); txt += b;
      return Reg::from_type_and_id(RegType(t), id);
    }
    case 2: case 6: {
      int bk = fdp.ConsumeIntegralInRange<int>(0, 4);
      uint32_t shift = fdp.ConsumeIntegralInRange<uint32_t>(0, 3);
      int32_t off = fdp.ConsumeBool() ? fdp.ConsumeIntegral<int32_t>() : int32_t(fdp.ConsumeIntegralInRange<int>(-130, 130));
      uint32_t size = fdp.ConsumeBool() ? fdp.ConsumeIntegralInRange<uint32_t>(0, 64) : 0;
      bool has_index = fdp.ConsumeBool();
      uint32_t it = fdp.ConsumeBool() ? uint32_t(mode == 64 ? RegType::kGp64 : RegType::kGp32) : fdp.ConsumeIntegralInRange<uint32_t>(0, 31);
      uint32_t iid = small_or_virt_id(fdp, saw, kSawVirtIndex);
      Reg index = Reg::from_type_and_id(RegType(it), iid);
      x86::Mem m;
      if (bk <= 1) {
        uint32_t bt = bk == 0 ? uint32_t(mode == 64 ? RegType::kGp64 : RegType::kGp32) : fdp.ConsumeIntegralInRange<uint32_t>(0, 31);
        uint32_t bid = small_or_virt_id(fdp, saw, kSawVirtBase);
        Reg base = Reg::from_type_and_id(RegType(bt), bid);
        m = has_index ? x86::Mem(base, index, shift, off, size) : x86::Mem(base, off, size);
        if (has_index) snprintf(b, sizeof b, "mem[t%u.%u+t%u.%u<<%u+%d]/%u ", bt, bid, it, iid, shift, off, size); else snprintf(b, sizeof b, "mem[t%u.%u+%d]/%u ", bt, bid, off, size);
        txt += b;
      } else if (bk == 2) {
        uint32_t lid = (!valid_labels.empty() && fdp.ConsumeBool()) ? valid_labels[fdp.ConsumeIntegralInRange<size_t>(0, valid_labels.size() - 1)] : fdp.ConsumeIntegral<uint32_t>();
        Label L(lid);
        m = has_index ? x86::Mem(L, index, shift, off, size) : x86::Mem(L, off, size);
        if (has_index) snprintf(b, sizeof b, "mem[L%u+t%u.%u<<%u+%d]/%u ", lid, it, iid, shift, off, size); else snprintf(b, sizeof b, "mem[L%u+%d]/%u ", lid, off, size);
        txt += b;
      } else {
        uint64_t abs = fdp.ConsumeBool() ? fdp.ConsumeIntegral<uint64_t>() : uint64_t(uint32_t(off));
        m = has_index ? x86::Mem(abs, index, shift, size) : x86::Mem(abs, size);
        if (has_index) snprintf(b, sizeof b, "mem[abs %llx+t%u.%u<<%u]/%u ", (unsigned long long)abs, it, iid, shift, size); else snprintf(b, sizeof b, "mem[abs %llx]/%u ", (unsigned long long)abs, size);
        txt += b;
      }
      if (fdp.ConsumeBool()) m.set_segment(fdp.ConsumeIntegralInRange<uint32_t>(0, 7));
      if (fdp.ConsumeIntegralInRange<int>(0, 3) == 0) m.set_broadcast(x86::Mem::Broadcast(fdp.ConsumeIntegralInRange<uint32_t>(0, 7)));
      if (fdp.ConsumeIntegralInRange<int>(0, 3) == 0) m.set_addr_type(x86::Mem::AddrType(fdp.ConsumeIntegralInRange<uint32_t>(0, 3)));
      return m;
    }
    case 3: { int64_t v = fdp.ConsumeBool() ? fdp.ConsumeIntegral<int64_t>() : int64_t(fdp.ConsumeIntegralInRange<int>(-200, 300)); snprintf(b, sizeof b, "imm(%lld) ", (long long)v); txt += b; return Imm(v); }
    case 4: {
      uint32_t lid = (!valid_labels.empty() && fdp.ConsumeBool()) ? valid_labels[fdp.ConsumeIntegralInRange<size_t>(0, valid_labels.size() - 1)] : fdp.ConsumeIntegral<uint32_t>();
      snprintf(b, sizeof b, "L%u ", lid); txt += b;
      return Label(lid);
    }
    default: {
      // well-formed vector / mask registers to reach deeper into the encoder
      static const RegType vt[] = {RegType::kVec128, RegType::kVec256, RegType::kVec512, RegType::kMask, RegType::kGp8Lo, RegType::kGp8Hi, RegType::kGp16, RegType::kX86_Mm};
      RegType t = vt[fdp.ConsumeIntegralInRange<int>(0, 7)];
      uint32_t id = fdp.ConsumeIntegralInRange<uint32_t>(0, 33);
      snprintf(b, sizeof b, "reg(t%u,%u) ", uint32_t(t), id); txt += b;
      return Reg::from_type_and_id(t, id);
    }
  }
}

std::string hex(const uint8_t* p, size_t n) { std::string h; char hb[4]; for (size_t i = 0; i < n && i < 96; i++) { snprintf(hb, sizeof hb, "%02x", p[i]); h += hb; } if (n > 96) h += ".."; return h; }

} // namespace

extern "C" int LLVMFuzzerTestOneInput(const uint8_t* data, size_t size) {
  init_once();
  if (!g_mc64) { g_mc32 = new oracle::LlvmMc(oracle::Target::X86_32); g_mc64 = new oracle::LlvmMc(oracle::Target::X86_64); }
  g.execs++;
  if (size < 4) return 0;
  FuzzedDataProvider fdp(data, size);
  // one byte: emitter kind (v % 3, as before) and the DiagnosticOptions of a Builder / Compiler (v / 3)
  int ekdk = fdp.ConsumeIntegralInRange<int>(0, 11);
  int ek = ekdk % 3;
  int dk = ek == 0 ? 0 : ekdk / 3;      // 0: kValidateAssembler|kValidateIntermediate, 1: kValidateIntermediate, 2: kValidateAssembler, 3: none; the Assembler is always strict
  int mode = fdp.ConsumeBool() ? 32 : 64;
  int hk = fdp.ConsumeIntegralInRange<int>(0, 2);
  Arch arch = mode == 64 ? Arch::kX64 : Arch::kX86;
  static const char* dk_name[] = {"VA+VI", "VI", "VA", "novalidation"};
  std::string script = std::string(ek == 0 ? "asm" : ek == 1 ? "builder" : "compiler") + (ek ? std::string("[") + dk_name[dk] + "]" : std::string()) + (mode == 64 ? "/x64" : "/x86") + (hk == 0 ? "/nohandler" : hk == 1 ? "/recording" : "/throwing") + ": ";

  // Known finding (excluded while listed): x86-32 memory operand with an invalid label id -> label_entry_of() out of bounds
  const bool avoid_x86_32_bad_label = is_known("x86-32-invalid-label-in-mem-oob") && mode == 32;
  // Known finding (excluded while listed): x86-64 [label + disp] computes disp - (4 + imm_size) + (label - here) in int32_t without a range check:
  // signed overflow (UBSan) / silently wrapped displacement for disp near INT32_MIN (x86assembler.cpp, "[RIP]" path of the label base)
  const bool avoid_x64_label_disp_overflow = is_known("x64-label-mem-displacement-overflow") && mode == 64;

  const DiagnosticOptions diag = dk == 0 ? (DiagnosticOptions::kValidateAssembler | DiagnosticOptions::kValidateIntermediate) : dk == 1 ? DiagnosticOptions::kValidateIntermediate : dk == 2 ? DiagnosticOptions::kValidateAssembler : DiagnosticOptions::kNone;
  const bool validates_intermediate = ek != 0 && (dk == 0 || dk == 1);
  const bool validates_all = ek == 0 || dk == 0 || dk == 1;   // every accepted instruction has passed validate()

  CodeHolder code; code.init(Environment(arch));
  x86::Assembler as; x86::Builder bd; x86::Compiler cc;
  BaseEmitter* e = ek == 0 ? static_cast<BaseEmitter*>(&as) : ek == 1 ? static_cast<BaseEmitter*>(&bd) : static_cast<BaseEmitter*>(&cc);
  BaseBuilder* bb = ek == 0 ? nullptr : static_cast<BaseBuilder*>(ek == 1 ? static_cast<BaseBuilder*>(&bd) : static_cast<BaseBuilder*>(&cc));
  code.attach(e);
  e->add_diagnostic_options(diag);
  RecHandler rh; rh.throwing = hk == 2;
  if (hk != 0) e->set_error_handler(&rh);
  oracle::LlvmMc& mc = mode == 64 ? *g_mc64 : *g_mc32;

  // ---- shadow: the direct Assembler path of every call the Builder / Compiler accepted (own CodeHolder). Always strict - without validation arbitrary
  //      operand kinds are outside the property's domain (the non-validating encoder indexes tables with them); Builder::finalize() hands
  //      kValidateAssembler to the Assembler it creates, a Builder without that option is serialised to a strict Assembler explicitly (below)
  const bool shadow_on = ek != 0;
  std::unique_ptr<CodeHolder> code2_p; std::unique_ptr<x86::Assembler> sh_p;
  if (shadow_on) { code2_p.reset(new CodeHolder()); sh_p.reset(new x86::Assembler()); code2_p->init(Environment(arch)); code2_p->attach(sh_p.get()); sh_p->add_diagnostic_options(DiagnosticOptions::kValidateAssembler); }
  static CodeHolder* unused_code = new CodeHolder(); static x86::Assembler* unused_asm = new x86::Assembler();
  CodeHolder& code2 = shadow_on ? *code2_p : *unused_code; x86::Assembler& sh = shadow_on ? *sh_p : *unused_asm;   // only touched when shadow_on
  bool sh_unsupported = false;     // the two CodeHolders went out of step (label / section ids): no differential verdict
  bool sh_multi_section = false;   // a section switch succeeded: the Builder groups nodes by section, per-section bytes are not compared
  bool sh_expect_fail = false;     // the shadow rejected a call the Builder accepted: serialisation has to fail
  size_t sh_label_reject_count = SIZE_MAX;  // label_count() when the shadow first rejected a call that names labels: a label created later makes the deferred call valid
  bool accepted_virt = false;      // an accepted instruction carried a virtual-range id (Compiler: no differential, such ids belong to its register allocator)
  std::string sh_first_reject;

  std::vector<uint32_t> labels; std::vector<uint32_t> bound;
  std::vector<Section*> secs; secs.push_back(code.text_section());
  size_t failed = 0, ok_after_fail = 0, ops = 0;
  bool emitter_valid = true;

  while (fdp.remaining_bytes() > 0 && ops < 24 && emitter_valid) {
    ops++;
    int op = fdp.ConsumeIntegralInRange<int>(0, 15);
    Snap before = snap(code, bb, e);
    rh.calls = 0;
    Error err = Error::kOk;
    bool threw = false; Error thrown = Error::kOk;
    bool is_inst = false, must_succeed = false;
    std::string txt;
    size_t off0 = ek == 0 ? as.offset() : 0;
    // the same call on another emitter / CodeHolder (set by every branch whose call is mirrored on the shadow)
    std::function<Error(BaseEmitter*, CodeHolder&)> call;
    uint32_t saw = 0;
    // arbitrary instruction: kept for the validate() cross-check
    uint32_t a_id = 0, a_opt = 0, a_n = 0; Operand_ a_ops[6]; RegOnly a_extra; a_extra.reset(); bool arbitrary = false, dropped_operands = false, mem_id_outside = false;
    Error validate_err = Error::kOk;
    try {
      if (op <= 7) {
        // arbitrary instruction
        is_inst = true; arbitrary = true;
        uint32_t id = fdp.ConsumeIntegralInRange<uint32_t>(0, uint32_t(x86::Inst::_kIdCount) + 40);
        if (fdp.ConsumeIntegralInRange<int>(0, 15) == 0) id = fdp.ConsumeIntegral<uint32_t>();
        uint32_t optbits = fdp.ConsumeBool() ? 0 : (fdp.ConsumeIntegral<uint32_t>() & 0xCFEFFFF7u);   // every DEFINED InstOptions bit (undefined bits are outside the typed API)
        bool has_extra = fdp.ConsumeIntegralInRange<int>(0, 3) == 0;
        uint32_t n = fdp.ConsumeIntegralInRange<uint32_t>(0, 6);
        Operand_ opnds[6];
        char b[64]; snprintf(b, sizeof b, "inst(%u,opt=%x) ", id, optbits); txt = b;
        bool bad_label_mem32 = false, label_disp_overflow = false;
        for (uint32_t i = 0; i < n; i++) {
          Operand o = make_operand(fdp, labels, txt, mode, saw);
          if (o.is_mem() && o.as<x86::Mem>().has_base_label() && !code.is_label_valid(o.as<x86::Mem>().base_id())) bad_label_mem32 = true;
          if (o.is_mem() && o.as<x86::Mem>().has_base_label() && o.as<x86::Mem>().offset_lo32() < INT32_MIN + 4096) label_disp_overflow = true;
          opnds[i] = o;
          saw |= scan_operand(o);
          if (mem_id_outside_register_file(o, mode)) mem_id_outside = true;
        }
        if (avoid_x86_32_bad_label && bad_label_mem32) { g.known_hits["x86-32-invalid-label-in-mem-oob"]++; continue; }
        if (avoid_x64_label_disp_overflow && label_disp_overflow) { g.known_hits["x64-label-mem-displacement-overflow"]++; continue; }
        Reg xr; bool inl = false;
        if (has_extra) {
          uint32_t xt = fdp.ConsumeIntegralInRange<uint32_t>(0, 31);
          uint32_t xid = small_or_virt_id(fdp, saw, kSawVirtExtra);
          xr = Reg::from_type_and_id(RegType(xt), xid);
          snprintf(b, sizeof b, "extra(t%u,%u) ", xt, xid); txt += b;
        }
        if (fdp.ConsumeIntegralInRange<int>(0, 7) == 0) inl = true;
        a_id = id; a_opt = optbits; a_n = n; for (uint32_t i = 0; i < 6; i++) a_ops[i] = i < n ? opnds[i] : Operand_(Operand());
        if (has_extra) { a_extra.init(xr); if (a_extra.is_reg() && Operand::is_virt_id(a_extra.id())) saw |= kSawVirtExtra; }
        std::vector<Operand_> ov(opnds, opnds + n);
        call = [=](BaseEmitter* em, CodeHolder&) -> Error {
          if (has_extra) em->set_extra_reg(xr);
          em->set_inst_options(InstOptions(optbits));
          if (inl) em->set_inline_comment("c");
          return em->emit_op_array(id, ov.data(), n);
        };
        err = call(e, code);
      } else if (op == 8) {
        is_inst = true; must_succeed = true; txt = "valid-inst ";
        int w = fdp.ConsumeIntegralInRange<int>(0, 4);
        call = [=](BaseEmitter* em, CodeHolder&) -> Error {
          x86::Emitter* x = em->as<x86::Emitter>();
          switch (w) {
            case 0: return x->mov(x86::eax, 1);
            case 1: return x->add(x86::ecx, x86::dword_ptr(x86::esp, 4));
            case 2: return x->nop();
            case 3: return x->paddd(x86::xmm0, x86::xmm1);
            default: return x->ret();
          }
        };
        err = call(e, code);
      } else if (op == 9) {
        int k = fdp.ConsumeIntegralInRange<int>(0, 3);
        if (k == 0) {
          Label L = e->new_label(); if (L.is_valid()) labels.push_back(L.id()); txt = "new_label ";
          if (shadow_on) { Label L2 = sh.new_label(); if (L2.id() != L.id()) sh_unsupported = true; }
        }
        else {
          uint32_t lid = (!labels.empty() && k != 3) ? labels[fdp.ConsumeIntegralInRange<size_t>(0, labels.size() - 1)] : fdp.ConsumeIntegral<uint32_t>();
          txt = "bind L" + std::to_string(lid) + " ";
          // every other bind is issued with a pending inline comment (one-shot state): a failed bind has to clear it like a failed instruction does
          const bool with_comment = ek == 0 && (ops & 1) == 0;   // Assembler only: its bind() consumes the comment (logs it); a Builder's bind() never touches it, pass or fail
          if (with_comment) txt += "(comment) ";
          call = [=](BaseEmitter* em, CodeHolder&) -> Error { if (with_comment) em->set_inline_comment("one-shot"); return em->bind(Label(lid)); };
          err = call(e, code);
          if (err == Error::kOk) bound.push_back(lid);
        }
      } else if (op == 10) {
        uint32_t am = fdp.ConsumeIntegralInRange<uint32_t>(0, 4);
        uint32_t al = fdp.ConsumeBool() ? (1u << fdp.ConsumeIntegralInRange<uint32_t>(0, 7)) : fdp.ConsumeIntegral<uint32_t>();
        txt = "align(" + std::to_string(am) + "," + std::to_string(al) + ") ";
        call = [=](BaseEmitter* em, CodeHolder&) -> Error { return em->align(AlignMode(am), al); };
        err = call(e, code);
      } else if (op == 11) {
        size_t n = fdp.ConsumeIntegralInRange<size_t>(0, 16);
        txt = "embed(" + std::to_string(n) + ") ";
        call = [=](BaseEmitter* em, CodeHolder&) -> Error { uint8_t buf[16] = {1, 2, 3, 4, 5, 6, 7, 8, 9, 10, 11, 12, 13, 14, 15, 16}; return em->embed(buf, n); };
        err = call(e, code);
      } else if (op == 12) {
        uint32_t lid = (!labels.empty() && fdp.ConsumeBool()) ? labels[fdp.ConsumeIntegralInRange<size_t>(0, labels.size() - 1)] : fdp.ConsumeIntegral<uint32_t>();
        size_t sz = fdp.ConsumeIntegralInRange<size_t>(0, 9);
        if (fdp.ConsumeBool()) {
          txt = "embed_label(L" + std::to_string(lid) + "," + std::to_string(sz) + ") ";
          call = [=](BaseEmitter* em, CodeHolder&) -> Error { return em->embed_label(Label(lid), sz); };
        } else {
          uint32_t l2 = (!labels.empty() && fdp.ConsumeBool()) ? labels[fdp.ConsumeIntegralInRange<size_t>(0, labels.size() - 1)] : fdp.ConsumeIntegral<uint32_t>();
          txt = "embed_label_delta(L" + std::to_string(lid) + ",L" + std::to_string(l2) + "," + std::to_string(sz) + ") ";
          call = [=](BaseEmitter* em, CodeHolder&) -> Error { return em->embed_label_delta(Label(lid), Label(l2), sz); };
        }
        err = call(e, code);
      } else if (op == 13) {
        std::string name = fdp.ConsumeRandomLengthString(12);
        uint32_t lt = fdp.ConsumeIntegralInRange<uint32_t>(0, 5);
        uint32_t parent = (!labels.empty() && fdp.ConsumeBool()) ? labels[0] : Globals::kInvalidId;
        txt = "new_named_label(len=" + std::to_string(name.size()) + ",type=" + std::to_string(lt) + ") ";
        size_t lc = code.label_count();
        Label L = e->new_named_label(name.c_str(), name.size(), LabelType(lt), parent);
        if (shadow_on) { Label L2 = sh.new_named_label(name.c_str(), name.size(), LabelType(lt), parent); if (L2.id() != L.id()) sh_unsupported = true; }
        if (L.is_valid()) labels.push_back(L.id());
        else { err = Error::kInvalidLabelName; if (code.label_count() != lc) oracle_fail("failed-new-named-label-created-label", "new_named_label returned an invalid label but label_count grew", script + txt); before = snap(code, bb, e); continue; }
        before = snap(code, bb, e);   // a successful creation legitimately changes the label count
        continue;
      } else if (op == 14) {
        if (fdp.ConsumeBool() && secs.size() < 4) {
          Section* s = nullptr; uint32_t al = fdp.ConsumeBool() ? 8u : fdp.ConsumeIntegral<uint32_t>();
          std::string nm = fdp.ConsumeRandomLengthString(40);
          size_t sc = code.section_count();
          Error se = code.new_section(Out(s), nm.c_str(), nm.size(), SectionFlags::kNone, al, 0);
          txt = "new_section ";
          if (se == Error::kOk && s) secs.push_back(s); else if (code.section_count() != sc) oracle_fail("failed-new-section-created-section", "new_section failed but section_count grew", script + txt);
          if (shadow_on) { Section* s2 = nullptr; Error se2 = code2.new_section(Out(s2), nm.c_str(), nm.size(), SectionFlags::kNone, al, 0); if (se2 != se || code2.section_count() != code.section_count()) sh_unsupported = true; }
          continue;
        }
        Section* s = secs[fdp.ConsumeIntegralInRange<size_t>(0, secs.size() - 1)];
        uint32_t sid = s->section_id();
        txt = "section(" + std::to_string(sid) + ") ";
        call = [=](BaseEmitter* em, CodeHolder& ch) -> Error { Section* t = ch.section_by_id(sid); return t ? em->section(t) : Error::kInvalidSection; };
        err = call(e, code);
        if (err == Error::kOk) {
          if (shadow_on) { if (sid != 0) sh_multi_section = true; if (call(&sh, code2) != Error::kOk) sh_unsupported = true; }
          continue;
        }
      } else {
        std::string cmt = fdp.ConsumeRandomLengthString(20);
        txt = "comment ";
        call = [=](BaseEmitter* em, CodeHolder&) -> Error { return em->comment(cmt.c_str(), cmt.size()); };
        err = call(e, code);
        if (err == Error::kOk) { if (shadow_on) (void)call(&sh, code2); continue; }
      }
    } catch (const Thrown& t) { threw = true; thrown = t.err; err = t.err; }
    script += txt + (err == Error::kOk ? "=ok; " : std::string("=") + DebugUtils::error_as_string(err) + "; ");
    if (script.size() > 3000) script.erase(0, 1000);

    if (saw & kSawVirtReg) g.classes["operand_virt_id_range"]++;
    if (saw & kSawVirtBase) g.classes["mem_base_virt_id_range"]++;
    if (saw & kSawVirtIndex) g.classes["mem_index_virt_id_range"]++;
    if (saw & kSawVirtExtra) g.classes["extra_reg_virt_id_range"]++;
    if (saw & kSawBoundaryId) g.classes["operand_boundary_id"]++;
    const bool has_virt = (saw & (kSawVirtReg | kSawVirtBase | kSawVirtIndex | kSawVirtExtra)) != 0;

    Snap after = snap(code, bb, e);
    if (must_succeed && err != Error::kOk) oracle_fail("valid-instruction-failed-after-errors", std::string("a valid instruction failed with ") + DebugUtils::error_as_string(err), script);
    if (err != Error::kOk) {
      failed++;
      g.classes[is_inst ? "failed_instruction" : "failed_other_call"]++;
      if (!(before == after)) oracle_fail("failed-call-changed-state", "before: " + snap_text(before) + " after: " + snap_text(after), script);
      if (hk != 0 && rh.calls != 1) oracle_fail("handler-call-count", "error " + std::string(DebugUtils::error_as_string(err)) + " but the handler was invoked " + std::to_string(rh.calls) + " times", script);
      if (hk != 0 && rh.last != err) oracle_fail("handler-error-code-differs", "returned " + std::string(DebugUtils::error_as_string(err)) + ", handler saw " + DebugUtils::error_as_string(rh.last), script);
      if (hk == 2 && !threw) oracle_fail("throwing-handler-swallowed", "handler threw but the call returned normally", script);
      if (e->inst_options() != InstOptions::kNone || e->extra_reg().is_reg() || e->inline_comment() != nullptr)
        oracle_fail("one-shot-state-not-cleared-after-failure", "inst_options/extra_reg/inline_comment still set after a failed call", script);
      if (bb) {
        g.classes["builder_rejected_state_checked"]++;
        if (is_inst && has_virt && validates_intermediate) g.classes[ek == 1 ? "builder_virt_id_rejected" : "compiler_rejected_with_virt_id"]++;
      }
    } else {
      if (failed) ok_after_fail++;
      if (hk != 0 && rh.calls != 0) oracle_fail("handler-invoked-on-success", "call returned kOk but the handler was invoked", script);
      if (is_inst) {
        if (e->inst_options() != InstOptions::kNone || e->extra_reg().is_reg() || e->inline_comment() != nullptr)
          oracle_fail("one-shot-state-not-cleared-after-success", "inst_options/extra_reg/inline_comment still set after an instruction was emitted", script);
        if (ek == 0) {
          size_t n = as.offset() - off0;
          const uint8_t* p = as.buffer_data() + off0;
          if (n == 0) { g.classes["accepted_no_bytes"]++; }
          else if (mem_id_outside && is_known("mem-base-index-id-outside-register-file")) { g.classes["accepted_not_decoded_known_mem_id"]++; }
          else if (after.relocs == before.relocs && after.fixups == before.fixups) {
            size_t consumed = 0; int cnt = 0;
            while (consumed < n && cnt < 8) { oracle::Decoded d = mc.decode(p + consumed, n - consumed); if (!d.length) break; consumed += d.length; cnt++; }
            if (cnt == 0) g.classes["accepted_llvm_cannot_decode"]++;
            else if (consumed != n) {
              std::string hx; char hb[4]; for (size_t i = 0; i < n; i++) { snprintf(hb, sizeof hb, "%02x", p[i]); hx += hb; }
              if (!is_known("accepted-bytes-not-whole-instructions")) oracle_fail("accepted-bytes-not-whole-instructions", "accepted instruction appended " + hx + " of which LLVM decodes only " + std::to_string(consumed) + " bytes", script);
              g.known_hits["accepted-bytes-not-whole-instructions"]++;
            } else g.classes["accepted_decodes_fully"]++;
          }
        }
        g.classes["accepted_instruction"]++;
        // Known finding: BaseBuilder::_emit counts operands with op_count_from_emit_args(), which stops at the first none of o3..o5 - operands
        // behind such a gap are dropped without an error (validation sees the truncated list); the Assembler validates all six and refuses.
        if (bb && arbitrary) {
          uint32_t bc = 0;
          if (a_ops[3].is_none()) { for (uint32_t i = 0; i < 3; i++) if (!a_ops[i].is_none()) bc = i + 1; }
          else bc = a_ops[4].is_none() ? 4u : 5u + uint32_t(!a_ops[5].is_none());
          for (uint32_t i = bc; i < 6; i++) if (!a_ops[i].is_none()) dropped_operands = true;
          if (dropped_operands) {
            const char* key = "builder-drops-operands-behind-none-gap";
            if (!is_known(key) && validates_intermediate) oracle_fail(key, "kValidateIntermediate accepted an instruction whose operand list has a gap; the node keeps only " + std::to_string(bc) + " operand(s), the rest is dropped silently (the strict Assembler refuses the call)", script);
            if (is_known(key)) { note_known(key, script); sh_unsupported = true; }
          }
        }
        // Known finding: validate() checks the {k} extra register only for type and id != 0 - ids 8..255 and ids of the virtual range pass and the
        // encoder ORs (id << 16) into the EVEX prefix (k9 -> no mask + V' flipped, k31 -> {k7} + b + V', 257 -> {k1}): silently a different instruction.
        // (the REP count register is only compared with cx when its id is physical: an id of the virtual range passes validate() as well)
        if (arbitrary && validates_all && ek != 2 && a_extra.is_reg() &&
            ((a_extra.type() == RegType::kMask && a_extra.id() > 7u && !(a_opt & uint32_t(InstOptions::kX86_Rep | InstOptions::kX86_Repne))) || Operand::is_virt_id(a_extra.id()))) {
          const char* key = "accepted-kmask-extra-reg-id-out-of-range";
          if (!is_known(key)) oracle_fail(key, "strict validation accepted extra register type " + std::to_string(uint32_t(a_extra.type())) + " id " + std::to_string(a_extra.id()) + " ({k}: k0..k7 exist and the id is shifted into the EVEX prefix unmasked; no emitter but a Compiler owns virtual ids)", script);
          note_known(key, script);
        }
        // Known finding (DESIGN section 7 #12): validate() checks memory base / index ids only for < 32, not against the mode's register file
        // ("TODO" in x86instapi.cpp): [r13d] in 32-bit mode or GP ids 16..31 pass; the legacy encoder then fails with InvalidRexPrefix (32-bit) but
        // VEX / EVEX encodings take the id bits into the prefix - in 32-bit mode C4/C5/62 with cleared R/X/B decode as LES/LDS/BOUND: garbage.
        if (arbitrary && validates_all && ek != 2 && !dropped_operands && mem_id_outside) {
          const char* key = "mem-base-index-id-outside-register-file";
          if (!is_known(key)) oracle_fail(key, std::string(ek == 0 ? "the strict Assembler" : "a Builder with kValidateIntermediate") + " accepted a memory operand whose base / index id does not exist in " + (mode == 64 ? "64" : "32") + "-bit mode", script);
          note_known(key, script);
        }
        // Only a Compiler has a register allocator: with strict validation neither an Assembler nor a Builder may accept a register operand,
        // memory base or memory index whose id lies in the virtual range (the encoder would use the low bits of the id).
        if (arbitrary && validates_all && ek != 2 && !dropped_operands && (saw & (kSawVirtReg | kSawVirtBase | kSawVirtIndex))) {
          const char* key = "accepted-virtual-register-id-without-allocator";
          if (!is_known(key)) oracle_fail(key, std::string(ek == 0 ? "the strict Assembler" : "a Builder with kValidateIntermediate") + " accepted an instruction with a register id >= Operand::kVirtIdMin (" + ((saw & kSawVirtReg) ? "register operand " : "") + ((saw & kSawVirtBase) ? "memory base " : "") + ((saw & kSawVirtIndex) ? "memory index" : "") + ")", script);
          note_known(key, script);
        }
        if (arbitrary && validates_all && ek != 2 && !dropped_operands) g.classes["accepted_checked_no_virtual_ids"]++;
        if (bb) {
          if (after.nodes != before.nodes + 1) oracle_fail("builder-accepted-instruction-node-count", "an accepted instruction changed the node count from " + std::to_string(before.nodes) + " to " + std::to_string(after.nodes), script);
          if (has_virt) { accepted_virt = true; g.classes[ek == 1 ? "builder_accepted_virt_id" : "compiler_accepted_virt_id"]++; }
          // kValidateIntermediate: what the Builder lets through must be valid for the public validator too, called the way the strict Assembler
          // calls it (a Builder has no register allocator: no kEnableVirtRegs; a Compiler validates with it)
          if (arbitrary && validates_intermediate && !dropped_operands) {
            validate_err = InstAPI::validate(arch, BaseInst(a_id, InstOptions(a_opt), a_extra), a_ops, Globals::kMaxOpCount, ek == 2 ? ValidationFlags::kEnableVirtRegs : ValidationFlags::kNone);
            g.classes["builder_accepts_checked_against_validate"]++;
            if (has_virt && ek == 1) g.classes["builder_accepts_checked_against_validate_virt"]++;
            if (validate_err != Error::kOk) {
              std::string key = std::string(ek == 1 ? "builder" : "compiler") + "-intermediate-validation-accepts-what-validate-rejects:" + DebugUtils::error_as_string(validate_err);
              if (!is_known(key)) oracle_fail(key, std::string("the emitter validates intermediate code and accepted (kOk, node appended) an instruction for which InstAPI::validate() reports ") + DebugUtils::error_as_string(validate_err), script);
              note_known(key, script);
            }
          }
        }
      }
      // ---- mirror the accepted call on the shadow Assembler
      if (shadow_on && call) {
        Error serr = call(&sh, code2);
        g.classes["builder_accepts_checked_against_assembler"]++;
        if (serr != Error::kOk) {
          if (!sh_expect_fail) sh_first_reject = txt + "=" + DebugUtils::error_as_string(serr);
          sh_expect_fail = true;
          if ((!is_inst || (saw & kSawLabel)) && sh_label_reject_count == SIZE_MAX) sh_label_reject_count = code.label_count();
          g.classes[is_inst ? "builder_accepted_assembler_rejects_instruction" : "builder_accepted_assembler_rejects_other_call"]++;
          // An instruction that validate() admits and only the encoder refuses is the validator / encoder disagreement of property C13
          // (validate-vs-strict-assembler), not a state problem: counted per error code; the serialisation below has to fail for it.
          if (is_inst && validates_intermediate) g.classes[std::string(ek == 1 ? "validated_but_encoder_rejects:" : "compiler_validated_but_assembler_rejects:") + DebugUtils::error_as_string(serr)]++;
        }
      }
    }
  }

  // ---- probe: the emitter must produce exactly what a fresh one produces ----
  try {
    if (ek == 0) {
      as.section(code.text_section());
      size_t o0 = as.offset();
      emit_probe(&as, mode);
      std::vector<uint8_t> got(as.buffer_data() + o0, as.buffer_data() + as.offset());
      CodeHolder c2; c2.init(Environment(arch)); x86::Assembler a2(&c2); a2.add_diagnostic_options(DiagnosticOptions::kValidateAssembler); emit_probe(&a2, mode);
      std::vector<uint8_t> want(a2.buffer_data(), a2.buffer_data() + a2.offset());
      if (got != want) oracle_fail("probe-differs-after-history", "the probe program differs from a fresh assembler's output", script);
    } else {
      size_t n0 = count_nodes(bb);
      emit_probe(e, mode);
      if (count_nodes(bb) - n0 != (mode == 64 ? 6u : 5u)) oracle_fail("probe-node-count", "the probe program created an unexpected number of nodes", script);
      emit_probe(&sh, mode);
    }
  } catch (const Thrown&) { oracle_fail("probe-threw", "a valid probe instruction reported an error", script); }

  // ---- Builder / Compiler: serialise the nodes and compare with the direct Assembler path ----
  if (shadow_on) {
    g.classes[dk == 0 ? "builder_validate_both" : dk == 1 ? "builder_validate_intermediate_only" : dk == 2 ? "builder_validate_assembler_only" : "builder_no_validation"]++;
    if (validates_intermediate) g.classes["builder_validate_intermediate"]++;
    if (sh_unsupported) g.classes["builder_finalize_skipped_out_of_step"]++;
    else if (sh_multi_section) g.classes["builder_finalize_skipped_multi_section"]++;
    else if (ek == 2 && accepted_virt) g.classes["compiler_finalize_skipped_virt_ids"]++;
    else if (sh_label_reject_count != SIZE_MAX && code.label_count() > sh_label_reject_count) g.classes["builder_finalize_skipped_label_created_after_use"]++;
    else {
      Error ferr = Error::kOk;
      const char* how = "finalize()";
      try {
        if (dk == 1 || dk == 3) {
          // no kValidateAssembler to propagate: the accepted nodes go to a strict Assembler
          how = "serialize_to(strict Assembler)";
          x86::Assembler fa(&code); fa.add_diagnostic_options(DiagnosticOptions::kValidateAssembler);
          ferr = bb->serialize_to(&fa);
        } else ferr = e->finalize();
      } catch (const Thrown& t) { ferr = t.err; }
      script += std::string(how) + "=" + DebugUtils::error_as_string(ferr) + "; ";
      if (sh_expect_fail) {
        g.classes["builder_finalize_expected_failure"]++;
        if (ferr == Error::kOk) {
          const char* key = "builder-finalize-ok-although-assembler-rejects-a-call";
          if (!is_known(key)) oracle_fail(key, std::string(how) + " returned kOk, but the direct Assembler rejects one of the accepted calls: " + sh_first_reject, script);
          note_known(key, script);
        }
      } else {
        g.classes["builder_finalize_compared"]++;
        if (validates_all) g.classes["builder_finalize_compared_validated"]++;
        if (ferr != Error::kOk) {
          std::string key = std::string("builder-finalize-fails-direct-assembler-ok:") + DebugUtils::error_as_string(ferr);
          if (!is_known(key)) oracle_fail(key, std::string(how) + " failed with " + DebugUtils::error_as_string(ferr) + " although a direct Assembler accepts every call of the script", script);
          note_known(key, script);
        } else {
          Section* t1 = code.text_section(); Section* t2 = code2.text_section();
          size_t n1 = t1->buffer_size(), n2 = t2->buffer_size();
          if (n1 != n2 || (n1 && memcmp(t1->data(), t2->data(), n1) != 0)) {
            const char* key = "builder-serialized-bytes-differ-from-direct-assembler";
            if (!is_known(key)) oracle_fail(key, "builder path: " + hex(t1->data(), n1) + " direct assembler: " + hex(t2->data(), n2), script);
            note_known(key, script);
          }
          for (uint32_t lid : labels) {
            if (!code.is_label_valid(lid) || !code2.is_label_valid(lid)) continue;
            bool b1 = code.is_label_bound(lid), b2 = code2.is_label_bound(lid);
            if (b1 != b2 || (b1 && code.label_offset(lid) != code2.label_offset(lid)))
              oracle_fail("builder-serialized-label-differs-from-direct-assembler", "label L" + std::to_string(lid) + " is bound differently on the two paths", script);
          }
          if (code.reloc_entries().size() != code2.reloc_entries().size() || code.unresolved_fixup_count() != code2.unresolved_fixup_count())
            oracle_fail("builder-serialized-relocs-differ-from-direct-assembler", "relocation / fixup counts differ between the two paths", script);
        }
      }
    }
  }

  if (g.print_script) fprintf(stderr, "SCRIPT %s\n", script.c_str());
  if (failed && ok_after_fail) { g.nontrivial++; if (g.hashes.size() < 2000000) g.hashes.insert(fnv(data, size)); if (g.samples.size() < 4) g.samples.push_back(script.substr(0, 400)); }
  g.classes[ek == 0 ? "emitter_assembler" : ek == 1 ? "emitter_builder" : "emitter_compiler"]++;
  g.classes[hk == 0 ? "handler_none" : hk == 1 ? "handler_recording" : "handler_throwing"]++;
  if ((g.execs & 0x3FFF) == 0) flush_counters();
  return 0;
}
