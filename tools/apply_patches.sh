#!/bin/bash
# usage: tools/apply_patches.sh <dir> [pattern]  — apply <dir>/NN-*.patch to /repo in numeric order as individual `fix:` commits
# (message from NN-*.msg) and retire the keys in NN-*.keys in /verif/known_findings.txt.
set -u
dir=$(readlink -f "$1"); pat=${2:-[0-9][0-9]-*.patch}
for f in "$dir"/$pat; do
  [ -e "$f" ] || continue
  b=${f%.patch}
  head -1 "$b.msg" | grep -q '^fix:' || { echo "BAD MSG $b.msg"; exit 1; }
  if ! git -C /repo apply "$f" 2>/dev/null; then
    if ! git -C /repo apply -3 "$f"; then echo "APPLY FAILED $f"; git -C /repo checkout -- . ; exit 1; fi
    echo "(3-way) $f"
  fi
  git -C /repo commit -qa -F "$b.msg" || { echo "COMMIT FAILED $f"; exit 1; }
  c=$(git -C /repo rev-parse --short HEAD)
  echo "$c $(basename "$f")"
  [ -e "$b.keys" ] && python3 /verif/tools/retire_keys.py "$c" "$b.keys" | sed 's/^/    /'
done
