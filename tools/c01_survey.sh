#!/bin/bash
# usage: tools/c01_survey.sh [reps] [seed]
cd /verif && make -s build/bin/c01 2>&1 | grep -E "error" -A3 | head -20
D=build/run/c01s; mkdir -p $D; rm -f $D/*
for w in $(seq 0 15); do build/bin/c01 --out $D --worker $w --workers 16 --cases 0 --seed ${2:-1} --survey=1 --reps=${1:-2} > $D/out$w.txt 2>&1 & done; wait
python3 - <<'PY'
import json,glob
tot={}
for f in glob.glob('build/run/c01s/w*.json'):
    j=json.load(open(f))
    for k,v in j['classes'].items(): tot[k]=tot.get(k,0)+v
print(' '.join('%s=%d'%(k,tot[k]) for k in sorted(tot) if k.startswith(('acc','j','llvm','opc','rej','skip','survey'))))
PY
grep -l "ERROR\|runtime error" $D/out*.txt | head
