#!/usr/bin/env python3
"""Encoder for props/fuzz_c14_x86.cpp inputs (mirror of its FuzzedDataProvider decoding; integrals are consumed from the END of the buffer).
Writes seed inputs that reach Builder/Compiler + kValidateIntermediate + register ids of the virtual range in register operands, memory bases and indexes.
usage: tools/c14_mkseeds.py data/corpus/c14_x86            (seed-builder-virt-* files)
       tools/c14_mkseeds.py regress/C14 regress            (seeded-C14-4-* and known-* inputs)
Check what an input decodes to with: VH_PRINT_SCRIPT=1 build/bin/fuzz_c14_x86 FILE"""
import sys, os, hashlib

KID_COUNT = 1648
MOV, LEA, PADDD, INC, ADD, VADDPS, XCHG = 411, 375, 476, 280, 9, 789, 1625
GP32, GP64, XMM, YMM = 5, 6, 11, 12
LOCK = 0x2000

class Enc:
    def __init__(self): self.ints = []       # consumed in order; each is (value, nbytes)
    def rng(self, v, lo, hi):
        r = hi - lo; n = 0
        while n < 8 and (r >> (8 * n)) > 0: n += 1
        assert lo <= v <= hi
        self.ints.append((v - lo, n))
    def boolean(self, b): self.ints.append((1 if b else 0, 1))
    def u32(self, v): self.ints.append((v & 0xFFFFFFFF, 4))
    def i32(self, v): self.ints.append(((v + (1 << 31)) & 0xFFFFFFFF, 4))      # ConsumeIntegral<signed>: min + raw
    def i64(self, v): self.ints.append(((v + (1 << 63)) & 0xFFFFFFFFFFFFFFFF, 8))
    def data(self):
        out = bytearray()
        for v, n in self.ints:               # first consumed integral sits at the very end; its first consumed byte is the most significant
            out = bytearray(v.to_bytes(n, "little")) + out if n else out
        return bytes(out)

def header(e, ek, dk, mode, hk):
    e.rng(dk * 3 + ek, 0, 11); e.boolean(mode == 32); e.rng(hk, 0, 2)

def reg_id(e, rid, small_hi):
    if rid <= small_hi: e.rng(1, 0, 15); e.rng(rid, 0, small_hi)
    elif 256 <= rid < 256 + 64: e.rng(8, 0, 15); e.u32(rid - 256)
    else: e.rng(0, 0, 15); e.u32(rid)

def op_reg(e, t, rid):
    if t in (GP32, GP64) and rid <= 15 or (t in (GP32, GP64) and rid >= 256):
        e.rng(5, 0, 7); e.boolean(t == GP32); reg_id(e, rid, 15)
    else:
        e.rng(1, 0, 7); e.rng(t, 0, 31); reg_id(e, rid, 40)

def id246(e, rid):
    if rid <= 40: e.rng(rid, 0, 245)
    elif 256 <= rid <= 296: e.rng(4 * 41 + (rid - 256), 0, 245)
    else: raise ValueError(rid)

def op_mem(e, base, index=None, shift=0, off=0, size=0, native=True):
    e.rng(2, 0, 7)
    e.rng(0, 0, 4)                      # bk 0: base register of the native size
    e.rng(shift, 0, 3)
    e.boolean(False); e.rng(off, -130, 130)
    if size: e.boolean(True); e.rng(size, 0, 64)
    else: e.boolean(False)
    e.boolean(index is not None)
    e.boolean(True)                     # index type: native
    id246(e, index if index is not None else 0)
    id246(e, base)
    e.boolean(False)                    # segment
    e.rng(1, 0, 3); e.rng(1, 0, 3)      # no broadcast, no address type

def op_mem_label0(e, off, size=0):
    """[first label + off] (exactly one label must exist: the index into the label list then takes no bytes)"""
    e.rng(2, 0, 7); e.rng(2, 0, 4); e.rng(0, 0, 3)
    e.boolean(True); e.i32(off)
    if size: e.boolean(True); e.rng(size, 0, 64)
    else: e.boolean(False)
    e.boolean(False); e.boolean(True); id246(e, 0)
    e.boolean(True)                     # use a valid label
    e.boolean(False); e.rng(1, 0, 3); e.rng(1, 0, 3)

def op_imm(e, v): e.rng(3, 0, 7); e.boolean(False); e.rng(v, -200, 300)

def inst(e, iid, ops, opt=0, extra=None, inline=False):
    e.rng(0, 0, 15)                     # op: arbitrary instruction
    e.rng(iid, 0, KID_COUNT + 40); e.rng(1, 0, 15)
    if opt: e.boolean(False); e.u32(opt)
    else: e.boolean(True)
    e.rng(0 if extra else 1, 0, 3)
    e.rng(len(ops), 0, 6)
    for o in ops: o(e)
    if extra: e.rng(extra[0], 0, 31); id246(e, extra[1])
    e.rng(0 if inline else 1, 0, 7)

def valid(e, w): e.rng(8, 0, 15); e.rng(w, 0, 4)
def new_label(e): e.rng(9, 0, 15); e.rng(0, 0, 3)
def bind_first(e): e.rng(9, 0, 15); e.rng(1, 0, 3)      # one label: index range 0 -> no bytes
def embed(e, n): e.rng(11, 0, 15); e.rng(n, 0, 16)

R = lambda t, i: (lambda e: op_reg(e, t, i))
M = lambda *a, **k: (lambda e: op_mem(e, *a, **k))
I = lambda v: (lambda e: op_imm(e, v))

def script(ek, dk, mode, hk, variant):
    e = Enc(); header(e, ek, dk, mode, hk)
    ptr = GP64 if mode == 64 else GP32
    valid(e, 0)
    if variant == 0:     # the five calls of the blind demo: register operand, memory base, memory index, vector register, locked memory base
        inst(e, MOV, [R(GP32, 0), R(GP32, 256 + 5)])
        inst(e, MOV, [M(256 + 9, off=8, size=4), R(GP32, 2)])
        inst(e, LEA, [R(GP32, 0), M(3, index=256 + 9, shift=1)])
        inst(e, PADDD, [R(XMM, 256 + 2), R(XMM, 1)])
        inst(e, INC, [M(256 + 9, size=4)], opt=LOCK)
    elif variant == 1:   # valid neighbours (accepted, compared byte for byte after serialisation) around one virtual id each
        inst(e, MOV, [R(GP32, 0), R(GP32, 5)])
        inst(e, MOV, [R(GP32, 0), R(GP32, 256 + 5)])
        inst(e, ADD, [R(GP32, 1), M(4, off=4, size=4)])
        inst(e, ADD, [R(GP32, 1), M(256 + 4, off=4, size=4)])
        inst(e, LEA, [R(GP32, 0), M(3, index=6, shift=2, off=16)])
        inst(e, LEA, [R(GP32, 0), M(3, index=256 + 6, shift=2, off=16)])
    elif variant == 2:   # labels + data around the rejected calls, virtual id in both base and index, extra register of the virtual range
        new_label(e); inst(e, MOV, [R(GP32, 0), I(1)]); bind_first(e)
        inst(e, ADD, [R(GP32, 0), R(GP32, 1)])
        inst(e, MOV, [R(GP32, 2), M(256 + 1, index=256 + 2, shift=0, off=-8, size=4)])
        inst(e, VADDPS, [R(XMM, 1), R(XMM, 2), R(XMM, 256 + 3)])
        inst(e, VADDPS, [R(XMM, 1), R(XMM, 2), R(XMM, 3)], extra=(16, 256 + 1))
        embed(e, 4)
        inst(e, XCHG, [R(ptr, 256 + 40), R(ptr, 1)])
    else:                # ids at the edges of the physical / virtual ranges (254, 255 = bad id, 256, 0xFFFFFFFE, 0xFFFFFFFF)
        for rid in (254, 255, 256, 511, 0x7FFFFFFF, 0xFFFFFFFE, 0xFFFFFFFF):
            inst(e, MOV, [R(GP32, 0), R(GP32, rid)] if rid > 255 else [R(YMM, 0), R(YMM, rid)])
    valid(e, 1); valid(e, 4)
    return e.data()

def op_none(e): e.rng(0, 0, 7)

def regress(out):
    """fixed inputs for regress/C14: seeded C14-4 (fails only on a tree where a plain Builder validates with kEnableVirtRegs) and the two known findings"""
    os.makedirs(out, exist_ok=True)
    for mode, dk, tag in ((64, 1, "x64-vi"), (32, 0, "x86-vavi")):
        open(os.path.join(out, "seeded-C14-4-builder-virt-id-%s" % tag), "wb").write(script(1, dk, mode, 1, 0))
    e = Enc(); header(e, 1, 0, 64, 1); valid(e, 0)
    inst(e, MOV, [R(GP32, 0), R(GP32, 1), op_none, op_none, R(GP32, 2)]); valid(e, 4)
    open(os.path.join(out, "known-builder-drops-operands-behind-gap"), "wb").write(e.data())
    e = Enc(); header(e, 0, 0, 64, 1); valid(e, 0)
    inst(e, VADDPS, [R(13, 1), R(13, 2), R(13, 3)], extra=(16, 9)); valid(e, 4)
    open(os.path.join(out, "known-kmask-extra-reg-id-out-of-range"), "wb").write(e.data())
    e = Enc(); header(e, 0, 0, 64, 1); new_label(e); bind_first(e)
    inst(e, LEA, [R(GP64, 0), lambda e: op_mem_label0(e, -0x80000000)]); valid(e, 4)
    open(os.path.join(out, "known-x64-label-mem-displacement-overflow"), "wb").write(e.data())
    e = Enc(); header(e, 0, 0, 32, 1); valid(e, 0)
    inst(e, VADDPS, [R(XMM, 1), R(XMM, 2), M(9, size=16)]); valid(e, 4)       # 32-bit mode: [r9d] -> C4 C1 68 58 09 (VEX.B is ignored: [ecx])
    open(os.path.join(out, "known-mem-base-id-outside-register-file"), "wb").write(e.data())
    print("wrote regress inputs to", out)

def main(out):
    if len(sys.argv) > 2 and sys.argv[2] == "regress": return regress(out)
    os.makedirs(out, exist_ok=True)
    n = 0
    for ek, dk, mode, hk, variant in [(1, 0, 64, 1, 0), (1, 1, 64, 0, 0), (1, 1, 32, 2, 0), (1, 0, 32, 1, 1), (1, 1, 64, 1, 1), (1, 0, 64, 2, 2), (1, 1, 32, 0, 2),
                                     (1, 0, 64, 0, 3), (1, 2, 64, 1, 0), (1, 3, 64, 0, 1), (2, 0, 64, 1, 0), (2, 1, 32, 0, 1), (1, 3, 32, 1, 2), (1, 2, 32, 2, 3)]:
        d = script(ek, dk, mode, hk, variant)
        name = "seed-builder-virt-%s" % hashlib.sha1(d).hexdigest()[:16]
        open(os.path.join(out, name), "wb").write(d); n += 1
    print("wrote", n, "seeds to", out)

if __name__ == "__main__":
    main(sys.argv[1])
