#!/bin/bash
# usage: tools/collect.sh <harness> <outdir> [extra args...]  — triage mode: run 16 workers, list every failure key
cd /verif; H=$1; D=$2; shift 2
make -s build/bin/$H 2>&1 | grep -E "error" -A3 | head -20
mkdir -p $D; rm -f $D/*
KN=$(grep -E "^known: property=$(echo $H | tr a-z A-Z | cut -c1-3) " known_findings.txt | sed -E 's/.*key=([^ ]+).*/\1/' | paste -sd, -)
for w in $(seq 0 15); do build/bin/$H --out $D --worker $w --workers 16 --seed ${SEED:-1} --collect=1 ${KN:+--known $KN} "$@" > $D/out$w.txt 2>&1 & done; wait
python3 - $D <<'PY'
import json,glob,sys
tot={}; cl={}
for f in glob.glob(sys.argv[1]+'/w*.json'):
    j=json.load(open(f))
    for k,v in j.get('collected',{}).items():
        e=tot.setdefault(k,[0,v[1]]); e[0]+=v[0]
    for k,v in j['classes'].items(): cl[k]=cl.get(k,0)+v
print({k:cl[k] for k in sorted(cl) if k.startswith(('acc','j3','rej','skip'))})
for k in sorted(tot): print(tot[k][0], k, '::', tot[k][1][:260])
PY
grep -l "ERROR\|runtime error" $D/out*.txt | head -3
