#!/usr/bin/env python3
"""Regenerates the machine-written parts of DESIGN.md (between <!-- BEGIN AUTO:x --> / <!-- END AUTO:x --> markers):
   fixes   - per-property table of repaired defects (from known_findings.txt `fixed:` lines + git log of /repo)
   known   - the remaining known findings
   seeded  - the blind-agent changes kept under seeded/ and which checks catch them"""
import glob, json, os, re, subprocess, sys

ROOT = "/verif"
kf = open(os.path.join(ROOT, "known_findings.txt")).read().split("\n")
subjects = {}
for l in subprocess.run(["git", "-C", "/repo", "log", "--format=%h %s"], stdout=subprocess.PIPE, text=True).stdout.split("\n"):
    if l.strip():
        h, s = l.split(" ", 1)
        subjects[h[:7]] = s

fixed = {}
for l in kf:
    m = re.match(r"fixed: property=(C\d\d) (\S+)\s*(.*)", l)
    if m:
        fixed.setdefault(m.group(1), []).append((m.group(2), m.group(3)))
known = [re.match(r"known: property=(C\d\d) key=(\S+)\s*(.*)", l).groups() for l in kf if l.startswith("known:")]

out_fix = ["| property | fix commits in /repo (one defect each) |", "|---|---|"]
total = set()
for pid in sorted(fixed):
    commits = []
    for c, _ in fixed[pid]:
        for h in c.split("+"):
            if h[:7] not in [x[0] for x in commits]:
                commits.append((h[:7], subjects.get(h[:7], "?")))
                total.add(h[:7])
    cell = "<br>".join("`%s` %s" % (h, s.replace("|", "\\|").replace("fix: ", "")) for h, s in commits)
    out_fix.append("| %s | %s |" % (pid, cell))
out_fix.append("")
out_fix.append("%d distinct `fix:` commits are referenced by `known_findings.txt`; `git -C /repo log --oneline | grep -c 'fix:'` = %d (a defect found by several "
               "checks is listed under each property)." % (len(total), sum(1 for s in subjects.values() if s.startswith("fix:"))))

out_known = ["| property | key | what fails |", "|---|---|---|"]
for pid, key, text in known:
    out_known.append("| %s | `%s` | %s |" % (pid, key, text.replace("|", "\\|")))

out_seed = ["| change | property | what it breaks (needs to manifest) | caught by (quick tier) | note |", "|---|---|---|---|---|"]
for d in sorted(glob.glob(os.path.join(ROOT, "seeded", "*", "meta.json"))):
    m = json.load(open(d))
    tag = os.path.basename(os.path.dirname(d))
    runs = m.get("checks_run", {})
    caught = ", ".join(sorted(k for k, v in runs.items() if v.get("exit") == 1 and v.get("violations", 0) > 0)) or "—"
    summ = (m.get("summary") or "").replace("|", "\\|").replace("\n", " ")
    need = (m.get("needs_to_manifest") or "").replace("|", "\\|").replace("\n", " ")
    if len(summ) > 260: summ = summ[:257] + "..."
    if len(need) > 260: need = need[:257] + "..."
    note = (m.get("history") or "").replace("|", "\\|")
    out_seed.append("| %s | %s | %s **Needs:** %s | %s | %s |" % (tag, m.get("property"), summ, need, caught, note))

parts = dict(fixes="\n".join(out_fix), known="\n".join(out_known), seeded="\n".join(out_seed))
p = os.path.join(ROOT, "DESIGN.md")
s = open(p).read()
for k, v in parts.items():
    b, e = "<!-- BEGIN AUTO:%s -->" % k, "<!-- END AUTO:%s -->" % k
    if b in s and e in s:
        s = s[:s.index(b) + len(b)] + "\n" + v + "\n" + s[s.index(e):]
    else:
        print("marker for", k, "missing", file=sys.stderr)
open(p, "w").write(s)
print("DESIGN.md tables regenerated: %d properties with fixes, %d known, %d seeded" % (len(fixed), len(known), len(out_seed) - 2))
