#!/bin/bash
# usage: tools/mutate.sh <CHECK_ID> <file-relative-to-repo> <sed-expression>   — apply a mutant to /repo, run the quick check, revert.
ID=$1; F=$2; EXPR=$3
cd /repo || exit 2
if ! git diff --quiet; then echo "repo dirty"; exit 2; fi
sed -i -E "$EXPR" "$F"
if git diff --quiet; then echo "MUTANT DID NOT APPLY"; exit 2; fi
git diff | grep '^[-+]' | grep -v '^+++\|^---' | head -6
cd /verif && timeout 3000 ./check $ID --tier quick > /tmp/mut.out 2>&1; rc=$?
git -C /repo checkout -- .
grep -E "^VIOLATION|BUILD FAILED" /tmp/mut.out | head -3
grep -E "violation key" /tmp/mut.out | head -2 | cut -c1-300
echo "exit=$rc"
