#!/usr/bin/env python3
"""usage: tools/retire_keys.py <commit> <file.keys> [<what failed text>] — turn the `known:` lines named in <file.keys>
(lines `property=<ID> key=<key>`) into `fixed: property=<ID> <commit> key=<key> <old description>` lines."""
import re, sys
commit, keysf = sys.argv[1], sys.argv[2]
keys = [tuple(re.match(r"property=(\S+)\s+key=(\S+)", l.strip()).groups()) for l in open(keysf) if l.strip()]
p = "/verif/known_findings.txt"
L = open(p).read().split("\n")
out, hit = [], set()
for l in L:
    m = re.match(r"known: property=(\S+) key=(\S+)\s*(.*)", l)
    if m and (m.group(1), m.group(2)) in keys:
        hit.add((m.group(1), m.group(2)))
        out.append("fixed: property=%s %s key=%s %s" % (m.group(1), commit, m.group(2), m.group(3)))
    else:
        out.append(l)
open(p, "w").write("\n".join(out))
for k in keys:
    print(("retired " if k in hit else "NOT FOUND ") + "property=%s key=%s" % k)
