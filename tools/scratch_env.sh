#!/bin/bash
# usage: tools/scratch_env.sh <tag> [remove]  — private scratch repo worktree + verif copy for fix/mutation experiments
set -u
tag=$1; R=/tmp/fx-$tag-repo; V=/tmp/fx-$tag-verif
if [ "${2:-}" = remove ]; then git -C /repo worktree remove --force "$R" 2>/dev/null; rm -rf "${R:?}" "${V:?}"; git -C /repo worktree prune; echo removed; exit 0; fi
[ -e "$R" ] && { echo "$R exists"; exit 1; }
git -C /repo worktree add -q --detach "$R" HEAD || exit 2
mkdir -p "$V" && rsync -a --exclude build --exclude replays --exclude .git --exclude seeded /verif/ "$V"/
echo "repo: $R (HEAD $(git -C $R rev-parse --short HEAD))"; echo "verif: $V"
echo "run: cd $V && REPO=$R VERIF_REPO=$R ./check <ID> --tier quick"
