#!/bin/bash
# usage: tools/seeded_all.sh [out.log]  — final regression over all stored seeded changes: each patch is applied to a scratch worktree of
# /repo HEAD and the quick tier of the property's own check (plus the other checks recorded as catching it) is run against it.
out=${1:-/tmp/seeded-all.log}; : > "$out"
cd /verif
for d in seeded/*/; do
  t=$(basename "$d"); id=${t%-*}
  checks=$(python3 -c "
import json,sys
m=json.load(open('$d/meta.json')); c=m.get('caught_by') or []
print(' '.join(sorted(set(['$id'] if '$id' in c or not c else c[:1]))))")
  tools/seeded_run.sh "$t" "$d/patch.diff" $checks | cut -c1-240 >> "$out"
done
echo ALLDONE >> "$out"
