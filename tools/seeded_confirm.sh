#!/bin/bash
# usage: tools/seeded_confirm.sh <ID> <n>   — confirm a blind-agent change myself in its scratch worktree /tmp/mut-<ID>:
# apply /tmp/mut-<ID>-out/<n>/patch.diff, rebuild the test suite, run the full ctest, run the demo on the changed tree (must fail),
# revert, run the demo on the clean tree (must pass).  Prints CONFIRM <ID> <n> ctest=<passed>/<total> demo_changed=<rc> demo_clean=<rc>.
set -u
id=$1; n=$2; P=${MUTPFX:-mut}; W=/tmp/$P-$id; O=/tmp/$P-$id-out/$n; L=$O/confirm.log
cd "$W" || exit 2
git checkout -q -- . ; : > "$L"
git apply "$O/patch.diff" || { echo "CONFIRM $id $n APPLY-FAILED"; exit 2; }
cmake --build "$W/_b" >> "$L" 2>&1 || { echo "CONFIRM $id $n BUILD-FAILED"; git checkout -q -- .; exit 1; }
ctest --test-dir "$W/_b" -j8 --timeout 1800 >> "$L" 2>&1
ct=$(grep -E "tests passed|tests failed" "$L" | tail -1)
( cd "$O" && bash ./build.sh "$W" ) > "$O/demo_changed.log" 2>&1; dc=$?
git checkout -q -- .
( cd "$O" && bash ./build.sh "$W" ) > "$O/demo_clean.log" 2>&1; dk=$?
echo "CONFIRM $id $n ctest=[$ct] demo_changed=$dc demo_clean=$dk"
