#!/bin/bash
# usage: tools/seeded_run.sh <tag> <patch.diff> <CHECK_ID> [<CHECK_ID>...]
# Runs the quick tier of the given checks against a scratch copy of /repo's HEAD with <patch.diff> applied, from a scratch copy
# of /verif (so neither /repo nor /verif/evidence nor /verif/build is touched).  Prints one line per check:
#   SEEDED <tag> <ID> rc=<exit> violations=<n> keys=<...>
# Scratch directories are removed afterwards.  TIER=thorough / VERIF_SEED=N are honoured.
set -u
tag=$1; patch=$(readlink -f "$2"); shift 2
R=/tmp/sr-$tag-repo; V=/tmp/sr-$tag-verif
rm -rf "${R:?}" "${V:?}"
git -C /repo worktree prune
git -C /repo worktree add -q --detach "$R" HEAD || exit 2
if ! git -C "$R" apply "$patch"; then echo "SEEDED $tag APPLY-FAILED"; git -C /repo worktree remove --force "$R"; exit 2; fi
mkdir -p "$V"
rsync -a --exclude build --exclude replays --exclude .git --exclude seeded /verif/ "$V"/
cd "$V" || exit 2
for id in "$@"; do
  REPO=$R VERIF_REPO=$R ./check "$id" --tier "${TIER:-quick}" > "$V/out-$id.txt" 2>&1
  rc=$?
  n=$(grep -c '^VIOLATION' "$V/out-$id.txt")
  keys=$(grep -o 'key=[^ ]*' "$V/out-$id.txt" | sort | uniq -c | sort -rn | grep -v KNOWN | head -8 | tr '\n' ' ')
  vio=$(grep '^VIOLATION' "$V/out-$id.txt" | head -3 | tr '\n' ';')
  echo "SEEDED $tag $id rc=$rc violations=$n $vio"
  mkdir -p /verif/build/seeded-logs; cp "$V/out-$id.txt" "/verif/build/seeded-logs/$tag-$id.txt"
  rm -rf "/verif/build/seeded-logs/$tag-$id-replays"; [ -d "$V/replays/$id" ] && cp -r "$V/replays/$id" "/verif/build/seeded-logs/$tag-$id-replays"
done
cd /
git -C /repo worktree remove --force "$R"
rm -rf "${R:?}" "${V:?}"
