#!/usr/bin/env python3
"""Store confirmed blind-agent changes under /verif/seeded/<ID>-<n>/ (patch.diff, demo.cpp, build.sh, meta.json).
Reads CONFIRM lines (tools/seeded_confirm.sh) and SEEDED lines (tools/seeded_run.sh) from the log files given as arguments."""
import json, os, re, shutil, sys

PFX = os.environ.get("MUTPFX", "mut")
OFF = int(os.environ.get("MUTOFF", "0"))      # round 2 deliveries 1,2 are stored as <ID>-3, <ID>-4

confirm, seeded = {}, {}
for f in sys.argv[1:]:
    for l in open(f, errors="replace"):
        m = re.match(r"CONFIRM (C\d\d) (\d) ctest=\[(.*?)\] demo_changed=(\d+) demo_clean=(\d+)", l)
        if m:
            confirm[(m.group(1), str(int(m.group(2)) + OFF))] = dict(ctest=m.group(3), demo_changed=int(m.group(4)), demo_clean=int(m.group(5)))
        m = re.match(r"SEEDED (C\d\d)-(\d) (C\d\d) rc=(\d+) violations=(\d+) ?(.*)", l)
        if m:
            seeded.setdefault((m.group(1), m.group(2)), {})[m.group(3)] = dict(
                exit=int(m.group(4)), violations=int(m.group(5)),
                replays=[x.split("replay=")[1] for x in m.group(6).split(";") if "replay=" in x])
for (pid, n), c in sorted(confirm.items()):
    src = "/tmp/%s-%s-out/%s" % (PFX, pid, int(n) - OFF)
    ok = "0 tests failed out of 10" in c["ctest"] and c["demo_changed"] != 0 and c["demo_clean"] == 0
    if not ok:
        print("NOT KEPT", pid, n, c)
        continue
    dst = "/verif/seeded/%s-%s" % (pid, n)
    os.makedirs(dst, exist_ok=True)
    for fn in ("patch.diff", "demo.cpp", "build.sh"):
        shutil.copy(os.path.join(src, fn), os.path.join(dst, fn))
    notes = json.load(open(os.path.join(src, "notes.json")))
    meta_path = os.path.join(dst, "meta.json")
    meta = json.load(open(meta_path)) if os.path.exists(meta_path) else {}
    meta.update(dict(
        property=pid,
        summary=notes.get("summary"),
        needs_to_manifest=notes.get("needs_to_manifest"),
        files=notes.get("files"),
        why_tests_still_pass=notes.get("why_tests_still_pass"),
        origin="fresh sub-agent given only the property text and a scratch git worktree of /repo",
        confirmed=dict(
            how="tools/seeded_confirm.sh %s %s (delivery number in its round) in the scratch worktree: git apply patch.diff; cmake --build; ctest -j8 (full suite); "
                "build.sh <changed tree>; git checkout; build.sh <clean tree>" % (pid, n),
            ctest=c["ctest"], demo_exit_on_changed_tree=c["demo_changed"], demo_exit_on_clean_tree=c["demo_clean"]),
    ))
    if (pid, n) in seeded:
        runs = meta.get("checks_run", {})
        runs.update(seeded[(pid, n)])
        meta["checks_run"] = runs
        meta["checks_run_how"] = ("tools/seeded_run.sh: patch applied to a scratch worktree of /repo HEAD, ./check <ID> --tier quick from a scratch "
                                  "copy of /verif with REPO pointing at it (equivalent to git -C /repo apply; ./check; git -C /repo checkout -- .)")
        meta["caught_by"] = sorted(k for k, v in runs.items() if v["exit"] == 1 and v["violations"] > 0)
    json.dump(meta, open(meta_path, "w"), indent=1)
    print("kept", pid, n, "caught_by", meta.get("caught_by"))
