#!/bin/bash
# usage: tools/survey.sh <harness> [args...] — run 16 workers with --survey=1 into build/run/<harness>s and print merged classes
cd /verif; H=$1; shift
make -s build/bin/$H 2>&1 | grep -E "error" -A3 | head -20
D=/verif/build/run/${H}s; mkdir -p "$D"; rm -f "${D:?}"/*
for w in $(seq 0 15); do build/bin/$H --out "$D" --worker $w --workers 16 --cases 0 --seed ${SEED:-1} --survey=1 "$@" > "$D/out$w.txt" 2>&1 & done; wait
python3 - "$D" <<'PY'
import json,glob,sys
tot={}
for f in glob.glob(sys.argv[1]+'/w*.json'):
    j=json.load(open(f))
    for k,v in j['classes'].items(): tot[k]=tot.get(k,0)+v
for k in sorted(tot): print(k,tot[k])
PY
grep -l "ERROR\|runtime error" "$D"/out*.txt | head -3
